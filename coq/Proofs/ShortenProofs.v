(* C10: reference creation (Model/Shorten.v, remove_base = uriRemoveBaseUriMm) against reference
   resolution (Model/Resolve.v, add_base = uriAddBaseUriExMm) -- proofs.

   Contents
     1. error codes, the schemes-differ clause                       (remove_base_rel_base ...)
     2. what is left out of the reference                            (rb_scheme_omitted ...)
     3. equals_authority as equality of fields                       (equals_authority_fields)
     4. the common-prefix walk and the dot-segment walk              (skip_common_split, walk_roundtrip)
     5. the round trip under walk_ok                                 (roundtrip_walk)
        the comparison of the property                               (canon10, same_target)
     6. the round trip in the cases without a walk                   (roundtrip_copy, roundtrip_other_authority,
                                                                      roundtrip_domain_root)
        sources with dot segments                                    (roundtrip_walk_dotted)
        equal paths; the round trip outside the failing shapes      (roundtrip_same_path, roundtrip_carved)
     7. witnesses against the unrestricted round trip                (roundtrip_refuted ...) *)
From Coq Require Import List NArith ZArith Bool Lia String.
From UP Require Import Base.Chars Model.Uri Model.Common Model.Compare Model.Resolve Model.Shorten
  Model.Recompose Spec.NormalWf Proofs.DotSegments Proofs.ResolveProofs Proofs.Findings10.
Import ListNotations.
Local Open Scope N_scope.

(* ---------------------------------------------------------------- 1. error codes, other scheme *)
Lemma remove_base_rel_base m src base : scheme base = None ->
  remove_base m src base = (URI_ERROR_REMOVEBASE_REL_BASE, empty_uri).
Proof. intros Hb. unfold remove_base, remove_base_impl. rewrite Hb. reflexivity. Qed.

Lemma remove_base_rel_source m src base : scheme base <> None -> scheme src = None ->
  remove_base m src base = (URI_ERROR_REMOVEBASE_REL_SOURCE, empty_uri).
Proof.
  intros Hb Hs. unfold remove_base, remove_base_impl. rewrite Hs.
  destruct (scheme base); [reflexivity|congruence].
Qed.

(* the body of uriRemoveBaseUriMm once both schemes are there *)
Definition rb_body (m : bool) (src base : uri) : uri :=
  let d := empty_uri in
  if negb (range_eqb (scheme src) (scheme base)) then
    copy_path (copy_authority (set_scheme (scheme src) d) src) src
  else if negb (equals_authority src base) then
    let d := if negb (is_host_set src) && is_host_set base then set_scheme (scheme src) d else d in
    copy_path (copy_authority d src) src
  else if m then
    fix_ambiguity (fix_empty_trail_segment (set_absolutePath true (copy_path d src)))
  else
    let '(s, b) := skip_common (pathSegs src) (pathSegs base) in
    let ups := parents b in
    let naked := match ups with [] => true | _ => false end in
    set_pathSegs (ups ++ rest_segments naked s) d.

Lemma remove_base_nf m src base : scheme src <> None -> scheme base <> None ->
  remove_base m src base
  = (URI_SUCCESS, set_fragment (fragment src) (set_query (query src) (rb_body m src base))).
Proof.
  intros Hs Hb. unfold remove_base, remove_base_impl, rb_body.
  destruct (scheme base); [|congruence]. destruct (scheme src); [|congruence]. reflexivity.
Qed.

Lemma remove_base_success m src base : scheme src <> None -> scheme base <> None ->
  fst (remove_base m src base) = URI_SUCCESS.
Proof. intros Hs Hb. rewrite (remove_base_nf m src base Hs Hb). reflexivity. Qed.

(* query and fragment of the reference are always those of the source *)
Lemma rb_query_fragment m src base : scheme src <> None -> scheme base <> None ->
  query (snd (remove_base m src base)) = query src
  /\ fragment (snd (remove_base m src base)) = fragment src.
Proof. intros Hs Hb. rewrite (remove_base_nf m src base Hs Hb). split; reflexivity. Qed.

Lemma components_copy d src : one_kind src = true ->
  components (set_fragment (fragment src) (set_query (query src)
                (copy_path (copy_authority (set_scheme (scheme src) d) src) src)))
  = components src.
Proof.
  destruct src as [sc ui ht i4 i6 ifu po ps qu fr ab ow]. unfold one_kind, components. usimpl.
  destruct i4, i6, ifu; intros H; try discriminate H; reflexivity.
Qed.

(* without the one-kind hypothesis: the fields as uriCopyAuthority leaves them *)
Lemma components_copy_gen d src :
  components (set_fragment (fragment src) (set_query (query src)
                (copy_path (copy_authority (set_scheme (scheme src) d) src) src)))
  = components (copy_authority src src).
Proof. destruct src as [sc ui ht i4 i6 ifu po ps qu fr ab ow]. reflexivity. Qed.

(* schemes differ: the reference is the source unchanged *)
Lemma remove_base_other_scheme m src base : scheme src <> None -> scheme base <> None ->
  range_eqb (scheme src) (scheme base) = false ->
  fst (remove_base m src base) = URI_SUCCESS
  /\ components (snd (remove_base m src base)) = components (copy_authority src src)
  /\ (one_kind src = true -> components (snd (remove_base m src base)) = components src).
Proof.
  intros Hs Hb Hd. rewrite (remove_base_nf m src base Hs Hb). cbn [fst snd].
  unfold rb_body. rewrite Hd. cbn [negb].
  split; [reflexivity|]. split; [apply components_copy_gen|apply components_copy].
Qed.

(* ---------------------------------------------------------------- 2. what the reference omits *)
Lemma scheme_fixamb u : scheme (fix_ambiguity u) = scheme u.
Proof. rewrite fixamb_nf. reflexivity. Qed.
Lemma abs_fixamb u : absolutePath (fix_ambiguity u) = absolutePath u.
Proof. rewrite fixamb_nf. reflexivity. Qed.
Lemma query_fixamb u : query (fix_ambiguity u) = query u.
Proof. rewrite fixamb_nf. reflexivity. Qed.

(* same scheme: the scheme is left out, unless the source has no host and the base has one
   (a reference without scheme would then inherit the base's authority) *)
Lemma rb_scheme_omitted m src base : scheme src <> None -> scheme base <> None ->
  range_eqb (scheme src) (scheme base) = true ->
  is_host_set src = true \/ is_host_set base = false \/ equals_authority src base = true ->
  scheme (snd (remove_base m src base)) = None.
Proof.
  intros Hs Hb He Hr. rewrite (remove_base_nf m src base Hs Hb). cbn [snd]. usimpl.
  unfold rb_body. rewrite He. cbn [negb].
  destruct (equals_authority src base) eqn:Ea; cbn [negb].
  - destruct m.
    + rewrite scheme_fixamb, fixtrail_nf. reflexivity.
    + destruct (skip_common (pathSegs src) (pathSegs base)) as [s b]. reflexivity.
  - destruct Hr as [Hr|[Hr|Hr]]; [rewrite Hr|rewrite Hr, andb_false_r|discriminate Hr]; reflexivity.
Qed.

(* ... and in that remaining case the reference is the source unchanged, scheme included *)
Lemma rb_scheme_kept m src base : scheme src <> None -> scheme base <> None ->
  range_eqb (scheme src) (scheme base) = true -> equals_authority src base = false ->
  is_host_set src = false -> is_host_set base = true ->
  components (snd (remove_base m src base)) = components src.
Proof.
  intros Hs Hb He Ea Hhs Hhb. rewrite (remove_base_nf m src base Hs Hb). cbn [snd].
  unfold rb_body. rewrite He, Ea, Hhs, Hhb. cbn [negb andb].
  apply components_copy.
  unfold is_host_set in Hhs. unfold one_kind.
  destruct (ip4 src), (ip6 src), (ipFuture src); try reflexivity;
    rewrite ?orb_true_r in Hhs; discriminate Hhs.
Qed.

(* a base with a host text and a host-less source never have equal authorities *)
Lemma equals_authority_hostless src base : is_host_set src = false -> hostText base <> None ->
  equals_authority src base = false.
Proof.
  intros Hh Hb. unfold is_host_set in Hh. unfold equals_authority.
  destruct (hostText src), (ip4 src), (ip6 src), (ipFuture src); try discriminate Hh.
  destruct (hostText base); [|congruence].
  destruct (is_some (ip4 base) || is_some (ip6 base) || is_some (ipFuture base)); rewrite andb_false_r; reflexivity.
Qed.

(* same scheme, other authority: scheme apart, everything is copied from the source *)
Lemma rb_authority_kept m src base : scheme src <> None -> scheme base <> None ->
  range_eqb (scheme src) (scheme base) = true -> equals_authority src base = false ->
  let r := snd (remove_base m src base) in
  auth_fields r = auth_fields (copy_authority src src)
  /\ (one_kind src = true -> auth_fields r = auth_fields src)
  /\ pathSegs r = pathSegs src /\ absolutePath r = absolutePath src
  /\ query r = query src /\ fragment r = fragment src.
Proof.
  intros Hs Hb He Ea. rewrite (remove_base_nf m src base Hs Hb). cbn [snd].
  unfold rb_body. rewrite He, Ea. cbn [negb]. cbv zeta.
  destruct (negb (is_host_set src) && is_host_set base); repeat split;
    try (destruct src as [sc ui ht i4 i6 ifu po ps qu fr ab ow]; reflexivity);
    intros Hk; autorewrite with af_db; apply auth_fields_copy; exact Hk.
Qed.

(* same scheme, same authority (user info, host, port): no scheme and no authority at all *)
Lemma rb_authority_omitted m src base : scheme src <> None -> scheme base <> None ->
  range_eqb (scheme src) (scheme base) = true -> equals_authority src base = true ->
  let r := snd (remove_base m src base) in
  scheme r = None /\ auth_fields r = (None, None, None, None, None, None) /\ is_host_set r = false.
Proof.
  intros Hs Hb He Ea. rewrite (remove_base_nf m src base Hs Hb). cbn [snd].
  unfold rb_body. rewrite He, Ea. cbn [negb]. cbv zeta.
  destruct m.
  - rewrite fixamb_nf, fixtrail_nf. repeat split.
  - destruct (skip_common (pathSegs src) (pathSegs base)) as [s b]. repeat split.
Qed.

(* domain-root mode: the source's path, made absolute: the lone empty segment dropped ("/" is the
   absolute path without segments), and guarded against a leading "//" *)
Lemma rb_domain_root src base : scheme src <> None -> scheme base <> None ->
  range_eqb (scheme src) (scheme base) = true -> equals_authority src base = true ->
  let r := snd (remove_base true src base) in
  absolutePath r = true /\ pathSegs r = fixamb_p false true (fixtrail_p false (pathSegs src)).
Proof.
  intros Hs Hb He Ea. rewrite (remove_base_nf true src base Hs Hb). cbn [snd].
  unfold rb_body. rewrite He, Ea. cbn [negb]. cbv zeta.
  rewrite fixamb_nf, fixtrail_nf. split; reflexivity.
Qed.

(* the two steps on the segment list: only the list [[]] is changed by the first, and then the second
   has nothing to do *)
Lemma fixamb_fixtrail_abs s :
  fixamb_p false true (fixtrail_p false s) = match s with [[]] => [] | _ => fixamb_p false true s end.
Proof. destruct s as [|[|c x] [|y l]]; reflexivity. Qed.

Lemma rb_body_domain_root src base :
  range_eqb (scheme src) (scheme base) = true -> equals_authority src base = true ->
  rb_body true src base
  = set_pathSegs (fixamb_p false true (fixtrail_p false (pathSegs src)))
      (set_absolutePath true (copy_path empty_uri src)).
Proof.
  intros He Ea. unfold rb_body. rewrite He, Ea. cbn [negb]. rewrite fixamb_nf, fixtrail_nf.
  destruct src as [sc ui ht i4 i6 ifu po ps qu fr ab ow]. reflexivity.
Qed.

(* the other mode: one ".." for every remaining base segment but the last, then the remaining source
   segments (with "." in front when the path would begin with an empty segment or one with ":") *)
Lemma rb_walk src base s b : scheme src <> None -> scheme base <> None ->
  range_eqb (scheme src) (scheme base) = true -> equals_authority src base = true ->
  skip_common (pathSegs src) (pathSegs base) = (s, b) ->
  snd (remove_base false src base)
  = set_fragment (fragment src) (set_query (query src)
      (set_pathSegs (parents b ++ rest_segments (match parents b with [] => true | _ => false end) s) empty_uri)).
Proof.
  intros Hs Hb He Ea Hk. rewrite (remove_base_nf false src base Hs Hb). cbn [snd].
  unfold rb_body. rewrite He, Ea, Hk. reflexivity.
Qed.

(* ---------------------------------------------------------------- 3. equals_authority on fields *)
Definition onul (o : option text) : bool := match o with Some t => nonul t | None => true end.

Lemma range_eqb_eq a b : onul a = true -> range_eqb a b = true -> a = b.
Proof.
  intros Hn H. destruct a as [x|], b as [y|]; try reflexivity; try discriminate H.
  cbn [onul] in Hn. rewrite (range_eqb_text x y Hn) in H. apply text_eqb_true in H. rewrite H. reflexivity.
Qed.

Lemma bytes_eqb_eq a : forall b, bytes_eqb a b = true -> a = b.
Proof.
  induction a as [|x a IH]; intros b H; destruct b as [|y b]; try discriminate H; [reflexivity|].
  cbn [bytes_eqb] in H. apply andb_true_iff in H. destruct H as [H1 H2]. apply N.eqb_eq in H1.
  rewrite H1, (IH b H2). reflexivity.
Qed.

Lemma bytes_eqb_refl a : bytes_eqb a a = true.
Proof. induction a as [|x a IH]; [reflexivity|]. cbn [bytes_eqb]. rewrite N.eqb_refl, IH. reflexivity. Qed.

(* the host compared in the kind of the first URI: IPv4 octets, else IPv6 bytes, else the IPvFuture
   text, else the host text -- and then the second URI has no IP data either *)
Definition host_same (a b : uri) : Prop :=
  match ip4 a with
  | Some x => ip4 b = Some x
  | None =>
    match ip6 a with
    | Some x => ip6 b = Some x
    | None =>
      match ipFuture a with
      | Some f => ipFuture b = Some f
      | None => hostText a = hostText b /\ ip4 b = None /\ ip6 b = None /\ ipFuture b = None
      end
    end
  end.

Definition auth_nonul (a : uri) : bool :=
  onul (userInfo a) && onul (portText a) && onul (hostText a) && onul (ipFuture a).

Lemma equals_authority_fields a b : auth_nonul a = true ->
  (equals_authority a b = true <-> userInfo a = userInfo b /\ portText a = portText b /\ host_same a b).
Proof.
  unfold auth_nonul. intros Hn.
  apply andb_true_iff in Hn. destruct Hn as [Hn Hf]. apply andb_true_iff in Hn. destruct Hn as [Hn Hh].
  apply andb_true_iff in Hn. destruct Hn as [Hu Hp].
  unfold equals_authority, host_same. split.
  - intros H. apply andb_true_iff in H. destruct H as [H H3]. apply andb_true_iff in H. destruct H as [H1 H2].
    split; [exact (range_eqb_eq _ _ Hu H1)|]. split; [exact (range_eqb_eq _ _ Hp H2)|].
    destruct (ip4 a) as [x|].
    { destruct (ip4 b) as [y|]; [|discriminate H3]. rewrite (bytes_eqb_eq x y H3). reflexivity. }
    destruct (ip6 a) as [x|].
    { destruct (ip6 b) as [y|]; [|discriminate H3]. rewrite (bytes_eqb_eq x y H3). reflexivity. }
    destruct (ipFuture a) as [f|] eqn:Ef.
    { apply andb_true_iff in H3. destruct H3 as [_ H3]. symmetry. exact (range_eqb_eq _ _ Hf H3). }
    destruct (ip4 b); [discriminate H3|]. destruct (ip6 b); [discriminate H3|].
    destruct (ipFuture b); [discriminate H3|]. cbn [is_some orb] in H3.
    split; [exact (range_eqb_eq _ _ Hh H3)|auto].
  - intros [H1 [H2 H3]]. rewrite <- H1, <- H2, !range_eqb_refl. cbn [andb].
    destruct (ip4 a) as [x|]; [rewrite H3; apply bytes_eqb_refl|].
    destruct (ip6 a) as [x|]; [rewrite H3; apply bytes_eqb_refl|].
    destruct (ipFuture a) as [f|]; [rewrite H3; cbn [is_some andb]; apply range_eqb_refl|].
    destruct H3 as (H3 & -> & -> & ->). cbn [is_some orb]. rewrite <- H3. apply range_eqb_refl.
Qed.

(* ---------------------------------------------------------------- 4. the two walks *)
Definition seg_req (x y : text) : Prop := range_eqb (Some x) (Some y) = true.

Lemma skip_common_split : forall s b s' b', skip_common s b = (s', b') ->
  exists c cb, s = c ++ s' /\ b = cb ++ b' /\ Forall2 seg_req c cb.
Proof.
  induction s as [|x s IH]; intros b s' b' H.
  - cbn [skip_common] in H. injection H as H1 H2. subst. exists [], []. repeat split. constructor.
  - destruct b as [|y b].
    + cbn [skip_common] in H. injection H as H1 H2. subst. exists [], []. repeat split. constructor.
    + cbn [skip_common] in H.
      destruct (range_eqb (Some x) (Some y)) eqn:E; cbn [andb] in H.
      * match type of H with (if ?c then _ else _) = _ => destruct c end.
        -- destruct (IH b s' b' H) as (c & cb & E1 & E2 & E3).
           exists (x :: c), (y :: cb). rewrite E1, E2. repeat split. constructor; assumption.
        -- injection H as H1 H2. subst. exists [], []. repeat split. constructor.
      * injection H as H1 H2. subst. exists [], []. repeat split. constructor.
Qed.

Lemma seg_req_eq c : forall cb, forallb nonul c = true -> Forall2 seg_req c cb -> c = cb.
Proof.
  induction c as [|x c IH]; intros cb Hn H; inversion H as [|x' y l l' Hxy Hl]; subst; [reflexivity|].
  cbn [forallb] in Hn. apply andb_true_iff in Hn. destruct Hn as [Hx Hc].
  unfold seg_req in Hxy. rewrite (range_eqb_text x y Hx) in Hxy. apply text_eqb_true in Hxy.
  rewrite Hxy, (IH l' Hc Hl). reflexivity.
Qed.

Definition dd : text := [46; 46].

Lemma removelast_length {A} (l : list A) : l <> [] -> S (length (removelast l)) = length l.
Proof.
  intros Hne. destruct (exists_last Hne) as [l0 [x E]]. subst l.
  rewrite removelast_last, app_length. cbn [length]. lia.
Qed.

Lemma parents_cons : forall l x, parents (x :: l) = repeat dd (length l).
Proof.
  induction l as [|y l IH]; intros x; [reflexivity|].
  change (parents (x :: y :: l)) with (dd :: parents (y :: l)). rewrite (IH y). reflexivity.
Qed.

Lemma parents_repeat b : parents b = repeat dd (length (removelast b)).
Proof.
  destruct b as [|x l]; [reflexivity|]. rewrite parents_cons.
  assert (x :: l <> []) as Hne by discriminate.
  pose proof (removelast_length (x :: l) Hne) as E. change (length (x :: l)) with (S (length l)) in E.
  apply eq_add_S in E. rewrite E. reflexivity.
Qed.

Lemma walk_push h a : forall p kept rest, forallb nodot p = true ->
  rds_walk false h a kept (p ++ rest) = rds_walk false h a (rev p ++ kept) rest.
Proof.
  induction p as [|w p IH]; intros kept rest H; [reflexivity|].
  cbn [forallb] in H. apply andb_true_iff in H. destruct H as [Hw Hp].
  unfold nodot in Hw. apply andb_true_iff in Hw. destruct Hw as [H1 H2].
  apply negb_true_iff in H1. apply negb_true_iff in H2.
  cbn [app]. rewrite walk_false_cons, H1, H2. rewrite (IH (w :: kept) rest Hp).
  cbn [rev]. rewrite <- app_assoc. reflexivity.
Qed.

Lemma skipn_S_tl {A} k (l : list A) : skipn (S k) l = skipn k (tl l).
Proof. destruct l; [destruct k; reflexivity|reflexivity]. Qed.

Lemma walk_pops h a : forall k kept nxt, nxt <> [] ->
  rds_walk false h a kept (repeat dd k ++ nxt) = rds_walk false h a (skipn k kept) nxt.
Proof.
  induction k as [|k IH]; intros kept nxt Hne; [reflexivity|].
  cbn [repeat app]. rewrite walk_false_cons.
  change (seg_dot dd) with false. change (seg_dotdot dd) with true. cbv iota.
  destruct (repeat dd k ++ nxt) as [|t l] eqn:E.
  { apply app_eq_nil in E. destruct E as [_ E]. congruence. }
  rewrite <- E. rewrite (IH (tl kept) nxt Hne). rewrite skipn_S_tl. reflexivity.
Qed.

(* removelast (c ++ b') ++ ".." x (|b'| - 1) ++ [guard] ++ s'  walks to  c ++ s' *)
Lemma walk_roundtrip h a c b' s' : b' <> [] -> s' <> [] ->
  forallb nodot c = true -> forallb nodot b' = true -> forallb nodot s' = true ->
  rds_walk false h a []
    (removelast (c ++ b') ++ parents b' ++ rest_segments (match parents b' with [] => true | _ => false end) s')
  = c ++ s'.
Proof.
  intros Hb Hs Hc Hnb Hns.
  rewrite (removelast_app c Hb). rewrite <- app_assoc.
  rewrite (walk_push h a c [] _ Hc). rewrite app_nil_r.
  rewrite (walk_push h a (removelast b') (rev c) _ (forallb_removelast _ _ Hnb)).
  set (g := match parents b' with [] => true | _ => false end).
  assert (rest_segments g s' <> []) as Hr.
  { destruct s' as [|x s0]; [congruence|]. unfold rest_segments.
    intros E. apply app_eq_nil in E. destruct E as [_ E]. discriminate E. }
  rewrite parents_repeat.
  rewrite (walk_pops h a _ _ _ Hr).
  rewrite skipn_app. rewrite rev_length. rewrite Nat.sub_diag. cbn [skipn].
  rewrite <- (rev_length (removelast b')) at 1. rewrite skipn_all. cbn [app].
  destruct s' as [|x s0]; [congruence|]. unfold rest_segments.
  destruct (g && (has_colon x || match x with [] => true | _ => false end)).
  - cbn [app]. rewrite walk_false_cons. change (seg_dot [46]) with true. cbv iota.
    rewrite (walk_fixed h a (x :: s0) (rev c) Hns). rewrite rev_involutive. reflexivity.
  - cbn [app]. rewrite (walk_fixed h a (x :: s0) (rev c) Hns). rewrite rev_involutive. reflexivity.
Qed.

(* ---------------------------------------------------------------- 5. the round trip under walk_ok *)
(* resolving a reference that is only a rootless path (plus query and fragment): the merge branch *)
Lemma add_base_path_ref rel base : scheme base <> None -> scheme rel = None ->
  is_host_set rel = false -> absolutePath rel = false -> pathSegs rel <> [] ->
  add_base false rel base
  = (URI_SUCCESS,
     set_fragment (fragment rel) (fix_empty_trail_segment (set_scheme (scheme base) (set_query (query rel)
       (fix_ambiguity (remove_dot_segments_absolute
          (merge_path (copy_path (copy_authority empty_uri base) base) rel))))))).
Proof.
  intros Hb Hs Hh Ha Hp. unfold add_base, add_base_impl.
  destruct (scheme base) as [sb|]; [|congruence]. cbv zeta.
  rewrite Hs. cbn [is_some andb]. rewrite Hh, Ha.
  destruct (pathSegs rel) as [|r1 rs]; [congruence|]. reflexivity.
Qed.

Lemma back_fields rel base : scheme base <> None -> scheme rel = None ->
  is_host_set rel = false -> absolutePath rel = false -> pathSegs rel <> [] ->
  let back := snd (add_base false rel base) in
  let hb := is_host_set base in
  let ab := absolutePath base in
  scheme back = scheme base
  /\ auth_fields back = auth_fields (copy_authority empty_uri base)
  /\ pathSegs back = fixtrail_p hb (fixamb_p hb ab (rds_p hb ab (removelast (pathSegs base) ++ pathSegs rel)))
  /\ absolutePath back = ab /\ query back = query rel /\ fragment back = fragment rel.
Proof.
  intros Hb Hs Hh Ha Hp. rewrite (add_base_path_ref rel base Hb Hs Hh Ha Hp). cbn [snd]. cbv zeta.
  rewrite merge_nf. usimpl.
  destruct (pathSegs rel) as [|r1 rs] eqn:Er; [congruence|].
  rewrite rds_nf, fixamb_nf, fixtrail_nf. autorewrite with uri_db. usimpl.
  repeat split.
Qed.

Lemma rds_p_nonempty h a s : s <> [] -> rds_p h a s = rds_walk false h a [] s.
Proof. destruct s; [congruence|reflexivity]. Qed.

Lemma fixamb_wf u : wf u = true -> fixamb_p (is_host_set u) (absolutePath u) (pathSegs u) = pathSegs u.
Proof.
  intros Hw. destruct (is_host_set u) eqn:Hh.
  - rewrite (wf_host_abs u Hw Hh). apply fixamb_host.
  - destruct (absolutePath u) eqn:Ha.
    + pose proof (wf_abs_nodslash u Hw Hh Ha) as Hd.
      destruct (pathSegs u) as [|[|c s] [|x r]]; try reflexivity. discriminate Hd.
    + pose proof (wf_rootless_first u Hw Hh Ha) as Hf.
      destruct (pathSegs u) as [|[|c s] [|x r]]; try reflexivity; discriminate Hf.
Qed.

Lemma fixtrail_not_lone u : lone_empty_hostless u = false ->
  fixtrail_p (is_host_set u) (pathSegs u) = pathSegs u.
Proof.
  unfold lone_empty_hostless, fixtrail_p. destruct (is_host_set u); cbn [negb andb]; [reflexivity|].
  destruct (pathSegs u) as [|[|c s] [|x r]]; try reflexivity. intros H. discriminate H.
Qed.

Definition nonnil {A} (l : list A) : bool := match l with [] => false | _ => true end.

(* the sufficient condition: both absolute; same scheme; same authority (user info, host, port);
   same root (both with a host, or both host-less and both rooted / both rootless); the common-prefix
   walk of uriRemoveBaseUriMm stops with segments left on both sides (neither path is a prefix of the
   other); no "." / ".." segment in the source path and in what is left of the base path; no NUL in
   the source's segments (uriCompareRange stops at a NUL, like strncmp); both objects as the parser
   makes them (wf), and the source not the object "host-less, path = one empty segment" (which the
   parser never makes: uriFixEmptyTrailSegment) *)
Definition walk_ok (src base : uri) : bool :=
  is_some (scheme src) && is_some (scheme base)
  && range_eqb (scheme src) (scheme base)
  && equals_authority src base
  && Bool.eqb (is_host_set src) (is_host_set base)
  && (is_host_set src || Bool.eqb (absolutePath src) (absolutePath base))
  && nonnil (fst (skip_common (pathSegs src) (pathSegs base)))
  && nonnil (snd (skip_common (pathSegs src) (pathSegs base)))
  && forallb nodot (pathSegs src)
  && forallb nodot (snd (skip_common (pathSegs src) (pathSegs base)))
  && forallb nonul (pathSegs src)
  && wf src && wf base && negb (lone_empty_hostless src).

Theorem roundtrip_walk src base : walk_ok src base = true ->
  let r := snd (remove_base false src base) in
  let back := snd (add_base false r base) in
  fst (remove_base false src base) = URI_SUCCESS
  /\ fst (add_base false r base) = URI_SUCCESS
  /\ scheme back = scheme src
  /\ auth_fields back = auth_fields (copy_authority empty_uri base)
  /\ pathSegs back = pathSegs src /\ absolutePath back = absolutePath src
  /\ query back = query src /\ fragment back = fragment src.
Proof.
  unfold walk_ok. intros H.
  repeat (apply andb_true_iff in H; let H' := fresh "K" in destruct H as [H H']).
  rename K into Hlone, K0 into Hwb, K1 into Hws, K2 into Hnul, K3 into Hdb, K4 into Hds,
         K5 into Hbne, K6 into Hsne, K7 into Habs, K8 into Hhost, K9 into Hau, K10 into Hsch, K11 into Hbsome.
  assert (scheme src <> None) as Hs by (destruct (scheme src); [discriminate|discriminate H]).
  assert (scheme base <> None) as Hb by (destruct (scheme base); [discriminate|discriminate Hbsome]).
  apply negb_true_iff in Hlone. apply eqb_prop in Hhost.
  destruct (skip_common (pathSegs src) (pathSegs base)) as [s' b'] eqn:Hk. cbn [fst snd] in *.
  assert (s' <> []) as Hs' by (destruct s'; [discriminate Hsne|discriminate]).
  assert (b' <> []) as Hb' by (destruct b'; [discriminate Hbne|discriminate]).
  destruct (skip_common_split _ _ _ _ Hk) as (c & cb & Eps & Epb & Ecc).
  assert (forallb nonul c = true) as Hcn.
  { rewrite Eps, forallb_app in Hnul. apply andb_true_iff in Hnul. apply Hnul. }
  pose proof (seg_req_eq c cb Hcn Ecc) as Ec. subst cb.
  assert (forallb nodot c = true /\ forallb nodot s' = true) as [Hdc Hds'].
  { rewrite Eps, forallb_app in Hds. apply andb_true_iff in Hds. exact Hds. }
  cbv zeta. rewrite (rb_walk src base s' b' Hs Hb Hsch Hau Hk).
  set (P := parents b' ++ rest_segments (match parents b' with [] => true | _ => false end) s').
  assert (P <> []) as HP.
  { subst P. destruct s' as [|x s0]; [congruence|]. unfold rest_segments.
    intros E. apply app_eq_nil in E. destruct E as [_ E]. apply app_eq_nil in E. destruct E as [_ E]. discriminate E. }
  set (r := set_fragment (fragment src) (set_query (query src) (set_pathSegs P empty_uri))).
  assert (pathSegs r = P) as EP by reflexivity.
  assert (pathSegs r <> []) as HP' by (rewrite EP; exact HP).
  split; [exact (remove_base_success false src base Hs Hb)|].
  split; [rewrite (add_base_path_ref r base Hb eq_refl eq_refl eq_refl HP'); reflexivity|].
  destruct (back_fields r base Hb eq_refl eq_refl eq_refl HP') as (B1 & B2 & B3 & B4 & B5 & B6).
  (* the absolute-path flags agree *)
  assert (absolutePath base = absolutePath src) as Eab.
  { destruct (is_host_set src) eqn:Hhs.
    - rewrite (wf_host_abs src Hws Hhs). symmetry in Hhost. rewrite (wf_host_abs base Hwb Hhost). reflexivity.
    - cbn [orb] in Habs. apply eqb_prop in Habs. symmetry. exact Habs. }
  split.
  { rewrite B1. symmetry. apply range_eqb_eq; [|exact Hsch].
    destruct (scheme src) as [ss|] eqn:Ess; [|reflexivity]. exact (wf_scheme src ss Hws Ess). }
  split; [exact B2|].
  split.
  { rewrite B3, EP, Epb, <- Hhost, Eab. subst P.
    rewrite rds_p_nonempty by (intros E; apply app_eq_nil in E; destruct E as [_ E]; exact (HP E)).
    rewrite (walk_roundtrip _ _ c b' s' Hb' Hs' Hdc Hdb Hds'). rewrite <- Eps.
    rewrite (fixamb_wf src Hws). apply fixtrail_not_lone. exact Hlone. }
  split; [rewrite B4; exact Eab|].
  split; [rewrite B5; reflexivity|rewrite B6; reflexivity].
Qed.

(* ---------------------------------------------------------------- the comparison of the property *)
(* "compared after dot-segment normalization and treating an empty path under an authority as /":
   dot segments removed (uriRemoveDotSegmentsAbsolute), an empty path under a host replaced by the single
   empty segment, and -- as every parse and every resolution ends -- the single empty segment of a
   host-less URI dropped (uriFixEmptyTrailSegment; both forms print the same text) *)
Definition canon10 (u : uri) : uri :=
  let v := remove_dot_segments_absolute u in
  fix_empty_trail_segment
    (if is_host_set v && match pathSegs v with [] => true | _ => false end then set_pathSegs [[]] v else v).
Definition same_target (a b : uri) : Prop := components (canon10 a) = components (canon10 b).

(* the last two steps on the segment list *)
Definition trail_p (h : bool) (s : list text) : list text :=
  fixtrail_p h (if h && match s with [] => true | _ => false end then [[]] else s).

Lemma canon10_nf u : canon10 u
  = set_pathSegs (trail_p (is_host_set u) (rds_p (is_host_set u) (absolutePath u) (pathSegs u))) u.
Proof.
  unfold canon10, trail_p. cbv zeta. rewrite rds_nf. autorewrite with uri_db. usimpl.
  destruct (is_host_set u && _); rewrite fixtrail_nf; autorewrite with uri_db; usimpl;
    destruct u; reflexivity.
Qed.

Lemma components_fields a b : scheme a = scheme b -> auth_fields a = auth_fields b ->
  pathSegs a = pathSegs b -> absolutePath a = absolutePath b -> query a = query b -> fragment a = fragment b ->
  components a = components b.
Proof.
  destruct a, b. unfold components, auth_fields. usimpl. intros H1 H2 H3 H4 H5 H6.
  injection H2 as -> -> -> -> -> ->. subst. reflexivity.
Qed.

Lemma host_of_auth_fields a b : auth_fields a = auth_fields b -> is_host_set a = is_host_set b.
Proof. unfold auth_fields, is_host_set. intros H. injection H as _ -> -> -> -> _. reflexivity. Qed.

Lemma canon10_components a b : components a = components b -> components (canon10 a) = components (canon10 b).
Proof.
  destruct a, b. unfold components. usimpl. intros H. injection H as -> -> -> -> -> -> -> -> -> -> ->.
  rewrite !canon10_nf. reflexivity.
Qed.

Lemma same_target_components a b : components a = components b -> same_target a b.
Proof. exact (canon10_components a b). Qed.

Theorem roundtrip_walk_components src base : walk_ok src base = true ->
  one_kind base = true -> auth_fields src = auth_fields base ->
  let back := snd (add_base false (snd (remove_base false src base)) base) in
  components back = components src /\ same_target back src.
Proof.
  intros Hw Hk Ha. cbv zeta.
  destruct (roundtrip_walk src base Hw) as (_ & _ & B1 & B2 & B3 & B4 & B5 & B6).
  assert (components (snd (add_base false (snd (remove_base false src base)) base)) = components src) as E.
  { apply components_fields; try assumption. rewrite B2, Ha. apply auth_fields_copy. exact Hk. }
  split; [exact E|exact (same_target_components _ _ E)].
Qed.

(* ---------------------------------------------------------------- 6. the cases without a walk *)
Lemma rds_p_fixed h a s : forallb nodot s = true -> rds_p h a s = s.
Proof. intros H. destruct s as [|x s]; [reflexivity|]. unfold rds_p. exact (rds_walk_fixed h a _ H). Qed.

(* a reference that keeps its scheme resolves to itself when it is already clean *)
Lemma add_base_absolute_ref rel base : scheme rel <> None -> scheme base <> None ->
  forallb nodot (pathSegs rel) = true -> wf rel = true -> lone_empty_hostless rel = false ->
  fst (add_base false rel base) = URI_SUCCESS
  /\ components (snd (add_base false rel base)) = components (copy_authority rel rel).
Proof.
  intros Hr Hb Hd Hw Hl. unfold add_base, add_base_impl.
  destruct (scheme base) as [sb|]; [|congruence]. cbv zeta.
  destruct (scheme rel) as [sr|] eqn:Esr; [|congruence]. cbn [is_some andb negb fst snd].
  split; [reflexivity|].
  rewrite rds_nf, fixamb_nf, fixtrail_nf. autorewrite with uri_db. usimpl.
  rewrite (rds_p_fixed _ _ _ Hd), (fixamb_wf rel Hw), (fixtrail_not_lone rel Hl).
  destruct rel as [sc ui ht i4 i6 ifu po ps qu fr ab ow]. cbn [scheme] in Esr. subst sc. reflexivity.
Qed.

Lemma copy_authority_one_kind u : one_kind u = true -> copy_authority u u = u.
Proof.
  destruct u as [sc ui ht i4 i6 ifu po ps qu fr ab ow]. unfold one_kind, copy_authority. usimpl.
  destruct i4, i6, ifu; intros H; try discriminate H; reflexivity.
Qed.

(* what the reference is when it is "the source unchanged" *)
Lemma copied_is_source src : one_kind src = true ->
  set_fragment (fragment src) (set_query (query src)
     (copy_path (copy_authority (set_scheme (scheme src) empty_uri) src) src))
  = set_owner false src.
Proof.
  destruct src as [sc ui ht i4 i6 ifu po ps qu fr ab ow]. unfold one_kind. usimpl.
  destruct i4, i6, ifu; intros H; try discriminate H; reflexivity.
Qed.

(* A. schemes differ, or the scheme is kept (host-less source, base with a host): the reference is the
   source, and resolves to it *)
Theorem roundtrip_copy m src base : scheme src <> None -> scheme base <> None ->
  range_eqb (scheme src) (scheme base) = false
  \/ (equals_authority src base = false /\ is_host_set src = false /\ is_host_set base = true) ->
  forallb nodot (pathSegs src) = true -> wf src = true -> lone_empty_hostless src = false ->
  one_kind src = true ->
  let r := snd (remove_base m src base) in
  fst (add_base false r base) = URI_SUCCESS
  /\ components (snd (add_base false r base)) = components src.
Proof.
  intros Hs Hb Hc Hd Hw Hl Hk. cbv zeta. rewrite (remove_base_nf m src base Hs Hb). cbn [snd].
  assert (rb_body m src base = copy_path (copy_authority (set_scheme (scheme src) empty_uri) src) src) as E.
  { unfold rb_body. destruct Hc as [Hc|(H1 & H2 & H3)].
    - rewrite Hc. reflexivity.
    - destruct (range_eqb (scheme src) (scheme base)); [|reflexivity]. cbn [negb].
      rewrite H1, H2, H3. reflexivity. }
  rewrite E, (copied_is_source src Hk).
  destruct (add_base_absolute_ref (set_owner false src) base Hs Hb Hd Hw Hl) as [A1 A2].
  split; [exact A1|]. rewrite A2. rewrite (copy_authority_one_kind (set_owner false src) Hk). reflexivity.
Qed.

(* B. same scheme, other authority, source with a host: the reference is the source without its scheme *)
Lemma add_base_network_ref rel base : scheme rel = None -> is_host_set rel = true -> scheme base <> None ->
  forallb nodot (pathSegs rel) = true ->
  fst (add_base false rel base) = URI_SUCCESS
  /\ components (snd (add_base false rel base)) = components (set_scheme (scheme base) (copy_authority rel rel)).
Proof.
  intros Hr Hh Hb Hd. unfold add_base, add_base_impl.
  destruct (scheme base) as [sb|]; [|congruence]. cbv zeta.
  rewrite Hr. cbn [is_some andb fst snd]. rewrite Hh.
  split; [reflexivity|].
  rewrite rds_nf, fixtrail_nf. autorewrite with uri_db. usimpl.
  rewrite (rds_p_fixed _ _ _ Hd). rewrite Hh. cbn [fixtrail_p negb].
  destruct rel as [sc ui ht i4 i6 ifu po ps qu fr ab ow]. reflexivity.
Qed.

Lemma copied_noscheme src : one_kind src = true ->
  set_fragment (fragment src) (set_query (query src) (copy_path (copy_authority empty_uri src) src))
  = set_owner false (set_scheme None src).
Proof.
  destruct src as [sc ui ht i4 i6 ifu po ps qu fr ab ow]. unfold one_kind. usimpl.
  destruct i4, i6, ifu; intros H; try discriminate H; reflexivity.
Qed.

Lemma scheme_eq_of_range src base : wf src = true -> range_eqb (scheme src) (scheme base) = true ->
  scheme src = scheme base.
Proof.
  intros Hw H. apply range_eqb_eq; [|exact H].
  destruct (scheme src) as [ss|] eqn:Ess; [|reflexivity]. exact (wf_scheme src ss Hw Ess).
Qed.

Theorem roundtrip_other_authority m src base : scheme src <> None -> scheme base <> None ->
  range_eqb (scheme src) (scheme base) = true -> equals_authority src base = false ->
  is_host_set src = true ->
  forallb nodot (pathSegs src) = true -> wf src = true -> one_kind src = true ->
  let r := snd (remove_base m src base) in
  fst (add_base false r base) = URI_SUCCESS
  /\ components (snd (add_base false r base)) = components src.
Proof.
  intros Hs Hb He Ea Hh Hd Hw Hk. cbv zeta. rewrite (remove_base_nf m src base Hs Hb). cbn [snd].
  unfold rb_body. rewrite He, Ea, Hh. cbn [negb andb]. rewrite (copied_noscheme src Hk).
  destruct (add_base_network_ref (set_owner false (set_scheme None src)) base eq_refl Hh Hb Hd) as [A1 A2].
  split; [exact A1|]. rewrite A2.
  rewrite (copy_authority_one_kind (set_owner false (set_scheme None src)) Hk).
  rewrite <- (scheme_eq_of_range src base Hw He).
  destruct src as [sc ui ht i4 i6 ifu po ps qu fr ab ow]. reflexivity.
Qed.

(* C. domain-root mode *)
Lemma add_base_abs_ref rel base : scheme rel = None -> is_host_set rel = false -> absolutePath rel = true ->
  scheme base <> None ->
  add_base false rel base
  = (URI_SUCCESS,
     set_fragment (fragment rel) (fix_empty_trail_segment (set_scheme (scheme base) (set_query (query rel)
       (fix_ambiguity (remove_dot_segments_absolute (resolve_abs_flag
          (copy_path (copy_authority empty_uri base) rel)))))))).
Proof.
  intros Hs Hh Ha Hb. unfold add_base, add_base_impl.
  destruct (scheme base) as [sb|]; [|congruence]. cbv zeta.
  rewrite Hs. cbn [is_some andb]. rewrite Hh, Ha.
  destruct (pathSegs rel); reflexivity.
Qed.

Lemma back_fields_abs rel base : scheme rel = None -> is_host_set rel = false -> absolutePath rel = true ->
  scheme base <> None ->
  let back := snd (add_base false rel base) in
  let hb := is_host_set base in
  let segs' := if hb then match pathSegs rel with [] => [[]] | _ => pathSegs rel end else pathSegs rel in
  scheme back = scheme base
  /\ auth_fields back = auth_fields (copy_authority empty_uri base)
  /\ pathSegs back = fixtrail_p hb (fixamb_p hb (negb hb) (rds_p hb (negb hb) segs'))
  /\ absolutePath back = negb hb /\ query back = query rel /\ fragment back = fragment rel.
Proof.
  intros Hs Hh Ha Hb. rewrite (add_base_abs_ref rel base Hs Hh Ha Hb). cbn [snd]. cbv zeta.
  rewrite resabs_nf. autorewrite with uri_db. usimpl. rewrite Ha, andb_true_r.
  destruct (is_host_set base) eqn:Ehb.
  - rewrite rds_nf, fixamb_nf, fixtrail_nf. autorewrite with uri_db. usimpl. rewrite Ehb. repeat split.
  - rewrite rds_nf, fixamb_nf, fixtrail_nf. autorewrite with uri_db. usimpl. rewrite Ehb, Ha. repeat split.
Qed.

Theorem roundtrip_domain_root src base : scheme src <> None -> scheme base <> None ->
  range_eqb (scheme src) (scheme base) = true -> equals_authority src base = true ->
  is_host_set src = is_host_set base -> (is_host_set src = false -> absolutePath src = true) ->
  forallb nodot (pathSegs src) = true -> wf src = true -> lone_empty_hostless src = false ->
  let r := snd (remove_base true src base) in
  let back := snd (add_base false r base) in
  fst (add_base false r base) = URI_SUCCESS
  /\ scheme back = scheme src
  /\ auth_fields back = auth_fields (copy_authority empty_uri base)
  /\ pathSegs back = (if is_host_set src then match pathSegs src with [] => [[]] | _ => pathSegs src end
                      else pathSegs src)
  /\ absolutePath back = absolutePath src
  /\ query back = query src /\ fragment back = fragment src.
Proof.
  intros Hs Hb He Ea Hhost Hroot Hd Hw Hl. cbv zeta.
  rewrite (remove_base_nf true src base Hs Hb). cbn [snd].
  rewrite (rb_body_domain_root src base He Ea).
  set (P := fixamb_p false true (fixtrail_p false (pathSegs src))).
  set (r := set_fragment (fragment src) (set_query (query src) (set_pathSegs P (set_absolutePath true (copy_path empty_uri src))))).
  assert (scheme r = None) as R1 by reflexivity.
  assert (is_host_set r = false) as R2 by reflexivity.
  assert (absolutePath r = true) as R3 by reflexivity.
  split; [rewrite (add_base_abs_ref r base R1 R2 R3 Hb); reflexivity|].
  destruct (back_fields_abs r base R1 R2 R3 Hb) as (B1 & B2 & B3 & B4 & B5 & B6).
  split; [rewrite B1; symmetry; exact (scheme_eq_of_range src base Hw He)|].
  split; [exact B2|].
  change (pathSegs r) with P in B3. rewrite <- Hhost in B3, B4.
  destruct (is_host_set src) eqn:Hh.
  - (* with a host *)
    pose proof (wf_host_abs src Hw Hh) as Hab.
    split.
    { rewrite B3. cbn [negb fixtrail_p]. rewrite fixamb_host. subst P.
      destruct (pathSegs src) as [|x l] eqn:Ep; [reflexivity|].
      destruct x as [|c x]; [destruct l as [|y l]|]; cbn [fixamb_p fixtrail_p negb].
      + reflexivity.
      + unfold rds_p. rewrite walk_false_cons. change (seg_dot [46]) with true. cbv iota.
        exact (rds_walk_fixed true false _ Hd).
      + destruct l; apply rds_p_fixed; exact Hd. }
    split; [rewrite B4, Hab; reflexivity|]. split; [rewrite B5|rewrite B6]; reflexivity.
  - (* host-less, rooted *)
    pose proof (Hroot eq_refl) as Hab.
    assert (fixamb_p false true (pathSegs src) = pathSegs src) as F1
      by (pose proof (fixamb_wf src Hw) as F; rewrite Hh, Hab in F; exact F).
    assert (fixtrail_p false (pathSegs src) = pathSegs src) as F2
      by (pose proof (fixtrail_not_lone src Hl) as F; rewrite Hh in F; exact F).
    split.
    { rewrite B3. subst P. cbn [negb]. rewrite F2, F1, (rds_p_fixed _ _ _ Hd), F1. exact F2. }
    split; [rewrite B4, Hab; reflexivity|]. split; [rewrite B5|rewrite B6]; reflexivity.
Qed.

Lemma canon10_slash u : is_host_set u = true -> pathSegs u = [] ->
  components (canon10 (set_pathSegs [[]] u)) = components (canon10 u).
Proof.
  intros Hh Hp. rewrite !canon10_nf. autorewrite with uri_db. usimpl. rewrite Hh, Hp.
  destruct u. reflexivity.
Qed.

Theorem roundtrip_domain_root_target src base : scheme src <> None -> scheme base <> None ->
  range_eqb (scheme src) (scheme base) = true -> equals_authority src base = true ->
  is_host_set src = is_host_set base -> (is_host_set src = false -> absolutePath src = true) ->
  forallb nodot (pathSegs src) = true -> wf src = true -> lone_empty_hostless src = false ->
  one_kind base = true -> auth_fields src = auth_fields base ->
  same_target (snd (add_base false (snd (remove_base true src base)) base)) src.
Proof.
  intros Hs Hb He Ea Hhost Hroot Hd Hw Hl Hk Haf.
  destruct (roundtrip_domain_root src base Hs Hb He Ea Hhost Hroot Hd Hw Hl) as (_ & B1 & B2 & B3 & B4 & B5 & B6).
  set (back := snd (add_base false (snd (remove_base true src base)) base)) in *.
  set (src' := if is_host_set src && match pathSegs src with [] => true | _ => false end
               then set_pathSegs [[]] src else src).
  assert (components back = components src') as E.
  { apply components_fields.
    - rewrite B1. subst src'. destruct (is_host_set src && _); reflexivity.
    - rewrite B2, (auth_fields_copy _ _ Hk), <- Haf. subst src'. destruct (is_host_set src && _); reflexivity.
    - rewrite B3. subst src'. destruct (is_host_set src); [|reflexivity].
      destruct (pathSegs src) eqn:Ep; [reflexivity|]. cbn [andb]. symmetry. exact Ep.
    - rewrite B4. subst src'. destruct (is_host_set src && _); reflexivity.
    - rewrite B5. subst src'. destruct (is_host_set src && _); reflexivity.
    - rewrite B6. subst src'. destruct (is_host_set src && _); reflexivity. }
  unfold same_target. rewrite (canon10_components _ _ E). subst src'.
  destruct (is_host_set src) eqn:Hh; [|reflexivity].
  destruct (pathSegs src) eqn:Ep; [|reflexivity]. cbn [andb].
  apply canon10_slash; assumption.
Qed.

(* ---------------------------------------------------------------- sources with dot segments *)
(* the stack of the absolute-mode walk after a run of segments that is not the end of the path *)
Fixpoint walk_state (kept p : list text) : list text :=
  match p with
  | [] => kept
  | w :: p' =>
    if seg_dot w then walk_state kept p'
    else if seg_dotdot w then walk_state (tl kept) p'
    else walk_state (w :: kept) p'
  end.

Lemma walk_prefix h a : forall p kept rest, rest <> [] ->
  rds_walk false h a kept (p ++ rest) = rds_walk false h a (walk_state kept p) rest.
Proof.
  induction p as [|w p IH]; intros kept rest Hne; [reflexivity|].
  cbn [app walk_state]. rewrite walk_false_cons.
  destruct (p ++ rest) as [|t l] eqn:E.
  { apply app_eq_nil in E. destruct E as [_ E]. congruence. }
  rewrite <- E. destruct (seg_dot w); [apply IH; exact Hne|].
  destruct (seg_dotdot w); apply IH; exact Hne.
Qed.

Lemma walk_state_nodot : forall p kept, forallb nodot p = true -> walk_state kept p = rev p ++ kept.
Proof.
  induction p as [|w p IH]; intros kept H; [reflexivity|].
  cbn [forallb] in H. apply andb_true_iff in H. destruct H as [Hw Hp].
  unfold nodot in Hw. apply andb_true_iff in Hw. destruct Hw as [H1 H2].
  apply negb_true_iff in H1. apply negb_true_iff in H2.
  cbn [walk_state]. rewrite H1, H2, (IH _ Hp). cbn [rev]. rewrite <- app_assoc. reflexivity.
Qed.

(* the general form of walk_roundtrip: nothing is assumed of the common prefix and of the source's rest *)
Lemma walk_roundtrip_gen h a c b' s' : b' <> [] -> s' <> [] -> forallb nodot b' = true ->
  rds_walk false h a []
    (removelast (c ++ b') ++ parents b' ++ rest_segments (match parents b' with [] => true | _ => false end) s')
  = rds_walk false h a [] (c ++ s').
Proof.
  intros Hb Hs Hnb.
  set (g := match parents b' with [] => true | _ => false end).
  assert (rest_segments g s' <> []) as Hr.
  { destruct s' as [|x s0]; [congruence|]. unfold rest_segments.
    intros E. apply app_eq_nil in E. destruct E as [_ E]. discriminate E. }
  assert (parents b' ++ rest_segments g s' <> []) as Hr2
    by (intros E; apply app_eq_nil in E; destruct E as [_ E]; exact (Hr E)).
  rewrite (removelast_app c Hb). rewrite <- app_assoc.
  rewrite (walk_prefix h a c [] _ ltac:(intros E; apply app_eq_nil in E; destruct E as [_ E]; exact (Hr2 E))).
  rewrite (walk_prefix h a c [] s' Hs).
  set (K := walk_state [] c).
  rewrite (walk_push h a (removelast b') K _ (forallb_removelast _ _ Hnb)).
  rewrite parents_repeat. rewrite (walk_pops h a _ _ _ Hr).
  rewrite skipn_app. rewrite rev_length. rewrite Nat.sub_diag. cbn [skipn].
  rewrite <- (rev_length (removelast b')) at 1. rewrite skipn_all. cbn [app].
  destruct s' as [|x s0]; [congruence|]. unfold rest_segments.
  destruct (g && (has_colon x || match x with [] => true | _ => false end)); [|reflexivity].
  cbn [app]. rewrite walk_false_cons. change (seg_dot [46]) with true. cbv iota. reflexivity.
Qed.

(* the condition without the clauses on the source path *)
Definition walk_ok_dotted (src base : uri) : bool :=
  is_some (scheme src) && is_some (scheme base)
  && range_eqb (scheme src) (scheme base)
  && equals_authority src base
  && Bool.eqb (is_host_set src) (is_host_set base)
  && (is_host_set src || Bool.eqb (absolutePath src) (absolutePath base))
  && nonnil (fst (skip_common (pathSegs src) (pathSegs base)))
  && nonnil (snd (skip_common (pathSegs src) (pathSegs base)))
  && forallb nodot (snd (skip_common (pathSegs src) (pathSegs base)))
  && forallb nonul (pathSegs src)
  && wf src && wf base.

Lemma trail_fixtrail h a p : trail_p h (rds_p h a (fixtrail_p h p)) = trail_p h (rds_p h a p).
Proof.
  destruct h; [reflexivity|]. cbn [fixtrail_p negb].
  destruct p as [|[|c x] [|y l]]; try reflexivity.
Qed.

(* cleaning the result once more undoes what uriFixAmbiguity and uriFixEmptyTrailSegment did to it *)
Lemma canon_path h a R : (h = true -> a = false) -> forallb nodot R = true ->
  trail_p h (rds_p h a (fixtrail_p h (fixamb_p h a R))) = trail_p h R.
Proof.
  intros Hha Hd. destruct h.
  - rewrite (Hha eq_refl). rewrite fixamb_host. cbn [fixtrail_p negb]. rewrite (rds_p_fixed _ _ _ Hd). reflexivity.
  - assert (forall F, F = R -> trail_p false (rds_p false a (fixtrail_p false F)) = trail_p false R) as Hsame.
    { intros F ->. unfold trail_p. cbn [andb fixtrail_p negb].
      destruct R as [|[|c x] [|y l]]; try reflexivity; rewrite (rds_p_fixed _ _ _ Hd); reflexivity. }
    assert (forall y l, R = [] :: y :: l ->
              trail_p false (rds_p false a (fixtrail_p false ([46] :: R))) = trail_p false R) as Hdot.
    { intros y l ->. cbn [fixtrail_p negb]. unfold rds_p. rewrite walk_false_cons.
      change (seg_dot [46]) with true. cbv iota. rewrite (rds_walk_fixed false a _ Hd). reflexivity. }
    destruct a; destruct R as [|[|c x] [|[|c2 y] l]] eqn:ER; cbn [fixamb_p];
      first [apply Hsame; reflexivity | eapply Hdot; reflexivity].
Qed.

Theorem roundtrip_walk_dotted src base : walk_ok_dotted src base = true ->
  let r := snd (remove_base false src base) in
  let back := snd (add_base false r base) in
  fst (remove_base false src base) = URI_SUCCESS
  /\ fst (add_base false r base) = URI_SUCCESS
  /\ scheme back = scheme src
  /\ auth_fields back = auth_fields (copy_authority empty_uri base)
  /\ pathSegs (canon10 back) = pathSegs (canon10 src) /\ absolutePath back = absolutePath src
  /\ query back = query src /\ fragment back = fragment src.
Proof.
  unfold walk_ok_dotted. intros H.
  repeat (apply andb_true_iff in H; let H' := fresh "K" in destruct H as [H H']).
  rename K into Hwb, K0 into Hws, K1 into Hnul, K2 into Hdb,
         K3 into Hbne, K4 into Hsne, K5 into Habs, K6 into Hhost, K7 into Hau, K8 into Hsch, K9 into Hbsome.
  assert (scheme src <> None) as Hs by (destruct (scheme src); [discriminate|discriminate H]).
  assert (scheme base <> None) as Hb by (destruct (scheme base); [discriminate|discriminate Hbsome]).
  apply eqb_prop in Hhost.
  destruct (skip_common (pathSegs src) (pathSegs base)) as [s' b'] eqn:Hk. cbn [fst snd] in *.
  assert (s' <> []) as Hs' by (destruct s'; [discriminate Hsne|discriminate]).
  assert (b' <> []) as Hb' by (destruct b'; [discriminate Hbne|discriminate]).
  destruct (skip_common_split _ _ _ _ Hk) as (c & cb & Eps & Epb & Ecc).
  assert (forallb nonul c = true) as Hcn.
  { rewrite Eps, forallb_app in Hnul. apply andb_true_iff in Hnul. apply Hnul. }
  pose proof (seg_req_eq c cb Hcn Ecc) as Ec. subst cb.
  cbv zeta. rewrite (rb_walk src base s' b' Hs Hb Hsch Hau Hk).
  set (P := parents b' ++ rest_segments (match parents b' with [] => true | _ => false end) s').
  assert (P <> []) as HP.
  { subst P. destruct s' as [|x s0]; [congruence|]. unfold rest_segments.
    intros E. apply app_eq_nil in E. destruct E as [_ E]. apply app_eq_nil in E. destruct E as [_ E]. discriminate E. }
  set (r := set_fragment (fragment src) (set_query (query src) (set_pathSegs P empty_uri))).
  assert (pathSegs r = P) as EP by reflexivity.
  assert (pathSegs r <> []) as HP' by (rewrite EP; exact HP).
  split; [exact (remove_base_success false src base Hs Hb)|].
  split; [rewrite (add_base_path_ref r base Hb eq_refl eq_refl eq_refl HP'); reflexivity|].
  destruct (back_fields r base Hb eq_refl eq_refl eq_refl HP') as (B1 & B2 & B3 & B4 & B5 & B6).
  assert (absolutePath base = absolutePath src) as Eab.
  { destruct (is_host_set src) eqn:Hhs.
    - rewrite (wf_host_abs src Hws Hhs). symmetry in Hhost. rewrite (wf_host_abs base Hwb Hhost). reflexivity.
    - cbn [orb] in Habs. apply eqb_prop in Habs. symmetry. exact Habs. }
  split; [rewrite B1; symmetry; exact (scheme_eq_of_range src base Hws Hsch)|].
  split; [exact B2|].
  split.
  { rewrite !canon10_nf. usimpl.
    rewrite (host_of_auth_fields _ _ B2), host_copy_authority, B4, B3, EP, Epb, <- Hhost, Eab. subst P.
    rewrite (rds_p_nonempty _ _ (removelast _ ++ _))
      by (intros E; apply app_eq_nil in E; destruct E as [_ E]; exact (HP E)).
    rewrite (walk_roundtrip_gen _ _ c b' s' Hb' Hs' Hdb). rewrite <- Eps.
    rewrite (rds_p_nonempty _ _ (pathSegs src))
      by (rewrite Eps; intros E; apply app_eq_nil in E; destruct E as [_ E]; exact (Hs' E)).
    apply canon_path; [exact (wf_host_abs src Hws)|apply rds_walk_nodots]. }
  split; [rewrite B4; exact Eab|].
  split; [rewrite B5; reflexivity|rewrite B6; reflexivity].
Qed.

Theorem roundtrip_walk_dotted_target src base : walk_ok_dotted src base = true ->
  one_kind base = true -> auth_fields src = auth_fields base ->
  same_target (snd (add_base false (snd (remove_base false src base)) base)) src.
Proof.
  intros Hw Hk Ha.
  destruct (roundtrip_walk_dotted src base Hw) as (_ & _ & B1 & B2 & B3 & B4 & B5 & B6).
  unfold same_target. apply components_fields.
  - rewrite !canon10_nf. exact B1.
  - rewrite !canon10_nf. autorewrite with af_db. rewrite B2, Ha. apply auth_fields_copy. exact Hk.
  - exact B3.
  - rewrite !canon10_nf. exact B4.
  - rewrite !canon10_nf. exact B5.
  - rewrite !canon10_nf. exact B6.
Qed.

(* walk_ok is walk_ok_dotted plus the clauses on the source path *)
Lemma walk_ok_dotted_of_walk_ok src base : walk_ok src base = true -> walk_ok_dotted src base = true.
Proof.
  unfold walk_ok, walk_ok_dotted. intros H.
  repeat (apply andb_true_iff in H; let H' := fresh "K" in destruct H as [H H']).
  rewrite H, K11, K10, K9, K8, K7, K6, K5, K3, K2, K1, K0. reflexivity.
Qed.

(* ---------------------------------------------------------------- the cases without a walk, any source path *)
Lemma rds_p_nodots h a s : forallb nodot (rds_p h a s) = true.
Proof. destruct s; [reflexivity|]. unfold rds_p. apply rds_walk_nodots. Qed.

(* a reference that keeps its scheme, whatever its path *)
Lemma add_base_absolute_ref_target rel base : scheme rel <> None -> scheme base <> None ->
  wf rel = true -> one_kind rel = true ->
  fst (add_base false rel base) = URI_SUCCESS /\ same_target (snd (add_base false rel base)) rel.
Proof.
  intros Hr Hb Hw Hk. unfold add_base, add_base_impl.
  destruct (scheme base) as [sb|]; [|congruence]. cbv zeta.
  destruct (scheme rel) as [sr|] eqn:Esr; [|congruence]. cbn [is_some andb negb fst snd].
  split; [reflexivity|].
  unfold same_target. rewrite !canon10_nf.
  rewrite rds_nf, fixamb_nf, fixtrail_nf. autorewrite with uri_db. usimpl.
  rewrite (canon_path _ _ _ (wf_host_abs rel Hw) (rds_p_nodots _ _ _)).
  destruct rel as [sc ui ht i4 i6 ifu po ps qu fr ab ow]. cbn [scheme] in Esr. subst sc.
  unfold one_kind in Hk. usimpl. cbn [ip4 ip6 ipFuture] in Hk.
  destruct i4, i6, ifu; try discriminate Hk; reflexivity.
Qed.

Theorem roundtrip_copy_target m src base : scheme src <> None -> scheme base <> None ->
  range_eqb (scheme src) (scheme base) = false
  \/ (equals_authority src base = false /\ is_host_set src = false /\ is_host_set base = true) ->
  wf src = true -> one_kind src = true ->
  let r := snd (remove_base m src base) in
  fst (add_base false r base) = URI_SUCCESS /\ same_target (snd (add_base false r base)) src.
Proof.
  intros Hs Hb Hc Hw Hk. cbv zeta. rewrite (remove_base_nf m src base Hs Hb). cbn [snd].
  assert (rb_body m src base = copy_path (copy_authority (set_scheme (scheme src) empty_uri) src) src) as E.
  { unfold rb_body. destruct Hc as [Hc|(H1 & H2 & H3)].
    - rewrite Hc. reflexivity.
    - destruct (range_eqb (scheme src) (scheme base)); [|reflexivity]. cbn [negb].
      rewrite H1, H2, H3. reflexivity. }
  rewrite E, (copied_is_source src Hk).
  destruct (add_base_absolute_ref_target (set_owner false src) base Hs Hb Hw Hk) as [A1 A2].
  split; [exact A1|]. unfold same_target in *. rewrite A2.
  apply canon10_components. reflexivity.
Qed.

Lemma add_base_network_ref_target rel base : scheme rel = None -> is_host_set rel = true -> scheme base <> None ->
  one_kind rel = true ->
  fst (add_base false rel base) = URI_SUCCESS
  /\ same_target (snd (add_base false rel base)) (set_scheme (scheme base) rel).
Proof.
  intros Hr Hh Hb Hk. unfold add_base, add_base_impl.
  destruct (scheme base) as [sb|]; [|congruence]. cbv zeta.
  rewrite Hr. cbn [is_some andb fst snd]. rewrite Hh.
  split; [reflexivity|].
  unfold same_target. rewrite !canon10_nf.
  rewrite rds_nf, fixtrail_nf. autorewrite with uri_db. usimpl.
  rewrite Hh. cbn [fixtrail_p negb]. rewrite (rds_p_fixed _ _ _ (rds_p_nodots _ _ _)).
  destruct rel as [sc ui ht i4 i6 ifu po ps qu fr ab ow].
  unfold one_kind in Hk. usimpl. cbn [ip4 ip6 ipFuture] in Hk.
  destruct i4, i6, ifu; try discriminate Hk; reflexivity.
Qed.

Theorem roundtrip_other_authority_target m src base : scheme src <> None -> scheme base <> None ->
  range_eqb (scheme src) (scheme base) = true -> equals_authority src base = false ->
  is_host_set src = true -> wf src = true -> one_kind src = true ->
  let r := snd (remove_base m src base) in
  fst (add_base false r base) = URI_SUCCESS /\ same_target (snd (add_base false r base)) src.
Proof.
  intros Hs Hb He Ea Hh Hw Hk. cbv zeta. rewrite (remove_base_nf m src base Hs Hb). cbn [snd].
  unfold rb_body. rewrite He, Ea, Hh. cbn [negb andb]. rewrite (copied_noscheme src Hk).
  destruct (add_base_network_ref_target (set_owner false (set_scheme None src)) base eq_refl Hh Hb Hk) as [A1 A2].
  split; [exact A1|]. unfold same_target in *. rewrite A2.
  apply canon10_components. rewrite <- (scheme_eq_of_range src base Hw He).
  destruct src as [sc ui ht i4 i6 ifu po ps qu fr ab ow]. reflexivity.
Qed.

(* domain-root mode *)
Lemma rds_p_guarded h a s : s <> [] -> rds_p h a ([46] :: s) = rds_p h a s.
Proof.
  intros Hne. destruct s as [|x l]; [congruence|]. unfold rds_p. rewrite walk_false_cons.
  change (seg_dot [46]) with true. reflexivity.
Qed.

Lemma rds_p_fixamb h a h' a' s : rds_p h a (fixamb_p h' a' s) = rds_p h a s.
Proof.
  unfold fixamb_p. destruct a'; destruct s as [|[|c x] [|[|c2 y] l]]; try reflexivity;
    try (apply rds_p_guarded; discriminate).
  destruct h'; [reflexivity|apply rds_p_guarded; discriminate].
Qed.

Theorem roundtrip_domain_root_any src base : scheme src <> None -> scheme base <> None ->
  range_eqb (scheme src) (scheme base) = true -> equals_authority src base = true ->
  is_host_set src = is_host_set base -> (is_host_set src = false -> absolutePath src = true) ->
  wf src = true ->
  let r := snd (remove_base true src base) in
  let back := snd (add_base false r base) in
  fst (add_base false r base) = URI_SUCCESS
  /\ scheme back = scheme src
  /\ auth_fields back = auth_fields (copy_authority empty_uri base)
  /\ pathSegs (canon10 back) = pathSegs (canon10 src)
  /\ absolutePath back = absolutePath src
  /\ query back = query src /\ fragment back = fragment src.
Proof.
  intros Hs Hb He Ea Hhost Hroot Hw. cbv zeta.
  rewrite (remove_base_nf true src base Hs Hb). cbn [snd].
  rewrite (rb_body_domain_root src base He Ea).
  set (P := fixamb_p false true (fixtrail_p false (pathSegs src))).
  set (r := set_fragment (fragment src) (set_query (query src) (set_pathSegs P (set_absolutePath true (copy_path empty_uri src))))).
  assert (scheme r = None) as R1 by reflexivity.
  assert (is_host_set r = false) as R2 by reflexivity.
  assert (absolutePath r = true) as R3 by reflexivity.
  split; [rewrite (add_base_abs_ref r base R1 R2 R3 Hb); reflexivity|].
  destruct (back_fields_abs r base R1 R2 R3 Hb) as (B1 & B2 & B3 & B4 & B5 & B6).
  split; [rewrite B1; symmetry; exact (scheme_eq_of_range src base Hw He)|].
  split; [exact B2|].
  change (pathSegs r) with P in B3.
  assert (absolutePath src = negb (is_host_set src)) as Eabs.
  { destruct (is_host_set src) eqn:Hh; [exact (wf_host_abs src Hw Hh)|exact (Hroot eq_refl)]. }
  split.
  { rewrite !canon10_nf. usimpl.
    rewrite (host_of_auth_fields _ _ B2), host_copy_authority, B4, B3, <- Hhost, Eabs.
    destruct (is_host_set src) eqn:Hh; cbn [negb].
    - rewrite fixamb_host. cbn [fixtrail_p negb]. rewrite (rds_p_fixed _ _ _ (rds_p_nodots _ _ _)).
      subst P. rewrite fixamb_fixtrail_abs.
      destruct (pathSegs src) as [|[|c x] [|y l]]; cbn [fixamb_p]; reflexivity.
    - subst P. rewrite rds_p_fixamb.
      etransitivity; [apply canon_path; [discriminate|apply rds_p_nodots]|apply trail_fixtrail]. }
  split; [rewrite B4, <- Hhost, Eabs; reflexivity|]. split; [rewrite B5|rewrite B6]; reflexivity.
Qed.

Theorem roundtrip_domain_root_any_target src base : scheme src <> None -> scheme base <> None ->
  range_eqb (scheme src) (scheme base) = true -> equals_authority src base = true ->
  is_host_set src = is_host_set base -> (is_host_set src = false -> absolutePath src = true) ->
  wf src = true -> one_kind base = true -> auth_fields src = auth_fields base ->
  same_target (snd (add_base false (snd (remove_base true src base)) base)) src.
Proof.
  intros Hs Hb He Ea Hhost Hroot Hw Hk Ha.
  destruct (roundtrip_domain_root_any src base Hs Hb He Ea Hhost Hroot Hw) as (_ & B1 & B2 & B3 & B4 & B5 & B6).
  unfold same_target. apply components_fields.
  - rewrite !canon10_nf. exact B1.
  - rewrite !canon10_nf. autorewrite with af_db. rewrite B2, Ha. apply auth_fields_copy. exact Hk.
  - exact B3.
  - rewrite !canon10_nf. exact B4.
  - rewrite !canon10_nf. exact B5.
  - rewrite !canon10_nf. exact B6.
Qed.

(* ---------------------------------------------------------------- equal paths: the empty reference *)
Lemma add_base_empty_ref rel base : scheme base <> None -> scheme rel = None ->
  is_host_set rel = false -> absolutePath rel = false -> pathSegs rel = [] ->
  add_base false rel base
  = (URI_SUCCESS,
     set_fragment (fragment rel) (fix_empty_trail_segment (set_scheme (scheme base)
       (set_query (match query rel with Some q => Some q | None => query base end)
          (copy_path (copy_authority empty_uri base) base))))).
Proof.
  intros Hb Hs Hh Ha Hp. unfold add_base, add_base_impl.
  destruct (scheme base) as [sb|]; [|congruence]. cbv zeta.
  rewrite Hs. cbn [is_some andb]. rewrite Hh, Ha, Hp. reflexivity.
Qed.

Theorem roundtrip_same_path src base : scheme src <> None -> scheme base <> None ->
  range_eqb (scheme src) (scheme base) = true -> equals_authority src base = true ->
  is_host_set src = is_host_set base -> absolutePath src = absolutePath base ->
  skip_common (pathSegs src) (pathSegs base) = ([], []) ->
  is_some (query base) && negb (is_some (query src)) = false ->
  forallb nonul (pathSegs src) = true -> wf src = true ->
  let r := snd (remove_base false src base) in
  let back := snd (add_base false r base) in
  fst (add_base false r base) = URI_SUCCESS
  /\ scheme back = scheme src
  /\ auth_fields back = auth_fields (copy_authority empty_uri base)
  /\ pathSegs (canon10 back) = pathSegs (canon10 src) /\ absolutePath back = absolutePath src
  /\ query back = query src /\ fragment back = fragment src.
Proof.
  intros Hs Hb He Ea Hhost Habs Hk Hq Hnul Hw. cbv zeta.
  rewrite (rb_walk src base [] [] Hs Hb He Ea Hk). cbn [parents rest_segments app].
  set (r := set_fragment (fragment src) (set_query (query src) (set_pathSegs [] empty_uri))).
  rewrite (add_base_empty_ref r base Hb eq_refl eq_refl eq_refl eq_refl). cbn [fst snd].
  destruct (skip_common_split _ _ _ _ Hk) as (c & cb & Eps & Epb & Ecc).
  rewrite app_nil_r in Eps, Epb. subst c cb.
  pose proof (seg_req_eq _ _ Hnul Ecc) as Epath.
  split; [reflexivity|].
  split; [rewrite fixtrail_nf; usimpl; symmetry; exact (scheme_eq_of_range src base Hw He)|].
  split; [rewrite fixtrail_nf; reflexivity|].
  split.
  { rewrite !canon10_nf. rewrite fixtrail_nf. autorewrite with uri_db. usimpl.
    rewrite <- Hhost, <- Habs, <- Epath. apply trail_fixtrail. }
  split; [rewrite fixtrail_nf; usimpl; symmetry; exact Habs|].
  split; [|rewrite fixtrail_nf; reflexivity].
  rewrite fixtrail_nf. usimpl.
  destruct (query src) as [q|]; [reflexivity|]. destruct (query base); [discriminate Hq|reflexivity].
Qed.

(* ---------------------------------------------------------------- the round trip outside the failing shapes *)
(* objects as the parser makes them, with a registered name as host if any: well formed, no IP data
   (a literal may be spelled in several ways, and the result carries the base's spelling), no NUL in the
   authority texts and the segments, user info and port only together with a host *)
Definition c10_good (u : uri) : bool :=
  wf u && no_ip u && auth_nonul u && forallb nonul (pathSegs u)
  && (is_host_set u || (negb (is_some (userInfo u)) && negb (is_some (portText u)))).

(* what is asked of the base: well formed, user info and port only together with a host.  Nothing about
   its host kind: when uriEqualsAuthority says "equal" and the source has no IP data, the base has none
   either (equal_authority_no_ip); otherwise the reference does not depend on the base's authority *)
Definition c10_base (u : uri) : bool :=
  wf u && (is_host_set u || (negb (is_some (userInfo u)) && negb (is_some (portText u)))).

(* the shapes on which reference creation is known not to round-trip *)
Definition c10_failing_shape (m : bool) (s b : uri) : bool :=
  if negb (range_eqb (scheme s) (scheme b)) then false
  else if negb (equals_authority s b) then false
  else if m then negb (is_host_set s) && negb (absolutePath s)     (* domain-root mode, rootless source *)
  else if negb (is_host_set s) && negb (Bool.eqb (absolutePath s) (absolutePath b)) then true   (* rooted / rootless *)
  else
    let '(s', b') := skip_common (pathSegs s) (pathSegs b) in
    match s', b' with
    | [], [] => is_some (query b) && negb (is_some (query s))       (* equal paths, only the base has a query *)
    | [], _ => true                                                  (* source path a prefix of the base path *)
    | _, [] => true                                                  (* base path a prefix of the source path *)
    | _, _ => negb (forallb nodot b')                                (* dot segment in the rest of the base path *)
    end.

Lemma no_ip_one_kind u : no_ip u = true -> one_kind u = true.
Proof. unfold no_ip, one_kind. destruct (ip4 u), (ip6 u), (ipFuture u); intros H; try discriminate H; reflexivity. Qed.

Lemma hostless_equal_authority a b : is_host_set a = false -> is_host_set b = false ->
  is_some (userInfo a) = false -> is_some (portText a) = false ->
  is_some (userInfo b) = false -> is_some (portText b) = false ->
  equals_authority a b = true.
Proof.
  unfold is_host_set, equals_authority. intros Ha Hb U1 P1 U2 P2.
  destruct (hostText a), (ip4 a), (ip6 a), (ipFuture a); try discriminate Ha.
  destruct (hostText b), (ip4 b), (ip6 b), (ipFuture b); try discriminate Hb.
  destruct (userInfo a); [discriminate U1|]. destruct (portText a); [discriminate P1|].
  destruct (userInfo b); [discriminate U2|]. destruct (portText b); [discriminate P2|].
  reflexivity.
Qed.

(* a host without IP data only equals a host without IP data (uriEqualsAuthority refuses to compare a
   registered name with the text of an IP literal) *)
Lemma equal_authority_no_ip a b : no_ip a = true -> equals_authority a b = true -> no_ip b = true.
Proof.
  unfold no_ip, equals_authority. intros Na He.
  destruct (ip4 a); [discriminate Na|]. destruct (ip6 a); [discriminate Na|]. destruct (ipFuture a); [discriminate Na|].
  apply andb_true_iff in He. destruct He as [_ He].
  destruct (ip4 b); [discriminate He|]. destruct (ip6 b); [discriminate He|]. destruct (ipFuture b); [discriminate He|].
  reflexivity.
Qed.

Lemma equal_authority_fields_no_ip a b : no_ip a = true -> auth_nonul a = true ->
  equals_authority a b = true -> auth_fields a = auth_fields b.
Proof.
  intros Na Hn He. pose proof (equal_authority_no_ip a b Na He) as Nb.
  apply (equals_authority_fields a b Hn) in He. destruct He as (E1 & E2 & E3).
  unfold host_same in E3. unfold no_ip in Na, Nb. unfold auth_fields.
  destruct (ip4 a); [discriminate Na|]. destruct (ip6 a); [discriminate Na|]. destruct (ipFuture a); [discriminate Na|].
  destruct (ip4 b); [discriminate Nb|]. destruct (ip6 b); [discriminate Nb|]. destruct (ipFuture b); [discriminate Nb|].
  destruct E3 as [E3 _]. rewrite E1, E2, E3. reflexivity.
Qed.

Lemma c10_good_base u : c10_good u = true -> c10_base u = true.
Proof.
  unfold c10_good, c10_base. intros G.
  apply andb_true_iff in G. destruct G as [G U]. apply andb_true_iff in G. destruct G as [G _].
  apply andb_true_iff in G. destruct G as [G _]. apply andb_true_iff in G. destruct G as [W _].
  rewrite W, U. reflexivity.
Qed.

Theorem roundtrip_carved m src base : c10_good src = true -> c10_base base = true ->
  scheme src <> None -> scheme base <> None -> c10_failing_shape m src base = false ->
  let r := snd (remove_base m src base) in
  fst (remove_base m src base) = URI_SUCCESS
  /\ fst (add_base false r base) = URI_SUCCESS
  /\ same_target (snd (add_base false r base)) src.
Proof.
  unfold c10_good. intros Gs Gb Hs Hb Hshape. cbv zeta.
  split; [exact (remove_base_success m src base Hs Hb)|].
  apply andb_true_iff in Gs. destruct Gs as [Gs Us]. apply andb_true_iff in Gs. destruct Gs as [Gs Nps].
  apply andb_true_iff in Gs. destruct Gs as [Gs Ans]. apply andb_true_iff in Gs. destruct Gs as [Ws Is].
  unfold c10_base in Gb. apply andb_true_iff in Gb. destruct Gb as [Wb Ub].
  pose proof (no_ip_one_kind src Is) as Ks.
  unfold c10_failing_shape in Hshape.
  destruct (range_eqb (scheme src) (scheme base)) eqn:He; cbn [negb] in Hshape.
  2:{ exact (roundtrip_copy_target m src base Hs Hb (or_introl He) Ws Ks). }
  destruct (equals_authority src base) eqn:Ea; cbn [negb] in Hshape.
  2:{ destruct (is_host_set src) eqn:Hhs.
      - exact (roundtrip_other_authority_target m src base Hs Hb He Ea Hhs Ws Ks).
      - destruct (is_host_set base) eqn:Hhb.
        + exact (roundtrip_copy_target m src base Hs Hb (or_intror (conj Ea (conj Hhs Hhb))) Ws Ks).
        + exfalso. cbn [orb] in Us, Ub.
          apply andb_true_iff in Us. destruct Us as [U1 U2]. apply negb_true_iff in U1. apply negb_true_iff in U2.
          apply andb_true_iff in Ub. destruct Ub as [U3 U4]. apply negb_true_iff in U3. apply negb_true_iff in U4.
          rewrite (hostless_equal_authority src base Hhs Hhb U1 U2 U3 U4) in Ea. discriminate Ea. }
  pose proof (equal_authority_no_ip src base Is Ea) as Ib. pose proof (no_ip_one_kind base Ib) as Kb.
  pose proof (equal_authority_fields_no_ip src base Is Ans Ea) as Eaf.
  pose proof (host_of_auth_fields _ _ Eaf) as Hhost.
  destruct m.
  - (* domain-root mode *)
    assert (is_host_set src = false -> absolutePath src = true) as Hroot.
    { intros Hh. rewrite Hh in Hshape. cbn [negb andb] in Hshape. apply negb_false_iff in Hshape. exact Hshape. }
    split.
    + exact (proj1 (roundtrip_domain_root_any src base Hs Hb He Ea Hhost Hroot Ws)).
    + exact (roundtrip_domain_root_any_target src base Hs Hb He Ea Hhost Hroot Ws Kb Eaf).
  - destruct (negb (is_host_set src) && negb (Bool.eqb (absolutePath src) (absolutePath base))) eqn:Eroot;
      [discriminate Hshape|].
    assert (is_host_set src || Bool.eqb (absolutePath src) (absolutePath base) = true) as Hrk.
    { destruct (is_host_set src); [reflexivity|]. cbn [negb andb orb] in *. apply negb_false_iff in Eroot. exact Eroot. }
    destruct (skip_common (pathSegs src) (pathSegs base)) as [s' b'] eqn:Hk.
    destruct s' as [|x s']; destruct b' as [|y b']; try discriminate Hshape.
    + (* equal paths *)
      assert (absolutePath src = absolutePath base) as Habs.
      { destruct (is_host_set src) eqn:Hhs.
        - rewrite (wf_host_abs src Ws Hhs). symmetry in Hhost. rewrite (wf_host_abs base Wb Hhost). reflexivity.
        - cbn [orb] in Hrk. apply eqb_prop in Hrk. exact Hrk. }
      destruct (roundtrip_same_path src base Hs Hb He Ea Hhost Habs Hk Hshape Nps Ws)
        as (A0 & B1 & B2 & B3 & B4 & B5 & B6).
      split; [exact A0|].
      unfold same_target. apply components_fields.
      * rewrite !canon10_nf. exact B1.
      * rewrite !canon10_nf. autorewrite with af_db. rewrite B2, Eaf. apply auth_fields_copy. exact Kb.
      * exact B3.
      * rewrite !canon10_nf. exact B4.
      * rewrite !canon10_nf. exact B5.
      * rewrite !canon10_nf. exact B6.
    + (* the walk *)
      apply negb_false_iff in Hshape.
      assert (walk_ok_dotted src base = true) as Hwalk.
      { unfold walk_ok_dotted. rewrite Hk. cbn [fst snd nonnil].
        rewrite He, Ea, Hhost, eqb_reflx, Hshape, Nps, Ws, Wb. rewrite <- Hhost, Hrk.
        destruct (scheme src); [|congruence]. destruct (scheme base); [|congruence]. reflexivity. }
      split.
      * exact (proj1 (proj2 (roundtrip_walk_dotted src base Hwalk))).
      * exact (roundtrip_walk_dotted_target src base Hwalk Kb Eaf).
Qed.

(* ---------------------------------------------------------------- 7. the unrestricted round trip is false *)
(* S and B parse, are absolute, well formed and free of dot segments; creating the reference and resolving
   it both succeed; the result is not S, even after dot-segment normalization and with "" = "/" under an
   authority *)
Definition round_trip_fails (m : bool) (S B : string) : Prop :=
  let s := uri_of S in
  let b := uri_of B in
  let r := snd (remove_base m s b) in
  to_text s = txt S /\ to_text b = txt B
  /\ scheme s <> None /\ scheme b <> None /\ wf s = true /\ wf b = true
  /\ forallb nodot (pathSegs s) = true
  /\ fst (remove_base m s b) = URI_SUCCESS /\ fst (add_base false r b) = URI_SUCCESS
  /\ ~ same_target (snd (add_base false r b)) s.

Ltac fails_by_computation :=
  unfold round_trip_fails; cbv zeta;
  repeat (split; [first [vm_compute; reflexivity | vm_compute; discriminate]|]);
  unfold same_target; let E := fresh "E" in intros E; vm_compute in E; discriminate E.

Lemma fails_D8a : round_trip_fails false "s://h/a/b" "s://h/a".   Proof. fails_by_computation. Qed.
Lemma fails_D8b : round_trip_fails false "s://h/a" "s://h/a/b/c". Proof. fails_by_computation. Qed.
Lemma fails_D8c : round_trip_fails false "s://h/a" "s://h/a?q".   Proof. fails_by_computation. Qed.
Lemma fails_D8d : round_trip_fails false "s:/a" "s:b".            Proof. fails_by_computation. Qed.
Lemma fails_D8f : round_trip_fails true "s:a" "s:b".              Proof. fails_by_computation. Qed.
(* the base has a dot segment below the common prefix: "../b" resolves to s://h/b *)
Lemma fails_dotted_base : round_trip_fails false "s://h/a/b" "s://h/a/./x". Proof. fails_by_computation. Qed.

Theorem roundtrip_refuted :
  round_trip_fails false "s://h/a/b" "s://h/a"
  /\ round_trip_fails false "s://h/a" "s://h/a/b/c"
  /\ round_trip_fails false "s://h/a" "s://h/a?q"
  /\ round_trip_fails false "s:/a" "s:b"
  /\ round_trip_fails true "s:a" "s:b".
Proof. exact (conj fails_D8a (conj fails_D8b (conj fails_D8c (conj fails_D8d fails_D8f)))). Qed.

Theorem roundtrip_refuted_exists : exists m src base,
  scheme src <> None /\ scheme base <> None /\ wf src = true /\ wf base = true
  /\ fst (add_base false (snd (remove_base m src base)) base) = URI_SUCCESS
  /\ ~ same_target (snd (add_base false (snd (remove_base m src base)) base)) src.
Proof.
  exists false, (uri_of "s://h/a/b"), (uri_of "s://h/a").
  destruct fails_D8a as (_ & _ & H1 & H2 & H3 & H4 & _ & _ & H5 & H6). repeat split; assumption.
Qed.

(* what the five resolve back to *)
Definition back_text (m : bool) (S B : string) : text :=
  to_text (snd (add_base false (snd (remove_base m (uri_of S) (uri_of B))) (uri_of B))).
Definition ref_text (m : bool) (S B : string) : text := to_text (snd (remove_base m (uri_of S) (uri_of B))).

Lemma refuted_texts :
  back_text false "s://h/a/b" "s://h/a" = txt "s://h/b"
  /\ back_text false "s://h/a" "s://h/a/b/c" = txt "s://h/a/"
  /\ back_text false "s://h/a" "s://h/a?q" = txt "s://h/a?q"
  /\ back_text false "s:/a" "s:b" = txt "s:a"
  /\ back_text true "s:a" "s:b" = txt "s:/a"
  /\ back_text false "s://h/a/b" "s://h/a/./x" = txt "s://h/b".
Proof. vm_compute. repeat split. Qed.

(* the classes of Proofs/Findings10.v under which the run-time check files them *)
Lemma witness_classes :
  c10_class false (uri_of "s://h/a/b") (uri_of "s://h/a") = 7
  /\ c10_class false (uri_of "s://h/a") (uri_of "s://h/a/b/c") = 6
  /\ c10_class false (uri_of "s://h/a") (uri_of "s://h/a?q") = 5
  /\ c10_class false (uri_of "s:/a") (uri_of "s:b") = 4
  /\ c10_class true (uri_of "s:a") (uri_of "s:b") = 3.
Proof. vm_compute. repeat split. Qed.

(* every clause of c10_failing_shape holds a real failure; the witnesses are objects of the kind the
   carved theorem is about *)
Definition in_failing_shape (m : bool) (S B : string) : bool :=
  c10_good (uri_of S) && c10_good (uri_of B) && c10_failing_shape m (uri_of S) (uri_of B).

Lemma failing_shape_witnesses :
  in_failing_shape false "s://h/a/b" "s://h/a" = true
  /\ in_failing_shape false "s://h/a" "s://h/a/b/c" = true
  /\ in_failing_shape false "s://h/a" "s://h/a?q" = true
  /\ in_failing_shape false "s:/a" "s:b" = true
  /\ in_failing_shape true "s:a" "s:b" = true
  /\ in_failing_shape false "s://h/a/b" "s://h/a/./x" = true.
Proof. vm_compute. repeat split. Qed.

(* the clauses of walk_ok that no parsed text needs, on objects: each is dropped in turn (the other
   clauses hold) and the path of the result is not the source's *)
Definition obj (host : option text) (abs : bool) (p : list text) : uri :=
  mkUri (Some [115]) None host None None None None p None None abs false.
Definition back_path (s b : uri) : list text :=
  pathSegs (snd (add_base false (snd (remove_base false s b)) b)).

Lemma walk_ok_object_clauses :
  (* NUL in a common segment: uriCompareRange equates "a\0b" and "a\0c" *)
  (let s := obj (Some [104]) false [[97; 0; 98]; [120]] in
   let b := obj (Some [104]) false [[97; 0; 99]; [121]] in
   walk_ok_dotted s b = false /\ walk_ok_dotted (obj (Some [104]) false [[97; 98]; [120]]) (obj (Some [104]) false [[97; 98]; [121]]) = true
   /\ back_path s b = [[97; 0; 99]; [120]])
  (* the host-less source whose path is the single empty segment: resolution drops the segment *)
  /\ (let s := obj None true [[]] in
      let b := obj None true [[97]] in
      walk_ok_dotted s b = true /\ walk_ok s b = false /\ back_path s b = []).
Proof. vm_compute. repeat split. Qed.

(* ---------------------------------------------------------------- 8. the reference holds no lone empty segment *)
(* [lone_empty_hostless] (Spec/NormalWf.v): no host, the path is exactly one empty segment -- the object
   uriFixEmptyTrailSegment removes.  Since uriRemoveBaseUriMm calls it in domain-root mode (the repair
   of the "lone empty segment" witness of Props/C11text.v) the reference has this shape only when it is
   a copy of a source that has it. *)
Lemma lone_fixtrail u : lone_empty_hostless (fix_empty_trail_segment u) = false.
Proof.
  rewrite fixtrail_nf. unfold lone_empty_hostless, fixtrail_p. autorewrite with uri_db. usimpl.
  destruct (is_host_set u); [reflexivity|]. cbn [negb andb].
  destruct (pathSegs u) as [|[|c x] [|y l]]; reflexivity.
Qed.

Lemma lone_fixamb u : lone_empty_hostless (fix_ambiguity u) = lone_empty_hostless u.
Proof.
  rewrite fixamb_nf. unfold lone_empty_hostless, fixamb_p. autorewrite with uri_db. usimpl.
  destruct (is_host_set u); [reflexivity|]. cbn [negb andb].
  destruct (absolutePath u); destruct (pathSegs u) as [|[|c x] [|[|c2 y] l]]; reflexivity.
Qed.

Lemma lone_query_fragment q f u :
  lone_empty_hostless (set_fragment f (set_query q u)) = lone_empty_hostless u.
Proof. reflexivity. Qed.

Lemma lone_copy d src : lone_empty_hostless (copy_path (copy_authority d src) src) = lone_empty_hostless src.
Proof.
  unfold lone_empty_hostless. autorewrite with uri_db.
  destruct src as [sc ui ht i4 i6 ifu po ps qu fr ab ow]. reflexivity.
Qed.

(* the list the walk builds is never the single empty segment *)
Lemma walk_segments_not_lone b s :
  match parents b ++ rest_segments (match parents b with [] => true | _ => false end) s with
  | [[]] => true | _ => false
  end = false.
Proof.
  destruct (parents b) as [|u ups] eqn:Eu.
  - cbn [app]. unfold rest_segments. destruct s as [|[|c x] s']; [reflexivity| |].
    + cbn [andb orb app]. rewrite orb_true_r. reflexivity.
    + cbn [andb]. destruct (has_colon (c :: x) || false); reflexivity.
  - assert (u = dd) as ->.
    { pose proof (parents_repeat b) as Hr. rewrite Eu in Hr.
      destruct (length (removelast b)); cbn [repeat] in Hr; [discriminate Hr|]. injection Hr as Hu _. exact Hu. }
    reflexivity.
Qed.

(* same scheme, same authority (either mode): never, whatever the source and the base are *)
Theorem remove_base_same_authority_no_lone_empty m src base :
  range_eqb (scheme src) (scheme base) = true -> equals_authority src base = true ->
  lone_empty_hostless (snd (remove_base m src base)) = false.
Proof.
  intros He Ea. unfold remove_base, remove_base_impl.
  destruct (scheme base) as [sb|] eqn:Esb; [|reflexivity]. destruct (scheme src) as [ss|] eqn:Ess; [|reflexivity].
  cbn [snd]. rewrite lone_query_fragment, He, Ea. cbn [negb].
  destruct m.
  - rewrite lone_fixamb. apply lone_fixtrail.
  - destruct (skip_common (pathSegs src) (pathSegs base)) as [s b].
    unfold lone_empty_hostless. usimpl. exact (walk_segments_not_lone b s).
Qed.

(* in general: only as a copy of a source of that shape.  No hypothesis on the base, none on the
   source but the one named; the result of a failed call is the empty object *)
Theorem remove_base_no_lone_empty m src base : lone_empty_hostless src = false ->
  lone_empty_hostless (snd (remove_base m src base)) = false.
Proof.
  intros Hl.
  destruct (range_eqb (scheme src) (scheme base)) eqn:He;
    [destruct (equals_authority src base) eqn:Ea;
       [exact (remove_base_same_authority_no_lone_empty m src base He Ea)|]|];
    unfold remove_base, remove_base_impl;
    (destruct (scheme base) as [sb|] eqn:Esb; [|reflexivity]); (destruct (scheme src) as [ss|] eqn:Ess; [|reflexivity]);
    cbn [snd]; rewrite lone_query_fragment, He, ?Ea; cbn [negb]; rewrite lone_copy; exact Hl.
Qed.

(* exactly: the reference has the shape iff the call succeeds, the source has the shape, and the
   reference is a copy of the source (other scheme or other authority) *)
Theorem remove_base_lone_empty_iff m src base :
  lone_empty_hostless (snd (remove_base m src base)) = true <->
  scheme src <> None /\ scheme base <> None /\ lone_empty_hostless src = true
  /\ (range_eqb (scheme src) (scheme base) = false \/ equals_authority src base = false).
Proof.
  split.
  - intros H.
    destruct (scheme base) as [sb|] eqn:Esb.
    2:{ rewrite (remove_base_rel_base m src base Esb) in H. discriminate H. }
    destruct (scheme src) as [ss|] eqn:Ess.
    2:{ rewrite (remove_base_rel_source m src base) in H; [discriminate H|congruence|exact Ess]. }
    split; [discriminate|]. split; [discriminate|].
    destruct (lone_empty_hostless src) eqn:Hl.
    2:{ rewrite (remove_base_no_lone_empty m src base Hl) in H. discriminate H. }
    split; [reflexivity|].
    destruct (range_eqb (Some ss) (Some sb)) eqn:He; [|left; reflexivity].
    destruct (equals_authority src base) eqn:Ea; [|right; reflexivity].
    rewrite <- Ess, <- Esb in He.
    rewrite (remove_base_same_authority_no_lone_empty m src base He Ea) in H. discriminate H.
  - intros (Hs & Hb & Hl & Hc). rewrite (remove_base_nf m src base Hs Hb). cbn [snd].
    rewrite lone_query_fragment. unfold rb_body.
    destruct (range_eqb (scheme src) (scheme base)) eqn:He; cbn [negb]; [|rewrite lone_copy; exact Hl].
    destruct Hc as [Hc|Hc]; [discriminate Hc|]. rewrite Hc. cbn [negb]. cbv zeta. rewrite lone_copy. exact Hl.
Qed.
