(* The character switch of uriDissectQueryMallocExMm (UriQuery.c), translated from the source, against
   the case split of Model/Query.v (dissect_walk branches on '&' and '='). *)
From Coq Require Import List NArith Bool Lia String ZifyBool ZifyN.
From UP Require Import Base.Chars Base.Regex Base.Atoms Generated.SwitchTables Proofs.SwitchBase.
Import ListNotations.
Local Open Scope N_scope.

Definition dissect_class (c : N) : N := if c =? 38 then 1 else if c =? 61 then 2 else 0.

Lemma dissect_class_big c : 256 <= c -> dissect_class c = dissect_class 256.
Proof.
  intros H. unfold dissect_class.
  repeat match goal with |- context [if ?b then _ else _] =>
    let E := fresh "E" in destruct b eqn:E; try (exfalso; lia) end; reflexivity.
Qed.

Definition t_dissect := table "UriQuery.c:uriDissectQueryMallocExMm#1".

Theorem dissect_switch :
  (forall c, In c (concat t_dissect) <-> (c =? 38) || (c =? 61) = true)
  /\ (forall c d, dissect_class c = dissect_class d -> group_of t_dissect c = group_of t_dissect d).
Proof.
  split.
  - apply (set_is_sound _ (fun c => (c =? 38) || (c =? 61))); [intros c H; lia|vm_compute; reflexivity].
  - apply (refines_cls_sound _ _ dissect_class_big). vm_compute. reflexivity.
Qed.
