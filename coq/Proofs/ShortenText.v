(* C10 for parsed texts: the round-trip theorems of Proofs/ShortenProofs.v for the objects parsed from two
   texts, with the object-level hypotheses the parser guarantees discharged (wf, one host kind, no NUL,
   no lone empty segment, user info / port only with a host), every host kind (the results are compared
   as the texts uriToString writes, so the spelling of an IP literal does not matter).

   History: lifting the restriction to hosts without IP data exposed a failing shape (the source's
   registered name is the text of the base's IPvFuture literal: uriEqualsAuthority compared "v1.x" with the
   host text of "[v1.x]").  uriEqualsAuthority was repaired (src/UriShorten.c, Model/Shorten.v): a registered
   name is only compared with a host without IP data.  The hypothesis that excluded the shape is gone;
   equals_authority_same_kind and the positive example roundtrip_regname_vs_literal remain.

     1. what the parser guarantees;  2. what uriToString reads of an object;  3. a shared authority;
     4. the walk (walk_shape);  5. the carved round trip for every host kind;  6. witnesses *)
From Coq Require Import List NArith Bool String.
From UP Require Import Base.Chars Model.Uri Model.Common Model.Compare Model.Resolve Model.Shorten
  Model.Recompose Model.Parse Model.Ip4 Spec.NormalWf Spec.Unparse Proofs.DotSegments Proofs.ResolveProofs
  Proofs.ShortenProofs Proofs.ResolveText.
From UP Require Spec.Identity Spec.Recompose Proofs.ParseWf Proofs.ParseAssemble Proofs.NormalizeText
  Proofs.CommuteText.
Import ListNotations.
Local Open Scope N_scope.

Module NT := NormalizeText.
Module PA := ParseAssemble.

(* ================================================================ 1. what the parser guarantees *)
Lemma nul_free_nonul t : Identity.nul_free t -> nonul t = true.
Proof.
  unfold Identity.nul_free, nonul. intros H. apply forallb_forall. intros c Hc.
  apply negb_true_iff. apply N.eqb_neq. intros E. subst c. exact (H Hc).
Qed.

Lemma opt_nul_free_onul o : Identity.opt_nul_free o -> onul o = true.
Proof. destruct o as [t|]; [apply nul_free_nonul|reflexivity]. Qed.

Lemma parsed_auth_nonul s u : parse s = POk u -> auth_nonul u = true.
Proof.
  intros H. destruct (ParseWf.parse_wf_equality s u H) as (_ & Hu & Hh & Hf & Hp & _).
  unfold auth_nonul. rewrite (opt_nul_free_onul _ Hu), (opt_nul_free_onul _ Hh), (opt_nul_free_onul _ Hf),
    (opt_nul_free_onul _ Hp). reflexivity.
Qed.

Lemma parsed_nonul_segs s u : parse s = POk u -> forallb nonul (pathSegs u) = true.
Proof.
  intros H. destruct (ParseWf.parse_wf_equality s u H) as (_ & _ & _ & _ & _ & Hg & _).
  apply forallb_forall. intros t Ht. rewrite Forall_forall in Hg. apply nul_free_nonul. exact (Hg t Ht).
Qed.

Lemma parsed_not_lone s u : parse s = POk u -> lone_empty_hostless u = false.
Proof. intros H. exact (proj1 (proj2 (proj2 (ParseWf.parse_wf_normalization s u H)))). Qed.

(* the reference made from a parsed source (any base, either mode) never holds a lone empty segment *)
Lemma remove_base_no_lone_empty_parsed m s S base : parse s = POk S ->
  lone_empty_hostless (snd (remove_base m S base)) = false.
Proof. intros HS. exact (remove_base_no_lone_empty m S base (parsed_not_lone s S HS)). Qed.

Lemma parsed_hostless_bare s u : parse s = POk u -> is_host_set u = false ->
  is_some (userInfo u) = false /\ is_some (portText u) = false.
Proof.
  intros H Hh. destruct (ParseWf.parse_wf s u H) as (_ & Hf & _ & Ha).
  rewrite (ParseWf.wf_is_host_set u Hf) in Hh. unfold auth_ok in Ha.
  destruct (hostText u); [discriminate Hh|]. destruct Ha as [-> ->]. split; reflexivity.
Qed.

(* an object as the parser makes it is [c10_good] as soon as its host is no IP literal or address *)
Theorem parsed_c10_good s u : parse s = POk u -> no_ip u = true -> c10_good u = true.
Proof.
  intros H Hn. unfold c10_good.
  rewrite (parsed_wf s u H), Hn, (parsed_auth_nonul s u H), (parsed_nonul_segs s u H). cbn [andb].
  destruct (is_host_set u) eqn:Hh; [reflexivity|].
  destruct (parsed_hostless_bare s u H Hh) as [-> ->]. reflexivity.
Qed.

(* ... and a base of any host kind *)
Theorem parsed_c10_base s u : parse s = POk u -> c10_base u = true.
Proof.
  intros H. unfold c10_base. rewrite (parsed_wf s u H). cbn [andb].
  destruct (is_host_set u) eqn:Hh; [reflexivity|].
  destruct (parsed_hostless_bare s u H Hh) as [-> ->]. reflexivity.
Qed.

(* ================================================================ 2. what uriToString reads of an object *)
Definition shown (u : uri) :=
  (scheme u, userInfo u, is_host_set u, NT.host_pieces u, portText u, pathSegs u, absolutePath u, query u,
   fragment u).

Definition text_of (sc ui : option text) (hs : bool) (hp : list text) (po : option text) (ps : list text)
  (ab : bool) (q f : option text) : text :=
  concat (opt_pieces [] sc [[58]]
          ++ (if hs then [[47; 47]] ++ opt_pieces [] ui [[64]] ++ hp ++ opt_pieces [[58]] po [] else [])
          ++ (if ab || (negb (match ps with [] => true | _ => false end) && hs) then [[47]] else [])
          ++ path_pieces ps ++ opt_pieces [[63]] q [] ++ opt_pieces [[35]] f []).

Lemma to_text_text_of u :
  to_text u = text_of (scheme u) (userInfo u) (is_host_set u) (NT.host_pieces u) (portText u) (pathSegs u)
                      (absolutePath u) (query u) (fragment u).
Proof. reflexivity. Qed.

Lemma to_text_shown a b : shown a = shown b -> to_text a = to_text b.
Proof.
  unfold shown. intros H. injection H as E1 E2 E3 E4 E5 E6 E7 E8 E9.
  rewrite !to_text_text_of, E1, E2, E3, E4, E5, E6, E7, E8, E9. reflexivity.
Qed.

(* the part of [shown] that the authority fields determine *)
Definition shown_auth (u : uri) := (userInfo u, is_host_set u, NT.host_pieces u, portText u).

Lemma shown_auth_fields a b : auth_fields a = auth_fields b -> shown_auth a = shown_auth b.
Proof.
  unfold auth_fields, shown_auth, NT.host_pieces, is_host_set. intros H.
  injection H as -> -> -> -> -> ->. reflexivity.
Qed.

Lemma shown_parts a b : scheme a = scheme b -> shown_auth a = shown_auth b -> pathSegs a = pathSegs b ->
  absolutePath a = absolutePath b -> query a = query b -> fragment a = fragment b -> shown a = shown b.
Proof.
  unfold shown, shown_auth. intros E1 E2 E3 E4 E5 E6. injection E2 as -> -> -> ->.
  rewrite E1, E3, E4, E5, E6. reflexivity.
Qed.

(* comparing two results as texts, after the cleaning [canon10] of Props/C10.v *)
Definition same_text_target (a b : uri) : Prop := to_text (canon10 a) = to_text (canon10 b).

Lemma same_target_text a b : same_target a b -> same_text_target a b.
Proof. unfold same_target, same_text_target. apply CommuteText.to_text_components. Qed.

Lemma canon10_scheme u : scheme (canon10 u) = scheme u. Proof. rewrite canon10_nf. reflexivity. Qed.
Lemma canon10_abs u : absolutePath (canon10 u) = absolutePath u. Proof. rewrite canon10_nf. reflexivity. Qed.
Lemma canon10_query u : query (canon10 u) = query u. Proof. rewrite canon10_nf. reflexivity. Qed.
Lemma canon10_fragment u : fragment (canon10 u) = fragment u. Proof. rewrite canon10_nf. reflexivity. Qed.
Lemma canon10_shown_auth u : shown_auth (canon10 u) = shown_auth u. Proof. rewrite canon10_nf. reflexivity. Qed.

Lemma same_text_target_parts a b : scheme a = scheme b -> shown_auth a = shown_auth b ->
  pathSegs (canon10 a) = pathSegs (canon10 b) -> absolutePath a = absolutePath b ->
  query a = query b -> fragment a = fragment b -> same_text_target a b.
Proof.
  intros E1 E2 E3 E4 E5 E6. unfold same_text_target. apply to_text_shown. apply shown_parts.
  - rewrite !canon10_scheme. exact E1.
  - rewrite !canon10_shown_auth. exact E2.
  - exact E3.
  - rewrite !canon10_abs. exact E4.
  - rewrite !canon10_query. exact E5.
  - rewrite !canon10_fragment. exact E6.
Qed.

(* ================================================================ 3. a shared authority *)
(* when uriEqualsAuthority says "equal" the two hosts are of the same kind *)
Lemma equals_authority_same_kind a b : one_kind a = true -> one_kind b = true -> equals_authority a b = true ->
  is_some (ip4 a) = is_some (ip4 b) /\ is_some (ip6 a) = is_some (ip6 b)
  /\ is_some (ipFuture a) = is_some (ipFuture b).
Proof.
  unfold one_kind, equals_authority. intros Ka Kb He. apply andb_true_iff in He. destruct He as [_ He].
  destruct (ip4 a), (ip6 a), (ipFuture a); try discriminate Ka;
    destruct (ip4 b), (ip6 b), (ipFuture b); try discriminate Kb; try discriminate He; repeat split.
Qed.

(* ... and uriToString writes the same authority for both: user info, host, port *)
Lemma shared_authority_shown s b S B : parse s = POk S -> parse b = POk B ->
  equals_authority S B = true -> shown_auth B = shown_auth S.
Proof.
  intros HS HB He.
  apply (equals_authority_fields S B (parsed_auth_nonul s S HS)) in He. destruct He as (Eu & Ep & Eh).
  pose proof (parsed_one_kind b B HB) as KB.
  destruct (ParseWf.parse_wf s S HS) as (_ & FS & _ & _). destruct (ParseWf.parse_wf b B HB) as (_ & FB & _ & _).
  pose proof (ParseWf.wf_is_host_set S FS) as HhS. pose proof (ParseWf.wf_is_host_set B FB) as HhB.
  destruct FS as [_ FS]. destruct FB as [_ FB].
  unfold shown_auth. rewrite <- Eu, <- Ep, HhS, HhB. unfold NT.host_pieces.
  unfold host_same in Eh. unfold one_kind in KB.
  destruct (ip4 S) as [x4|] eqn:S4.
  { rewrite Eh in *. destruct (ip6 B), (ipFuture B); try discriminate KB.
    destruct (hostText S); [|exfalso; destruct FS as (F1 & F2 & F3); congruence].
    destruct (hostText B); [|exfalso; destruct FB as (F1 & F2 & F3); congruence]. reflexivity. }
  destruct (ip6 S) as [x6|] eqn:S6.
  { rewrite Eh in *. destruct (ip4 B), (ipFuture B); try discriminate KB.
    destruct (hostText S); [|exfalso; destruct FS as (F1 & F2 & F3); congruence].
    destruct (hostText B); [|exfalso; destruct FB as (F1 & F2 & F3); congruence]. reflexivity. }
  destruct (ipFuture S) as [xf|] eqn:Sf.
  { rewrite Eh in *. destruct (ip4 B), (ip6 B); try discriminate KB.
    destruct (hostText S); [|exfalso; destruct FS as (F1 & F2 & F3); congruence].
    destruct (hostText B); [|exfalso; destruct FB as (F1 & F2 & F3); congruence]. reflexivity. }
  destruct Eh as (Eh & -> & -> & ->). rewrite <- Eh. reflexivity.
Qed.

(* ================================================================ 4. the walk *)
(* [walk_ok] without the four clauses every parsed object meets *)
Definition walk_shape (src base : uri) : bool :=
  is_some (scheme src) && is_some (scheme base)
  && range_eqb (scheme src) (scheme base)
  && equals_authority src base
  && Bool.eqb (is_host_set src) (is_host_set base)
  && (is_host_set src || Bool.eqb (absolutePath src) (absolutePath base))
  && nonnil (fst (skip_common (pathSegs src) (pathSegs base)))
  && nonnil (snd (skip_common (pathSegs src) (pathSegs base)))
  && forallb nodot (pathSegs src)
  && forallb nodot (snd (skip_common (pathSegs src) (pathSegs base))).

Lemma walk_ok_parsed s b S B : parse s = POk S -> parse b = POk B -> walk_ok S B = walk_shape S B.
Proof.
  intros HS HB. unfold walk_ok, walk_shape.
  rewrite (parsed_nonul_segs s S HS), (parsed_wf s S HS), (parsed_wf b B HB), (parsed_not_lone s S HS).
  cbn [negb]. rewrite !andb_true_r. reflexivity.
Qed.

(* what uriToString writes for a parsed object: the text parsed, an IPv6 literal in eight-group form *)
Lemma parsed_to_text s u : parse s = POk u -> to_text u = Spec.Recompose.canon_ip6 s.
Proof. exact (PA.parse_to_text_full s u). Qed.

(* parse, parse, create the reference, resolve it, write: the source text *)
Theorem roundtrip_parsed_walk s b S B : parse s = POk S -> parse b = POk B ->
  walk_shape S B = true ->
  let r := snd (remove_base false S B) in
  let back := snd (add_base false r B) in
  fst (remove_base false S B) = URI_SUCCESS
  /\ fst (add_base false r B) = URI_SUCCESS
  /\ to_text back = Spec.Recompose.canon_ip6 s.
Proof.
  intros HS HB Hw. cbv zeta.
  rewrite <- (walk_ok_parsed s b S B HS HB) in Hw.
  destruct (roundtrip_walk S B Hw) as (A1 & A2 & B1 & B2 & B3 & B4 & B5 & B6).
  split; [exact A1|]. split; [exact A2|].
  rewrite <- (parsed_to_text s S HS). apply to_text_shown. apply shown_parts; try assumption.
  rewrite (shown_auth_fields _ _ B2), (shown_auth_fields _ _ (auth_fields_copy empty_uri B (parsed_one_kind b B HB))).
  assert (equals_authority S B = true) as He.
  { unfold walk_ok in Hw. repeat (apply andb_true_iff in Hw; destruct Hw as [Hw ?]). assumption. }
  exact (shared_authority_shown s b S B HS HB He).
Qed.

Corollary roundtrip_parsed_walk_no_ip6 s b S B : parse s = POk S -> parse b = POk B ->
  walk_shape S B = true -> ip6 S = None ->
  to_text (snd (add_base false (snd (remove_base false S B)) B)) = s.
Proof.
  intros HS HB Hw H6.
  rewrite (proj2 (proj2 (roundtrip_parsed_walk s b S B HS HB Hw))).
  exact (ParseRecompose.canon_ip6_id s S HS H6).
Qed.

(* ================================================================ 5. the carved round trip, every host kind *)
Lemma range_eqb_schemes_some S B : scheme S <> None -> scheme B <> None ->
  is_some (scheme S) && is_some (scheme B) = true.
Proof. destruct (scheme S); [|congruence]. destruct (scheme B); [|congruence]. reflexivity. Qed.

Theorem roundtrip_parsed_carved m s b S B : parse s = POk S -> parse b = POk B ->
  scheme S <> None -> scheme B <> None ->
  c10_failing_shape m S B = false ->
  let r := snd (remove_base m S B) in
  fst (remove_base m S B) = URI_SUCCESS
  /\ fst (add_base false r B) = URI_SUCCESS
  /\ same_text_target (snd (add_base false r B)) S.
Proof.
  intros HS HB Hs Hb Hshape. cbv zeta.
  split; [exact (remove_base_success m S B Hs Hb)|].
  pose proof (parsed_wf s S HS) as Ws. pose proof (parsed_wf b B HB) as Wb.
  pose proof (parsed_one_kind s S HS) as Ks. pose proof (parsed_one_kind b B HB) as Kb.
  pose proof (parsed_nonul_segs s S HS) as Nps.
  unfold c10_failing_shape in Hshape.
  destruct (range_eqb (scheme S) (scheme B)) eqn:He; cbn [negb andb] in Hshape.
  2:{ destruct (roundtrip_copy_target m S B Hs Hb (or_introl He) Ws Ks) as [A T].
      split; [exact A|exact (same_target_text _ _ T)]. }
  destruct (equals_authority S B) eqn:Ea; cbn [negb andb] in Hshape.
  2:{ destruct (is_host_set S) eqn:Hhs.
      - destruct (roundtrip_other_authority_target m S B Hs Hb He Ea Hhs Ws Ks) as [A T].
        split; [exact A|exact (same_target_text _ _ T)].
      - destruct (is_host_set B) eqn:Hhb.
        + destruct (roundtrip_copy_target m S B Hs Hb (or_intror (conj Ea (conj Hhs Hhb))) Ws Ks) as [A T].
          split; [exact A|exact (same_target_text _ _ T)].
        + exfalso. destruct (parsed_hostless_bare s S HS Hhs) as [U1 U2].
          destruct (parsed_hostless_bare b B HB Hhb) as [U3 U4].
          rewrite (hostless_equal_authority S B Hhs Hhb U1 U2 U3 U4) in Ea. discriminate Ea. }
  pose proof (shared_authority_shown s b S B HS HB Ea) as Esh.
  assert (is_host_set S = is_host_set B) as Hhost
    by (unfold shown_auth in Esh; injection Esh as _ E _ _; symmetry; exact E).
  assert (forall back, auth_fields back = auth_fields (copy_authority empty_uri B) -> shown_auth back = shown_auth S) as Hau.
  { intros back E. rewrite (shown_auth_fields _ _ E), (shown_auth_fields _ _ (auth_fields_copy empty_uri B Kb)). exact Esh. }
  destruct m.
  - (* domain-root mode *)
    assert (is_host_set S = false -> absolutePath S = true) as Hroot.
    { intros Hh. rewrite Hh in Hshape. cbn [negb andb] in Hshape. apply negb_false_iff in Hshape. exact Hshape. }
    destruct (roundtrip_domain_root_any S B Hs Hb He Ea Hhost Hroot Ws) as (A0 & B1 & B2 & B3 & B4 & B5 & B6).
    split; [exact A0|]. apply same_text_target_parts; try assumption. exact (Hau _ B2).
  - destruct (negb (is_host_set S) && negb (Bool.eqb (absolutePath S) (absolutePath B))) eqn:Eroot;
      [discriminate Hshape|].
    assert (is_host_set S || Bool.eqb (absolutePath S) (absolutePath B) = true) as Hrk.
    { destruct (is_host_set S); [reflexivity|]. cbn [negb andb orb] in *. apply negb_false_iff in Eroot. exact Eroot. }
    destruct (skip_common (pathSegs S) (pathSegs B)) as [s' b'] eqn:Hk.
    destruct s' as [|x s']; destruct b' as [|y b']; try discriminate Hshape.
    + (* equal paths *)
      assert (absolutePath S = absolutePath B) as Habs.
      { destruct (is_host_set S) eqn:Hhs.
        - rewrite (wf_host_abs S Ws Hhs). symmetry in Hhost. rewrite (wf_host_abs B Wb Hhost). reflexivity.
        - cbn [orb] in Hrk. apply eqb_prop in Hrk. exact Hrk. }
      destruct (roundtrip_same_path S B Hs Hb He Ea Hhost Habs Hk Hshape Nps Ws)
        as (A0 & B1 & B2 & B3 & B4 & B5 & B6).
      split; [exact A0|]. apply same_text_target_parts; try assumption. exact (Hau _ B2).
    + (* the walk *)
      apply negb_false_iff in Hshape.
      assert (walk_ok_dotted S B = true) as Hwalk.
      { unfold walk_ok_dotted. rewrite Hk. cbn [fst snd nonnil].
        rewrite He, Ea, Hhost, eqb_reflx, Hshape, Nps, Ws, Wb. rewrite <- Hhost, Hrk.
        rewrite (range_eqb_schemes_some S B Hs Hb). reflexivity. }
      destruct (roundtrip_walk_dotted S B Hwalk) as (_ & A0 & B1 & B2 & B3 & B4 & B5 & B6).
      split; [exact A0|]. apply same_text_target_parts; try assumption. exact (Hau _ B2).
Qed.

(* the object-level carved theorem for parsed texts: [c10_good] is [no_ip], of the source only *)
Theorem roundtrip_parsed_carved_no_ip m s b S B : parse s = POk S -> parse b = POk B ->
  no_ip S = true -> scheme S <> None -> scheme B <> None ->
  c10_failing_shape m S B = false ->
  let r := snd (remove_base m S B) in
  fst (remove_base m S B) = URI_SUCCESS
  /\ fst (add_base false r B) = URI_SUCCESS
  /\ same_target (snd (add_base false r B)) S.
Proof.
  intros HS HB Ns. apply roundtrip_carved; [exact (parsed_c10_good s S HS Ns)|exact (parsed_c10_base b B HB)].
Qed.

(* the cases in which the reference is (a copy of) the source: the text comes back as it is *)
Theorem roundtrip_parsed_copy m s b S B : parse s = POk S -> parse b = POk B ->
  scheme S <> None -> scheme B <> None ->
  range_eqb (scheme S) (scheme B) = false
  \/ (equals_authority S B = false /\ is_host_set S = false /\ is_host_set B = true) ->
  forallb nodot (pathSegs S) = true ->
  let r := snd (remove_base m S B) in
  fst (add_base false r B) = URI_SUCCESS
  /\ to_text (snd (add_base false r B)) = Spec.Recompose.canon_ip6 s.
Proof.
  intros HS HB Hs Hb Hc Hn. cbv zeta.
  destruct (roundtrip_copy m S B Hs Hb Hc Hn (parsed_wf s S HS) (parsed_not_lone s S HS) (parsed_one_kind s S HS))
    as [A E].
  split; [exact A|]. rewrite <- (parsed_to_text s S HS). exact (CommuteText.to_text_components _ _ E).
Qed.

Theorem roundtrip_parsed_other_authority m s b S B : parse s = POk S -> parse b = POk B ->
  scheme S <> None -> scheme B <> None ->
  range_eqb (scheme S) (scheme B) = true -> equals_authority S B = false -> is_host_set S = true ->
  forallb nodot (pathSegs S) = true ->
  let r := snd (remove_base m S B) in
  fst (add_base false r B) = URI_SUCCESS
  /\ to_text (snd (add_base false r B)) = Spec.Recompose.canon_ip6 s.
Proof.
  intros HS HB Hs Hb He Ha Hh Hn. cbv zeta.
  destruct (roundtrip_other_authority m S B Hs Hb He Ha Hh Hn (parsed_wf s S HS) (parsed_one_kind s S HS)) as [A E].
  split; [exact A|]. rewrite <- (parsed_to_text s S HS). exact (CommuteText.to_text_components _ _ E).
Qed.

(* ================================================================ 6. witnesses *)
Local Open Scope string_scope.

(* the former failing shape: source "s://v1.x/a/b" (a registered name), base "s://[v1.x]/a/c" (an
   IPvFuture literal with the same text).  uriEqualsAuthority says "different", the reference keeps the
   source's authority, "//v1.x/a/b", and resolves to the source *)
Lemma roundtrip_regname_vs_literal :
  exists S B, parse (txt "s://v1.x/a/b") = POk S /\ parse (txt "s://[v1.x]/a/c") = POk B
    /\ equals_authority S B = false /\ walk_shape S B = false /\ c10_failing_shape false S B = false
    /\ to_text (snd (remove_base false S B)) = txt "//v1.x/a/b"
    /\ fst (add_base false (snd (remove_base false S B)) B) = URI_SUCCESS
    /\ to_text (snd (add_base false (snd (remove_base false S B)) B)) = txt "s://v1.x/a/b"
    /\ same_text_target (snd (add_base false (snd (remove_base false S B)) B)) S.
Proof.
  do 2 eexists. split; [vm_compute; reflexivity|]. split; [vm_compute; reflexivity|].
  repeat (split; [vm_compute; reflexivity|]). vm_compute. reflexivity.
Qed.

(* the other way round *)
Lemma roundtrip_literal_vs_regname :
  exists S B, parse (txt "s://[v1.x]/a/b") = POk S /\ parse (txt "s://v1.x/a/c") = POk B
    /\ equals_authority S B = false /\ c10_failing_shape false S B = false
    /\ to_text (snd (remove_base false S B)) = txt "//[v1.x]/a/b"
    /\ to_text (snd (add_base false (snd (remove_base false S B)) B)) = txt "s://[v1.x]/a/b".
Proof. do 2 eexists. split; [vm_compute; reflexivity|]. split; [vm_compute; reflexivity|]. repeat split. Qed.

(* two spellings of one IPv6 address: the objects differ (the result carries the base's host text), the
   texts written do not -- why the statements for every host kind compare texts *)
Lemma roundtrip_ip6_spelling :
  exists S B, parse (txt "s://[::1]/a/b") = POk S /\ parse (txt "s://[0::1]/a/c") = POk B
    /\ walk_shape S B = true /\ no_ip S = false
    /\ ~ same_target (snd (add_base false (snd (remove_base false S B)) B)) S
    /\ to_text (snd (add_base false (snd (remove_base false S B)) B))
       = Spec.Recompose.canon_ip6 (txt "s://[::1]/a/b").
Proof.
  do 2 eexists. split; [vm_compute; reflexivity|]. split; [vm_compute; reflexivity|].
  repeat (split; [vm_compute; reflexivity|]).
  split; [|vm_compute; reflexivity].
  unfold same_target. intros E. vm_compute in E. discriminate E.
Qed.
