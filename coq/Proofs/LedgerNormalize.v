(* The allocation ledger, continued: uriNormalizeSyntaxExMm (Model/OpsM.v), borrowed and owned, any mask. *)
From Coq Require Import List NArith Bool Arith Lia Permutation.
From UP Require Import Base.Chars Model.Uri Model.Common Model.Compare
  Model.Resolve Model.Shorten Model.Normalize Model.Mem Model.ParseM Model.OpsM Proofs.LedgerProofs Proofs.LedgerOps.
Import ListNotations.

Ltac msimpl ::=
  cbn [m_scheme m_userInfo m_hostText m_ip4 m_ip6 m_ipFuture m_portText m_segs m_query m_fragment m_abs m_owner
       set_m_scheme set_m_userInfo set_m_hostText set_m_ip4 set_m_ip6 set_m_ipFuture set_m_portText
       set_m_segs set_m_query set_m_fragment set_m_abs set_m_owner] in *.

Section WithCsize.
Variable csize : N.

(* ---------------------------------------------------------------- the steps of uriNormalizeSyntaxEngine *)
Definition n_scheme (mask : N) (owner : bool) (m : muri) (done : N) (s : mstate) : option (muri * N) * mstate :=
  if bit mask M_SCHEME && is_some (t_val (m_scheme m)) then
    match norm_text csize owner lowercase (m_scheme m) s with
    | (Some t, s') => (Some (set_m_scheme t m, if owner then done else N.lor done B_SCHEME), s')
    | (None, s') => (None, s')
    end
  else (Some (m, done), s).

Definition n_host (mask : N) (owner : bool) (m : muri) (done : N) (s : mstate) : option (muri * N) * mstate :=
  if bit mask M_HOST then
    match t_val (m_ipFuture m) with
    | Some _ =>
      match norm_text csize owner lowercase (m_ipFuture m) s with
      | (Some t, s') => (Some (set_m_hostText {| t_val := t_val t; t_blk := None |} (set_m_ipFuture t m),
                               if owner then done else N.lor done B_HOST), s')
      | (None, s') => (None, s')
      end
    | None =>
      match t_val (m_hostText m), m_ip4 m, m_ip6 m with
      | Some _, None, None =>
        match norm_text csize owner (fun x => lowercase_except_pct (fix_pct x)) (m_hostText m) s with
        | (Some t, s') => (Some (set_m_hostText t m, if owner then done else N.lor done B_HOST), s')
        | (None, s') => (None, s')
        end
      | _, _, _ => (Some (m, done), s)
      end
    end
  else (Some (m, done), s).

Definition n_user (mask : N) (owner : bool) (m : muri) (done : N) (s : mstate) : option (muri * N) * mstate :=
  if bit mask M_USER_INFO && is_some (t_val (m_userInfo m)) then
    match norm_text csize owner fix_pct (m_userInfo m) s with
    | (Some t, s') => (Some (set_m_userInfo t m, if owner then done else N.lor done B_USER), s')
    | (None, s') => (None, s')
    end
  else (Some (m, done), s).

Definition n_path (mask : N) (owner : bool) (m : muri) (done : N) (s : mstate) : option (muri * N) * muri * N * mstate :=
  if bit mask M_PATH then
    let relative := negb (is_some (t_val (m_scheme m))) && negb (m_abs m) && negb (m_host_set m) in
    let step1 : bool * muri * N * mstate :=
      if owner then
        (true, set_m_segs (map (fun sg => {| sg_text := fix_pct (sg_text sg); sg_blk := sg_blk sg; sg_node := sg_node sg |}) (m_segs m)) m, done, s)
      else
        let '(ok, segs, s') := norm_segs_malloc csize [] (m_segs m) s in
        (ok, set_m_segs segs m, if ok then N.lor done B_PATH else done, s') in
    match step1 with
    | (false, m1, done1, s1) => (None, m1, done1, s1)
    | (true, m1, done1, s1) =>
      let '(ok, m2, s2) := remove_dot_segments_m relative (owner || negb (N.land done1 B_PATH =? 0)%N) m1 s1 in
      if ok then
        let '(ok', m2', s2') := fix_ambiguity_owned_m csize m2 s2 in
        if ok' then let '(m3, s3) := fix_empty_trail_m m2' s2' in (Some (m3, done1), m3, done1, s3)
        else (None, m2', done1, s2')
      else (None, m2, done1, s2)
    end
  else (Some (m, done), m, done, s).

Definition n_query (mask : N) (owner : bool) (m : muri) (done : N) (s : mstate) : option (muri * N) * mstate :=
  if bit mask M_QUERY && is_some (t_val (m_query m)) then
    match norm_text csize owner fix_pct (m_query m) s with
    | (Some t, s') => (Some (set_m_query t m, if owner then done else N.lor done B_QUERY), s')
    | (None, s') => (None, s')
    end
  else (Some (m, done), s).

Definition n_frag (mask : N) (owner : bool) (m : muri) (done : N) (s : mstate) : option (muri * N) * mstate :=
  if bit mask M_FRAGMENT && is_some (t_val (m_fragment m)) then
    match norm_text csize owner fix_pct (m_fragment m) s with
    | (Some t, s') => (Some (set_m_fragment t m, if owner then done else N.lor done B_FRAG), s')
    | (None, s') => (None, s')
    end
  else (Some (m, done), s).

Definition n_fail (m : muri) (done : N) (s : mstate) : N * muri * mstate :=
  let '(m', s') := prevent_leakage m done s in (URI_ERROR_MALLOC, m', s').

Lemma normalize_m_eq mask m s :
  normalize_m csize mask m s =
  if (mask =? 0)%N then (URI_SUCCESS, m, s)
  else
    let owner := m_owner m in
    match n_scheme mask owner m 0 s with
    | (None, s) => n_fail m 0 s
    | (Some (m, done), s) =>
    match n_host mask owner m done s with
    | (None, s) => n_fail m done s
    | (Some (m, done), s) =>
    match n_user mask owner m done s with
    | (None, s) => n_fail m done s
    | (Some (m, done), s) =>
    match n_path mask owner m done s with
    | (None, mf, donef, s) => n_fail mf donef s
    | (Some (m, done), _, _, s) =>
    match n_query mask owner m done s with
    | (None, s) => n_fail m done s
    | (Some (m, done), s) =>
    match n_frag mask owner m done s with
    | (None, s) => n_fail m done s
    | (Some (m, done), s) =>
    if owner then (URI_SUCCESS, m, s)
    else match make_owner_engine csize m done s with
         | (true, m', _, s') => (URI_SUCCESS, set_m_owner true m', s')
         | (false, m', done', s') => n_fail m' done' s'
         end
    end end end end end end.
Proof. reflexivity. Qed.

Lemma norm_text_spec o f t s : wf s -> fld o t -> (forall x, nonempty_t (f x) = nonempty_t x) ->
  match norm_text csize o f t s with
  | (Some t', s') => wf s' /\ ext s s' /\ fld true t' /\ is_some (t_val t') = is_some (t_val t)
                     /\ nonempty (t_val t') = nonempty (t_val t)
                     /\ (t_val t = None -> t' = t) /\ moved s s' (blk_list (t_blk t')) (blk_list (t_blk t))
  | (None, s') => wf s' /\ ext s s' /\ moved s s' [] [] /\ fails_between s s'
  end.
Proof.
  intros W F Hf. unfold norm_text. destruct t as [[x|] b]; cbn [t_val t_blk] in *.
  - destruct o.
    + split; [exact W|]. split; [apply ext_refl|]. split; [unfold fld in *; cbn [t_val t_blk nonempty andb] in *; rewrite Hf; exact F|].
      split; [reflexivity|]. split; [cbn; apply Hf|]. split; [discriminate|]. intros y. cbn [t_blk]. lia.
    + unfold fld in F. cbn [andb t_blk] in F. destruct b; [discriminate|]. destruct x as [|c r].
      * split; [exact W|]. split; [apply ext_refl|]. repeat split. intros y. cbn [t_blk blk_list]. lia.
      * destruct (alloc false (tlen (c :: r) * csize) s) as [[id|] s'] eqn:EA.
        -- destruct (alloc_some _ _ _ _ _ W EA) as (W' & E' & HL & _).
           split; [exact W'|]. split; [exact E'|]. split; [unfold fld; cbn [t_val t_blk nonempty andb is_some]; rewrite Hf; reflexivity|].
           split; [reflexivity|]. split; [cbn; apply Hf|]. split; [discriminate|]. unfold moved. cbn [t_blk blk_list]. pwl.
        -- destruct (alloc_none _ _ _ _ W EA) as (W' & E' & HL & _).
           split; [exact W'|]. split; [exact E'|]. split; [unfold moved; pwl|]. eapply alloc_none_fails; eauto.
  - split; [exact W|]. split; [apply ext_refl|]. split; [eapply fld_empty; [reflexivity|exact F]|]. repeat split. intros y. cbn [t_blk blk_list]. lia.
Qed.

Lemma norm_segs_malloc_spec rest : forall acc s F, wf s -> Forall (sfld true) acc -> Forall (sfld false) rest ->
  over s (seg_blocks acc ++ seg_blocks rest) F ->
  match norm_segs_malloc csize acc rest s with
  | (true, segs, s') => wf s' /\ ext s s' /\ Forall (sfld true) segs /\ over s' (seg_blocks segs) F
  | (false, segs, s') => wf s' /\ ext s s' /\ segs = [] /\ over s' [] F /\ fails_between s s'
  end.
Proof.
  induction rest as [|sg r IH]; intros acc s F W Fa Fr O; cbn [norm_segs_malloc].
  - split; [exact W|]. split; [apply ext_refl|]. split; [apply Forall_rev; exact Fa|].
    intros x. specialize (O x). cn. lia.
  - inversion Fr as [|? ? Fr1 Fr2]; subst.
    assert (Hb : sg_blk sg = None) by (unfold sfld in Fr1; cbn in Fr1; destruct (sg_blk sg); [discriminate|reflexivity]).
    unfold over in O. rewrite seg_blocks_cons, Hb in O. cbn [blk_list app] in O.
    destruct (sg_text sg) as [|c t] eqn:ET.
    + apply IH; auto.
      * constructor; [|exact Fa]. unfold sfld. rewrite ET, Hb. reflexivity.
      * intros x. rewrite seg_blocks_cons, Hb. cbn [blk_list app]. specialize (O x). cn. lia.
    + destruct (alloc false (tlen (c :: t) * csize) s) as [[id|] s'] eqn:EA.
      * destruct (alloc_some _ _ _ _ _ W EA) as (W' & E' & HL & _).
        specialize (IH ({| sg_text := fix_pct (c :: t); sg_blk := Some id; sg_node := sg_node sg |} :: acc) s' F W').
        assert (Pre : over s' (seg_blocks ({| sg_text := fix_pct (c :: t); sg_blk := Some id; sg_node := sg_node sg |} :: acc) ++ seg_blocks r) F).
        { intros x. rewrite seg_blocks_cons. cbn [sg_node sg_blk blk_list app]. specialize (O x). specialize (HL x). cn. lia. }
        assert (Fnew : sfld true {| sg_text := fix_pct (c :: t); sg_blk := Some id; sg_node := sg_node sg |}).
        { unfold sfld. cbn [sg_blk sg_text is_some andb]. rewrite nonempty_fix_pct. reflexivity. }
        specialize (IH (Forall_cons _ Fnew Fa) Fr2 Pre).
        destruct (norm_segs_malloc csize _ r s') as [[[|] segs] s2].
        -- destruct IH as (a & b & IH). split; [exact a|]. split; [eapply ext_trans; eauto|]. exact IH.
        -- destruct IH as (a & b & c' & d' & Fl). split; [exact a|]. split; [eapply ext_trans; eauto|]. split; [exact c'|]. split; [exact d'|].
           eapply fails_right; eauto.
      * destruct (alloc_none _ _ _ _ W EA) as (W' & E' & HL & _).
        assert (R1 : rel s' (fold_left (fun st x => free_seg_owned x st) (rev acc) s') (seg_blocks (rev acc))).
        { apply (free_segs_rel true); [exact W'|apply Forall_rev; exact Fa|].
          intros x. specialize (O x). specialize (HL x). cn. lia. }
        set (s1 := fold_left (fun st x => free_seg_owned x st) (rev acc) s') in *.
        assert (Hn : seg_blocks (sg :: r) = map sg_node (sg :: r)) by (apply sfld_false_blocks; exact Fr).
        assert (R2 : rel s1 (fold_left (fun st x => free_blk (sg_node x) st) (sg :: r) s1) (map sg_node (sg :: r))).
        { drel R1 W1 E1 Q1 N1 H1. apply free_seg_nodes_rel; [exact W1|]. rewrite <- Hn. rewrite seg_blocks_cons, Hb. cbn [blk_list app].
          intros x. specialize (O x). specialize (HL x). specialize (H1 x). cn. lia. }
        pose proof (rel_trans _ _ _ _ _ R1 R2) as R. rewrite <- Hn in R. rewrite seg_blocks_cons, Hb in R. cbn [blk_list app] in R.
        drel R W3 E3 Q3 N3 H3. split; [exact W3|]. split; [eapply ext_trans; eauto|]. split; [reflexivity|]. split.
        -- intros x. specialize (O x). specialize (HL x). specialize (H3 x). cn. lia.
        -- apply (fails_left s s' _ E' E3). eapply alloc_none_fails; eauto.
Qed.

(* uriFixEmptyTrailSegment on any object whose segments follow the owner rule *)
Lemma fet_spec own m s0 s F : st s0 s (seg_blocks (m_segs m)) F -> Forall (sfld own) (m_segs m) ->
  match fix_empty_trail_m m s with
  | (m', s') => exists segs', m' = set_m_segs segs' m /\ st s0 s' (seg_blocks segs') F /\ Forall (sfld own) segs'
  end.
Proof.
  intros S Fs. unfold fix_empty_trail_m.
  assert (Same : exists segs', m = set_m_segs segs' m /\ st s0 s (seg_blocks segs') F /\ Forall (sfld own) segs').
  { exists (m_segs m). rewrite set_m_segs_self. auto. }
  destruct (negb (m_host_set m)); [|exact Same].
  destruct (m_segs m) as [|sg [|sg2 r]] eqn:Es; try exact Same.
  destruct (sg_text sg) eqn:Et; [|exact Same].
  exists []. split; [reflexivity|]. split; [|constructor].
  assert (Hb : seg_blocks [sg] = [sg_node sg]).
  { inversion Fs as [|? ? F1 _]; subst. unfold sfld in F1. rewrite Et in F1. cbn in F1. rewrite andb_false_r in F1.
    cbn. destruct (sg_blk sg); [discriminate|reflexivity]. }
  rewrite Hb in S. eapply st_rel; [|apply rel_free].
  - eapply st_perm; [exact S|]. intros x. cn. lia.
  - apply S.
  - destruct S as (_ & _ & O). rewrite (O (sg_node sg)). rewrite cnt_self. lia.
Qed.

(* uriFixAmbiguity with the copy of the "." (the object owns its segment texts): both blocks are the
   new segment's; when the copy is refused the node has been released again *)
Lemma fao_spec m s0 s F : st s0 s (seg_blocks (m_segs m)) F -> Forall (sfld true) (m_segs m) ->
  match fix_ambiguity_owned_m csize m s with
  | (ok, m', s') => exists segs', m' = set_m_segs segs' m /\ st s0 s' (seg_blocks segs') F /\ Forall (sfld true) segs'
                                  /\ (ok = false -> fails_between s0 s')
  end.
Proof.
  intros S Fs. unfold fix_ambiguity_owned_m.
  assert (Same : forall s', st s0 s' (seg_blocks (m_segs m)) F ->
            exists segs', m = set_m_segs segs' m /\ st s0 s' (seg_blocks segs') F /\ Forall (sfld true) segs').
  { intros s' S'. exists (m_segs m). rewrite set_m_segs_self. auto. }
  destruct (match m_abs m with true => _ | false => _ end).
  2:{ destruct (Same s S) as (segs' & a & b & c). exists segs'. repeat (split; [assumption|]). discriminate. }
  pose proof (st_alloc false SEG_SIZE s0 s _ _ S) as Al. destruct (alloc false SEG_SIZE s) as [[id|] s1].
  - pose proof (st_alloc false (tlen [46%N] * csize)%N s0 s1 _ _ Al) as Al2.
    destruct (alloc false (tlen [46%N] * csize)%N s1) as [[b|] s2].
    + exists ({| sg_text := [46%N]; sg_blk := Some b; sg_node := id |} :: m_segs m). split; [reflexivity|].
      split; [|split; [constructor; [reflexivity|exact Fs]|discriminate]].
      eapply st_perm; [exact Al2|]. intros x. cn. cbn [sg_node sg_blk blk_list]. cn. lia.
    + destruct Al2 as (Al2 & Fl).
      assert (Rl : rel s2 (free_blk id s2) [id]).
      { apply rel_free; [apply Al2|]. destruct Al2 as (_ & _ & O). rewrite (O id). cn. rewrite cnt_self. lia. }
      assert (S3 : st s0 (free_blk id s2) (seg_blocks (m_segs m)) F) by (eapply (st_rel s0 s2 _ [id]); [exact Al2|exact Rl]).
      destruct (Same _ S3) as (segs' & a & b' & c). exists segs'. repeat (split; [assumption|]).
      intros _. eapply fails_ext; [exact Fl|]. apply Rl.
  - destruct Al as (Al & Fl). destruct (Same _ Al) as (segs' & a & b & c). exists segs'. repeat (split; [assumption|]).
    intros _. exact Fl.
Qed.

(* ---------------------------------------------------------------- the invariant of the engine *)
Definition sub (done M : N) : Prop := forall c, bitb M c = false -> bitb done c = false.
Lemma sub_weaken d M b : sub d M -> sub d (N.lor M b).
Proof. intros H c Hc. rewrite bitb_lor in Hc. apply orb_false_iff in Hc. apply H. tauto. Qed.
Lemma sub_lor d M b : sub d M -> sub (N.lor d b) (N.lor M b).
Proof. intros H c Hc. rewrite bitb_lor in *. apply orb_false_iff in Hc. rewrite (H c) by tauto. tauto. Qed.
Lemma sub_0 M : sub 0 M.
Proof. intros c _. reflexivity. Qed.

Definition neng (o : bool) (m0 : muri) (s0 : mstate) (m : muri) (s : mstate) (done M : N) : Prop :=
  wf s /\ ext s0 s /\ inv o done m /\ acct m0 s0 m s /\ sub done M /\ (o = true -> done = 0%N) /\ m_owner m = m_owner m0.
Definition failready (o : bool) (m0 : muri) (s0 : mstate) (m : muri) (s : mstate) (done : N) : Prop :=
  wf s /\ ext s0 s /\ inv o done m /\ acct m0 s0 m s /\ (o = true -> done = 0%N) /\ m_owner m = m_owner m0 /\ fails_between s0 s.

Lemma neng_fail o m0 s0 m s s' done M : neng o m0 s0 m s done M -> wf s' -> ext s s' -> moved s s' [] [] -> fails_between s s' ->
  failready o m0 s0 m s' done.
Proof.
  intros (W & E & I & A & Sb & Oz & Ow) W' E' M' Fl. split; [exact W'|]. split; [eapply ext_trans; eauto|]. split; [exact I|].
  split; [unfold acct, moved in *; pwl|]. split; [exact Oz|]. split; [exact Ow|]. eapply fails_right; eauto.
Qed.

Lemma neng_skip o m0 s0 m s done M b : neng o m0 s0 m s done M -> neng o m0 s0 m s done (N.lor M b).
Proof. intros (W & E & I & A & Sb & Oz & Ow). repeat (split; [assumption|]). split; [apply sub_weaken; exact Sb|]. split; assumption. Qed.

Lemma acct_step m0 s0 m s m' s' A R : acct m0 s0 m s -> moved s s' A R ->
  (forall x, cnt (muri_blocks m') x + cnt R x = cnt (muri_blocks m) x + cnt A x) -> acct m0 s0 m' s'.
Proof. unfold acct, moved. intros H1 H2 H3. pwl. Qed.

Definition done_after (o : bool) (done b : N) : N := if o then done else N.lor done b.
Lemma done_after_others o done b : others b done (done_after o done b).
Proof. destruct o; [apply others_refl|apply others_lor]. Qed.
Lemma done_after_bit o done b : bitb b b = true -> o || bitb (done_after o done b) b = true.
Proof. intros H. destruct o; [reflexivity|]. cbn. rewrite bitb_lor, H. apply orb_true_r. Qed.
Lemma done_after_sub o done M b : sub done M -> sub (done_after o done b) (N.lor M b).
Proof. destruct o; [apply sub_weaken|apply sub_lor]. Qed.
Lemma done_after_zero o done b : (o = true -> done = 0%N) -> o = true -> done_after o done b = 0%N.
Proof. intros H ->. apply H. reflexivity. Qed.

Lemma n_scheme_spec o mask m0 s0 m s done M : neng o m0 s0 m s done M -> bitb M B_SCHEME = false ->
  (o = false -> t_val (m_scheme m) <> Some []) ->
  match n_scheme mask o m done s with
  | (Some (m', done'), s') => neng o m0 s0 m' s' done' (N.lor M B_SCHEME) /\ m_ipFuture m' = m_ipFuture m
  | (None, s') => failready o m0 s0 m s' done
  end.
Proof.
  intros G HM Sane. pose proof G as (W & E & I & A & Sb & Oz & Ow). unfold n_scheme.
  destruct (bit mask M_SCHEME && is_some (t_val (m_scheme m))) eqn:EC; [|split; [apply neng_skip; exact G|reflexivity]].
  apply andb_true_iff in EC. destruct EC as [_ EC].
  pose proof (i_scheme _ _ _ _ _ _ _ _ I) as F. rewrite (Sb _ HM), orb_false_r in F.
  pose proof (norm_text_spec o lowercase (m_scheme m) s W F nonempty_lowercase) as R.
  destruct (norm_text csize o lowercase (m_scheme m) s) as [[t'|] s'].
  - destruct R as (W' & E' & F' & Vs & Vn & _ & M'). fold (done_after o done B_SCHEME). split; [|reflexivity].
    split; [exact W'|]. split; [eapply ext_trans; eauto|]. split.
    { apply (inv_set_scheme o done); auto; [apply done_after_others|rewrite done_after_bit by reflexivity; exact F'|].
      intros Ho _. rewrite Vn. specialize (Sane Ho). destruct (t_val (m_scheme m)) as [[|c r]|]; [contradiction|reflexivity|discriminate]. }
    split. { eapply acct_step; [exact A|exact M'|intros x; apply bl_scheme]. }
    split; [apply done_after_sub; exact Sb|]. split; [apply done_after_zero; exact Oz|exact Ow].
  - destruct R as (W' & E' & M' & Fl). eapply neng_fail; eauto.
Qed.

Lemma n_user_spec o mask m0 s0 m s done M : neng o m0 s0 m s done M -> bitb M B_USER = false ->
  match n_user mask o m done s with
  | (Some (m', done'), s') => neng o m0 s0 m' s' done' (N.lor M B_USER)
  | (None, s') => failready o m0 s0 m s' done
  end.
Proof.
  intros G HM. pose proof G as (W & E & I & A & Sb & Oz & Ow). unfold n_user.
  destruct (bit mask M_USER_INFO && is_some (t_val (m_userInfo m))) eqn:EC; [|apply neng_skip; exact G].
  pose proof (i_user _ _ _ _ _ _ _ _ I) as F. rewrite (Sb _ HM), orb_false_r in F.
  pose proof (norm_text_spec o fix_pct (m_userInfo m) s W F nonempty_fix_pct) as R.
  destruct (norm_text csize o fix_pct (m_userInfo m) s) as [[t'|] s'].
  - destruct R as (W' & E' & F' & Vs & Vn & _ & M'). fold (done_after o done B_USER).
    split; [exact W'|]. split; [eapply ext_trans; eauto|]. split.
    { apply (inv_set_user o done); auto; [apply done_after_others|rewrite done_after_bit by reflexivity; exact F']. }
    split. { eapply acct_step; [exact A|exact M'|intros x; apply bl_user]. }
    split; [apply done_after_sub; exact Sb|]. split; [apply done_after_zero; exact Oz|exact Ow].
  - destruct R as (W' & E' & M' & Fl). eapply neng_fail; eauto.
Qed.

Lemma n_query_spec o mask m0 s0 m s done M : neng o m0 s0 m s done M -> bitb M B_QUERY = false ->
  match n_query mask o m done s with
  | (Some (m', done'), s') => neng o m0 s0 m' s' done' (N.lor M B_QUERY)
  | (None, s') => failready o m0 s0 m s' done
  end.
Proof.
  intros G HM. pose proof G as (W & E & I & A & Sb & Oz & Ow). unfold n_query.
  destruct (bit mask M_QUERY && is_some (t_val (m_query m))) eqn:EC; [|apply neng_skip; exact G].
  pose proof (i_query _ _ _ _ _ _ _ _ I) as F. rewrite (Sb _ HM), orb_false_r in F.
  pose proof (norm_text_spec o fix_pct (m_query m) s W F nonempty_fix_pct) as R.
  destruct (norm_text csize o fix_pct (m_query m) s) as [[t'|] s'].
  - destruct R as (W' & E' & F' & Vs & Vn & _ & M'). fold (done_after o done B_QUERY).
    split; [exact W'|]. split; [eapply ext_trans; eauto|]. split.
    { apply (inv_set_query o done); auto; [apply done_after_others|rewrite done_after_bit by reflexivity; exact F']. }
    split. { eapply acct_step; [exact A|exact M'|intros x; apply bl_query]. }
    split; [apply done_after_sub; exact Sb|]. split; [apply done_after_zero; exact Oz|exact Ow].
  - destruct R as (W' & E' & M' & Fl). eapply neng_fail; eauto.
Qed.

Lemma n_frag_spec o mask m0 s0 m s done M : neng o m0 s0 m s done M -> bitb M B_FRAG = false ->
  match n_frag mask o m done s with
  | (Some (m', done'), s') => neng o m0 s0 m' s' done' (N.lor M B_FRAG)
  | (None, s') => failready o m0 s0 m s' done
  end.
Proof.
  intros G HM. pose proof G as (W & E & I & A & Sb & Oz & Ow). unfold n_frag.
  destruct (bit mask M_FRAGMENT && is_some (t_val (m_fragment m))) eqn:EC; [|apply neng_skip; exact G].
  pose proof (i_frag _ _ _ _ _ _ _ _ I) as F. rewrite (Sb _ HM), orb_false_r in F.
  pose proof (norm_text_spec o fix_pct (m_fragment m) s W F nonempty_fix_pct) as R.
  destruct (norm_text csize o fix_pct (m_fragment m) s) as [[t'|] s'].
  - destruct R as (W' & E' & F' & Vs & Vn & _ & M'). fold (done_after o done B_FRAG).
    split; [exact W'|]. split; [eapply ext_trans; eauto|]. split.
    { apply (inv_set_frag o done); auto; [apply done_after_others|rewrite done_after_bit by reflexivity; exact F']. }
    split. { eapply acct_step; [exact A|exact M'|intros x; apply bl_frag]. }
    split; [apply done_after_sub; exact Sb|]. split; [apply done_after_zero; exact Oz|exact Ow].
  - destruct R as (W' & E' & M' & Fl). eapply neng_fail; eauto.
Qed.

Lemma nonempty_host x : nonempty_t (lowercase_except_pct (fix_pct x)) = nonempty_t x.
Proof. rewrite nonempty_lep. apply nonempty_fix_pct. Qed.

Lemma n_host_spec o mask m0 s0 m s done M : neng o m0 s0 m s done M -> bitb M B_HOST = false ->
  (o = false -> t_val (m_ipFuture m) <> Some []) ->
  match n_host mask o m done s with
  | (Some (m', done'), s') => neng o m0 s0 m' s' done' (N.lor M B_HOST)
  | (None, s') => failready o m0 s0 m s' done
  end.
Proof.
  intros G HM Sane. pose proof G as (W & E & I & A & Sb & Oz & Ow). unfold n_host.
  destruct (bit mask M_HOST); [|apply neng_skip; exact G].
  pose proof (i_host _ _ _ _ _ _ _ _ I) as Ih. rewrite (Sb _ HM), orb_false_r in Ih.
  destruct (t_val (m_ipFuture m)) as [xf|] eqn:EF.
  - destruct Ih as (Hn & Ff & _).
    pose proof (norm_text_spec o lowercase (m_ipFuture m) s W Ff nonempty_lowercase) as R.
    destruct (norm_text csize o lowercase (m_ipFuture m) s) as [[t'|] s'].
    + destruct R as (W' & E' & F' & Vs & Vn & _ & M'). fold (done_after o done B_HOST).
      split; [exact W'|]. split; [eapply ext_trans; eauto|]. split.
      { apply (inv_set_host_fut o done); auto; [apply done_after_others|rewrite Vs, EF; reflexivity|rewrite done_after_bit by reflexivity; exact F'|].
        intros Ho _. rewrite Vn, EF. specialize (Sane Ho). destruct xf; [contradiction|reflexivity]. }
      split. { eapply acct_step; [exact A|exact M'|]. intros x.
               pose proof (bl_host {| t_val := t_val t'; t_blk := None |} (set_m_ipFuture t' m) x) as B1. pose proof (bl_fut t' m x) as B2.
               msimpl. rewrite Hn in B1. cbn [blk_list t_blk] in *. rewrite ?cnt_nil in *. lia. }
      split; [apply done_after_sub; exact Sb|]. split; [apply done_after_zero; exact Oz|exact Ow].
    + destruct R as (W' & E' & M' & Fl). eapply neng_fail; eauto.
  - destruct Ih as (Hn & Fh).
    destruct (t_val (m_hostText m)) as [xh|] eqn:EH; [|apply neng_skip; exact G].
    destruct (m_ip4 m); [apply neng_skip; exact G|]. destruct (m_ip6 m); [apply neng_skip; exact G|].
    pose proof (norm_text_spec o (fun x => lowercase_except_pct (fix_pct x)) (m_hostText m) s W Fh nonempty_host) as R.
    destruct (norm_text csize o (fun x => lowercase_except_pct (fix_pct x)) (m_hostText m) s) as [[t'|] s'].
    + destruct R as (W' & E' & F' & Vs & Vn & _ & M'). fold (done_after o done B_HOST).
      split; [exact W'|]. split; [eapply ext_trans; eauto|]. split.
      { apply (inv_set_host_reg o done); auto; [apply done_after_others|rewrite done_after_bit by reflexivity; exact F']. }
      split. { eapply acct_step; [exact A|exact M'|intros x; apply bl_host]. }
      split; [apply done_after_sub; exact Sb|]. split; [apply done_after_zero; exact Oz|exact Ow].
    + destruct R as (W' & E' & M' & Fl). eapply neng_fail; eauto.
Qed.

Lemma set_m_segs_twice a b m : set_m_segs a (set_m_segs b m) = set_m_segs a m.
Proof. reflexivity. Qed.

Definition pframe (m : muri) (s : mstate) : nat -> nat := fun x => L s x - cnt (seg_blocks (m_segs m)) x.

Lemma seg_le_blocks' d x : cnt (seg_blocks (m_segs d)) x <= cnt (muri_blocks d) x.
Proof. rewrite muri_blocks_eq. cn. lia. Qed.

Lemma st_of_holds m s : wf s -> holds m s -> st s s (seg_blocks (m_segs m)) (pframe m s).
Proof.
  intros W H. apply st_refl; [exact W|]. intros x. unfold pframe. pose proof (seg_le_blocks' m x). specialize (H x). lia.
Qed.

Lemma acct_of_st m0 s0 m s s1 s' segs : acct m0 s0 m s -> holds m s -> st s1 s' (seg_blocks segs) (pframe m s) ->
  acct m0 s0 (set_m_segs segs m) s'.
Proof.
  intros A H (_ & _ & O). unfold acct, over, pframe in *. intros x.
  pose proof (seg_le_blocks' m x). pose proof (bl_segs segs m x). specialize (H x). specialize (A x). specialize (O x). lia.
Qed.

Lemma map_fix_blocks segs :
  seg_blocks (map (fun sg => {| sg_text := fix_pct (sg_text sg); sg_blk := sg_blk sg; sg_node := sg_node sg |}) segs) = seg_blocks segs.
Proof. induction segs as [|a r IH]; [reflexivity|]. cbn [map]. rewrite !seg_blocks_cons, IH. reflexivity. Qed.
Lemma map_fix_sfld own segs : Forall (sfld own) segs ->
  Forall (sfld own) (map (fun sg => {| sg_text := fix_pct (sg_text sg); sg_blk := sg_blk sg; sg_node := sg_node sg |}) segs).
Proof.
  induction 1 as [|a r H _ IH]; [constructor|]. cbn [map]. constructor; [|exact IH].
  unfold sfld in *. cbn [sg_text sg_blk]. rewrite nonempty_fix_pct. exact H.
Qed.

Lemma n_path_spec o mask m0 s0 m s done M : neng o m0 s0 m s done M -> bitb M B_PATH = false -> holds m0 s0 ->
  match n_path mask o m done s with
  | (Some (m', done'), _, _, s') => neng o m0 s0 m' s' done' (N.lor M B_PATH)
  | (None, mf, donef, s') => failready o m0 s0 mf s' donef
  end.
Proof.
  intros G HM Hh. pose proof G as (W & E & I & A & Sb & Oz & Ow). unfold n_path.
  destruct (bit mask M_PATH); [|apply neng_skip; exact G]. cbv zeta.
  set (relative := negb (is_some (t_val (m_scheme m))) && negb (m_abs m) && negb (m_host_set m)). clearbody relative.
  pose proof (acct_holds _ _ _ _ Hh A) as Hm.
  pose proof (st_of_holds m s W Hm) as S0.
  pose proof (i_segs _ _ _ _ _ _ _ _ I) as Fs. rewrite (Sb _ HM), orb_false_r in Fs.
  (* what happens after the segment texts have been fixed: dot removal, trailing segment *)
  assert (Tail : forall m1 done1 s1 segs1 owned,
            m1 = set_m_segs segs1 m -> st s s1 (seg_blocks segs1) (pframe m s) -> Forall (sfld owned) segs1 ->
            owned = o || bitb done1 B_PATH -> o || bitb done1 B_PATH = true ->
            others B_PATH done done1 -> sub done1 (N.lor M B_PATH) -> (o = true -> done1 = 0%N) ->
            match (let '(ok, m2, s2) := remove_dot_segments_m relative owned m1 s1 in
                   if ok then
                     let '(ok', m2', s2') := fix_ambiguity_owned_m csize m2 s2 in
                     if ok' then let '(m3, s3) := fix_empty_trail_m m2' s2' in (Some (m3, done1), m3, done1, s3)
                     else (None, m2', done1, s2')
                   else (None, m2, done1, s2)) with
            | (Some (m', done'), _, _, s') => neng o m0 s0 m' s' done' (N.lor M B_PATH)
            | (None, mf, donef, s') => failready o m0 s0 mf s' donef
            end).
  { intros m1 done1 s1 segs1 owned -> S1 F1 -> Hown Hoth Sb1 Oz1.
    assert (S1' : st s s1 (seg_blocks (m_segs (set_m_segs segs1 m))) (pframe m s)) by exact S1.
    pose proof (rds_m_spec relative (o || bitb done1 B_PATH) (set_m_segs segs1 m) s s1 _ S1' F1) as R.
    destruct (remove_dot_segments_m relative (o || bitb done1 B_PATH) (set_m_segs segs1 m) s1) as [[ok m2] s2].
    destruct R as (segs2 & -> & S2 & F2 & Fl). rewrite set_m_segs_twice.
    destruct ok.
    - assert (S2' : st s s2 (seg_blocks (m_segs (set_m_segs segs2 m))) (pframe m s)) by exact S2.
      assert (F2' : Forall (sfld true) (m_segs (set_m_segs segs2 m))) by (rewrite <- Hown; exact F2).
      pose proof (fao_spec (set_m_segs segs2 m) s s2 _ S2' F2') as Ra.
      destruct (fix_ambiguity_owned_m csize (set_m_segs segs2 m) s2) as [[ok' m2'] s2'].
      destruct Ra as (segs2' & -> & S2a & F2a & Fla). rewrite set_m_segs_twice. rewrite <- Hown in F2a.
      destruct ok'.
      + assert (S2'' : st s s2' (seg_blocks (m_segs (set_m_segs segs2' m))) (pframe m s)) by exact S2a.
        pose proof (fet_spec (o || bitb done1 B_PATH) (set_m_segs segs2' m) s s2' _ S2'' F2a) as R3.
        destruct (fix_empty_trail_m (set_m_segs segs2' m) s2') as [m3 s3]. destruct R3 as (segs3 & -> & S3 & F3).
        rewrite set_m_segs_twice.
        split; [apply S3|]. split; [eapply ext_trans; [exact E|apply S3]|]. split; [apply (inv_set_segs o done done1); auto|].
        split; [eapply acct_of_st; eauto|]. split; [exact Sb1|]. split; [exact Oz1|exact Ow].
      + split; [apply S2a|]. split; [eapply ext_trans; [exact E|apply S2a]|]. split; [apply (inv_set_segs o done done1); auto|].
        split; [eapply acct_of_st; eauto|]. split; [exact Oz1|]. split; [exact Ow|].
        eapply fails_right; [exact E|apply S2a|]. apply Fla. reflexivity.
    - split; [apply S2|]. split; [eapply ext_trans; [exact E|apply S2]|]. split; [apply (inv_set_segs o done done1); auto|].
      split; [eapply acct_of_st; eauto|]. split; [exact Oz1|]. split; [exact Ow|].
      eapply fails_right; [exact E|apply S2|]. apply Fl. reflexivity. }
  destruct o.
  - (* owned: the texts are fixed in place *)
    apply (Tail _ done s _ true eq_refl).
    + rewrite map_fix_blocks. exact S0.
    + apply map_fix_sfld. exact Fs.
    + reflexivity.
    + reflexivity.
    + apply others_refl.
    + apply sub_weaken. exact Sb.
    + exact Oz.
  - (* borrowed: every non-empty text is copied *)
    assert (O0 : over s (seg_blocks [] ++ seg_blocks (m_segs m)) (pframe m s)) by (apply S0).
    pose proof (norm_segs_malloc_spec (m_segs m) [] s _ W (Forall_nil _) Fs O0) as R.
    destruct (norm_segs_malloc csize [] (m_segs m) s) as [[[|] segs] s1].
    + destruct R as (W1 & E1 & F1 & O1).
      change (negb (N.land (N.lor done B_PATH) B_PATH =? 0)%N) with (bitb (N.lor done B_PATH) B_PATH).
      apply (Tail _ (N.lor done B_PATH) s1 segs _ eq_refl).
      * split; [exact W1|]. split; [exact E1|exact O1].
      * rewrite bitb_lor. cbn [orb]. rewrite orb_true_r. exact F1.
      * reflexivity.
      * rewrite bitb_lor. apply orb_true_r.
      * apply others_lor.
      * apply sub_lor. exact Sb.
      * discriminate.
    + destruct R as (W1 & E1 & -> & O1 & Fl).
      split; [exact W1|]. split; [eapply ext_trans; eauto|]. split; [apply (inv_set_segs false done done); auto; apply others_refl|].
      split; [eapply (acct_of_st _ _ _ _ s); eauto; split; [exact W1|split; [exact E1|exact O1]]|].
      split; [exact Oz|]. split; [exact Ow|]. eapply fails_right; eauto.
Qed.

Lemma prevent_leakage_0 m s : prevent_leakage m 0 s = (m, s).
Proof. rewrite prevent_leakage_stages. reflexivity. Qed.

Lemma n_fail_spec o m0 s0 m s done : m_owner m0 = o -> holds m0 s0 -> failready o m0 s0 m s done ->
  match n_fail m done s with
  | (rc, m', s') => wf s' /\ ext s0 s' /\ consistent m' /\ acct m0 s0 m' s'
                    /\ rc = URI_ERROR_MALLOC /\ m_owner m' = m_owner m0 /\ fails_between s0 s'
  end.
Proof.
  intros Ho Hh (W & E & I & A & Oz & Ow & Fl). unfold n_fail. destruct o.
  - rewrite (Oz eq_refl) in *. rewrite prevent_leakage_0.
    split; [exact W|]. split; [exact E|]. split; [unfold consistent; rewrite Ow, Ho; exact I|]. split; [exact A|]. split; [reflexivity|]. split; [exact Ow|exact Fl].
  - pose proof (prevent_leakage_spec m done s W I (acct_holds _ _ _ _ Hh A)) as P. cbv zeta in P.
    pose proof (prevent_leakage_owner m done s) as EO.
    destruct (prevent_leakage m done s) as [m' s']. cbn [fst snd] in *. destruct P as (W2 & E2 & Q2 & I2 & A2).
    split; [exact W2|]. split; [eapply ext_trans; eauto|]. split; [unfold consistent; rewrite EO, Ow, Ho; exact I2|].
    split; [unfold acct in *; pwl|]. split; [reflexivity|]. split; [congruence|]. eapply fails_left; eauto.
Qed.

(* uriNormalizeSyntaxExMm, any mask, borrowed or owned *)
Theorem normalize_m_spec mask m s : wf s -> owns m s ->
  (m_owner m = false -> t_val (m_scheme m) <> Some [] /\ t_val (m_ipFuture m) <> Some []) ->
  match normalize_m csize mask m s with
  | (rc, m', s') =>
    wf s' /\ ext s s' /\ consistent m' /\ acct m s m' s'
    /\ ((rc = URI_SUCCESS /\ (mask <> 0%N -> m_owner m' = true) /\ (mask = 0%N -> m' = m /\ s' = s))
        \/ (rc = URI_ERROR_MALLOC /\ m_owner m' = m_owner m /\ fails_between s s'))
  end.
Proof.
  intros W [C Hh] Sane. rewrite normalize_m_eq. destruct (N.eqb_spec mask 0) as [E0|E0].
  { split; [exact W|]. split; [apply ext_refl|]. split; [exact C|]. split; [intros x; lia|]. left. split; [reflexivity|]. split; [contradiction|auto]. }
  cbv zeta. set (o := m_owner m) in *. assert (Ho : m_owner m = o) by reflexivity. clearbody o.
  unfold consistent in C. rewrite Ho in C.
  assert (Fail : forall mf sf df, failready o m s mf sf df ->
            match n_fail mf df sf with
            | (rc, m', s') => wf s' /\ ext s s' /\ consistent m' /\ acct m s m' s'
                /\ ((rc = URI_SUCCESS /\ (mask <> 0%N -> m_owner m' = true) /\ (mask = 0%N -> m' = m /\ s' = s))
                    \/ (rc = URI_ERROR_MALLOC /\ m_owner m' = o /\ fails_between s s'))
            end).
  { intros mf sf df Fr. pose proof (n_fail_spec o m s mf sf df Ho Hh Fr) as R.
    destruct (n_fail mf df sf) as [[rc m'] s']. destruct R as (a & b & c & d & e & f & g).
    repeat (split; [assumption|]). right. split; [exact e|]. split; [congruence|exact g]. }
  assert (G0 : neng o m s m s 0 0).
  { split; [exact W|]. split; [apply ext_refl|]. split; [exact C|]. split; [intros x; lia|]. split; [apply sub_0|]. split; auto. }
  assert (Sane' : o = false -> t_val (m_scheme m) <> Some [] /\ t_val (m_ipFuture m) <> Some []) by (intros H; apply Sane; congruence).
  pose proof (n_scheme_spec o mask m s m s 0 0 G0 eq_refl (fun H => proj1 (Sane' H))) as R1.
  destruct (n_scheme mask o m 0 s) as [[[m1 d1]|] s1]; [|apply Fail; exact R1].
  destruct R1 as (G1 & EF1).
  assert (Sane1 : o = false -> t_val (m_ipFuture m1) <> Some []) by (intros H; rewrite EF1; apply Sane'; exact H).
  pose proof (n_host_spec o mask m s m1 s1 d1 _ G1 eq_refl Sane1) as R2.
  destruct (n_host mask o m1 d1 s1) as [[[m2 d2]|] s2]; [|apply Fail; exact R2].
  pose proof (n_user_spec o mask m s m2 s2 d2 _ R2 eq_refl) as R3.
  destruct (n_user mask o m2 d2 s2) as [[[m3 d3]|] s3]; [|apply Fail; exact R3].
  pose proof (n_path_spec o mask m s m3 s3 d3 _ R3 eq_refl Hh) as R4.
  destruct (n_path mask o m3 d3 s3) as [[[[[m4 d4]|] mf] df] s4]; [|apply Fail; exact R4].
  pose proof (n_query_spec o mask m s m4 s4 d4 _ R4 eq_refl) as R5.
  destruct (n_query mask o m4 d4 s4) as [[[m5 d5]|] s5]; [|apply Fail; exact R5].
  pose proof (n_frag_spec o mask m s m5 s5 d5 _ R5 eq_refl) as R6.
  destruct (n_frag mask o m5 d5 s5) as [[[m6 d6]|] s6]; [|apply Fail; exact R6].
  destruct R6 as (W6 & E6 & I6 & A6 & Sb6 & Oz6 & Ow6).
  destruct o.
  - rewrite (Oz6 eq_refl) in I6. split; [exact W6|]. split; [exact E6|]. split; [unfold consistent; rewrite Ow6, Ho; exact I6|]. split; [exact A6|].
    left. split; [reflexivity|]. split; [intros _; congruence|contradiction].
  - pose proof (make_owner_engine_spec csize m6 d6 s6 W6 I6 (acct_holds _ _ _ _ Hh A6)) as R7.
    destruct (make_owner_engine csize m6 d6 s6) as [[[[|] m7] d7] s7] eqn:ER.
    + destruct R7 as (W7 & E7 & I7 & A7). split; [exact W7|]. split; [eapply ext_trans; eauto|].
      split; [apply (inv_set_owner true 0 m7 true); exact I7|]. split; [unfold acct in *; intros x; rewrite bl_owner; pw x; lia|].
      left. split; [reflexivity|]. split; [reflexivity|contradiction].
    + destruct R7 as (W7 & E7 & I7 & A7 & Fl7). apply Fail.
      pose proof (make_owner_engine_owner csize m6 d6 s6) as EO. rewrite ER in EO. cbn [fst snd] in EO.
      split; [exact W7|]. split; [eapply ext_trans; eauto|]. split; [exact I7|]. split; [unfold acct in *; pwl|].
      split; [discriminate|]. split; [congruence|]. eapply fails_right; eauto.
Qed.

End WithCsize.
