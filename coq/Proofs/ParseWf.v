(* What the data actions of Model/Parse.v build (property C02), part 2: every parsed object is well
   formed (Spec/Unparse.v parsed_wf), and the corollaries that discharge the hypotheses of the
   resolution (C06), normalization (C08) and equality (C11) theorems for parsed objects. *)
From Coq Require Import List NArith Bool Lia Arith ZArith ZifyBool ZifyN.
From UP Require Import Base.Chars Base.Atoms Model.Uri Model.Ip4 Model.Parse Spec.NormalWf Spec.Unparse
  Proofs.ParseData Proofs.ParseWfStep.
Import ListNotations.
Local Open Scope N_scope.

Lemma stepW c d p ch acts c' :
  InvU c d p -> W c d -> ptrans c (atom_of ch) = (acts, Go c') -> W c' (exec_all ch d acts).
Proof.
  intros HI HW HT. destruct (lit_state c) eqn:HL.
  - rewrite (lit_W _ _ HL) in HW. eapply stepW_lit; try eassumption.
    destruct c; try discriminate HL; exact HI.
  - destruct c as [ | | | | | | | | | | | | | | | | | | | | | | | | | | r | r ]; try exact (stepW0 _ d p ch acts c' HL HI HW HT).
    + cbn [ptrans] in HT. unfold t_pct1 in HT. destruct (a_hexdig (atom_of ch)) eqn:Hh; [|discriminate HT].
      injection HT as <- <-. cbn [InvU W] in *. exact (app_pendW r 1 d p ch HI HW Hh).
    + cbn [ptrans] in HT. unfold t_pct2 in HT. destruct (a_hexdig (atom_of ch)) eqn:Hh; [|discriminate HT].
      injection HT as <- <-. cbn [InvU W] in *.
      assert (W0 (ctrl_of_pret r) 0 (exec_all ch d [AApp])) as G by exact (app_pendW r 0 d p ch HI HW Hh).
      destruct r; exact G.
Qed.

(* ---------------------------------------------------------------- the end of the text *)
Lemma finishW c d p acts : InvU c d p -> W c d -> pfinish c = (acts, Acc) ->
  parsed_wf parse_ip4 ip6_bytes (p_uri (exec_all 0 d acts)).
Proof.
  intros HI HW HF.
  destruct c as [ | | | | | | | | | | | | | | | | | | | | | | k | | | k | |]; try destruct k;
    cbv in HF; try discriminate HF; injection HF as <-;
    cbn [InvU InvU0] in HI; try contradiction; open_inv HI; subst; open_uri.
  all: wunfold_in HW; wfields_in HW; split_hyps; add_digit_pct.
  all: cbv [parsed_wf]; wunfold; wfields; wsplit.
  all: try solve [watom].
  all: match goal with H : ?a = ?a -> ?G |- ?G => exact (H eq_refl) end.
Qed.

Lemma prunW s : forall c d i p u, InvU c d p -> W c d -> prun c d i s = POk u -> parsed_wf parse_ip4 ip6_bytes u.
Proof.
  induction s as [|ch s IH]; intros c d i p u HI HW HR; cbn [prun] in HR.
  - destruct (pfinish c) as [acts f] eqn:HF. destruct f; [|discriminate HR].
    injection HR as <-. eapply finishW; eassumption.
  - destruct (ptrans c (atom_of ch)) as [acts nx] eqn:HT. destruct nx as [c'|off]; [|discriminate HR].
    eapply IH; [eapply stepU; eassumption | eapply stepW; eassumption | eassumption].
Qed.

Theorem parse_wf s u : parse s = POk u -> parsed_wf parse_ip4 ip6_bytes u.
Proof.
  intros H. unfold parse in H. apply (prunW s CStart pdata_init 0 []) in H; [exact H| |].
  - cbn [InvU InvU0]. auto.
  - wunfold. wfields. wsplit; solve [watom].
Qed.
