(* What the data actions of Model/Parse.v build (property C02), part 2: every parsed object is well
   formed (Spec/Unparse.v parsed_wf), and the corollaries that discharge the hypotheses of the
   resolution (C06), normalization (C08) and equality (C11) theorems for parsed objects. *)
From Coq Require Import List NArith Bool Lia Arith ZArith ZifyBool ZifyN.
From UP Require Import Base.Chars Base.Atoms Model.Uri Model.Ip4 Model.Parse Spec.NormalWf Spec.Unparse
  Proofs.ParseData Proofs.ParseWfStep.
From UP Require Spec.Identity Proofs.DotSegments Proofs.ResolveProofs.
Import ListNotations.
Local Open Scope N_scope.

Lemma stepW c d p ch acts c' :
  InvU c d p -> W c d -> ptrans c (atom_of ch) = (acts, Go c') -> W c' (exec_all ch d acts).
Proof.
  intros HI HW HT. destruct (lit_state c) eqn:HL.
  - rewrite (lit_W _ _ HL) in HW. eapply stepW_lit; try eassumption.
    destruct c; try discriminate HL; exact HI.
  - destruct c as [ | | | | | | | | | | | | | | | | | | | | | | | | | | r | r ]; try exact (stepW0 _ d p ch acts c' HL HI HW HT).
    + cbn [ptrans] in HT. unfold t_pct1 in HT. destruct (a_hexdig (atom_of ch)) eqn:Hh; [|discriminate HT].
      injection HT as <- <-. cbn [InvU W] in *. exact (app_pendW r 1 d p ch HI HW Hh).
    + cbn [ptrans] in HT. unfold t_pct2 in HT. destruct (a_hexdig (atom_of ch)) eqn:Hh; [|discriminate HT].
      injection HT as <- <-. cbn [InvU W] in *.
      assert (W0 (ctrl_of_pret r) 0 (exec_all ch d [AApp])) as G by exact (app_pendW r 0 d p ch HI HW Hh).
      destruct r; exact G.
Qed.

(* ---------------------------------------------------------------- the end of the text *)
Lemma finishW c d p acts : InvU c d p -> W c d -> pfinish c = (acts, Acc) ->
  parsed_wf parse_ip4 ip6_bytes (p_uri (exec_all 0 d acts)).
Proof.
  intros HI HW HF.
  destruct c as [ | | | | | | | | | | | | | | | | | | | | | | k | | | k | |]; try destruct k;
    cbv in HF; try discriminate HF; injection HF as <-;
    cbn [InvU InvU0] in HI; try contradiction; open_inv HI; subst; open_uri.
  all: wunfold_in HW; wfields_in HW; split_hyps; add_digit_pct.
  all: cbv [parsed_wf]; wunfold; wfields; wsplit.
  all: try solve [watom].
  all: match goal with H : ?a = ?a -> ?G |- ?G => exact (H eq_refl) end.
Qed.

Lemma prunW s : forall c d i p u, InvU c d p -> W c d -> prun c d i s = POk u -> parsed_wf parse_ip4 ip6_bytes u.
Proof.
  induction s as [|ch s IH]; intros c d i p u HI HW HR; cbn [prun] in HR.
  - destruct (pfinish c) as [acts f] eqn:HF. destruct f; [|discriminate HR].
    injection HR as <-. eapply finishW; eassumption.
  - destruct (ptrans c (atom_of ch)) as [acts nx] eqn:HT. destruct nx as [c'|off]; [|discriminate HR].
    eapply IH; [eapply stepU; eassumption | eapply stepW; eassumption | eassumption].
Qed.

Theorem parse_wf s u : parse s = POk u -> parsed_wf parse_ip4 ip6_bytes u.
Proof.
  intros H. unfold parse in H. apply (prunW s CStart pdata_init 0 []) in H; [exact H| |].
  - cbn [InvU InvU0]. auto.
  - wunfold. wfields. wsplit; solve [watom].
Qed.

(* ---------------------------------------------------------------- delimiters do not occur inside components *)
(* no character of [l] occurs in [t] *)
Definition none_of (l : list N) (t : text) : Prop := forall c, In c l -> ~ In c t.

Lemma class_none_of cls l t :
  forallb cls t = true -> forallb (fun c => negb (cls c)) l = true -> none_of l t.
Proof.
  intros Ht Hl c Hc Hi. rewrite forallb_forall in Ht, Hl.
  specialize (Ht c Hi). specialize (Hl c Hc). rewrite Ht in Hl. discriminate Hl.
Qed.

Lemma scheme_ok_class s : scheme_ok s -> s <> [] /\ forallb is_scheme_char s = true.
Proof.
  destruct s as [|c r]; [intros []|]. intros [H1 H2]. split; [discriminate|].
  cbn [forallb]. rewrite (in_alpha_scheme _ H1), H2. reflexivity.
Qed.

(* what the character classes of [chars_ok] exclude, component by component *)
Theorem parsed_delims u : chars_ok u ->
  opt_ok (fun s => s <> [] /\ none_of [58; 47; 63; 35; 64; 91; 93; 37; 0] s) (scheme u)
  /\ opt_ok (none_of [64; 47; 63; 35; 91; 93; 0]) (userInfo u)
  /\ opt_ok (fun h => if is_lit u then none_of [91; 93; 47; 63; 35; 64; 37; 0] h
                      else none_of [58; 47; 63; 35; 64; 91; 93; 0] h) (hostText u)
  /\ opt_ok (none_of [58; 47; 63; 35; 64; 91; 93; 37; 0]) (portText u)
  /\ Forall (none_of [47; 63; 35; 91; 93; 0]) (pathSegs u)
  /\ opt_ok (none_of [35; 91; 93; 0]) (query u)
  /\ opt_ok (none_of [35; 91; 93; 0]) (fragment u).
Proof.
  intros (Hs & Hu & Hh & Hp & Hg & Hq & Hf). repeat split.
  - destruct (scheme u) as [s|]; [|exact I]. cbn [opt_ok] in *. destruct (scheme_ok_class _ Hs) as [H1 H2].
    split; [exact H1|]. eapply class_none_of; [exact H2|vm_compute; reflexivity].
  - destruct (userInfo u) as [t|]; [|exact I]. cbn [opt_ok] in *. destruct Hu as [Hu _].
    eapply class_none_of; [exact Hu|vm_compute; reflexivity].
  - destruct (hostText u) as [h|]; [|exact I]. cbn [opt_ok]. unfold is_lit.
    destruct (is_some (ip6 u)); cbn [orb].
    + eapply class_none_of; [exact Hh|vm_compute; reflexivity].
    + destruct (is_some (ipFuture u)).
      * eapply class_none_of; [exact Hh|vm_compute; reflexivity].
      * destruct Hh as [Hh _]. eapply class_none_of; [exact Hh|vm_compute; reflexivity].
  - destruct (portText u) as [t|]; [|exact I]. cbn [opt_ok] in *.
    eapply class_none_of; [exact Hp|vm_compute; reflexivity].
  - eapply Forall_impl; [|exact Hg]. intros s [Hc _]. eapply class_none_of; [exact Hc|vm_compute; reflexivity].
  - destruct (query u) as [t|]; [|exact I]. cbn [opt_ok] in *. destruct Hq as [Hq _].
    eapply class_none_of; [exact Hq|vm_compute; reflexivity].
  - destruct (fragment u) as [t|]; [|exact I]. cbn [opt_ok] in *. destruct Hf as [Hf _].
    eapply class_none_of; [exact Hf|vm_compute; reflexivity].
Qed.

Corollary parse_delims s u : parse s = POk u ->
  opt_ok (fun s => s <> [] /\ none_of [58; 47; 63; 35; 64; 91; 93; 37; 0] s) (scheme u)
  /\ opt_ok (none_of [64; 47; 63; 35; 91; 93; 0]) (userInfo u)
  /\ opt_ok (fun h => if is_lit u then none_of [91; 93; 47; 63; 35; 64; 37; 0] h
                      else none_of [58; 47; 63; 35; 64; 91; 93; 0] h) (hostText u)
  /\ opt_ok (none_of [58; 47; 63; 35; 64; 91; 93; 37; 0]) (portText u)
  /\ Forall (none_of [47; 63; 35; 91; 93; 0]) (pathSegs u)
  /\ opt_ok (none_of [35; 91; 93; 0]) (query u)
  /\ opt_ok (none_of [35; 91; 93; 0]) (fragment u).
Proof. intros H. exact (parsed_delims u (proj1 (parse_wf s u H))). Qed.

(* ---------------------------------------------------------------- hypotheses of other properties *)
Lemma forallb_excl cls k t : cls k = false -> forallb cls t = true -> forallb (fun c => negb (c =? k)) t = true.
Proof.
  intros Hk. apply forallb_mono. intros c Hc. destruct (c =? k) eqn:E; [|reflexivity].
  apply N.eqb_eq in E. subst c. rewrite Hk in Hc. discriminate Hc.
Qed.

Lemma wf_is_host_set u : flags_ok parse_ip4 ip6_bytes u -> is_host_set u = is_some (hostText u).
Proof.
  intros [_ H]. unfold is_host_set. destruct (hostText u); [reflexivity|].
  destruct H as (-> & -> & ->). reflexivity.
Qed.

(* what the resolution theorems (C06) assume of their arguments *)
Theorem parsed_wf_resolution u : parsed_wf parse_ip4 ip6_bytes u ->
  ResolveProofs.wf u = true /\ ResolveProofs.one_kind u = true.
Proof.
  intros (Hc & Hf & Hp & Ha). pose proof (wf_is_host_set u Hf) as Hhs.
  destruct Hc as (Hs & _ & _ & _ & Hg & _ & _). destruct Hf as [_ Hf].
  split.
  - unfold ResolveProofs.wf. rewrite Hhs. apply andb_true_intro. split; [apply andb_true_intro; split|].
    + rewrite forallb_forall. intros s Hs'. rewrite Forall_forall in Hg. destruct (Hg s Hs') as [Hcl _].
      unfold DotSegments.noslash. revert Hcl. apply forallb_excl. vm_compute. reflexivity.
    + unfold path_ok in Hp. destruct (hostText u) as [h|]; cbn [is_some].
      * destruct Hf as [-> _]. reflexivity.
      * unfold ResolveProofs.no_dslash, ResolveProofs.first_nonempty.
        destruct (pathSegs u) as [|[|c s] r]; [destruct (absolutePath u); reflexivity| |destruct (absolutePath u); reflexivity].
        destruct Hp as [Hp _]. exfalso. apply Hp. reflexivity.
    + destruct (scheme u) as [s|]; [|reflexivity]. cbn [opt_ok] in Hs. destruct (scheme_ok_class _ Hs) as [_ H2].
      unfold ResolveProofs.nonul. revert H2. apply forallb_excl. vm_compute. reflexivity.
  - unfold ResolveProofs.one_kind. destruct (hostText u) as [h|].
    + destruct Hf as [_ Hf]. destruct (ip6 u), (ipFuture u); try contradiction.
      * destruct Hf as (-> & _). reflexivity.
      * destruct Hf as (-> & _). reflexivity.
      * destruct (ip4 u); reflexivity.
    + destruct Hf as (-> & -> & _). reflexivity.
Qed.

(* what the normalization theorems (C08) assume *)
Theorem parsed_wf_normalization u : parsed_wf parse_ip4 ip6_bytes u -> uri_wf u.
Proof.
  intros (Hc & Hf & Hp & Ha). pose proof (wf_is_host_set u Hf) as Hhs.
  destruct Hc as (_ & Hu & Hh & _ & Hg & Hq & Hfr). destruct Hf as [_ Hf].
  split; [|split; [|split]].
  - unfold uri_pct_wf, is_regname.
    repeat (apply andb_true_intro; split).
    + destruct (userInfo u); [exact (proj2 Hu)|reflexivity].
    + destruct (hostText u) as [h|]; [|reflexivity]. cbn [is_some andb opt_pct_wf].
      destruct (is_some (ip4 u)); [reflexivity|]. cbn [negb andb].
      destruct (is_some (ip6 u)); [reflexivity|]. cbn [negb andb].
      destruct (is_some (ipFuture u)); [reflexivity|]. exact (proj2 Hh).
    + rewrite forallb_forall. intros s Hs'. rewrite Forall_forall in Hg. exact (proj2 (Hg s Hs')).
    + destruct (query u); [exact (proj2 Hq)|reflexivity].
    + destruct (fragment u); [exact (proj2 Hfr)|reflexivity].
  - intros f Hfu. destruct (hostText u) as [h|].
    + destruct Hf as [_ Hf]. rewrite Hfu in Hf. destruct (ip6 u); [contradiction|].
      destruct Hf as (_ & -> & _). reflexivity.
    + destruct Hf as (_ & _ & Hf). rewrite Hf in Hfu. discriminate Hfu.
  - unfold lone_empty_hostless. rewrite Hhs. unfold path_ok in Hp.
    destruct (hostText u); [reflexivity|]. cbn [is_some negb andb].
    destruct (pathSegs u) as [|[|c s] [|s2 r]]; try reflexivity.
    destruct Hp as [Hp _]. exfalso. apply Hp. reflexivity.
  - unfold ambiguous_path. rewrite Hhs. unfold path_ok in Hp.
    destruct (hostText u) as [h|].
    + destruct Hf as [-> _]. cbn [is_some negb]. destruct (pathSegs u) as [|[|? ?] [|[|? ?] ?]]; reflexivity.
    + cbn [is_some negb].
      destruct (pathSegs u) as [|[|c s] r]; [destruct (absolutePath u); reflexivity| |destruct (absolutePath u); reflexivity].
      destruct Hp as [Hp _]. exfalso. apply Hp. reflexivity.
Qed.

Lemma class_nul_free cls t : cls 0 = false -> forallb cls t = true -> Identity.nul_free t.
Proof.
  intros H0 Ht Hi. rewrite forallb_forall in Ht. specialize (Ht 0 Hi). rewrite H0 in Ht. discriminate Ht.
Qed.

(* what the equality theorems (C11) assume *)
Theorem parsed_wf_equality u : parsed_wf parse_ip4 ip6_bytes u -> Identity.uri_nul_free u.
Proof.
  intros (Hc & Hf & _ & _). destruct Hc as (Hs & Hu & Hh & Hpo & Hg & Hq & Hfr). destruct Hf as [_ Hf].
  assert (Identity.opt_nul_free (hostText u)) as Hhost.
  { destruct (hostText u) as [h|]; [|exact I]. cbn [Identity.opt_nul_free].
    destruct (is_some (ip6 u)); [exact (class_nul_free _ _ eq_refl Hh)|].
    destruct (is_some (ipFuture u)); [exact (class_nul_free _ _ eq_refl Hh)|].
    exact (class_nul_free _ _ eq_refl (proj1 Hh)). }
  unfold Identity.uri_nul_free. repeat split.
  - destruct (scheme u) as [s|]; [|exact I]. cbn [opt_ok Identity.opt_nul_free] in *.
    exact (class_nul_free _ _ eq_refl (proj2 (scheme_ok_class _ Hs))).
  - destruct (userInfo u) as [t|]; [|exact I]. exact (class_nul_free _ _ eq_refl (proj1 Hu)).
  - exact Hhost.
  - destruct (ipFuture u) as [f|] eqn:Efu; [|exact I]. destruct (hostText u) as [h|].
    + destruct Hf as [_ Hf]. destruct (ip6 u); [contradiction|]. destruct Hf as (_ & -> & _). exact Hhost.
    + destruct Hf as (_ & _ & Hf). discriminate Hf.
  - destruct (portText u) as [t|]; [|exact I]. exact (class_nul_free _ _ eq_refl Hpo).
  - eapply Forall_impl; [|exact Hg]. intros s [Hcl _]. exact (class_nul_free _ _ eq_refl Hcl).
  - destruct (query u) as [t|]; [|exact I]. exact (class_nul_free _ _ eq_refl (proj1 Hq)).
  - destruct (fragment u) as [t|]; [|exact I]. exact (class_nul_free _ _ eq_refl (proj1 Hfr)).
Qed.

Corollary parse_wf_resolution s u : parse s = POk u ->
  ResolveProofs.wf u = true /\ ResolveProofs.one_kind u = true.
Proof. intros H. exact (parsed_wf_resolution u (parse_wf s u H)). Qed.
Corollary parse_wf_normalization s u : parse s = POk u -> uri_wf u.
Proof. intros H. exact (parsed_wf_normalization u (parse_wf s u H)). Qed.
Corollary parse_wf_equality s u : parse s = POk u -> Identity.uri_nul_free u.
Proof. intros H. exact (parsed_wf_equality u (parse_wf s u H)). Qed.

(* ---------------------------------------------------------------- every component is a piece of the input *)
Lemma infix_refl t : infix t t.
Proof. exists [], []. rewrite app_nil_r. reflexivity. Qed.
Lemma infix_app_l t x y : infix t y -> infix t (x ++ y).
Proof. intros (a & b & ->). exists (x ++ a), b. rewrite <- app_assoc. reflexivity. Qed.
Lemma infix_app_r t x y : infix t x -> infix t (x ++ y).
Proof. intros (a & b & ->). exists a, (b ++ y). rewrite <- !app_assoc. reflexivity. Qed.
Lemma infix_cons t c y : infix t y -> infix t (c :: y).
Proof. apply (infix_app_l t [c] y). Qed.

Lemma infix_slashed s ps : In s ps -> infix s (concat (map (fun s => 47 :: s) ps)).
Proof.
  induction ps as [|x r IH]; intros H; [destruct H|]. cbn [map concat]. destruct H as [->|H].
  - apply infix_app_r. apply infix_cons. apply infix_refl.
  - apply infix_app_l. exact (IH H).
Qed.

Lemma infix_join s ps : In s ps -> infix s (join_slash ps).
Proof.
  induction ps as [|x r IH]; intros H; [destruct H|]. destruct H as [->|H].
  - cbn [join_slash]. destruct r; [apply infix_refl|apply infix_app_r; apply infix_refl].
  - cbn [join_slash]. destruct r as [|y r']; [destruct H|].
    apply infix_app_l. apply infix_app_l. exact (IH H).
Qed.

Lemma unparse_inside u : auth_ok u -> (forall f, ipFuture u = Some f -> hostText u = Some f) ->
  components_inside u (unparse u).
Proof.
  intros Hau Hfu.
  assert (opt_ok (fun t => infix t (unparse u)) (hostText u)) as Hhost.
  { unfold unparse, authority_part, host_part. destruct (hostText u) as [h|]; [|exact I]. cbn [opt_ok].
    apply infix_app_l. apply infix_app_r. apply infix_app_l. apply infix_app_l. apply infix_app_r.
    destruct (is_lit u); [apply infix_app_l; apply infix_app_r|]; apply infix_refl. }
  unfold components_inside. repeat split.
  - unfold unparse, scheme_part. destruct (scheme u); [|exact I]. cbn [opt_ok opt_post].
    apply infix_app_r. apply infix_app_r. apply infix_refl.
  - unfold unparse, authority_part, auth_ok in *. destruct (userInfo u) as [t|] eqn:E; [|exact I]. cbn [opt_ok].
    destruct (hostText u) as [h|]; [|destruct Hau as [Hau _]; discriminate Hau].
    apply infix_app_l. apply infix_app_r. apply infix_app_l. apply infix_app_r. cbn [opt_post].
    apply infix_app_r. apply infix_refl.
  - exact Hhost.
  - destruct (ipFuture u) as [f|] eqn:E; [|exact I]. cbn [opt_ok]. rewrite (Hfu f eq_refl) in Hhost. exact Hhost.
  - unfold unparse, authority_part, auth_ok in *. destruct (portText u) as [t|] eqn:E; [|exact I]. cbn [opt_ok].
    destruct (hostText u) as [h|]; [|destruct Hau as [_ Hau]; discriminate Hau].
    apply infix_app_l. apply infix_app_r. apply infix_app_l. apply infix_app_l. apply infix_app_l. cbn [opt_pre].
    apply infix_app_l. apply infix_refl.
  - rewrite Forall_forall. intros s Hs. unfold unparse, path_part.
    apply infix_app_l. apply infix_app_l. apply infix_app_r.
    destruct (is_some (hostText u)); [apply infix_slashed; exact Hs|apply infix_app_l; apply infix_join; exact Hs].
  - unfold unparse. destruct (query u); [|exact I]. cbn [opt_ok opt_pre].
    apply infix_app_l. apply infix_app_l. apply infix_app_l. apply infix_app_r. apply infix_app_l. apply infix_refl.
  - unfold unparse. destruct (fragment u); [|exact I]. cbn [opt_ok opt_pre].
    apply infix_app_l. apply infix_app_l. apply infix_app_l. apply infix_app_l. apply infix_app_l. apply infix_refl.
Qed.

(* on success every reported text is a contiguous piece of the input *)
Theorem parse_inside s u : parse s = POk u -> components_inside u s.
Proof.
  intros H. rewrite <- (parse_unparse s u H) at 1.
  destruct (parse_wf s u H) as (_ & _ & _ & Hau).
  destruct (parse_wf_normalization s u H) as (_ & Hfu & _).
  apply unparse_inside; assumption.
Qed.
