(* Fault transparency of the memory tier: if the fault plan fails none of the requests a call makes, the call
   returns what it returns under NoFault and leaves the same ledger and the same trace.
   [np s] is the state s with the plan replaced by NoFault. *)
From Coq Require Import List NArith Bool Arith Lia.
From UP Require Import Base.Chars Base.Atoms Model.Uri Model.Ip4 Model.Parse Model.Common Model.Compare
  Model.Resolve Model.Shorten Model.Normalize Model.Mem Model.ParseM Model.OpsM Proofs.LedgerProofs Proofs.LedgerOps Proofs.LedgerNormalize.
Import ListNotations.

Definition np (s : mstate) : mstate :=
  {| ms_next := ms_next s; ms_live := ms_live s; ms_requests := ms_requests s; ms_plan := NoFault; ms_trace := ms_trace s |}.
(* plan unchanged, request counter only grows *)
Definition mono (s s' : mstate) : Prop := ms_plan s' = ms_plan s /\ ms_requests s <= ms_requests s'.
(* the plan fails none of the requests numbered after s up to s' *)
Definition clean (s s' : mstate) : Prop := forall n, ms_requests s < n <= ms_requests s' -> plan_fails (ms_plan s) n = false.

Lemma mono_refl s : mono s s.
Proof. split; auto. Qed.
Lemma mono_trans s1 s2 s3 : mono s1 s2 -> mono s2 s3 -> mono s1 s3.
Proof. intros [a b] [c d]. split; [congruence|lia]. Qed.

(* solve [clean si sj] from [clean s0 sn] and the mono facts in the context *)
Ltac cl :=
  unfold clean, mono in *; cbn [fst snd] in *;
  repeat match goal with H : _ /\ _ |- _ => destruct H end;
  let n := fresh "n" in let Hn := fresh "Hn" in intros n Hn;
  match goal with
  | C : forall k, _ -> plan_fails (ms_plan ?s0) k = false |- plan_fails (ms_plan ?si) _ = false =>
    replace (ms_plan si) with (ms_plan s0) by congruence; apply C; lia
  end.
Ltac mo := unfold mono in *; cbn [fst snd] in *; repeat match goal with H : _ /\ _ |- _ => destruct H end; split; [congruence|lia].

(* ---------------------------------------------------------------- primitives *)
Lemma alloc_mono c sz s : mono s (snd (alloc c sz s)).
Proof. unfold alloc. destruct (plan_fails (ms_plan s) (S (ms_requests s))); split; cbn; auto. Qed.

Lemma alloc_np c sz s : clean s (snd (alloc c sz s)) -> alloc c sz (np s) = (fst (alloc c sz s), np (snd (alloc c sz s))).
Proof.
  intros C. assert (H : plan_fails (ms_plan s) (S (ms_requests s)) = false).
  { apply C. unfold alloc. destruct (plan_fails (ms_plan s) (S (ms_requests s))); cbn; lia. }
  unfold alloc. rewrite H. reflexivity.
Qed.

Lemma free_blk_np b s : free_blk b (np s) = np (free_blk b s).
Proof. unfold free_blk. cbn [np ms_live]. destruct (remove_blk b (ms_live s)) as [[sz l]|]; reflexivity. Qed.
Lemma free_blk_mono b s : mono s (free_blk b s) /\ ms_requests (free_blk b s) = ms_requests s.
Proof. unfold free_blk. destruct (remove_blk b (ms_live s)) as [[sz l]|]; repeat split; cbn; auto. Qed.
Lemma bad_free_np s : bad_free (np s) = np (bad_free s).
Proof. reflexivity. Qed.

(* state transformers that only release: they commute with [np] and make no request *)
Definition releases_only (g : mstate -> mstate) : Prop :=
  forall s, g (np s) = np (g s) /\ ms_plan (g s) = ms_plan s /\ ms_requests (g s) = ms_requests s.

Lemma ro_id : releases_only (fun s => s).
Proof. intros s. auto. Qed.
Lemma ro_free_blk b : releases_only (free_blk b).
Proof. intros s. split; [apply free_blk_np|]. destruct (free_blk_mono b s) as [[a _] c]. auto. Qed.
Lemma ro_bad_free : releases_only bad_free.
Proof. intros s. auto. Qed.
Lemma ro_comp g h : releases_only g -> releases_only h -> releases_only (fun s => h (g s)).
Proof. intros G H s. destruct (G s) as (a & b & c). destruct (H (g s)) as (d & e & f). rewrite a. split; [exact d|]. split; congruence. Qed.
Lemma ro_ext g h : (forall s, g s = h s) -> releases_only g -> releases_only h.
Proof. intros E G s. rewrite <- !E. apply G. Qed.
Lemma ro_fold {A} (f : mstate -> A -> mstate) l : (forall a, releases_only (fun s => f s a)) -> releases_only (fun s => fold_left f l s).
Proof.
  intros H. induction l as [|a r IH]; [apply ro_id|]. cbn [fold_left].
  apply (ro_comp (fun s => f s a) (fun s => fold_left f r s)); [apply H|exact IH].
Qed.
Lemma ro_mono g s : releases_only g -> mono s (g s).
Proof. intros G. destruct (G s) as (_ & a & b). split; [exact a|lia]. Qed.

Lemma ro_free_opt o : releases_only (free_opt o).
Proof. destruct o; [apply ro_free_blk|apply ro_id]. Qed.
Lemma ro_free_text o t : releases_only (free_text o t).
Proof.
  unfold free_text. destruct o; [|apply ro_id]. destruct (t_val t) as [[|? ?]|]; try apply ro_id.
  destruct (t_blk t); [apply ro_free_blk|apply ro_bad_free].
Qed.
Lemma ro_free_seg o sg : releases_only (free_seg o sg).
Proof.
  unfold free_seg. apply (ro_comp _ (free_blk (sg_node sg))); [|apply ro_free_blk].
  destruct o; [|apply ro_id]. destruct (sg_text sg); [apply ro_id|]. destruct (sg_blk sg); [apply ro_free_blk|apply ro_bad_free].
Qed.
Lemma ro_free_partial b : releases_only (free_partial b).
Proof.
  unfold free_partial. apply (ro_comp (fun s => free_opt (pb_ip6 b) (free_opt (pb_ip4 b) s))).
  - apply (ro_comp (free_opt (pb_ip4 b)) (free_opt (pb_ip6 b))); apply ro_free_opt.
  - apply (ro_fold (fun st n => free_blk n st)). intros a. apply ro_free_blk.
Qed.

Lemma ro_np g s : releases_only g -> g (np s) = np (g s).
Proof. intros G. apply G. Qed.
Lemma ro_req g s : releases_only g -> ms_requests (g s) = ms_requests s.
Proof. intros G. apply G. Qed.
Lemma ro_plan g s : releases_only g -> ms_plan (g s) = ms_plan s.
Proof. intros G. apply G. Qed.

Lemma ro_free_segs o l : releases_only (fun s => fold_left (fun st sg => free_seg o sg st) l s).
Proof. apply (ro_fold (fun st sg => free_seg o sg st)). intros a. apply ro_free_seg. Qed.

Lemma free_members_np m s : free_members m (np s) = (fst (free_members m s), np (snd (free_members m s)))
  /\ ms_plan (snd (free_members m s)) = ms_plan s /\ ms_requests (snd (free_members m s)) = ms_requests s.
Proof.
  unfold free_members. cbn [fst snd].
  destruct (m_ip4 m) as [[? ?]|], (m_ip6 m) as [[? ?]|], (t_val (m_ipFuture m));
  repeat (rewrite ?(ro_np _ _ (ro_free_text _ _)), ?(ro_np _ _ (ro_free_blk _)), ?(ro_np _ _ (ro_free_segs _ _)));
  (split; [reflexivity|]);
  rewrite ?(ro_req _ _ (ro_free_text _ _)), ?(ro_req _ _ (ro_free_blk _)), ?(ro_req _ _ (ro_free_segs _ _)),
          ?(ro_plan _ _ (ro_free_text _ _)), ?(ro_plan _ _ (ro_free_blk _)), ?(ro_plan _ _ (ro_free_segs _ _));
  repeat (rewrite ?(ro_req _ _ (ro_free_text _ _)), ?(ro_req _ _ (ro_free_blk _)), ?(ro_req _ _ (ro_free_segs _ _)),
          ?(ro_plan _ _ (ro_free_text _ _)), ?(ro_plan _ _ (ro_free_blk _)), ?(ro_plan _ _ (ro_free_segs _ _)));
  split; reflexivity.
Qed.

(* ---------------------------------------------------------------- operations that allocate *)
(* [TR f]: f moves plan and counter forward only and, when the plan fails none of the requests f makes,
   f run under NoFault gives the same result and the same state (up to the plan) *)
Definition TR {A} (f : mstate -> A * mstate) : Prop :=
  forall s, mono s (snd (f s)) /\ (clean s (snd (f s)) -> f (np s) = (fst (f s), np (snd (f s)))).

Lemma TR_alloc c sz : TR (alloc c sz).
Proof. intros s. split; [apply alloc_mono|apply alloc_np]. Qed.

Lemma clean_ro g s0 s : releases_only g -> mono s0 s -> clean s0 (g s) -> clean s0 s.
Proof. intros G M C. destruct (G s) as (_ & a & b). unfold clean in *. intros n Hn. apply C. lia. Qed.

Lemma exec_m_TR ch d b a : TR (exec_m ch d b a).
Proof.
  intros s.
  assert (Triv : forall r : option (pdata * pblocks), mono s (snd (r, s)) /\ (clean s (snd (r, s)) -> (r, np s) = (fst (r, s), np (snd (r, s)))))
    by (intros; split; [apply mono_refl|reflexivity]).
  destruct a; cbn [exec_m]; try apply Triv.
  - destruct (TR_alloc true SEG_SIZE s) as [M T]. destruct (alloc true SEG_SIZE s) as [[id|] s1]; cbn [fst snd] in *;
      (split; [exact M|]; intros C; rewrite (T C); reflexivity).
  - destruct (TR_alloc true SEG_SIZE s) as [M T]. destruct (alloc true SEG_SIZE s) as [[id|] s1]; cbn [fst snd] in *;
      (split; [exact M|]; intros C; rewrite (T C); reflexivity).
  - destruct (TR_alloc false IP4_SIZE s) as [M T]. destruct (alloc false IP4_SIZE s) as [[id|] s1]; cbn [fst snd] in *.
    + destruct (ip4 (p_uri (exec ch d AHostReg))); cbn [fst snd].
      * split; [exact M|]. intros C. rewrite (T C). reflexivity.
      * split; [eapply mono_trans; [exact M|apply (ro_mono _ _ (ro_free_blk id))]|]. intros C.
        rewrite (T (clean_ro _ _ _ (ro_free_blk id) M C)). rewrite free_blk_np. reflexivity.
    + split; [exact M|]. intros C. rewrite (T C). reflexivity.
  - destruct (TR_alloc false IP4_SIZE s) as [M T]. destruct (alloc false IP4_SIZE s) as [[id|] s1]; cbn [fst snd] in *.
    + destruct (ip4 (p_uri (exec ch d AHostPort))); cbn [fst snd].
      * split; [exact M|]. intros C. rewrite (T C). reflexivity.
      * split; [eapply mono_trans; [exact M|apply (ro_mono _ _ (ro_free_blk id))]|]. intros C.
        rewrite (T (clean_ro _ _ _ (ro_free_blk id) M C)). rewrite free_blk_np. reflexivity.
    + split; [exact M|]. intros C. rewrite (T C). reflexivity.
  - destruct (TR_alloc false IP6_SIZE s) as [M T]. destruct (alloc false IP6_SIZE s) as [[id|] s1]; cbn [fst snd] in *;
      (split; [exact M|]; intros C; rewrite (T C); reflexivity).
  - destruct (pathSegs (p_uri d)); [apply Triv|]. destruct (pathSegs (p_uri (exec ch d AFixEmptyTrail))); [|apply Triv].
    destruct (pb_nodes b); [apply Triv|]. cbn [fst snd]. split; [apply (ro_mono _ _ (ro_free_blk n))|]. intros _. rewrite free_blk_np. reflexivity.
Qed.

Lemma exec_all_m_TR ch acts : forall d b, TR (exec_all_m ch d b acts).
Proof.
  induction acts as [|a r IH]; intros d b s; cbn [exec_all_m].
  - split; [apply mono_refl|reflexivity].
  - destruct (exec_m_TR ch d b a s) as [M T]. destruct (exec_m ch d b a s) as [[[d1 b1]|] s1]; cbn [fst snd] in *.
    + destruct (IH d1 b1 s1) as [M2 T2]. split; [eapply mono_trans; eauto|]. intros C.
      rewrite T by cl. rewrite T2 by cl. destruct (exec_all_m ch d1 b1 r s1) as [[? ?] ?]. reflexivity.
    + split; [exact M|]. intros C. rewrite (T C). reflexivity.
Qed.

Lemma prun_m_TR t : forall c d b i, TR (prun_m c d b i t).
Proof.
  induction t as [|ch r IH]; intros c d b i s; cbn [prun_m].
  - destruct (pfinish c) as [acts [|]].
    + destruct (exec_all_m_TR 0%N acts d b s) as [M T]. destruct (exec_all_m 0%N d b acts s) as [[[[d1 b1]|] bh] s1]; cbn [fst snd] in *.
      * split; [exact M|]. intros C. rewrite (T C). reflexivity.
      * split; [eapply mono_trans; [exact M|apply (ro_mono _ _ (ro_free_partial bh))]|]. intros C.
        rewrite (T (clean_ro _ _ _ (ro_free_partial bh) M C)). rewrite (ro_np _ _ (ro_free_partial bh)). reflexivity.
    + cbn [fst snd]. split; [apply (ro_mono _ _ (ro_free_partial b))|]. intros _. rewrite (ro_np _ _ (ro_free_partial b)). reflexivity.
  - destruct (ptrans c (atom_of ch)) as [acts nx].
    destruct (exec_all_m_TR ch acts d b s) as [M T]. destruct (exec_all_m ch d b acts s) as [[[[d1 b1]|] bh] s1]; cbn [fst snd] in *.
    + destruct nx as [c'|off].
      * destruct (IH c' d1 b1 (S i) s1) as [M2 T2]. split; [eapply mono_trans; eauto|]. intros C.
        rewrite T by cl. rewrite T2 by cl. destruct (prun_m c' d1 b1 (S i) r s1). reflexivity.
      * cbn [fst snd]. split; [eapply mono_trans; [exact M|apply (ro_mono _ _ (ro_free_partial b1))]|]. intros C.
        rewrite (T (clean_ro _ _ _ (ro_free_partial b1) M C)). rewrite (ro_np _ _ (ro_free_partial b1)). reflexivity.
    + split; [eapply mono_trans; [exact M|apply (ro_mono _ _ (ro_free_partial bh))]|]. intros C.
      rewrite (T (clean_ro _ _ _ (ro_free_partial bh) M C)). rewrite (ro_np _ _ (ro_free_partial bh)). reflexivity.
Qed.

(* uriParseSingleUriExMm *)
Theorem parse_m_transparent t s : clean s (snd (parse_m t s)) ->
  parse_m t (np s) = (fst (parse_m t s), np (snd (parse_m t s))).
Proof. apply prun_m_TR. Qed.

(* ---------------------------------------------------------------- Model/OpsM.v *)
Ltac leaf :=
  cbn [fst snd] in *; split; [mo|];
  let C := fresh "C" in intros C;
  repeat (match goal with T : clean _ _ -> _ = _ |- _ => rewrite T by cl end; cbv beta iota);
  try reflexivity.

Lemma TR_ret {A} (a : A) : TR (fun s => (a, s)).
Proof. intros s. split; [apply mono_refl|reflexivity]. Qed.

Lemma ro_free_seg_owned sg : releases_only (free_seg_owned sg).
Proof. apply (ro_ext (free_seg true sg)); [reflexivity|apply ro_free_seg]. Qed.
Lemma ro_drop_seg o sg : releases_only (drop_seg o sg).
Proof. apply (ro_ext (free_seg o sg)); [reflexivity|apply ro_free_seg]. Qed.
Lemma ro_free_nonempty t : releases_only (free_nonempty t).
Proof. apply (ro_ext (free_text true t)); [reflexivity|apply ro_free_text]. Qed.
Lemma ro_blank_seg o sg : releases_only (fun s => snd (blank_seg o sg s)) /\ forall s, fst (blank_seg o sg s) = blank sg.
Proof.
  split; [|reflexivity]. unfold blank_seg. cbn [snd]. destruct o; [|apply ro_id].
  destruct (sg_text sg); [apply ro_id|]. destruct (sg_blk sg); [apply ro_free_blk|apply ro_bad_free].
Qed.
Lemma ro_fold_owned l : releases_only (fun s => fold_left (fun st x => free_seg_owned x st) l s).
Proof. apply (ro_fold (fun st x => free_seg_owned x st)). intros a. apply ro_free_seg_owned. Qed.
Lemma ro_fold_nodes l : releases_only (fun s => fold_left (fun st x => free_blk (sg_node x) st) l s).
Proof. apply (ro_fold (fun st x => free_blk (sg_node x) st)). intros a. apply ro_free_blk. Qed.

Section WithCsize.
Variable csize : N.

Lemma dup_text_TR t : TR (dup_text csize t).
Proof.
  intros s. unfold dup_text. destruct (t_val t) as [[|c r]|]; try apply (TR_ret (Some t)).
  destruct (TR_alloc false (tlen (c :: r) * csize) s) as [M T]. destruct (alloc false (tlen (c :: r) * csize) s) as [[id|] s1]; leaf.
Qed.

Lemma range_owner_TR done bitv t : TR (range_owner csize done bitv t).
Proof.
  intros s. unfold range_owner. destruct (negb (N.land done bitv =? 0)%N); [apply (TR_ret (Some (t, done)))|].
  destruct (t_val t) as [[|c r]|] eqn:EV; try apply (TR_ret (Some (t, done))).
  destruct (dup_text_TR t s) as [M T]. destruct (dup_text csize t s) as [[t'|] s1]; leaf.
Qed.

Lemma own_segs_TR rest : forall acc, TR (own_segs csize acc rest).
Proof.
  induction rest as [|sg r IH]; intros acc s; cbn [own_segs]; [apply (TR_ret (Some (rev acc)))|].
  destruct (sg_text sg) as [|c t] eqn:ET; [apply IH|].
  destruct (TR_alloc false (tlen (c :: t) * csize) s) as [M T]. destruct (alloc false (tlen (c :: t) * csize) s) as [[id|] s1]; cbn [fst snd] in *.
  - destruct (IH ({| sg_text := c :: t; sg_blk := Some id; sg_node := sg_node sg |} :: acc) s1) as [M2 T2].
    split; [eapply mono_trans; eauto|]. intros C. rewrite T by cl. rewrite T2 by cl.
    destruct (own_segs csize _ r s1). reflexivity.
  - pose proof (ro_fold_owned (rev acc)) as G1. pose proof (ro_fold_nodes (sg :: r)) as G2.
    pose proof (ro_comp _ _ G1 G2) as G. cbv beta in G. cbn [fst snd].
    split; [eapply mono_trans; [exact M|apply (ro_mono _ _ G)]|]. intros C.
    rewrite (T (clean_ro _ _ _ G M C)). rewrite (ro_np _ _ G). reflexivity.
Qed.

Lemma host_step_TR m done : TR (host_step_of csize m done).
Proof.
  intros s. unfold host_step_of. destruct (bitb done B_HOST); [apply (TR_ret (Some (m, done)))|].
  destruct (t_val (m_ipFuture m)).
  - destruct (range_owner_TR done B_HOST (m_ipFuture m) s) as [M T].
    destruct (range_owner csize done B_HOST (m_ipFuture m) s) as [[[t' d']|] s1]; leaf.
  - destruct (t_val (m_hostText m)); [|apply (TR_ret (Some (m, done)))].
    destruct (range_owner_TR done B_HOST (m_hostText m) s) as [M T].
    destruct (range_owner csize done B_HOST (m_hostText m) s) as [[[t' d']|] s1]; leaf.
Qed.

Lemma path_step_TR m done : TR (path_step_of csize m done).
Proof.
  intros s. unfold path_step_of. destruct (bitb done B_PATH); [apply (TR_ret (Some (m, done)))|].
  destruct (own_segs_TR (m_segs m) [] s) as [M T]. destruct (own_segs csize [] (m_segs m) s) as [[segs|] s1]; leaf.
Qed.

Lemma make_owner_engine_TR m done : TR (make_owner_engine csize m done).
Proof.
  intros s. rewrite !make_owner_engine_eq.
  destruct (range_owner_TR done B_SCHEME (m_scheme m) s) as [M1 T1].
  destruct (range_owner csize done B_SCHEME (m_scheme m) s) as [[[t1 d1]|] s1]; [|leaf]. cbv zeta.
  match goal with |- context [range_owner csize d1 B_USER ?tt s1] => destruct (range_owner_TR d1 B_USER tt s1) as [M2 T2];
    destruct (range_owner csize d1 B_USER tt s1) as [[[t2 d2]|] s2]; [|leaf] end.
  match goal with |- context [range_owner csize d2 B_QUERY ?tt s2] => destruct (range_owner_TR d2 B_QUERY tt s2) as [M3 T3];
    destruct (range_owner csize d2 B_QUERY tt s2) as [[[t3 d3]|] s3]; [|leaf] end.
  match goal with |- context [range_owner csize d3 B_FRAG ?tt s3] => destruct (range_owner_TR d3 B_FRAG tt s3) as [M4 T4];
    destruct (range_owner csize d3 B_FRAG tt s3) as [[[t4 d4]|] s4]; [|leaf] end.
  match goal with |- context [host_step_of csize ?mm d4 s4] => destruct (host_step_TR mm d4 s4) as [M5 T5];
    destruct (host_step_of csize mm d4 s4) as [[[m5 d5]|] s5]; [|leaf] end.
  destruct (path_step_TR m5 d5 s5) as [M6 T6]. destruct (path_step_of csize m5 d5 s5) as [[[m6 d6]|] s6]; [|leaf].
  destruct (dup_text_TR (m_portText m6) s6) as [M7 T7]. destruct (dup_text csize (m_portText m6) s6) as [[t7|] s7]; leaf.
Qed.

(* uriPreventLeakage only releases *)
Definition RO2 (f : muri * mstate -> muri * mstate) : Prop :=
  forall m s, f (m, np s) = (fst (f (m, s)), np (snd (f (m, s))))
              /\ ms_plan (snd (f (m, s))) = ms_plan s /\ ms_requests (snd (f (m, s))) = ms_requests s.
Lemma RO2_comp f g : RO2 f -> RO2 g -> RO2 (fun ms => g (f ms)).
Proof.
  intros F G m s. destruct (F m s) as (a & b & c). rewrite a. destruct (f (m, s)) as [m1 s1]. cbn [fst snd] in *.
  destruct (G m1 s1) as (d & e & f'). rewrite d. split; [reflexivity|]. split; congruence.
Qed.
Lemma RO2_of_ro (h : muri -> muri) (g : muri -> mstate -> mstate) : (forall m, releases_only (g m)) ->
  RO2 (fun ms => (h (fst ms), g (fst ms) (snd ms))).
Proof. intros G m s. cbn [fst snd]. destruct (G m s) as (a & b & c). rewrite a. auto. Qed.
Lemma RO2_id : RO2 (fun ms => ms).
Proof. intros m s. auto. Qed.
Lemma RO2_ext f g : (forall ms, f ms = g ms) -> RO2 f -> RO2 g.
Proof. intros E F m s. rewrite <- !E. apply F. Qed.

Lemma pl_scheme_RO2 b : RO2 (pl_scheme b).
Proof.
  destruct b; [|apply (RO2_ext (fun ms => ms)); [intros [? ?]; reflexivity|apply RO2_id]].
  apply (RO2_ext (fun ms => (set_m_scheme mt_none (fst ms), match t_blk (m_scheme (fst ms)) with Some b => free_blk b | None => bad_free end (snd ms)))).
  - intros [m s]. cbn [fst snd pl_scheme]. destruct (t_blk (m_scheme m)); reflexivity.
  - apply (RO2_of_ro (set_m_scheme mt_none) (fun m => match t_blk (m_scheme m) with Some b => free_blk b | None => bad_free end)).
    intros m. destruct (t_blk (m_scheme m)); [apply ro_free_blk|apply ro_bad_free].
Qed.
Lemma pl_user_RO2 b : RO2 (pl_user b).
Proof.
  destruct b; [|apply (RO2_ext (fun ms => ms)); [intros [? ?]; reflexivity|apply RO2_id]].
  apply (RO2_ext (fun ms => (set_m_userInfo mt_none (fst ms), free_nonempty (m_userInfo (fst ms)) (snd ms)))); [intros [m s]; reflexivity|].
  apply (RO2_of_ro (set_m_userInfo mt_none) (fun m => free_nonempty (m_userInfo m))). intros m. apply ro_free_nonempty.
Qed.
Lemma pl_query_RO2 b : RO2 (pl_query b).
Proof.
  destruct b; [|apply (RO2_ext (fun ms => ms)); [intros [? ?]; reflexivity|apply RO2_id]].
  apply (RO2_ext (fun ms => (set_m_query mt_none (fst ms), free_nonempty (m_query (fst ms)) (snd ms)))); [intros [m s]; reflexivity|].
  apply (RO2_of_ro (set_m_query mt_none) (fun m => free_nonempty (m_query m))). intros m. apply ro_free_nonempty.
Qed.
Lemma pl_frag_RO2 b : RO2 (pl_frag b).
Proof.
  destruct b; [|apply (RO2_ext (fun ms => ms)); [intros [? ?]; reflexivity|apply RO2_id]].
  apply (RO2_ext (fun ms => (set_m_fragment mt_none (fst ms), free_nonempty (m_fragment (fst ms)) (snd ms)))); [intros [m s]; reflexivity|].
  apply (RO2_of_ro (set_m_fragment mt_none) (fun m => free_nonempty (m_fragment m))). intros m. apply ro_free_nonempty.
Qed.
Lemma pl_path_RO2 b : RO2 (pl_path b).
Proof.
  destruct b; [|apply (RO2_ext (fun ms => ms)); [intros [? ?]; reflexivity|apply RO2_id]].
  apply (RO2_ext (fun ms => (set_m_segs [] (fst ms), fold_left (fun st sg => free_seg_owned sg st) (m_segs (fst ms)) (snd ms)))); [intros [m s]; reflexivity|].
  apply (RO2_of_ro (set_m_segs []) (fun m s => fold_left (fun st sg => free_seg_owned sg st) (m_segs m) s)). intros m. apply ro_fold_owned.
Qed.
Lemma pl_host_RO2 b : RO2 (pl_host b).
Proof.
  destruct b; [|apply (RO2_ext (fun ms => ms)); [intros [? ?]; reflexivity|apply RO2_id]].
  intros m s. unfold pl_host. destruct (t_val (m_ipFuture m)).
  - cbn [fst snd]. destruct (t_blk (m_ipFuture m)).
    + rewrite free_blk_np. destruct (ro_free_blk n s) as (_ & a & b). auto.
    + auto.
  - destruct (t_val (m_hostText m)); cbn [fst snd]; [|auto].
    destruct (ro_free_nonempty (m_hostText m) s) as (a & b & c). rewrite a. auto.
Qed.

Lemma prevent_leakage_np m done s :
  prevent_leakage m done (np s) = (fst (prevent_leakage m done s), np (snd (prevent_leakage m done s)))
  /\ ms_plan (snd (prevent_leakage m done s)) = ms_plan s /\ ms_requests (snd (prevent_leakage m done s)) = ms_requests s.
Proof.
  rewrite !prevent_leakage_stages.
  exact (RO2_comp _ _ (RO2_comp _ _ (RO2_comp _ _ (RO2_comp _ _ (RO2_comp _ _ (pl_scheme_RO2 _) (pl_user_RO2 _)) (pl_host_RO2 _)) (pl_path_RO2 _)) (pl_query_RO2 _)) (pl_frag_RO2 _) m s).
Qed.

Lemma prevent_leakage_TR m done : TR (prevent_leakage m done).
Proof.
  intros s. destruct (prevent_leakage_np m done s) as (a & b & c). split; [split; [exact b|lia]|]. intros _. exact a.
Qed.

Theorem make_owner_m_TR m : TR (fun s => make_owner_m csize m s).
Proof.
  intros s. unfold make_owner_m. destruct (m_owner m); [apply (TR_ret (URI_SUCCESS, m))|].
  destruct (make_owner_engine_TR m 0 s) as [M T]. destruct (make_owner_engine csize m 0 s) as [[[[|] m'] d'] s1]; [leaf|].
  destruct (prevent_leakage_TR m' d' s1) as [M2 T2]. cbn [fst snd] in *.
  destruct (prevent_leakage m' d' s1) as [m'' s2] eqn:EP. cbn [fst snd] in *. split; [mo|]. intros C.
  rewrite T by cl. rewrite T2 by cl. reflexivity.
Qed.

(* ---------------------------------------------------------------- dot segments *)
Lemma TR_ro {A} (a : A) g : releases_only g -> TR (fun s => (a, g s)).
Proof. intros G s. cbn [fst snd]. split; [apply (ro_mono _ _ G)|]. intros _. rewrite (ro_np _ _ G). reflexivity. Qed.
Lemma TR_pre {A} (f : mstate -> A * mstate) g : TR f -> releases_only g -> TR (fun s => f (g s)).
Proof.
  intros F G s. destruct (F (g s)) as [M T]. destruct (G s) as (a & b & c). split; [destruct M; split; [congruence|lia]|].
  intros C. rewrite a. apply T. unfold clean in *. intros n Hn. rewrite b. apply C. lia.
Qed.

Definition bsnd (o : bool) (w : mseg) : mstate -> mstate := fun s => snd (blank_seg o w s).
Lemma blank_seg_eta o w s : blank_seg o w s = (blank w, bsnd o w s).
Proof. reflexivity. Qed.
Lemma ro_bsnd o w : releases_only (bsnd o w).
Proof. apply ro_blank_seg. Qed.

Lemma rds_walk_m_TR relative host abs owned rest : forall kept, TR (rds_walk_m relative host abs owned kept rest).
Proof.
  induction rest as [|w nxt IH]; intros kept s; cbn [rds_walk_m]; [apply (TR_ret (true, rev kept))|].
  destruct (seg_dot (sg_text w)).
  - destruct (relative && match kept with [] => true | _ :: _ => false end
              && match nxt with [] => false | n1 :: _ => has_colon (sg_text n1) end); [apply IH|].
    destruct nxt as [|n1 nr].
    + destruct kept as [|k1 kr].
      * destruct host.
        -- rewrite !blank_seg_eta. apply (TR_ro (true, [blank w]) _ (ro_bsnd owned w)).
        -- apply (TR_ro (true, []) _ (ro_drop_seg owned w)).
      * rewrite !blank_seg_eta. apply (TR_ro (true, rev (blank w :: k1 :: kr)) _ (ro_bsnd owned w)).
    + apply (TR_pre _ _ (IH kept) (ro_drop_seg owned w)).
  - destruct (seg_dotdot (sg_text w)); [|apply IH].
    destruct (relative && match kept with [] => true | p :: _ => seg_dotdot (sg_text p) end); [apply IH|].
    destruct kept as [|p [|pp kk]].
    + destruct nxt as [|n1 nr].
      * destruct abs.
        -- apply (TR_ro (true, []) _ (ro_drop_seg owned w)).
        -- rewrite !blank_seg_eta. apply (TR_ro (true, [blank w]) _ (ro_bsnd owned w)).
      * apply (TR_pre _ _ (IH []) (ro_drop_seg owned w)).
    + destruct nxt as [|n1 nr].
      * destruct abs.
        -- apply (TR_ro (true, []) _ (ro_comp _ _ (ro_drop_seg owned w) (ro_drop_seg owned p))).
        -- rewrite !blank_seg_eta. apply (TR_ro (true, [blank w]) _ (ro_comp _ _ (ro_bsnd owned w) (ro_drop_seg owned p))).
      * apply (TR_pre _ _ (IH []) (ro_comp _ _ (ro_drop_seg owned w) (ro_drop_seg owned p))).
    + destruct nxt as [|n1 nr].
      * pose proof (ro_comp _ _ (ro_drop_seg owned w) (ro_drop_seg owned p)) as G. cbv beta in G.
        destruct (TR_alloc true SEG_SIZE s) as [M T]. destruct (alloc true SEG_SIZE s) as [[id|] s1]; cbn [fst snd] in *.
        -- split; [eapply mono_trans; [exact M|apply (ro_mono _ _ G)]|]. intros C.
           rewrite (T (clean_ro _ _ _ G M C)). rewrite (ro_np _ _ G). reflexivity.
        -- split; [eapply mono_trans; [exact M|apply (ro_mono _ _ G)]|]. intros C.
           rewrite (T (clean_ro _ _ _ G M C)). rewrite (ro_np _ _ G). reflexivity.
      * apply (TR_pre _ _ (IH (pp :: kk)) (ro_comp _ _ (ro_drop_seg owned w) (ro_drop_seg owned p))).
Qed.

Lemma remove_dot_segments_m_TR relative owned m : TR (remove_dot_segments_m relative owned m).
Proof.
  intros s. unfold remove_dot_segments_m. destruct (m_segs m) as [|sg r]; [apply (TR_ret (true, m))|].
  destruct (rds_walk_m_TR relative (m_host_set m) (m_abs m) owned (sg :: r) [] s) as [M T].
  destruct (rds_walk_m relative (m_host_set m) (m_abs m) owned [] (sg :: r) s) as [[ok segs] s1]. leaf.
Qed.

Lemma fix_ambiguity_m_TR m : TR (fix_ambiguity_m m).
Proof.
  intros s. unfold fix_ambiguity_m. destruct (match m_abs m with true => _ | false => _ end); [|apply (TR_ret (true, m))].
  destruct (TR_alloc false SEG_SIZE s) as [M T]. destruct (alloc false SEG_SIZE s) as [[id|] s1]; leaf.
Qed.

Lemma fix_ambiguity_owned_m_TR m : TR (fix_ambiguity_owned_m csize m).
Proof.
  intros s. unfold fix_ambiguity_owned_m. destruct (match m_abs m with true => _ | false => _ end); [|apply (TR_ret (true, m))].
  destruct (TR_alloc false SEG_SIZE s) as [M T]. destruct (alloc false SEG_SIZE s) as [[id|] s1]; [|leaf].
  destruct (TR_alloc false (tlen [46%N] * csize)%N s1) as [M2 T2].
  destruct (alloc false (tlen [46%N] * csize)%N s1) as [[b|] s2]; [leaf|]. cbn [fst snd] in *.
  pose proof (ro_free_blk id) as G.
  split; [eapply mono_trans; [exact M|eapply mono_trans; [exact M2|apply (ro_mono _ _ G)]]|]. intros C.
  assert (C2 : clean s s2) by (apply (clean_ro _ _ _ G); [eapply mono_trans; eauto|exact C]).
  rewrite T by cl. cbv beta iota. rewrite T2 by cl. cbv beta iota. rewrite (ro_np _ _ G). reflexivity.
Qed.

Lemma fix_empty_trail_m_TR m : TR (fix_empty_trail_m m).
Proof.
  intros s. unfold fix_empty_trail_m. destruct (negb (m_host_set m)); [|apply (TR_ret m)].
  destruct (m_segs m) as [|sg [|sg2 r]]; try apply (TR_ret m). destruct (sg_text sg); [|apply (TR_ret m)].
  apply (TR_ro (set_m_segs [] m) _ (ro_free_blk (sg_node sg))).
Qed.

(* ---------------------------------------------------------------- normalization *)
Lemma norm_text_TR o f t : TR (norm_text csize o f t).
Proof.
  intros s. unfold norm_text. destruct (t_val t) as [x|]; [|apply (TR_ret (Some t))].
  destruct o; [apply (TR_ret (Some {| t_val := Some (f x); t_blk := t_blk t |}))|].
  destruct x as [|c r]; [apply (TR_ret (Some t))|].
  destruct (TR_alloc false (tlen (c :: r) * csize) s) as [M T]. destruct (alloc false (tlen (c :: r) * csize) s) as [[id|] s1]; leaf.
Qed.

Lemma norm_segs_malloc_TR rest : forall acc, TR (norm_segs_malloc csize acc rest).
Proof.
  induction rest as [|sg r IH]; intros acc s; cbn [norm_segs_malloc]; [apply (TR_ret (true, rev acc))|].
  destruct (sg_text sg) as [|c t] eqn:ET; [apply IH|].
  destruct (TR_alloc false (tlen (c :: t) * csize) s) as [M T]. destruct (alloc false (tlen (c :: t) * csize) s) as [[id|] s1]; cbn [fst snd] in *.
  - destruct (IH ({| sg_text := fix_pct (c :: t); sg_blk := Some id; sg_node := sg_node sg |} :: acc) s1) as [M2 T2].
    split; [eapply mono_trans; eauto|]. intros C. rewrite T by cl. rewrite T2 by cl.
    destruct (norm_segs_malloc csize _ r s1) as [[? ?] ?]. reflexivity.
  - pose proof (ro_fold_owned (rev acc)) as G1. pose proof (ro_fold_nodes (sg :: r)) as G2.
    pose proof (ro_comp _ _ G1 G2) as G. cbv beta in G. cbn [fst snd].
    split; [eapply mono_trans; [exact M|apply (ro_mono _ _ G)]|]. intros C.
    rewrite (T (clean_ro _ _ _ G M C)). rewrite (ro_np _ _ G). reflexivity.
Qed.

Lemma n_scheme_TR mask o m done : TR (n_scheme csize mask o m done).
Proof.
  intros s. unfold n_scheme. destruct (bit mask M_SCHEME && is_some (t_val (m_scheme m))); [|apply (TR_ret (Some (m, done)))].
  destruct (norm_text_TR o lowercase (m_scheme m) s) as [M T]. destruct (norm_text csize o lowercase (m_scheme m) s) as [[t'|] s1]; leaf.
Qed.
Lemma n_user_TR mask o m done : TR (n_user csize mask o m done).
Proof.
  intros s. unfold n_user. destruct (bit mask M_USER_INFO && is_some (t_val (m_userInfo m))); [|apply (TR_ret (Some (m, done)))].
  destruct (norm_text_TR o fix_pct (m_userInfo m) s) as [M T]. destruct (norm_text csize o fix_pct (m_userInfo m) s) as [[t'|] s1]; leaf.
Qed.
Lemma n_query_TR mask o m done : TR (n_query csize mask o m done).
Proof.
  intros s. unfold n_query. destruct (bit mask M_QUERY && is_some (t_val (m_query m))); [|apply (TR_ret (Some (m, done)))].
  destruct (norm_text_TR o fix_pct (m_query m) s) as [M T]. destruct (norm_text csize o fix_pct (m_query m) s) as [[t'|] s1]; leaf.
Qed.
Lemma n_frag_TR mask o m done : TR (n_frag csize mask o m done).
Proof.
  intros s. unfold n_frag. destruct (bit mask M_FRAGMENT && is_some (t_val (m_fragment m))); [|apply (TR_ret (Some (m, done)))].
  destruct (norm_text_TR o fix_pct (m_fragment m) s) as [M T]. destruct (norm_text csize o fix_pct (m_fragment m) s) as [[t'|] s1]; leaf.
Qed.
Lemma n_host_TR mask o m done : TR (n_host csize mask o m done).
Proof.
  intros s. unfold n_host. destruct (bit mask M_HOST); [|apply (TR_ret (Some (m, done)))].
  destruct (t_val (m_ipFuture m)).
  - destruct (norm_text_TR o lowercase (m_ipFuture m) s) as [M T]. destruct (norm_text csize o lowercase (m_ipFuture m) s) as [[t'|] s1]; leaf.
  - destruct (t_val (m_hostText m)); [|apply (TR_ret (Some (m, done)))].
    destruct (m_ip4 m); [apply (TR_ret (Some (m, done)))|]. destruct (m_ip6 m); [apply (TR_ret (Some (m, done)))|].
    destruct (norm_text_TR o (fun x => lowercase_except_pct (fix_pct x)) (m_hostText m) s) as [M T].
    destruct (norm_text csize o (fun x => lowercase_except_pct (fix_pct x)) (m_hostText m) s) as [[t'|] s1]; leaf.
Qed.

Lemma n_path_TR mask o m done : TR (n_path csize mask o m done).
Proof.
  intros s. unfold n_path. destruct (bit mask M_PATH); [|apply (TR_ret (Some (m, done), m, done))]. cbv zeta.
  set (relative := negb (is_some (t_val (m_scheme m))) && negb (m_abs m) && negb (m_host_set m)). clearbody relative.
  assert (Tail : forall m1 done1 owned, TR (fun s1 =>
            let '(ok, m2, s2) := remove_dot_segments_m relative owned m1 s1 in
            if ok then
              let '(ok', m2', s2') := fix_ambiguity_owned_m csize m2 s2 in
              if ok' then let '(m3, s3) := fix_empty_trail_m m2' s2' in (Some (m3, done1), m3, done1, s3)
              else (@None (muri * N), m2', done1, s2')
            else (@None (muri * N), m2, done1, s2))).
  { intros m1 done1 owned s1. destruct (remove_dot_segments_m_TR relative owned m1 s1) as [M T].
    destruct (remove_dot_segments_m relative owned m1 s1) as [[[|] m2] s2]; [|leaf].
    destruct (fix_ambiguity_owned_m_TR m2 s2) as [Ma Ta]. destruct (fix_ambiguity_owned_m csize m2 s2) as [[[|] m2'] s2']; [|leaf].
    destruct (fix_empty_trail_m_TR m2' s2') as [M2 T2]. destruct (fix_empty_trail_m m2' s2') as [m3 s3]. leaf. }
  destruct o.
  - apply Tail.
  - destruct (norm_segs_malloc_TR (m_segs m) [] s) as [M T]. destruct (norm_segs_malloc csize [] (m_segs m) s) as [[[|] segs] s1]; [|leaf].
    destruct (Tail (set_m_segs segs m) (N.lor done B_PATH) (false || negb (N.land (N.lor done B_PATH) B_PATH =? 0)%N) s1) as [M2 T2].
    cbn [fst snd] in *. split; [eapply mono_trans; eauto|]. intros C. rewrite T by cl. cbv beta iota. rewrite T2 by cl.
    destruct (remove_dot_segments_m relative _ (set_m_segs segs m) s1) as [[[|] ?] ?]; [|reflexivity].
    destruct (fix_ambiguity_owned_m csize _ _) as [[[|] ?] ?]; [|reflexivity].
    destruct (fix_empty_trail_m _ _). reflexivity.
Qed.

Lemma n_fail_TR m done : TR (n_fail m done).
Proof.
  intros s. unfold n_fail. destruct (prevent_leakage_TR m done s) as [M T]. destruct (prevent_leakage m done s) as [m' s1]. leaf.
Qed.

Theorem normalize_m_TR mask m : TR (fun s => normalize_m csize mask m s).
Proof.
  intros s. rewrite !normalize_m_eq. destruct (mask =? 0)%N; [apply (TR_ret (URI_SUCCESS, m))|]. cbv zeta.
  set (o := m_owner m). clearbody o.
  destruct (n_scheme_TR mask o m 0%N s) as [M1 T1]. destruct (n_scheme csize mask o m 0 s) as [[[m1 d1]|] s1].
  2:{ destruct (n_fail_TR m 0%N s1) as [Mf Tf]. destruct (n_fail m 0 s1) as [[rc mf] sf]. leaf. }
  destruct (n_host_TR mask o m1 d1 s1) as [M2 T2]. destruct (n_host csize mask o m1 d1 s1) as [[[m2 d2]|] s2].
  2:{ destruct (n_fail_TR m1 d1 s2) as [Mf Tf]. destruct (n_fail m1 d1 s2) as [[rc mf] sf]. leaf. }
  destruct (n_user_TR mask o m2 d2 s2) as [M3 T3]. destruct (n_user csize mask o m2 d2 s2) as [[[m3 d3]|] s3].
  2:{ destruct (n_fail_TR m2 d2 s3) as [Mf Tf]. destruct (n_fail m2 d2 s3) as [[rc mf] sf]. leaf. }
  destruct (n_path_TR mask o m3 d3 s3) as [M4 T4]. destruct (n_path csize mask o m3 d3 s3) as [[[[[m4 d4]|] mf4] df4] s4].
  2:{ destruct (n_fail_TR mf4 df4 s4) as [Mf Tf]. destruct (n_fail mf4 df4 s4) as [[rc mf] sf]. leaf. }
  destruct (n_query_TR mask o m4 d4 s4) as [M5 T5]. destruct (n_query csize mask o m4 d4 s4) as [[[m5 d5]|] s5].
  2:{ destruct (n_fail_TR m4 d4 s5) as [Mf Tf]. destruct (n_fail m4 d4 s5) as [[rc mf] sf]. leaf. }
  destruct (n_frag_TR mask o m5 d5 s5) as [M6 T6]. destruct (n_frag csize mask o m5 d5 s5) as [[[m6 d6]|] s6].
  2:{ destruct (n_fail_TR m5 d5 s6) as [Mf Tf]. destruct (n_fail m5 d5 s6) as [[rc mf] sf]. leaf. }
  destruct o; [leaf|].
  destruct (make_owner_engine_TR m6 d6 s6) as [M7 T7]. destruct (make_owner_engine csize m6 d6 s6) as [[[[|] m7] d7] s7]; [leaf|].
  destruct (n_fail_TR m7 d7 s7) as [Mf Tf]. destruct (n_fail m7 d7 s7) as [[rc mf] sf]. leaf.
Qed.

End WithCsize.

(* ---------------------------------------------------------------- resolution and reference creation *)
Lemma copy_segs_TR src : forall acc, TR (copy_segs acc src).
Proof.
  induction src as [|sg r IH]; intros acc s; cbn [copy_segs]; [apply (TR_ret (true, rev acc))|].
  destruct (TR_alloc false SEG_SIZE s) as [M T]. destruct (alloc false SEG_SIZE s) as [[id|] s1]; cbn [fst snd] in *; [|leaf].
  destruct (IH ({| sg_text := sg_text sg; sg_blk := None; sg_node := id |} :: acc) s1) as [M2 T2].
  split; [eapply mono_trans; eauto|]. intros C. rewrite T by cl. rewrite T2 by cl.
  destruct (copy_segs _ r s1) as [[? ?] ?]. reflexivity.
Qed.
Lemma append_segs_TR texts : forall acc, TR (append_segs acc texts).
Proof.
  induction texts as [|t r IH]; intros acc s; cbn [append_segs]; [apply (TR_ret (true, rev acc))|].
  destruct (TR_alloc false SEG_SIZE s) as [M T]. destruct (alloc false SEG_SIZE s) as [[id|] s1]; cbn [fst snd] in *; [|leaf].
  destruct (IH ({| sg_text := t; sg_blk := None; sg_node := id |} :: acc) s1) as [M2 T2].
  split; [eapply mono_trans; eauto|]. intros C. rewrite T by cl. rewrite T2 by cl.
  destruct (append_segs _ r s1) as [[? ?] ?]. reflexivity.
Qed.

Lemma copy_path_m_TR dest src : TR (copy_path_m dest src).
Proof.
  intros s. unfold copy_path_m. destruct (copy_segs_TR (m_segs src) [] s) as [M T].
  destruct (copy_segs [] (m_segs src) s) as [[[|] segs] s1]; leaf.
Qed.

Lemma copy_authority_m_TR dest src : TR (copy_authority_m dest src).
Proof.
  intros s. unfold copy_authority_m. destruct (m_ip4 src) as [[v b]|].
  - destruct (TR_alloc false IP4_SIZE s) as [M T]. destruct (alloc false IP4_SIZE s) as [[id|] s1]; leaf.
  - destruct (m_ip6 src) as [[v b]|].
    + destruct (TR_alloc false IP6_SIZE s) as [M T]. destruct (alloc false IP6_SIZE s) as [[id|] s1]; leaf.
    + match goal with |- context [(true, ?d, s)] => apply (TR_ret (true, d)) end.
Qed.

Lemma merge_path_m_TR work rel : TR (merge_path_m work rel).
Proof.
  intros s. unfold merge_path_m. destruct (m_segs rel) as [|r1 rr]; [apply (TR_ret (true, work))|].
  destruct (m_segs work) as [|g gr].
  - destruct (TR_alloc false SEG_SIZE s) as [M T]. destruct (alloc false SEG_SIZE s) as [[id|] s1]; cbn [fst snd] in *; [|leaf].
    destruct (copy_segs_TR rr [] s1) as [M2 T2]. destruct (copy_segs [] rr s1) as [[ok more] s2]. leaf.
  - destruct (copy_segs_TR rr [] s) as [M2 T2]. destruct (copy_segs [] rr s) as [[ok more] s2]. leaf.
Qed.

Lemma resolve_abs_flag_m_TR m : TR (resolve_abs_flag_m m).
Proof.
  intros s. unfold resolve_abs_flag_m. destruct (m_host_set m && m_abs m); [|apply (TR_ret (Some m))].
  destruct (m_segs m); [|apply (TR_ret (Some (set_m_abs false m)))].
  destruct (TR_alloc false SEG_SIZE s) as [M T]. destruct (alloc false SEG_SIZE s) as [[id|] s1]; leaf.
Qed.

Definition ab_finish (rel d : muri) (s : mstate) : N * muri * mstate :=
  let '(d, s) := fix_empty_trail_m d s in (URI_SUCCESS, set_m_fragment (borrow (m_fragment rel)) d, s).
Definition ab_tail (rel base d : muri) (s : mstate) : N * muri * mstate :=
  let '(ok, d, s) := remove_dot_segments_m false (m_owner d) d s in
  if negb ok then (URI_ERROR_MALLOC, d, s) else
  let '(ok, d, s) := fix_ambiguity_m d s in
  if negb ok then (URI_ERROR_MALLOC, d, s)
  else ab_finish rel (set_m_scheme (borrow (m_scheme base)) (set_m_query (borrow (m_query rel)) d)) s.
Definition ab_abs (rel base d : muri) (s : mstate) : N * muri * mstate :=
  let '(ok, d, s) := copy_path_m d rel s in
  if negb ok then (URI_ERROR_MALLOC, d, s) else
  match resolve_abs_flag_m d s with
  | (None, s) => (URI_ERROR_MALLOC, d, s)
  | (Some d, s) => ab_tail rel base d s
  end.
Definition ab_merge (rel base d : muri) (s : mstate) : N * muri * mstate :=
  let '(ok, d, s) := copy_path_m d base s in
  if negb ok then (URI_ERROR_MALLOC, d, s) else
  let '(ok, d, s) := merge_path_m d rel s in
  if negb ok then (URI_ERROR_MALLOC, d, s) else ab_tail rel base d s.
Definition ab_take (rel src d : muri) (s : mstate) : N * muri * mstate :=
  let '(ok, d, s) := copy_authority_m d src s in
  if negb ok then (URI_ERROR_MALLOC, d, s) else
  let '(ok, d, s) := copy_path_m d src s in
  if negb ok then (URI_ERROR_MALLOC, d, s) else
  let '(ok, d, s) := remove_dot_segments_m false (m_owner d) d s in
  if negb ok then (URI_ERROR_MALLOC, d, s) else
  let '(ok, d, s) := fix_ambiguity_m d s in
  if negb ok then (URI_ERROR_MALLOC, d, s) else ab_finish rel (set_m_query (borrow (m_query rel)) d) s.

Lemma ab_finish_TR rel d : TR (ab_finish rel d).
Proof. intros s. unfold ab_finish. destruct (fix_empty_trail_m_TR d s) as [M T]. destruct (fix_empty_trail_m d s) as [d1 s1]. leaf. Qed.

Ltac sub_tr lem call :=
  let M := fresh "M" in let T := fresh "T" in
  destruct lem as [M T]; destruct call as [[? ?] ?]; leaf.

Lemma ab_tail_TR rel base d : TR (ab_tail rel base d).
Proof.
  intros s. unfold ab_tail.
  destruct (remove_dot_segments_m_TR false (m_owner d) d s) as [M3 T3].
  destruct (remove_dot_segments_m false (m_owner d) d s) as [[[|] d3] s3]; cbn [negb]; cbv beta iota; [|leaf].
  destruct (fix_ambiguity_m_TR d3 s3) as [M4 T4]. destruct (fix_ambiguity_m d3 s3) as [[[|] d4] s4]; cbn [negb]; cbv beta iota; [|leaf].
  match goal with |- context [ab_finish rel ?dd s4] => sub_tr (ab_finish_TR rel dd s4) (ab_finish rel dd s4) end.
Qed.
Lemma ab_abs_TR rel base d : TR (ab_abs rel base d).
Proof.
  intros s. unfold ab_abs.
  destruct (copy_path_m_TR d rel s) as [M2 T2]. destruct (copy_path_m d rel s) as [[[|] d2] s2]; cbn [negb]; cbv beta iota; [|leaf].
  destruct (resolve_abs_flag_m_TR d2 s2) as [M2b T2b]. destruct (resolve_abs_flag_m d2 s2) as [[d2b|] s2b]; [|leaf].
  sub_tr (ab_tail_TR rel base d2b s2b) (ab_tail rel base d2b s2b).
Qed.
Lemma ab_merge_TR rel base d : TR (ab_merge rel base d).
Proof.
  intros s. unfold ab_merge.
  destruct (copy_path_m_TR d base s) as [M2 T2]. destruct (copy_path_m d base s) as [[[|] d2] s2]; cbn [negb]; cbv beta iota; [|leaf].
  destruct (merge_path_m_TR d2 rel s2) as [M2b T2b]. destruct (merge_path_m d2 rel s2) as [[[|] d2b] s2b]; cbn [negb]; cbv beta iota; [|leaf].
  sub_tr (ab_tail_TR rel base d2b s2b) (ab_tail rel base d2b s2b).
Qed.
Lemma ab_take_TR rel src d : TR (ab_take rel src d).
Proof.
  intros s. unfold ab_take.
  destruct (copy_authority_m_TR d src s) as [M1 T1]. destruct (copy_authority_m d src s) as [[[|] d1] s1]; cbn [negb]; cbv beta iota; [|leaf].
  destruct (copy_path_m_TR d1 src s1) as [M2 T2]. destruct (copy_path_m d1 src s1) as [[[|] d2] s2]; cbn [negb]; cbv beta iota; [|leaf].
  destruct (remove_dot_segments_m_TR false (m_owner d2) d2 s2) as [M3 T3].
  destruct (remove_dot_segments_m false (m_owner d2) d2 s2) as [[[|] d3] s3]; cbn [negb]; cbv beta iota; [|leaf].
  destruct (fix_ambiguity_m_TR d3 s3) as [M4 T4]. destruct (fix_ambiguity_m d3 s3) as [[[|] d4] s4]; cbn [negb]; cbv beta iota; [|leaf].
  match goal with |- context [ab_finish rel ?dd s4] => sub_tr (ab_finish_TR rel dd s4) (ab_finish rel dd s4) end.
Qed.

Lemma add_base_impl_m_eq compat rel base s :
  add_base_impl_m compat rel base s =
  match t_val (m_scheme base) with
  | None => (URI_ERROR_ADDBASE_REL_BASE, muri_empty, s)
  | Some _ =>
    if is_some (t_val (m_scheme rel)) && negb (compat && range_eqb (t_val (m_scheme base)) (t_val (m_scheme rel)))
    then
      let '(rc, d, s) := ab_take rel rel (set_m_scheme (borrow (m_scheme rel)) muri_empty) s in (rc, d, s)
    else if m_host_set rel then
      let '(ok, d, s) := copy_authority_m muri_empty rel s in
      if negb ok then (URI_ERROR_MALLOC, d, s) else
      let '(ok, d, s) := copy_path_m d rel s in
      if negb ok then (URI_ERROR_MALLOC, d, s) else
      let '(ok, d, s) := remove_dot_segments_m false (m_owner d) d s in
      if negb ok then (URI_ERROR_MALLOC, d, s)
      else ab_finish rel (set_m_scheme (borrow (m_scheme base)) (set_m_query (borrow (m_query rel)) d)) s
    else
      let '(ok, d, s) := copy_authority_m muri_empty base s in
      if negb ok then (URI_ERROR_MALLOC, d, s) else
      match m_segs rel, m_abs rel with
      | [], false =>
        let '(ok, d, s) := copy_path_m d base s in
        if negb ok then (URI_ERROR_MALLOC, d, s)
        else ab_finish rel (set_m_scheme (borrow (m_scheme base))
                       (set_m_query (borrow (match t_val (m_query rel) with Some _ => m_query rel | None => m_query base end)) d)) s
      | _, _ => if m_abs rel then ab_abs rel base d s else ab_merge rel base d s
      end
  end.
Proof.
  unfold add_base_impl_m, ab_take, ab_abs, ab_merge, ab_tail, ab_finish. cbv zeta.
  destruct (t_val (m_scheme base)); [|reflexivity].
  destruct (is_some (t_val (m_scheme rel)) && negb (compat && range_eqb (Some t) (t_val (m_scheme rel)))).
  - destruct (copy_authority_m _ rel s) as [[[|] ?] ?]; cbn [negb]; cbv beta iota; [|reflexivity].
    destruct (copy_path_m _ rel _) as [[[|] ?] ?]; cbn [negb]; cbv beta iota; [|reflexivity].
    destruct (remove_dot_segments_m false _ _ _) as [[[|] ?] ?]; cbn [negb]; cbv beta iota; [|reflexivity].
    destruct (fix_ambiguity_m _ _) as [[[|] ?] ?]; cbn [negb]; cbv beta iota; [|reflexivity].
    destruct (fix_empty_trail_m _ _). reflexivity.
  - reflexivity.
Qed.

Lemma add_base_impl_m_TR compat rel base : TR (add_base_impl_m compat rel base).
Proof.
  intros s. rewrite !add_base_impl_m_eq.
  destruct (t_val (m_scheme base)) as [tb|]; [|apply (TR_ret (URI_ERROR_ADDBASE_REL_BASE, muri_empty))].
  destruct (is_some (t_val (m_scheme rel)) && negb (compat && range_eqb (Some tb) (t_val (m_scheme rel)))).
  - match goal with |- context [ab_take rel rel ?d s] => sub_tr (ab_take_TR rel rel d s) (ab_take rel rel d s) end.
  - destruct (m_host_set rel).
    + destruct (copy_authority_m_TR muri_empty rel s) as [M1 T1].
      destruct (copy_authority_m muri_empty rel s) as [[[|] d1] s1]; cbn [negb]; cbv beta iota; [|leaf].
      destruct (copy_path_m_TR d1 rel s1) as [M2 T2]. destruct (copy_path_m d1 rel s1) as [[[|] d2] s2]; cbn [negb]; cbv beta iota; [|leaf].
      destruct (remove_dot_segments_m_TR false (m_owner d2) d2 s2) as [M3 T3].
      destruct (remove_dot_segments_m false (m_owner d2) d2 s2) as [[[|] d3] s3]; cbn [negb]; cbv beta iota; [|leaf].
      match goal with |- context [ab_finish rel ?dd s3] => sub_tr (ab_finish_TR rel dd s3) (ab_finish rel dd s3) end.
    + destruct (copy_authority_m_TR muri_empty base s) as [M1 T1].
      destruct (copy_authority_m muri_empty base s) as [[[|] d1] s1]; cbn [negb]; cbv beta iota; [|leaf].
      destruct (m_segs rel) as [|r1 rr]; destruct (m_abs rel).
      * sub_tr (ab_abs_TR rel base d1 s1) (ab_abs rel base d1 s1).
      * destruct (copy_path_m_TR d1 base s1) as [M2 T2]. destruct (copy_path_m d1 base s1) as [[[|] d2] s2]; cbn [negb]; cbv beta iota; [|leaf].
        match goal with |- context [ab_finish rel ?dd s2] => sub_tr (ab_finish_TR rel dd s2) (ab_finish rel dd s2) end.
      * sub_tr (ab_abs_TR rel base d1 s1) (ab_abs rel base d1 s1).
      * sub_tr (ab_merge_TR rel base d1 s1) (ab_merge rel base d1 s1).
Qed.

Lemma free_members_TR m : TR (free_members m).
Proof.
  intros s. destruct (free_members_np m s) as (a & b & c). split; [split; [exact b|lia]|]. intros _. exact a.
Qed.

Theorem add_base_m_TR compat rel base : TR (add_base_m compat rel base).
Proof.
  intros s. unfold add_base_m. destruct (add_base_impl_m_TR compat rel base s) as [M T].
  destruct (add_base_impl_m compat rel base s) as [[rc d] s1]. destruct (rc =? 0)%N eqn:E0.
  - cbn [fst snd] in *. split; [exact M|]. intros C. rewrite (T C). rewrite E0. reflexivity.
  - destruct (free_members_TR d s1) as [M2 T2]. destruct (free_members d s1) as [d' s2]. cbn [fst snd] in *.
    split; [mo|]. intros C. rewrite T by cl. rewrite E0. rewrite T2 by cl. reflexivity.
Qed.

Lemma remove_base_impl_m_TR domain_root src base : TR (remove_base_impl_m domain_root src base).
Proof.
  intros s. unfold remove_base_impl_m. cbv zeta.
  destruct (t_val (m_scheme base)) as [tb|]; [|apply (TR_ret (URI_ERROR_REMOVEBASE_REL_BASE, muri_empty))].
  destruct (t_val (m_scheme src)) as [ts|]; [|apply (TR_ret (URI_ERROR_REMOVEBASE_REL_SOURCE, muri_empty))].
  assert (Copy : forall d, TR (fun s =>
           let '(ok, d, s) := copy_authority_m d src s in
           if negb ok then (URI_ERROR_MALLOC, d, s) else
           let '(ok, d, s) := copy_path_m d src s in
           if negb ok then (URI_ERROR_MALLOC, d, s)
           else (URI_SUCCESS, set_m_fragment (borrow (m_fragment src)) (set_m_query (borrow (m_query src)) d), s))).
  { intros d s0. destruct (copy_authority_m_TR d src s0) as [M1 T1].
    destruct (copy_authority_m d src s0) as [[[|] d1] s1]; cbn [negb]; cbv beta iota; [|leaf].
    destruct (copy_path_m_TR d1 src s1) as [M2 T2]. destruct (copy_path_m d1 src s1) as [[[|] d2] s2]; cbn [negb]; cbv beta iota; leaf. }
  destruct (negb (range_eqb (scheme (erase src)) (scheme (erase base)))); [apply Copy|].
  destruct (negb (equals_authority (erase src) (erase base))).
  { destruct (negb (is_host_set (erase src)) && is_host_set (erase base)); apply Copy. }
  destruct domain_root.
  - destruct (copy_path_m_TR muri_empty src s) as [M2 T2]. destruct (copy_path_m muri_empty src s) as [[[|] d2] s2]; cbn [negb]; cbv beta iota; [|leaf].
    destruct (fix_empty_trail_m_TR (set_m_abs true d2) s2) as [M3 T3].
    destruct (fix_empty_trail_m (set_m_abs true d2) s2) as [d3 s3].
    destruct (fix_ambiguity_m_TR d3 s3) as [M4 T4].
    destruct (fix_ambiguity_m d3 s3) as [[[|] d4] s4]; cbn [negb]; cbv beta iota; leaf.
  - destruct (skip_common (pathSegs (erase src)) (pathSegs (erase base))) as [s' b'].
    match goal with |- context [append_segs [] ?tt s] => destruct (append_segs_TR tt [] s) as [M T]; destruct (append_segs [] tt s) as [[[|] segs] s1] end; leaf.
Qed.

Theorem remove_base_m_TR domain_root src base : TR (remove_base_m domain_root src base).
Proof.
  intros s. unfold remove_base_m. destruct (remove_base_impl_m_TR domain_root src base s) as [M T].
  destruct (remove_base_impl_m domain_root src base s) as [[rc d] s1]. destruct (rc =? 0)%N eqn:E0.
  - cbn [fst snd] in *. split; [exact M|]. intros C. rewrite (T C). rewrite E0. reflexivity.
  - destruct (free_members_TR d s1) as [M2 T2]. destruct (free_members d s1) as [d' s2]. cbn [fst snd] in *.
    split; [mo|]. intros C. rewrite T by cl. rewrite E0. rewrite T2 by cl. reflexivity.
Qed.

(* ---------------------------------------------------------------- the public form *)
(* [clean s s']: the plan of s fails none of the requests numbered ms_requests s + 1 .. ms_requests s' *)
Theorem clean_iff_no_fail s s' : clean s s' <-> ~ fails_between s s'.
Proof.
  unfold clean, fails_between. split.
  - intros C (n & Hn & Hf). rewrite (C n Hn) in Hf. discriminate.
  - intros H n Hn. destruct (plan_fails (ms_plan s) n) eqn:E; [|reflexivity]. exfalso. apply H. exists n. auto.
Qed.

Lemma TR_public {A} (f : mstate -> A * mstate) : TR f ->
  forall s, ~ fails_between s (snd (f s)) -> f (np s) = (fst (f s), np (snd (f s))).
Proof. intros F s H. apply F. apply clean_iff_no_fail. exact H. Qed.

Theorem parse_m_fault_transparent t s : ~ fails_between s (snd (parse_m t s)) ->
  parse_m t (np s) = (fst (parse_m t s), np (snd (parse_m t s))).
Proof. apply (TR_public (parse_m t)). intros s0. apply prun_m_TR. Qed.
Theorem make_owner_m_fault_transparent csize m s : ~ fails_between s (snd (make_owner_m csize m s)) ->
  make_owner_m csize m (np s) = (fst (make_owner_m csize m s), np (snd (make_owner_m csize m s))).
Proof. apply (TR_public (fun s => make_owner_m csize m s)). apply make_owner_m_TR. Qed.
Theorem normalize_m_fault_transparent csize mask m s : ~ fails_between s (snd (normalize_m csize mask m s)) ->
  normalize_m csize mask m (np s) = (fst (normalize_m csize mask m s), np (snd (normalize_m csize mask m s))).
Proof. apply (TR_public (fun s => normalize_m csize mask m s)). apply normalize_m_TR. Qed.
Theorem add_base_m_fault_transparent compat rel base s : ~ fails_between s (snd (add_base_m compat rel base s)) ->
  add_base_m compat rel base (np s) = (fst (add_base_m compat rel base s), np (snd (add_base_m compat rel base s))).
Proof. apply (TR_public (add_base_m compat rel base)). apply add_base_m_TR. Qed.
Theorem remove_base_m_fault_transparent domain_root src base s : ~ fails_between s (snd (remove_base_m domain_root src base s)) ->
  remove_base_m domain_root src base (np s) = (fst (remove_base_m domain_root src base s), np (snd (remove_base_m domain_root src base s))).
Proof. apply (TR_public (remove_base_m domain_root src base)). apply remove_base_m_TR. Qed.
Theorem free_members_plan_independent m s :
  free_members m (np s) = (fst (free_members m s), np (snd (free_members m s)))
  /\ ms_requests (snd (free_members m s)) = ms_requests s.
Proof. destruct (free_members_np m s) as (a & _ & c). auto. Qed.
