(* Fault transparency of the memory tier: if the fault plan fails none of the requests a call makes, the call
   returns what it returns under NoFault and leaves the same ledger and the same trace.
   [np s] is the state s with the plan replaced by NoFault. *)
From Coq Require Import List NArith Bool Arith Lia.
From UP Require Import Base.Chars Base.Atoms Model.Uri Model.Ip4 Model.Parse Model.Common Model.Compare
  Model.Resolve Model.Shorten Model.Normalize Model.Mem Model.ParseM Model.OpsM Proofs.LedgerProofs.
Import ListNotations.

Definition np (s : mstate) : mstate :=
  {| ms_next := ms_next s; ms_live := ms_live s; ms_requests := ms_requests s; ms_plan := NoFault; ms_trace := ms_trace s |}.
(* plan unchanged, request counter only grows *)
Definition mono (s s' : mstate) : Prop := ms_plan s' = ms_plan s /\ ms_requests s <= ms_requests s'.
(* the plan fails none of the requests numbered after s up to s' *)
Definition clean (s s' : mstate) : Prop := forall n, ms_requests s < n <= ms_requests s' -> plan_fails (ms_plan s) n = false.

Lemma mono_refl s : mono s s.
Proof. split; auto. Qed.
Lemma mono_trans s1 s2 s3 : mono s1 s2 -> mono s2 s3 -> mono s1 s3.
Proof. intros [a b] [c d]. split; [congruence|lia]. Qed.

(* solve [clean si sj] from [clean s0 sn] and the mono facts in the context *)
Ltac cl :=
  unfold clean, mono in *; cbn [fst snd] in *;
  repeat match goal with H : _ /\ _ |- _ => destruct H end;
  let n := fresh "n" in let Hn := fresh "Hn" in intros n Hn;
  match goal with
  | C : forall k, _ -> plan_fails (ms_plan ?s0) k = false |- plan_fails (ms_plan ?si) _ = false =>
    replace (ms_plan si) with (ms_plan s0) by congruence; apply C; lia
  end.
Ltac mo := unfold mono in *; cbn [fst snd] in *; repeat match goal with H : _ /\ _ |- _ => destruct H end; split; [congruence|lia].

(* ---------------------------------------------------------------- primitives *)
Lemma alloc_mono c sz s : mono s (snd (alloc c sz s)).
Proof. unfold alloc. destruct (plan_fails (ms_plan s) (S (ms_requests s))); split; cbn; auto. Qed.

Lemma alloc_np c sz s : clean s (snd (alloc c sz s)) -> alloc c sz (np s) = (fst (alloc c sz s), np (snd (alloc c sz s))).
Proof.
  intros C. assert (H : plan_fails (ms_plan s) (S (ms_requests s)) = false).
  { apply C. unfold alloc. destruct (plan_fails (ms_plan s) (S (ms_requests s))); cbn; lia. }
  unfold alloc. rewrite H. reflexivity.
Qed.

Lemma free_blk_np b s : free_blk b (np s) = np (free_blk b s).
Proof. unfold free_blk. cbn [np ms_live]. destruct (remove_blk b (ms_live s)) as [[sz l]|]; reflexivity. Qed.
Lemma free_blk_mono b s : mono s (free_blk b s) /\ ms_requests (free_blk b s) = ms_requests s.
Proof. unfold free_blk. destruct (remove_blk b (ms_live s)) as [[sz l]|]; repeat split; cbn; auto. Qed.
Lemma bad_free_np s : bad_free (np s) = np (bad_free s).
Proof. reflexivity. Qed.

(* state transformers that only release: they commute with [np] and make no request *)
Definition releases_only (g : mstate -> mstate) : Prop :=
  forall s, g (np s) = np (g s) /\ ms_plan (g s) = ms_plan s /\ ms_requests (g s) = ms_requests s.

Lemma ro_id : releases_only (fun s => s).
Proof. intros s. auto. Qed.
Lemma ro_free_blk b : releases_only (free_blk b).
Proof. intros s. split; [apply free_blk_np|]. destruct (free_blk_mono b s) as [[a _] c]. auto. Qed.
Lemma ro_bad_free : releases_only bad_free.
Proof. intros s. auto. Qed.
Lemma ro_comp g h : releases_only g -> releases_only h -> releases_only (fun s => h (g s)).
Proof. intros G H s. destruct (G s) as (a & b & c). destruct (H (g s)) as (d & e & f). rewrite a. split; [exact d|]. split; congruence. Qed.
Lemma ro_ext g h : (forall s, g s = h s) -> releases_only g -> releases_only h.
Proof. intros E G s. rewrite <- !E. apply G. Qed.
Lemma ro_fold {A} (f : mstate -> A -> mstate) l : (forall a, releases_only (fun s => f s a)) -> releases_only (fun s => fold_left f l s).
Proof.
  intros H. induction l as [|a r IH]; [apply ro_id|]. cbn [fold_left].
  apply (ro_comp (fun s => f s a) (fun s => fold_left f r s)); [apply H|exact IH].
Qed.
Lemma ro_mono g s : releases_only g -> mono s (g s).
Proof. intros G. destruct (G s) as (_ & a & b). split; [exact a|lia]. Qed.

Lemma ro_free_opt o : releases_only (free_opt o).
Proof. destruct o; [apply ro_free_blk|apply ro_id]. Qed.
Lemma ro_free_text o t : releases_only (free_text o t).
Proof.
  unfold free_text. destruct o; [|apply ro_id]. destruct (t_val t) as [[|? ?]|]; try apply ro_id.
  destruct (t_blk t); [apply ro_free_blk|apply ro_bad_free].
Qed.
Lemma ro_free_seg o sg : releases_only (free_seg o sg).
Proof.
  unfold free_seg. apply (ro_comp _ (free_blk (sg_node sg))); [|apply ro_free_blk].
  destruct o; [|apply ro_id]. destruct (sg_text sg); [apply ro_id|]. destruct (sg_blk sg); [apply ro_free_blk|apply ro_bad_free].
Qed.
Lemma ro_free_partial b : releases_only (free_partial b).
Proof.
  unfold free_partial. apply (ro_comp (fun s => free_opt (pb_ip6 b) (free_opt (pb_ip4 b) s))).
  - apply (ro_comp (free_opt (pb_ip4 b)) (free_opt (pb_ip6 b))); apply ro_free_opt.
  - apply (ro_fold (fun st n => free_blk n st)). intros a. apply ro_free_blk.
Qed.

Lemma ro_np g s : releases_only g -> g (np s) = np (g s).
Proof. intros G. apply G. Qed.
Lemma ro_req g s : releases_only g -> ms_requests (g s) = ms_requests s.
Proof. intros G. apply G. Qed.
Lemma ro_plan g s : releases_only g -> ms_plan (g s) = ms_plan s.
Proof. intros G. apply G. Qed.

Lemma ro_free_segs o l : releases_only (fun s => fold_left (fun st sg => free_seg o sg st) l s).
Proof. apply (ro_fold (fun st sg => free_seg o sg st)). intros a. apply ro_free_seg. Qed.

Lemma free_members_np m s : free_members m (np s) = (fst (free_members m s), np (snd (free_members m s)))
  /\ ms_plan (snd (free_members m s)) = ms_plan s /\ ms_requests (snd (free_members m s)) = ms_requests s.
Proof.
  unfold free_members. cbn [fst snd].
  destruct (m_ip4 m) as [[? ?]|], (m_ip6 m) as [[? ?]|], (t_val (m_ipFuture m));
  repeat (rewrite ?(ro_np _ _ (ro_free_text _ _)), ?(ro_np _ _ (ro_free_blk _)), ?(ro_np _ _ (ro_free_segs _ _)));
  (split; [reflexivity|]);
  rewrite ?(ro_req _ _ (ro_free_text _ _)), ?(ro_req _ _ (ro_free_blk _)), ?(ro_req _ _ (ro_free_segs _ _)),
          ?(ro_plan _ _ (ro_free_text _ _)), ?(ro_plan _ _ (ro_free_blk _)), ?(ro_plan _ _ (ro_free_segs _ _));
  repeat (rewrite ?(ro_req _ _ (ro_free_text _ _)), ?(ro_req _ _ (ro_free_blk _)), ?(ro_req _ _ (ro_free_segs _ _)),
          ?(ro_plan _ _ (ro_free_text _ _)), ?(ro_plan _ _ (ro_free_blk _)), ?(ro_plan _ _ (ro_free_segs _ _)));
  split; reflexivity.
Qed.

(* ---------------------------------------------------------------- operations that allocate *)
(* [TR f]: f moves plan and counter forward only and, when the plan fails none of the requests f makes,
   f run under NoFault gives the same result and the same state (up to the plan) *)
Definition TR {A} (f : mstate -> A * mstate) : Prop :=
  forall s, mono s (snd (f s)) /\ (clean s (snd (f s)) -> f (np s) = (fst (f s), np (snd (f s)))).

Lemma TR_alloc c sz : TR (alloc c sz).
Proof. intros s. split; [apply alloc_mono|apply alloc_np]. Qed.

Lemma clean_ro g s0 s : releases_only g -> mono s0 s -> clean s0 (g s) -> clean s0 s.
Proof. intros G M C. destruct (G s) as (_ & a & b). unfold clean in *. intros n Hn. apply C. lia. Qed.

Lemma exec_m_TR ch d b a : TR (exec_m ch d b a).
Proof.
  intros s.
  assert (Triv : forall r : option (pdata * pblocks), mono s (snd (r, s)) /\ (clean s (snd (r, s)) -> (r, np s) = (fst (r, s), np (snd (r, s)))))
    by (intros; split; [apply mono_refl|reflexivity]).
  destruct a; cbn [exec_m]; try apply Triv.
  - destruct (TR_alloc true SEG_SIZE s) as [M T]. destruct (alloc true SEG_SIZE s) as [[id|] s1]; cbn [fst snd] in *;
      (split; [exact M|]; intros C; rewrite (T C); reflexivity).
  - destruct (TR_alloc true SEG_SIZE s) as [M T]. destruct (alloc true SEG_SIZE s) as [[id|] s1]; cbn [fst snd] in *;
      (split; [exact M|]; intros C; rewrite (T C); reflexivity).
  - destruct (TR_alloc false IP4_SIZE s) as [M T]. destruct (alloc false IP4_SIZE s) as [[id|] s1]; cbn [fst snd] in *.
    + destruct (ip4 (p_uri (exec ch d AHostReg))); cbn [fst snd].
      * split; [exact M|]. intros C. rewrite (T C). reflexivity.
      * split; [eapply mono_trans; [exact M|apply (ro_mono _ _ (ro_free_blk id))]|]. intros C.
        rewrite (T (clean_ro _ _ _ (ro_free_blk id) M C)). rewrite free_blk_np. reflexivity.
    + split; [exact M|]. intros C. rewrite (T C). reflexivity.
  - destruct (TR_alloc false IP4_SIZE s) as [M T]. destruct (alloc false IP4_SIZE s) as [[id|] s1]; cbn [fst snd] in *.
    + destruct (ip4 (p_uri (exec ch d AHostPort))); cbn [fst snd].
      * split; [exact M|]. intros C. rewrite (T C). reflexivity.
      * split; [eapply mono_trans; [exact M|apply (ro_mono _ _ (ro_free_blk id))]|]. intros C.
        rewrite (T (clean_ro _ _ _ (ro_free_blk id) M C)). rewrite free_blk_np. reflexivity.
    + split; [exact M|]. intros C. rewrite (T C). reflexivity.
  - destruct (TR_alloc false IP6_SIZE s) as [M T]. destruct (alloc false IP6_SIZE s) as [[id|] s1]; cbn [fst snd] in *;
      (split; [exact M|]; intros C; rewrite (T C); reflexivity).
  - destruct (pathSegs (p_uri d)); [apply Triv|]. destruct (pathSegs (p_uri (exec ch d AFixEmptyTrail))); [|apply Triv].
    destruct (pb_nodes b); [apply Triv|]. cbn [fst snd]. split; [apply (ro_mono _ _ (ro_free_blk n))|]. intros _. rewrite free_blk_np. reflexivity.
Qed.

Lemma exec_all_m_TR ch acts : forall d b, TR (exec_all_m ch d b acts).
Proof.
  induction acts as [|a r IH]; intros d b s; cbn [exec_all_m].
  - split; [apply mono_refl|reflexivity].
  - destruct (exec_m_TR ch d b a s) as [M T]. destruct (exec_m ch d b a s) as [[[d1 b1]|] s1]; cbn [fst snd] in *.
    + destruct (IH d1 b1 s1) as [M2 T2]. split; [eapply mono_trans; eauto|]. intros C.
      rewrite T by cl. rewrite T2 by cl. destruct (exec_all_m ch d1 b1 r s1) as [[? ?] ?]. reflexivity.
    + split; [exact M|]. intros C. rewrite (T C). reflexivity.
Qed.

Lemma prun_m_TR t : forall c d b i, TR (prun_m c d b i t).
Proof.
  induction t as [|ch r IH]; intros c d b i s; cbn [prun_m].
  - destruct (pfinish c) as [acts [|]].
    + destruct (exec_all_m_TR 0%N acts d b s) as [M T]. destruct (exec_all_m 0%N d b acts s) as [[[[d1 b1]|] bh] s1]; cbn [fst snd] in *.
      * split; [exact M|]. intros C. rewrite (T C). reflexivity.
      * split; [eapply mono_trans; [exact M|apply (ro_mono _ _ (ro_free_partial bh))]|]. intros C.
        rewrite (T (clean_ro _ _ _ (ro_free_partial bh) M C)). rewrite (ro_np _ _ (ro_free_partial bh)). reflexivity.
    + cbn [fst snd]. split; [apply (ro_mono _ _ (ro_free_partial b))|]. intros _. rewrite (ro_np _ _ (ro_free_partial b)). reflexivity.
  - destruct (ptrans c (atom_of ch)) as [acts nx].
    destruct (exec_all_m_TR ch acts d b s) as [M T]. destruct (exec_all_m ch d b acts s) as [[[[d1 b1]|] bh] s1]; cbn [fst snd] in *.
    + destruct nx as [c'|off].
      * destruct (IH c' d1 b1 (S i) s1) as [M2 T2]. split; [eapply mono_trans; eauto|]. intros C.
        rewrite T by cl. rewrite T2 by cl. destruct (prun_m c' d1 b1 (S i) r s1). reflexivity.
      * cbn [fst snd]. split; [eapply mono_trans; [exact M|apply (ro_mono _ _ (ro_free_partial b1))]|]. intros C.
        rewrite (T (clean_ro _ _ _ (ro_free_partial b1) M C)). rewrite (ro_np _ _ (ro_free_partial b1)). reflexivity.
    + split; [eapply mono_trans; [exact M|apply (ro_mono _ _ (ro_free_partial bh))]|]. intros C.
      rewrite (T (clean_ro _ _ _ (ro_free_partial bh) M C)). rewrite (ro_np _ _ (ro_free_partial bh)). reflexivity.
Qed.

(* uriParseSingleUriExMm *)
Theorem parse_m_transparent t s : clean s (snd (parse_m t s)) ->
  parse_m t (np s) = (fst (parse_m t s), np (snd (parse_m t s))).
Proof. apply prun_m_TR. Qed.
