(* Characters are code points (N); a text is a list of code points.
   Character classes are the case-label sets of the C sources. *)
From Coq Require Export List NArith Bool Lia.
Export ListNotations.
Local Open Scope N_scope.

Definition text := list N.

Definition in_range (lo hi c : N) : bool := (lo <=? c) && (c <=? hi).

Definition is_digit (c : N) := in_range 48 57 c.
Definition is_upper (c : N) := in_range 65 90 c.
Definition is_lower (c : N) := in_range 97 122 c.
Definition is_alpha (c : N) := is_upper c || is_lower c.
Definition is_hex_upper (c : N) := in_range 65 70 c.
Definition is_hex_lower (c : N) := in_range 97 102 c.
Definition is_hexdig (c : N) := is_digit c || is_hex_upper c || is_hex_lower c.
(* "-" / "." / "_" / "~" *)
Definition is_unres_mark (c : N) := (c =? 45) || (c =? 46) || (c =? 95) || (c =? 126).
Definition is_unreserved (c : N) := is_alpha c || is_digit c || is_unres_mark c.
(* sub-delims: ! $ & ' ( ) * + , ; = *)
Definition is_subdelim (c : N) :=
  (c =? 33) || (c =? 36) || (c =? 38) || (c =? 39) || (c =? 40) || (c =? 41)
  || (c =? 42) || (c =? 43) || (c =? 44) || (c =? 59) || (c =? 61).

(* uriHexdigToInt: 0 for a non-hex character *)
Definition hexdig_to_int (c : N) : N :=
  if is_digit c then c - 48
  else if is_hex_lower c then c - 87
  else if is_hex_upper c then c - 55
  else 0.

(* uriHexToLetterEx: 0..9 -> '0'..'9', 10..14 -> 'A'..'E' / 'a'..'e', everything else -> 'F' / 'f' *)
Definition hex_to_letter_ex (v : N) (upper : bool) : N :=
  if v <? 10 then 48 + v
  else if v <? 15 then (if upper then 55 + v else 87 + v)
  else (if upper then 70 else 102).
Definition hex_to_letter (v : N) : N := hex_to_letter_ex v true.

(* text up to (not including) the first NUL: what a NUL-terminated C string holds *)
Fixpoint until_nul (l : text) : text :=
  match l with
  | [] => []
  | c :: r => if c =? 0 then [] else c :: until_nul r
  end.

(* [strip_char c s] = Some r when s = c :: r.  (Written with a test rather than a numeral pattern:
   numeral patterns on N expand into large decision trees.) *)
Definition strip_char (c : N) (s : text) : option text :=
  match s with
  | x :: r => if x =? c then Some r else None
  | [] => None
  end.
Definition head_is (c : N) (s : text) : bool :=
  match s with x :: _ => x =? c | [] => false end.
