(* Byte strings and association lists shared by Spec/AllocSpec.v and Model/Memory.v.
   Bytes are N (no range restriction is needed anywhere), block contents are list N,
   finite maps are association lists keyed by N (first match wins). *)
From Coq Require Export List NArith ZArith Bool.
Export ListNotations.
Local Open Scope N_scope.

(* length as a size_t-like number *)
Definition len (l : list N) : N := N.of_nat (length l).

(* overwrite [data] into [d] at position [pos] (memcpy into the middle of a block) *)
Definition splice (pos : nat) (data d : list N) : list N :=
  firstn pos d ++ data ++ skipn (pos + length data) d.

(* the [len] bytes at position [pos] *)
Definition slice (pos n : nat) (d : list N) : list N := firstn n (skipn pos d).

Fixpoint list_eqb (a b : list N) : bool :=
  match a, b with
  | [], [] => true
  | x :: a', y :: b' => (x =? y) && list_eqb a' b'
  | _, _ => false
  end.

(* little-endian representation of a number in k bytes / its value *)
Fixpoint le_bytes (k : nat) (n : N) : list N :=
  match k with
  | O => []
  | S k' => (n mod 256) :: le_bytes k' (n / 256)
  end.
Fixpoint decode_le (l : list N) : N :=
  match l with
  | [] => 0
  | b :: r => b + 256 * decode_le r
  end.

(* ---- association lists ---------------------------------------------------- *)
Definition amap := list (N * list N).

Fixpoint afind (k : N) (m : amap) : option (list N) :=
  match m with
  | [] => None
  | (k', v) :: r => if k' =? k then Some v else afind k r
  end.
Definition amem (k : N) (m : amap) : bool :=
  match afind k m with Some _ => true | None => false end.
Fixpoint aremove (k : N) (m : amap) : amap :=
  match m with
  | [] => []
  | (k', v) :: r => if k' =? k then aremove k r else (k', v) :: aremove k r
  end.
Fixpoint aupdate (k : N) (v : list N) (m : amap) : amap :=
  match m with
  | [] => []
  | (k', v') :: r => if k' =? k then (k', v) :: r else (k', v') :: aupdate k v r
  end.

(* key lists (used for the backend's live set reconstructed from its call log) *)
Fixpoint kmem (k : N) (l : list N) : bool :=
  match l with [] => false | x :: r => (x =? k) || kmem k r end.
Fixpoint kremove (k : N) (l : list N) : list N :=
  match l with [] => [] | x :: r => if x =? k then kremove k r else x :: kremove k r end.
