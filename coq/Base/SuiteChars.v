(* The characters that the conformance suite of C01 puts after every access string of the control
   automaton (ocaml/driver.ml: suite mode 0, second step of suite2): one representative per atom, plus
   the characters listed in [suite_extra].

   Why an extra character: Proofs/SwitchRefine.v compares the atoms with the case groups of every
   `switch` of the parser (translated from the C source on every check).  One switch, the h16 scanner of
   uriParseIPv6address2, has separate case bodies for a-f and for A-F, which the atom A_hex lumps
   together (representative 'a').  With 'A' in the suite alphabet every case group of every switch is
   entered by a suite character of the same atom (SwitchRefine.all_switches_covered). *)
From UP Require Import Base.Chars Base.Atoms.
Local Open Scope N_scope.

Definition suite_extra : list N := [65].
Definition suite_chars : list N := map atom_rep all_atoms ++ suite_extra.
