(* A finite partition of the code points into "atoms": two characters of the same
   atom are treated alike by every case label of the parser and by every character
   set of the RFC grammar.  Finite sweeps over atoms are therefore statements about
   all code points. *)
From Coq Require Import List NArith Bool Lia ZArith ZifyBool ZifyN.
From UP Require Import Base.Chars Base.Regex.
Import ListNotations.
Local Open Scope N_scope.

Inductive atom :=
| A_d0 | A_d1 | A_d2 | A_d34 | A_d5 | A_d69     (* digits, split as dec-octet needs *)
| A_hex                                         (* a-f A-F *)
| A_v                                           (* v V *)
| A_alpha                                       (* the other letters *)
| A_minus | A_dot | A_ustilde                   (* -   .   _ ~ *)
| A_plus | A_sd                                 (* +   ! $ & ' ( ) * , ; = *)
| A_colon | A_at | A_slash | A_qm | A_hash | A_lb | A_rb | A_pct
| A_other.                                      (* everything else, including NUL and all code points >= 127 *)

Definition all_atoms : list atom :=
  [A_d0; A_d1; A_d2; A_d34; A_d5; A_d69; A_hex; A_v; A_alpha; A_minus; A_dot; A_ustilde;
   A_plus; A_sd; A_colon; A_at; A_slash; A_qm; A_hash; A_lb; A_rb; A_pct; A_other].

Lemma all_atoms_complete a : In a all_atoms.
Proof. destruct a; cbn; tauto. Qed.

Definition atom_of (c : N) : atom :=
  if c =? 48 then A_d0 else if c =? 49 then A_d1 else if c =? 50 then A_d2
  else if in_range 51 52 c then A_d34 else if c =? 53 then A_d5 else if in_range 54 57 c then A_d69
  else if in_range 65 70 c || in_range 97 102 c then A_hex
  else if (c =? 118) || (c =? 86) then A_v
  else if in_range 65 90 c || in_range 97 122 c then A_alpha
  else if c =? 45 then A_minus else if c =? 46 then A_dot
  else if (c =? 95) || (c =? 126) then A_ustilde
  else if c =? 43 then A_plus
  else if (c =? 33) || (c =? 36) || (c =? 38) || (c =? 39) || (c =? 40) || (c =? 41)
          || (c =? 42) || (c =? 44) || (c =? 59) || (c =? 61) then A_sd
  else if c =? 58 then A_colon else if c =? 64 then A_at else if c =? 47 then A_slash
  else if c =? 63 then A_qm else if c =? 35 then A_hash else if c =? 91 then A_lb
  else if c =? 93 then A_rb else if c =? 37 then A_pct
  else A_other.

(* a representative of each atom *)
Definition atom_rep (a : atom) : N :=
  match a with
  | A_d0 => 48 | A_d1 => 49 | A_d2 => 50 | A_d34 => 51 | A_d5 => 53 | A_d69 => 54
  | A_hex => 97 | A_v => 118 | A_alpha => 103
  | A_minus => 45 | A_dot => 46 | A_ustilde => 95 | A_plus => 43 | A_sd => 33
  | A_colon => 58 | A_at => 64 | A_slash => 47 | A_qm => 63 | A_hash => 35
  | A_lb => 91 | A_rb => 93 | A_pct => 37 | A_other => 0
  end.

Lemma atom_of_rep a : atom_of (atom_rep a) = a.
Proof. destruct a; reflexivity. Qed.

Lemma atom_of_big c : 128 <= c -> atom_of c = A_other.
Proof.
  intros H. unfold atom_of, in_range.
  repeat match goal with |- context [if ?b then _ else _] =>
    let E := fresh "E" in destruct b eqn:E; [exfalso; lia|] end.
  reflexivity.
Qed.

(* ---- classes of atoms (the case-label groups of UriParse.c) ------------------- *)
Definition a_digit (a : atom) : bool :=
  match a with A_d0 | A_d1 | A_d2 | A_d34 | A_d5 | A_d69 => true | _ => false end.
Definition a_alpha (a : atom) : bool :=
  match a with A_hex | A_v | A_alpha => true | _ => false end.
Definition a_hexdig (a : atom) : bool := a_digit a || match a with A_hex => true | _ => false end.
Definition a_unreserved (a : atom) : bool :=
  a_digit a || a_alpha a || match a with A_minus | A_dot | A_ustilde => true | _ => false end.
Definition a_subdelim (a : atom) : bool := match a with A_plus | A_sd => true | _ => false end.

(* ---- saturation: a character set that does not split any atom ----------------- *)
Fixpoint nrange (lo : N) (n : nat) : list N :=
  match n with O => [] | S k => lo :: nrange (lo + 1) k end.

Lemma In_nrange n : forall lo c, lo <= c -> c < lo + N.of_nat n -> In c (nrange lo n).
Proof.
  induction n as [|n IH]; intros lo c H1 H2; [lia|].
  cbn [nrange]. destruct (N.eq_dec c lo) as [E|E]; [left; auto|right].
  apply IH; lia.
Qed.

Definition sat_check (l : list N) : bool :=
  forallb (fun c => c <? 128) l
  && forallb (fun c => Bool.eqb (mem c l) (mem (atom_rep (atom_of c)) l)) (nrange 0 128)
  && negb (mem (atom_rep A_other) l).

Lemma mem_all_small l c : forallb (fun c => c <? 128) l = true -> 128 <= c -> mem c l = false.
Proof.
  induction l as [|x r IH]; intros H Hc; [reflexivity|].
  cbn [forallb] in H. apply andb_true_iff in H. destruct H as [Hx Hr].
  cbn [mem]. rewrite (IH Hr Hc). destruct (c =? x) eqn:E; [lia|reflexivity].
Qed.

Lemma sat_ok l : sat_check l = true -> forall c, mem c l = mem (atom_rep (atom_of c)) l.
Proof.
  unfold sat_check. intros H c.
  apply andb_true_iff in H. destruct H as [H H3]. apply andb_true_iff in H. destruct H as [H1 H2].
  destruct (N.lt_ge_cases c 128) as [Hc|Hc].
  - rewrite forallb_forall in H2. specialize (H2 c). apply Bool.eqb_prop. apply H2.
    apply In_nrange; lia.
  - rewrite (mem_all_small _ _ H1 Hc). rewrite (atom_of_big _ Hc).
    apply negb_true_iff in H3. rewrite H3. reflexivity.
Qed.

Fixpoint re_sat (r : re) : bool :=
  match r with
  | Emp | Eps => true
  | Chr l => sat_check l
  | Seq a b | Alt a b => re_sat a && re_sat b
  | Star a => re_sat a
  end.

Lemma re_sat_seq a b : re_sat a = true -> re_sat b = true -> re_sat (seq a b) = true.
Proof. intros Ha Hb. destruct a, b; cbn [seq re_sat] in *; auto; rewrite ?Ha, ?Hb; auto. Qed.

Lemma re_sat_alt_insert x r : re_sat x = true -> re_sat r = true -> re_sat (alt_insert x r) = true.
Proof.
  intros Hx. induction r as [| |l|a IHa b IHb|a IHa b IHb|a IHa]; intros Hr; cbn [alt_insert];
    try (destruct (re_cmp x _); cbn [re_sat] in *; rewrite ?Hx, ?Hr; auto; fail).
  cbn [re_sat] in Hr. apply andb_true_iff in Hr. destruct Hr as [H1 H2].
  destruct (re_cmp x a); cbn [re_sat]; rewrite ?Hx, ?H1, ?H2, ?(IHb H2); auto.
Qed.

Lemma re_sat_alt a : forall b, re_sat a = true -> re_sat b = true -> re_sat (alt a b) = true.
Proof.
  induction a as [| |l|a1 IH1 a2 IH2|a1 IH1 a2 IH2|a1 IH1]; intros b Ha Hb; cbn [alt];
    try (destruct b; auto; apply re_sat_alt_insert; auto; fail); auto.
  cbn [re_sat] in Ha. apply andb_true_iff in Ha. destruct Ha as [H1 H2].
  apply re_sat_alt_insert; auto.
Qed.

Lemma re_sat_deriv c r : re_sat r = true -> re_sat (deriv c r) = true.
Proof.
  induction r as [| |l|a IHa b IHb|a IHa b IHb|a IHa]; intros H; cbn [deriv]; auto.
  - destruct (mem c l); reflexivity.
  - cbn [re_sat] in H. apply andb_true_iff in H. destruct H as [H1 H2].
    apply re_sat_alt; [apply re_sat_seq; auto|]. destruct (nullable a); auto.
  - cbn [re_sat] in H. apply andb_true_iff in H. destruct H as [H1 H2]. apply re_sat_alt; auto.
  - cbn [re_sat] in H. apply re_sat_seq; auto.
Qed.

Lemma deriv_atom c r : re_sat r = true -> deriv c r = deriv (atom_rep (atom_of c)) r.
Proof.
  induction r as [| |l|a IHa b IHb|a IHa b IHb|a IHa]; intros H; cbn [deriv]; auto.
  - cbn [re_sat] in H. rewrite (sat_ok _ H c). reflexivity.
  - cbn [re_sat] in H. apply andb_true_iff in H. destruct H as [H1 H2]. rewrite (IHa H1), (IHb H2). reflexivity.
  - cbn [re_sat] in H. apply andb_true_iff in H. destruct H as [H1 H2]. rewrite (IHa H1), (IHb H2). reflexivity.
  - cbn [re_sat] in H. rewrite (IHa H). reflexivity.
Qed.

(* derivative by an atom *)
Definition deriv_a (a : atom) (r : re) : re := deriv (atom_rep a) r.
Fixpoint derivs_a (r : re) (w : list atom) : re :=
  match w with [] => r | a :: t => derivs_a (deriv_a a r) t end.

Lemma derivs_atoms s : forall r, re_sat r = true -> derivs r s = derivs_a r (map atom_of s).
Proof.
  induction s as [|c s IH]; intros r H; [reflexivity|].
  cbn [derivs map derivs_a]. unfold deriv_a. rewrite <- (deriv_atom c r H).
  apply IH. apply re_sat_deriv. exact H.
Qed.
