(* Regular expressions over code points with finite character sets, Brzozowski
   derivatives with normalising smart constructors, and their correctness. *)
From Coq Require Import List NArith Bool Lia.
Import ListNotations.
Local Open Scope N_scope.

Inductive re :=
| Emp                       (* no string *)
| Eps                       (* the empty string *)
| Chr (l : list N)          (* one character out of the listed code points *)
| Seq (a b : re)
| Alt (a b : re)
| Star (a : re).

Notation text := (list N).

Inductive matches : re -> text -> Prop :=
| MEps : matches Eps []
| MChr l c : In c l -> matches (Chr l) [c]
| MSeq a b s t : matches a s -> matches b t -> matches (Seq a b) (s ++ t)
| MAltL a b s : matches a s -> matches (Alt a b) s
| MAltR a b s : matches b s -> matches (Alt a b) s
| MStar0 a : matches (Star a) []
| MStarS a s t : matches a s -> matches (Star a) t -> matches (Star a) (s ++ t).

(* ---- decidable membership / comparison ------------------------------------- *)
Fixpoint mem (c : N) (l : list N) : bool :=
  match l with [] => false | x :: r => (c =? x) || mem c r end.

Lemma mem_In c l : mem c l = true <-> In c l.
Proof.
  induction l as [|x r IH]; cbn [mem In]; [split; [discriminate|tauto]|].
  rewrite orb_true_iff, IH, N.eqb_eq. split; intros [H|H]; auto.
Qed.

Fixpoint list_cmp (a b : list N) : comparison :=
  match a, b with
  | [], [] => Eq
  | [], _ => Lt
  | _, [] => Gt
  | x :: a', y :: b' => match x ?= y with Eq => list_cmp a' b' | c => c end
  end.

Lemma list_cmp_eq a : forall b, list_cmp a b = Eq -> a = b.
Proof.
  induction a as [|x a IH]; intros [|y b]; cbn [list_cmp]; try discriminate; auto.
  destruct (x ?= y) eqn:E; try discriminate. intros H. apply N.compare_eq in E. subst. f_equal. auto.
Qed.

Definition tag (r : re) : N :=
  match r with Emp => 0 | Eps => 1 | Chr _ => 2 | Seq _ _ => 3 | Alt _ _ => 4 | Star _ => 5 end.

Fixpoint re_cmp (a b : re) : comparison :=
  match a, b with
  | Emp, Emp => Eq
  | Eps, Eps => Eq
  | Chr l, Chr m => list_cmp l m
  | Seq a1 a2, Seq b1 b2 => match re_cmp a1 b1 with Eq => re_cmp a2 b2 | c => c end
  | Alt a1 a2, Alt b1 b2 => match re_cmp a1 b1 with Eq => re_cmp a2 b2 | c => c end
  | Star a1, Star b1 => re_cmp a1 b1
  | _, _ => tag a ?= tag b
  end.

Lemma re_cmp_eq a : forall b, re_cmp a b = Eq -> a = b.
Proof.
  induction a as [| |l|a1 IH1 a2 IH2|a1 IH1 a2 IH2|a1 IH1]; intros b; destruct b; cbn; try discriminate; auto.
  - intros H. apply list_cmp_eq in H. subst. reflexivity.
  - destruct (re_cmp a1 b1) eqn:E; try discriminate. intros H. rewrite (IH1 _ E), (IH2 _ H). reflexivity.
  - destruct (re_cmp a1 b1) eqn:E; try discriminate. intros H. rewrite (IH1 _ E), (IH2 _ H). reflexivity.
  - intros H. rewrite (IH1 _ H). reflexivity.
Qed.

Definition re_eqb (a b : re) : bool := match re_cmp a b with Eq => true | _ => false end.
Lemma re_eqb_eq a b : re_eqb a b = true -> a = b.
Proof. unfold re_eqb. destruct (re_cmp a b) eqn:E; try discriminate. intros _. apply re_cmp_eq. exact E. Qed.

(* ---- nullable, emptiness ------------------------------------------------------ *)
Fixpoint nullable (r : re) : bool :=
  match r with
  | Emp => false | Eps => true | Chr _ => false
  | Seq a b => nullable a && nullable b
  | Alt a b => nullable a || nullable b
  | Star _ => true
  end.

Lemma nullable_spec r : nullable r = true <-> matches r [].
Proof.
  induction r as [| |l|a IHa b IHb|a IHa b IHb|a IHa]; cbn [nullable].
  - split; [discriminate|]. inversion 1.
  - split; [constructor|reflexivity].
  - split; [discriminate|]. inversion 1.
  - rewrite andb_true_iff, IHa, IHb. split.
    + intros [Ha Hb]. change (@nil N) with (@nil N ++ []). constructor; assumption.
    + inversion 1 as [| |? ? s t Hs Ht E| | | |]; subst.
      destruct s; destruct t; try discriminate. auto.
  - rewrite orb_true_iff, IHa, IHb. split.
    + intros [H|H]; [apply MAltL|apply MAltR]; assumption.
    + inversion 1; subst; auto.
  - split; [constructor|reflexivity].
Qed.

Fixpoint is_empty (r : re) : bool :=
  match r with
  | Emp => true | Eps => false
  | Chr l => match l with [] => true | _ => false end
  | Seq a b => is_empty a || is_empty b
  | Alt a b => is_empty a && is_empty b
  | Star _ => false
  end.

Lemma is_empty_true r : is_empty r = true -> forall s, ~ matches r s.
Proof.
  induction r as [| |l|a IHa b IHb|a IHa b IHb|a IHa]; cbn [is_empty]; intros H s M; try discriminate.
  - inversion M.
  - destruct l; [|discriminate]. inversion M; subst. contradiction.
  - inversion M; subst. apply orb_true_iff in H. destruct H as [H|H]; [eapply IHa|eapply IHb]; eauto.
  - apply andb_true_iff in H. destruct H as [H1 H2]. inversion M; subst; [eapply IHa|eapply IHb]; eauto.
Qed.

Lemma is_empty_false r : is_empty r = false -> exists s, matches r s.
Proof.
  induction r as [| |l|a IHa b IHb|a IHa b IHb|a IHa]; cbn [is_empty]; intros H; try discriminate.
  - exists []. constructor.
  - destruct l as [|c l]; [discriminate|]. exists [c]. constructor. left; reflexivity.
  - apply orb_false_iff in H. destruct H as [H1 H2].
    destruct (IHa H1) as [s Hs]. destruct (IHb H2) as [t Ht]. exists (s ++ t). constructor; assumption.
  - apply andb_false_iff in H. destruct H as [H|H].
    + destruct (IHa H) as [s Hs]. exists s. apply MAltL. assumption.
    + destruct (IHb H) as [s Hs]. exists s. apply MAltR. assumption.
  - exists []. constructor.
Qed.

(* ---- smart constructors --------------------------------------------------------- *)
Definition seq (a b : re) : re :=
  match a, b with
  | Emp, _ => Emp
  | _, Emp => Emp
  | Eps, _ => b
  | _, Eps => a
  | _, _ => Seq a b
  end.

Lemma seq_spec a b s : matches (seq a b) s <-> matches (Seq a b) s.
Proof.
  split.
  - intros H. destruct a, b; cbn [seq] in H; try exact H; try (inversion H; fail);
      try (change s with ([] ++ s); constructor; [constructor|exact H]; fail);
      try (rewrite <- (app_nil_r s); constructor; [exact H|constructor]; fail).
  - intros H. inversion H as [| |? ? u t Hu Ht| | | |]; subst.
    destruct a, b; cbn [seq]; try (constructor; assumption; fail);
      try (inversion Hu; fail); try (inversion Ht; fail);
      try (inversion Hu; subst; exact Ht; fail);
      try (inversion Ht; subst; rewrite app_nil_r; exact Hu; fail).
Qed.

(* insertion into a right-nested, ordered alternative list, dropping duplicates *)
Fixpoint alt_insert (x r : re) : re :=
  match r with
  | Alt y r' =>
    match re_cmp x y with
    | Eq => r
    | Lt => Alt x r
    | Gt => Alt y (alt_insert x r')
    end
  | _ =>
    match re_cmp x r with
    | Eq => r
    | Lt => Alt x r
    | Gt => Alt r x
    end
  end.

Lemma alt_insert_spec x r s : matches (alt_insert x r) s <-> matches x s \/ matches r s.
Proof.
  revert s. induction r as [| |l|a IHa b IHb|a IHa b IHb|a IHa]; intros s; cbn [alt_insert];
  try (destruct (re_cmp x _) eqn:E;
       [apply re_cmp_eq in E; subst; tauto
       | split; [inversion 1; subst; auto | intros [H|H]; [apply MAltL|apply MAltR]; assumption]
       | split; [inversion 1; subst; auto | intros [H|H]; [apply MAltR|apply MAltL]; assumption]]; fail).
  destruct (re_cmp x a) eqn:E.
  - apply re_cmp_eq in E; subst. split; [auto|]. intros [H|H]; [apply MAltL|]; assumption.
  - split; [inversion 1; subst; auto | intros [H|H]; [apply MAltL|apply MAltR]; assumption].
  - split.
    + inversion 1; subst; [right; apply MAltL; assumption|].
      match goal with H : matches (alt_insert _ _) _ |- _ => apply IHb in H; destruct H as [H|H] end;
        [left; assumption | right; apply MAltR; assumption].
    + intros [H|H].
      * apply MAltR. apply IHb. left; assumption.
      * inversion H; subst; [apply MAltL; assumption | apply MAltR; apply IHb; right; assumption].
Qed.

Fixpoint alt (a b : re) : re :=
  match a with
  | Emp => b
  | Alt x a' => alt_insert x (alt a' b)
  | _ => match b with Emp => a | _ => alt_insert a b end
  end.

Lemma alt_spec a b s : matches (alt a b) s <-> matches a s \/ matches b s.
Proof.
  revert b s. induction a as [| |l|a1 IH1 a2 IH2|a1 IH1 a2 IH2|a1 IH1]; intros b s; cbn [alt];
  try (destruct b; [split; [auto|intros [H|H]; [assumption|inversion H]]|apply alt_insert_spec..]; fail).
  - split; [auto|]. intros [H|H]; [inversion H|assumption].
  - rewrite alt_insert_spec, IH2. split.
    + intros [H|[H|H]]; auto; left; [apply MAltL|apply MAltR]; assumption.
    + intros [H|H]; auto. inversion H; subst; auto.
Qed.

(* ---- derivative ------------------------------------------------------------------ *)
Fixpoint deriv (c : N) (r : re) : re :=
  match r with
  | Emp => Emp
  | Eps => Emp
  | Chr l => if mem c l then Eps else Emp
  | Seq a b => alt (seq (deriv c a) b) (if nullable a then deriv c b else Emp)
  | Alt a b => alt (deriv c a) (deriv c b)
  | Star a => seq (deriv c a) (Star a)
  end.

Lemma star_cons a c s : matches (Star a) (c :: s) ->
  exists s1 s2, s = s1 ++ s2 /\ matches a (c :: s1) /\ matches (Star a) s2.
Proof.
  intros H. remember (Star a) as r eqn:Er. remember (c :: s) as w eqn:Ew.
  revert c s Ew. induction H as [|l0 c0 Hin|a0 b0 u0 t0 _ _ _ _|a0 b0 u0 _ _|a0 b0 u0 _ _|a0|a' u t Hu _ Ht IHt];
    intros c1 s1 Ew; try discriminate.
  inversion Er; subst a'. destruct u as [|d u].
  - cbn [app] in Ew. apply IHt; assumption.
  - cbn [app] in Ew. inversion Ew; subst. exists u, t. auto.
Qed.

Lemma deriv_spec r : forall c s, matches (deriv c r) s <-> matches r (c :: s).
Proof.
  induction r as [| |l|a IHa b IHb|a IHa b IHb|a IHa]; intros c s; cbn [deriv].
  - split; inversion 1.
  - split; inversion 1.
  - destruct (mem c l) eqn:E.
    + split.
      * inversion 1; subst. constructor. apply mem_In. exact E.
      * inversion 1; subst. constructor.
    + split; [inversion 1|]. inversion 1; subst.
      match goal with H : In _ _ |- _ => apply mem_In in H end. congruence.
  - rewrite alt_spec, seq_spec. split.
    + intros [H|H].
      * inversion H; subst. change (c :: ?x ++ ?y) with ((c :: x) ++ y). constructor; [apply IHa|]; assumption.
      * destruct (nullable a) eqn:N; [|inversion H]. apply IHb in H. apply nullable_spec in N.
        change (c :: s) with ([] ++ c :: s). constructor; assumption.
    + intros H. remember (c :: s) as w eqn:Ew. inversion H as [| |? ? u t Hu Ht| | | |]; subst.
      match goal with E : _ ++ _ = _ :: _ |- _ => rename E into E0 end.
      destruct u as [|d u].
      * cbn [app] in E0. subst t. right. apply nullable_spec in Hu. rewrite Hu. apply IHb. assumption.
      * cbn [app] in E0. inversion E0; subst. left. constructor; [apply IHa|]; assumption.
  - rewrite alt_spec, IHa, IHb. split.
    + intros [H|H]; [apply MAltL|apply MAltR]; assumption.
    + inversion 1; subst; auto.
  - rewrite seq_spec. split.
    + inversion 1; subst. change (c :: ?x ++ ?y) with ((c :: x) ++ y). constructor; [apply IHa|]; assumption.
    + intros H. apply star_cons in H. destruct H as [s1 [s2 [E [H1 H2]]]]. subst. constructor; [apply IHa|]; assumption.
Qed.

Fixpoint derivs (r : re) (s : text) : re :=
  match s with [] => r | c :: t => derivs (deriv c r) t end.

Lemma derivs_spec s : forall r t, matches (derivs r s) t <-> matches r (s ++ t).
Proof.
  induction s as [|c s IH]; intros r t; cbn [derivs app]; [tauto|].
  rewrite IH. apply deriv_spec.
Qed.

(* executable matcher *)
Definition matchb (r : re) (s : text) : bool := nullable (derivs r s).

Theorem matchb_spec r s : matchb r s = true <-> matches r s.
Proof.
  unfold matchb. rewrite nullable_spec, derivs_spec, app_nil_r. tauto.
Qed.

(* a prefix is viable when some continuation matches *)
Definition viable (r : re) (p : text) : Prop := exists t, matches r (p ++ t).

Lemma viable_derivs r p : viable r p <-> is_empty (derivs r p) = false.
Proof.
  unfold viable. split.
  - intros [t H]. apply derivs_spec in H. destruct (is_empty (derivs r p)) eqn:E; [|reflexivity].
    exfalso. eapply is_empty_true; eauto.
  - intros H. apply is_empty_false in H. destruct H as [t H]. exists t. apply derivs_spec. exact H.
Qed.

(* index of the first character after which no completion exists; |s| if there is none *)
Fixpoint first_dead_from (r : re) (s : text) (i : nat) : nat :=
  match s with
  | [] => i
  | c :: t => let r' := deriv c r in if is_empty r' then i else first_dead_from r' t (S i)
  end.
Definition first_dead (r : re) (s : text) : nat := first_dead_from r s 0.
