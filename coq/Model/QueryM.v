(* Memory tier of src/UriQuery.c: uriDissectQueryMallocExMm (with uriAppendQueryItem),
   uriComposeQueryMallocExMm and uriFreeQueryListMm over the allocation ledger of Model/Mem.v.

   Every malloc / calloc / free of the C code is one [alloc] / [free_blk], in the order of the C code
   and with the size in bytes the C code asks for: sizeof(UriQueryListA/W) = 24 on the LP64 build the
   harness runs (three pointers: key, value, next), (keyLen + 1) * sizeof(URI_CHAR) for a key copy
   where keyLen is the length of the raw (still escaped) range, the same for a value copy,
   (charsRequired + 1) * sizeof(URI_CHAR) for the composed string (one calloc).  free(NULL) (the value
   pointer of an item without value in uriFreeQueryListMm) is not an event, as in harness/drv_uri.inc.

   What text a key / value gets is computed with the functions of the pure tier (Model/Query.v,
   Model/Escape.v); the scan below has the control structure of [Query.dissect_walk] and
   Proofs/LedgerQuery.v shows that forgetting the blocks gives the pure-tier result.

   Deviations of the C code that are kept:
   - after an allocation failure uriDissectQueryMallocExMm releases the list built so far but does
     not reset *dest: when at least one item had been appended, *dest still holds the address of
     the (released) first node.  [DMMalloc] carries that list; it is [[]] exactly when *dest is NULL.
   - uriComposeQueryMallocExMm returns URI_ERROR_MALLOC without asking the manager for anything when
     the required size is exactly INT_MAX.
   Not modelled (as in the pure tier): the manager completeness test (URI_CHECK_MEMORY_MANAGER), NULL
   arguments, first > afterLast; the truncation of range lengths and of the item counter to [int]
   (ranges of 2^31 characters and more). *)
From Coq Require Import List NArith ZArith Bool.
From UP Require Import Base.Chars Model.Uri Model.Escape Model.Query Model.Mem.
Import ListNotations.

Definition QL_SIZE : N := 24.

(* one node of a query list: the key copy and its block, the value copy and its block (None = the
   value pointer is NULL), the block of the node itself *)
Record mqitem := { qi_key : text; qi_kblk : nat; qi_val : option (text * nat); qi_node : nat }.
Definition mqlist := list mqitem.

Definition erase_qi (it : mqitem) : qitem := (qi_key it, option_map fst (qi_val it)).
Definition erase_q (l : mqlist) : list qitem := map erase_qi l.

(* every block a list refers to *)
Definition mqitem_blocks (it : mqitem) : list nat :=
  qi_node it :: qi_kblk it :: match qi_val it with Some (_, b) => [b] | None => [] end.
Definition mqlist_blocks (l : mqlist) : list nat := flat_map mqitem_blocks l.

(* ---- uriFreeQueryListMm ---------------------------------------------------------
   while (queryList != NULL) { free(key); free(value); free(queryList); queryList = next; } *)
Definition free_qitem (s : mstate) (it : mqitem) : mstate :=
  let s := free_blk (qi_kblk it) s in
  let s := match qi_val it with Some (_, b) => free_blk b s | None => s end in
  free_blk (qi_node it) s.
Definition free_query_list_m (l : mqlist) (s : mstate) : mstate := fold_left free_qitem l s.

Inductive ares :=
| AFail                      (* URI_FALSE: an allocation failed, everything this call allocated is released *)
| ASkip                      (* URI_TRUE, nothing appended *)
| AItem (it : mqitem).       (* URI_TRUE, one node appended *)

Inductive dmres :=
| DMOk (items : mqlist) (count : Z)
| DMMalloc (dest : mqlist).  (* URI_ERROR_MALLOC; *itemCount = 0; [dest]: the released list *dest still points to *)

Definition erase_d (r : dmres) : dres :=
  match r with DMOk l c => DOk (erase_q l) c | DMMalloc _ => DErr URI_ERROR_MALLOC end.

Inductive cmres :=
| CMErr (code : N)                 (* *dest not written *)
| CMOk (out : text) (blk : nat).   (* *dest = the block [blk] holding [out] and its terminator *)

Definition erase_c (r : cmres) : mres :=
  match r with CMErr c => MErr c | CMOk out _ => MOk out end.

Section WithCsize.
Variable csize : N.          (* sizeof(URI_CHAR) *)

Definition nlen (t : text) : N := N.of_nat (length t).

(* ---- uriAppendQueryItem -----------------------------------------------------------
   [kfn]: keyFirst is NULL; [key_rev], [val_rev]: the raw ranges, reversed ([None]: valueFirst is NULL).
     if (keyFirst == NULL || ... || (keyFirst == keyAfter && valueFirst == NULL && valueAfter == NULL)) return URI_TRUE;
     *prevNext = malloc(sizeof(QueryList));                 NULL -> return URI_FALSE
     key = malloc((keyLen + 1) * sizeof(URI_CHAR));         NULL -> free( *prevNext); *prevNext = NULL; return URI_FALSE
     if (valueFirst != NULL) {
       value = malloc((valueLen + 1) * sizeof(URI_CHAR));   NULL -> free(key); free( *prevNext); *prevNext = NULL; return URI_FALSE
     } *)
Definition append_item_m (pts : bool) (bc : break_conv) (kfn : bool) (key_rev : text)
           (val_rev : option text) (s : mstate) : ares * mstate :=
  if kfn then (ASkip, s)
  else match key_rev, val_rev with
       | [], None => (ASkip, s)
       | _, _ =>
         match alloc false QL_SIZE s with
         | (None, s1) => (AFail, s1)
         | (Some node, s1) =>
           match alloc false ((nlen key_rev + 1) * csize) s1 with
           | (None, s2) => (AFail, free_blk node s2)
           | (Some kb, s2) =>
             let k := cstr (unescape pts bc (rev key_rev)) in
             match val_rev with
             | None => (AItem {| qi_key := k; qi_kblk := kb; qi_val := None; qi_node := node |}, s2)
             | Some vr =>
               match alloc false ((nlen vr + 1) * csize) s2 with
               | (None, s3) => (AFail, free_blk node (free_blk kb s3))
               | (Some vb, s3) =>
                 (AItem {| qi_key := k; qi_kblk := kb;
                           qi_val := Some (cstr (unescape pts bc (rev vr)), vb); qi_node := node |}, s3)
               end
             end
           end
         end
       end.

(* the exit taken when uriAppendQueryItem returned URI_FALSE:
     *itemsAppended = 0; uriFreeQueryListMm( *dest, memory); return URI_ERROR_MALLOC;
   [acc]: the nodes appended so far, most recent first *)
Definition fail_exit (acc : mqlist) (s : mstate) : dmres * mstate :=
  (DMMalloc (rev acc), free_query_list_m (rev acc) s).

(* ---- uriDissectQueryMallocExMm: same scan as Query.dissect_walk ---------------------- *)
Fixpoint dissect_walk_m (pts : bool) (bc : break_conv) (l : text) (kfn : bool) (key_rev : text)
         (val_rev : option text) (acc : mqlist) (cnt : Z) (s : mstate) : dmres * mstate :=
  match l with
  | [] =>
    match append_item_m pts bc kfn key_rev val_rev s with
    | (AFail, s') => fail_exit acc s'
    | (ASkip, s') => (DMOk (rev acc) cnt, s')
    | (AItem it, s') => (DMOk (rev (it :: acc)) (cnt + 1)%Z, s')
    end
  | c :: r =>
    if (c =? 38)%N then
      match append_item_m pts bc kfn key_rev val_rev s with
      | (AFail, s') => fail_exit acc s'
      | (ASkip, s') =>
        dissect_walk_m pts bc r (match r with [] => true | _ => false end) [] None acc cnt s'
      | (AItem it, s') =>
        dissect_walk_m pts bc r (match r with [] => true | _ => false end) [] None (it :: acc) (cnt + 1)%Z s'
      end
    else if (c =? 61)%N then
      match val_rev with
      | None => dissect_walk_m pts bc r kfn key_rev (Some []) acc cnt s
      | Some vr => dissect_walk_m pts bc r kfn key_rev (Some (c :: vr)) acc cnt s
      end
    else
      match val_rev with
      | None => dissect_walk_m pts bc r kfn (c :: key_rev) None acc cnt s
      | Some vr => dissect_walk_m pts bc r kfn key_rev (Some (c :: vr)) acc cnt s
      end
  end.

(* uriDissectQueryMallocExMm on the range [first, afterLast) = [l]; *dest = NULL; *itemsAppended = 0 first *)
Definition dissect_m (pts : bool) (bc : break_conv) (l : text) (s : mstate) : dmres * mstate :=
  dissect_walk_m pts bc l false [] None [] 0%Z s.

(* ---- uriComposeQueryMallocExMm ----------------------------------------------------
     res = uriComposeQueryCharsRequiredEx(queryList, &charsRequired, ...);   res != URI_SUCCESS -> return res
     if (charsRequired == INT_MAX) return URI_ERROR_MALLOC;
     charsRequired++;
     queryString = memory->calloc(memory, charsRequired, sizeof(URI_CHAR));  NULL -> return URI_ERROR_MALLOC
     res = uriComposeQueryEx(queryString, queryList, charsRequired, NULL, ...);
     if (res != URI_SUCCESS) { memory->free(memory, queryString); return res; }
     *dest = queryString;
   The count handed to calloc is (size_t)charsRequired: the int converted modulo 2^64.
   The list is a read-only argument: a pure-tier value. *)
Definition compose_m (stp nb : bool) (l : list qitem) (s : mstate) : cmres * mstate :=
  match chars_required stp nb l with
  | ZErr c => (CMErr c, s)
  | ZOk r =>
    if (r =? INT_MAX)%Z then (CMErr URI_ERROR_MALLOC, s)
    else
      let r1 := (r + 1)%Z in
      match alloc true (Z.to_N (r1 mod 18446744073709551616) * csize) s with
      | (None, s1) => (CMErr URI_ERROR_MALLOC, s1)
      | (Some id, s1) =>
        match compose_ex false stp nb r1 l with
        | CErr c _ _ => (CMErr c, free_blk id s1)
        | COk out _ _ => (CMOk out id, s1)
        end
      end
  end.

(* the caller frees the returned string through the same manager *)
Definition free_string_m (r : cmres) (s : mstate) : mstate :=
  match r with CMOk _ b => free_blk b s | CMErr _ => s end.

End WithCsize.
