(* Model of src/UriCompare.c: uriEqualsUri. *)
From Coq Require Import ZArith.
From UP Require Import Base.Chars Model.Uri Model.Common.
Local Open Scope N_scope.

Fixpoint bytes_eqb (a b : list N) : bool :=
  match a, b with
  | [], [] => true
  | x :: a', y :: b' => (x =? y) && bytes_eqb a' b'
  | _, _ => false
  end.

(* the do-while over the two segment lists (both non-empty) *)
Fixpoint segs_eqb (a b : list text) : bool :=
  match a, b with
  | x :: a', y :: b' =>
    range_eqb (Some x) (Some y)
    && match a', b' with
       | [], [] => true
       | _ :: _, _ :: _ => segs_eqb a' b'
       | _, _ => false
       end
  | _, _ => true
  end.

Definition equals_uri_nn (a b : uri) : bool :=
  range_eqb (scheme a) (scheme b)
  && Bool.eqb (absolutePath a) (absolutePath b)
  && range_eqb (userInfo a) (userInfo b)
  && Bool.eqb (is_some (ip4 a)) (is_some (ip4 b))
  && Bool.eqb (is_some (ip6 a)) (is_some (ip6 b))
  && Bool.eqb (is_some (ipFuture a)) (is_some (ipFuture b))
  && match ip4 a, ip4 b with Some x, Some y => bytes_eqb x y | _, _ => true end
  && match ip6 a, ip6 b with Some x, Some y => bytes_eqb x y | _, _ => true end
  && (if is_some (ipFuture a) then range_eqb (ipFuture a) (ipFuture b) else true)
  && (if negb (is_some (ip4 a)) && negb (is_some (ip6 a)) && negb (is_some (ipFuture a))
      then range_eqb (hostText a) (hostText b) else true)
  && range_eqb (portText a) (portText b)
  && match pathSegs a, pathSegs b with
     | [], [] => true
     | _ :: _, _ :: _ => segs_eqb (pathSegs a) (pathSegs b)
     | _, _ => false
     end
  && range_eqb (query a) (query b)
  && range_eqb (fragment a) (fragment b).

(* uriEqualsUri with possibly NULL arguments *)
Definition equals_uri (a b : option uri) : bool :=
  match a, b with
  | None, None => true
  | Some x, Some y => equals_uri_nn x y
  | _, _ => false
  end.
