(* The URI object (UriUriStructA/W), field by field, as a value.
   A text range {first, afterLast} is an [option text]: None = {NULL, NULL},
   Some [] = present but empty.  The path is the list of segment texts from
   pathHead to pathTail ([] = pathHead NULL). *)
From UP Require Import Base.Chars.
Local Open Scope N_scope.

Record uri := mkUri {
  scheme : option text;
  userInfo : option text;
  hostText : option text;
  ip4 : option (list N);        (* hostData.ip4: 4 octets *)
  ip6 : option (list N);        (* hostData.ip6: 16 bytes *)
  ipFuture : option text;       (* hostData.ipFuture *)
  portText : option text;
  pathSegs : list text;
  query : option text;
  fragment : option text;
  absolutePath : bool;
  owner : bool }.

(* uriResetUri: all fields zero *)
Definition empty_uri : uri :=
  mkUri None None None None None None None [] None None false false.

Definition is_some {A} (o : option A) : bool := match o with Some _ => true | None => false end.

(* uriIsHostSet *)
Definition is_host_set (u : uri) : bool :=
  is_some (hostText u) || is_some (ip4 u) || is_some (ip6 u) || is_some (ipFuture u).

(* error codes of UriBase.h *)
Definition URI_SUCCESS : N := 0.
Definition URI_ERROR_SYNTAX : N := 1.
Definition URI_ERROR_NULL : N := 2.
Definition URI_ERROR_MALLOC : N := 3.
Definition URI_ERROR_OUTPUT_TOO_LARGE : N := 4.
Definition URI_ERROR_ADDBASE_REL_BASE : N := 5.
Definition URI_ERROR_REMOVEBASE_REL_BASE : N := 6.
Definition URI_ERROR_REMOVEBASE_REL_SOURCE : N := 7.
Definition URI_ERROR_RANGE_INVALID : N := 9.
Definition URI_ERROR_MEMORY_MANAGER_INCOMPLETE : N := 10.

(* functional record updates *)
Definition set_scheme v u := mkUri v (userInfo u) (hostText u) (ip4 u) (ip6 u) (ipFuture u) (portText u) (pathSegs u) (query u) (fragment u) (absolutePath u) (owner u).
Definition set_userInfo v u := mkUri (scheme u) v (hostText u) (ip4 u) (ip6 u) (ipFuture u) (portText u) (pathSegs u) (query u) (fragment u) (absolutePath u) (owner u).
Definition set_hostText v u := mkUri (scheme u) (userInfo u) v (ip4 u) (ip6 u) (ipFuture u) (portText u) (pathSegs u) (query u) (fragment u) (absolutePath u) (owner u).
Definition set_ip4 v u := mkUri (scheme u) (userInfo u) (hostText u) v (ip6 u) (ipFuture u) (portText u) (pathSegs u) (query u) (fragment u) (absolutePath u) (owner u).
Definition set_ip6 v u := mkUri (scheme u) (userInfo u) (hostText u) (ip4 u) v (ipFuture u) (portText u) (pathSegs u) (query u) (fragment u) (absolutePath u) (owner u).
Definition set_ipFuture v u := mkUri (scheme u) (userInfo u) (hostText u) (ip4 u) (ip6 u) v (portText u) (pathSegs u) (query u) (fragment u) (absolutePath u) (owner u).
Definition set_portText v u := mkUri (scheme u) (userInfo u) (hostText u) (ip4 u) (ip6 u) (ipFuture u) v (pathSegs u) (query u) (fragment u) (absolutePath u) (owner u).
Definition set_pathSegs v u := mkUri (scheme u) (userInfo u) (hostText u) (ip4 u) (ip6 u) (ipFuture u) (portText u) v (query u) (fragment u) (absolutePath u) (owner u).
Definition set_query v u := mkUri (scheme u) (userInfo u) (hostText u) (ip4 u) (ip6 u) (ipFuture u) (portText u) (pathSegs u) v (fragment u) (absolutePath u) (owner u).
Definition set_fragment v u := mkUri (scheme u) (userInfo u) (hostText u) (ip4 u) (ip6 u) (ipFuture u) (portText u) (pathSegs u) (query u) v (absolutePath u) (owner u).
Definition set_absolutePath v u := mkUri (scheme u) (userInfo u) (hostText u) (ip4 u) (ip6 u) (ipFuture u) (portText u) (pathSegs u) (query u) (fragment u) v (owner u).
Definition set_owner v u := mkUri (scheme u) (userInfo u) (hostText u) (ip4 u) (ip6 u) (ipFuture u) (portText u) (pathSegs u) (query u) (fragment u) (absolutePath u) v.
