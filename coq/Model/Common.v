(* Model of the helpers in src/UriCommon.c that work on values: uriCompareRange,
   uriFixAmbiguity, uriFixEmptyTrailSegment (in Model/Parse.v), uriRemoveDotSegmentsEx. *)
From Coq Require Import ZArith.
From UP Require Import Base.Chars Model.Uri.
Local Open Scope N_scope.

(* strncmp / wcsncmp over n = length a characters of two ranges of equal length: stops at a NUL *)
Fixpoint strncmp (a b : text) : Z :=
  match a, b with
  | x :: a', y :: b' =>
    if x =? y then (if x =? 0 then 0%Z else strncmp a' b')
    else if x <? y then (-1)%Z else 1%Z
  | _, _ => 0%Z
  end.

(* uriCompareRange on two non-NULL range pointers *)
Definition compare_range (a b : option text) : Z :=
  match a, b with
  | None, None => 0%Z
  | None, Some _ => (-1)%Z
  | Some _, None => 1%Z
  | Some x, Some y =>
    let d := (Z.of_nat (length x) - Z.of_nat (length y))%Z in
    if (0 <? d)%Z then 1%Z else if (d <? 0)%Z then (-1)%Z else strncmp x y
  end.

Definition range_eqb (a b : option text) : bool := (compare_range a b =? 0)%Z.

Definition seg_dot (t : text) : bool := match t with [46] => true | _ => false end.
Definition seg_dotdot (t : text) : bool := match t with [46; 46] => true | _ => false end.
Definition has_colon (t : text) : bool := existsb (fun c => c =? 58) t.

(* uriFixAmbiguity: a "." segment is put in front when
   case 1: absolutePath, the first segment is empty and there is a second one, or
   case 2: not absolutePath, no host, and the first two segments are empty *)
Definition fix_ambiguity (u : uri) : uri :=
  match absolutePath u, pathSegs u with
  | true, [] :: _ :: _ => set_pathSegs ([46] :: pathSegs u) u
  | false, [] :: [] :: _ => if is_host_set u then u else set_pathSegs ([46] :: pathSegs u) u
  | _, _ => u
  end.

(* uriFixEmptyTrailSegment *)
Definition fix_empty_trail_segment (u : uri) : uri :=
  if negb (is_host_set u) then
    match pathSegs u with
    | [[]] => set_pathSegs [] u
    | _ => u
    end
  else u.

(* uriRemoveDotSegmentsEx.  The walk keeps the list of segments already passed ("kept", most recent
   first: the chain of [reserved] back links) and the segments still ahead.  [host] is uriIsHostSet,
   [abs] is uri->absolutePath; both are only read.  Result: the new segment list. *)
Fixpoint rds_walk (relative host abs : bool) (kept : list text) (rest : list text) {struct rest} : list text :=
  match rest with
  | [] => rev kept
  | w :: nxt =>
    if seg_dot w then
      (* "." : remove unless essential *)
      let essential :=
        relative && (match kept with [] => true | _ => false end)
        && (match nxt with n1 :: _ => has_colon n1 | [] => false end) in
      if essential then rds_walk relative host abs (w :: kept) nxt
      else
        match nxt with
        | _ :: _ => rds_walk relative host abs kept nxt                (* first or middle: unlink *)
        | [] =>
          match kept with
          | [] => if host then [[]] else []                               (* last and first *)
          | _ => rev ([] :: kept)                                         (* last but not first: "" *)
          end
        end
    else if seg_dotdot w then
      let keep :=
        relative && (match kept with
                     | [] => true                                         (* cannot go above a relative reference *)
                     | p :: _ => seg_dotdot p                             (* "../.." stays *)
                     end) in
      if keep then rds_walk relative host abs (w :: kept) nxt
      else
        match kept with
        | p :: pp :: kk =>                                                (* prev and prevPrev exist *)
          match nxt with
          | _ :: _ => rds_walk relative host abs (pp :: kk) nxt
          | [] => rev ([] :: pp :: kk)                                    (* new "" segment as tail *)
          end
        | [p] =>                                                          (* prev is the first segment *)
          match nxt with
          | _ :: _ => rds_walk relative host abs [] nxt
          | [] => if abs then [] else [[]]                                (* "/" alone, or walker re-used as "" *)
          end
        | [] =>                                                           (* ".." is the first segment *)
          match nxt with
          | _ :: _ => rds_walk relative host abs [] nxt
          | [] => if abs then [] else [[]]
          end
        end
    else rds_walk relative host abs (w :: kept) nxt
  end.

Definition remove_dot_segments (relative : bool) (u : uri) : uri :=
  match pathSegs u with
  | [] => u
  | segs => set_pathSegs (rds_walk relative (is_host_set u) (absolutePath u) [] segs) u
  end.

(* uriRemoveDotSegmentsAbsolute *)
Definition remove_dot_segments_absolute (u : uri) : uri := remove_dot_segments false u.
