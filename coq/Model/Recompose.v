(* Model of src/UriRecompose.c: uriToStringEngine as a sequence of bounded copies. *)
From Coq Require Import ZArith.
From UP Require Import Base.Chars Model.Uri.
Local Open Scope N_scope.

(* decimal text of an octet, as the three-way branch of the engine writes it *)
Definition octet_text (v : N) : text :=
  if 99 <? v then [48 + v / 100; 48 + (v mod 100) / 10; 48 + v mod 10]
  else if 9 <? v then [48 + v / 10; 48 + v mod 10]
  else [48 + v].

(* the copies made for an IPv4 host: octet, ".", octet, ".", octet, ".", octet *)
Fixpoint ip4_pieces (o : list N) (i : nat) : list text :=
  match o with
  | [] => []
  | v :: r => octet_text v :: (if Nat.ltb i 3 then [[46]] else []) ++ ip4_pieces r (S i)
  end.

(* the copies made for an IPv6 host: "[", then for each byte two lower-case hex digits and a ":" after
   every odd byte except the last, then "]" *)
Fixpoint ip6_byte_pieces (b : list N) (i : nat) : list text :=
  match b with
  | [] => []
  | v :: r => [hex_to_letter_ex (v / 16) false; hex_to_letter_ex (v mod 16) false]
              :: (if Nat.odd i && Nat.ltb i 15 then [[58]] else []) ++ ip6_byte_pieces r (S i)
  end.

Fixpoint path_pieces (segs : list text) : list text :=
  match segs with
  | [] => []
  | [s] => [s]
  | s :: r => s :: [47] :: path_pieces r
  end.

Definition opt_pieces (pre : list text) (o : option text) (post : list text) : list text :=
  match o with Some t => pre ++ [t] ++ post | None => [] end.

(* every memcpy of the engine, in order *)
Definition pieces (u : uri) : list text :=
  opt_pieces [] (scheme u) [[58]]
  ++ (if is_host_set u then
        [[47; 47]]
        ++ opt_pieces [] (userInfo u) [[64]]
        ++ match ip4 u, ip6 u, ipFuture u, hostText u with
           | Some o, _, _, _ => ip4_pieces o 0
           | None, Some b, _, _ => [[91]] ++ ip6_byte_pieces b 0 ++ [[93]]
           | None, None, Some t, _ => [[91]; t; [93]]
           | None, None, None, Some t => [t]
           | None, None, None, None => []
           end
        ++ opt_pieces [[58]] (portText u) []
      else [])
  ++ (if absolutePath u || (negb (match pathSegs u with [] => true | _ => false end) && is_host_set u)
      then [[47]] else [])
  ++ path_pieces (pathSegs u)
  ++ opt_pieces [[63]] (query u) []
  ++ opt_pieces [[35]] (fragment u) [].

Definition to_text (u : uri) : text := concat (pieces u).

(* uriToStringCharsRequired *)
Definition chars_required (u : uri) : Z :=
  fold_left (fun acc p => (acc + Z.of_nat (length p))%Z) (pieces u) 0%Z.

(* uriToString with a destination of maxChars characters.
   The buffer content is modelled as the text written (without terminator) plus a log of the
   index ranges written. *)
Inductive ts_result :=
| TsOk (written_text : text) (chars_written : Z) (log : list (Z * Z))    (* (start, length) of each write *)
| TsTooLong (first_is_nul : bool) (log : list (Z * Z)).

Fixpoint emit (ps : list text) (written : Z) (maxc : Z) (acc : text) (log : list (Z * Z)) : ts_result :=
  match ps with
  | [] => TsOk acc (written + 1)%Z ((written, 1%Z) :: log)             (* dest[written++] = '\0' *)
  | p :: r =>
    let n := Z.of_nat (length p) in
    if (written + n <=? maxc)%Z
    then emit r (written + n)%Z maxc (acc ++ p) ((written, n) :: log)
    else TsTooLong true ((0%Z, 1%Z) :: log)                             (* dest[0] = '\0' *)
  end.

Definition to_string (u : uri) (max_chars : Z) : ts_result :=
  if (max_chars <? 1)%Z then TsTooLong false []
  else emit (pieces u) 0%Z (max_chars - 1)%Z [] [(0%Z, 1%Z)].          (* dest[0] = '\0' first *)
