(* Model of src/UriMemory.c: the manager that uriCompleteMemoryManager builds from a backend
   offering only malloc and free.

     memory->malloc       = uriDecorateMalloc          [decorate_malloc]
     memory->realloc      = uriDecorateRealloc         [decorate_realloc]
     memory->free         = uriDecorateFree            [decorate_free]
     memory->calloc       = uriEmulateCalloc           [emulate_calloc]
     memory->reallocarray = uriEmulateReallocarray     [emulate_reallocarray]
     memory->userData     = backend

   The calls "memory->malloc(memory, ..)", "memory->realloc(memory, ..)", "memory->free(memory, ..)"
   inside these functions are therefore calls of the decorated functions.  The guards
   "memory == NULL" and "backend == NULL" (errno = EINVAL) cannot fire on a manager that
   uriCompleteMemoryManager returned URI_SUCCESS for and that is passed to its own members;
   they are modelled in [complete_memory_manager] / not taken below.

   size_t is N with every arithmetic result reduced mod 2^64 explicitly ([wrap]).
   sizeof(size_t) = 8, little-endian object representation (x86-64; the harness checks it).

   The backend is an abstract heap: a block is named by an identifier, a pointer is a block
   identifier plus a byte offset (Z, so that "ptr - sizeof(size_t)" of a pointer to the start
   of a block is visibly outside the block).  The backend
   - refuses a request when its failure plan says so (one flag per backend malloc call, in call
     order; an exhausted plan means "no injected failure") or when the request exceeds
     [be_cap] (the harness backend refuses requests above its cap, 1 MiB by default, so that
     sizes near SIZE_MAX are never really allocated; harness/alloc.c implements the same rule);
   - fills fresh memory with the byte [be_junk] (harness: 0xA5);
   - does not touch errno;
   - logs every call with the pointer it returned / was given;
   - sets the sticky flag [be_fault] when it is misused: a free of something that is not the
     start of a live block, a load or store outside a live block.  On the C side this is what
     ASan and the harness backend's own checks report. *)
From UP Require Import Base.Bytes.
Local Open Scope N_scope.

Definition SIZE_MAX : N := 2 ^ 64 - 1.
Definition wrap (x : N) : N := x mod 2 ^ 64.
Definition ENOMEM : N := 12.
Definition EINVAL : N := 22.
Definition SIZEOF_SIZE_T : N := 8.

Definition URI_SUCCESS : N := 0.
Definition URI_ERROR_NULL : N := 2.
Definition URI_ERROR_MEMORY_MANAGER_INCOMPLETE : N := 10.

Inductive ptr := Null | Ptr (b : N) (o : Z).

Definition ptr_add (p : ptr) (k : N) : ptr :=
  match p with Null => Null | Ptr b o => Ptr b (o + Z.of_N k) end.
Definition ptr_sub (p : ptr) (k : N) : ptr :=
  match p with Null => Null | Ptr b o => Ptr b (o - Z.of_N k) end.
Definition is_null (p : ptr) : bool := match p with Null => true | _ => false end.

(* ---- the backend ----------------------------------------------------------- *)
Inductive bevent := BMalloc (n : N) (res : ptr) | BFree (p : ptr).

Record backend := mkBe {
  be_next : N;              (* identifier of the next block *)
  be_live : amap;           (* live blocks and their bytes *)
  be_log : list bevent;     (* newest first *)
  be_plan : list bool;      (* failure plan for the coming malloc calls *)
  be_cap : N;               (* largest request served *)
  be_junk : N;              (* contents of fresh memory *)
  be_fault : bool           (* the backend or its memory was misused *)
}.

Definition init (plan : list bool) (cap junk : N) : backend :=
  mkBe 0 [] [] plan cap junk false.

Definition set_live (be : backend) (l : amap) : backend :=
  mkBe (be_next be) l (be_log be) (be_plan be) (be_cap be) (be_junk be) (be_fault be).
Definition set_fault (be : backend) : backend :=
  mkBe (be_next be) (be_live be) (be_log be) (be_plan be) (be_cap be) (be_junk be) true.
Definition add_log (be : backend) (e : bevent) : backend :=
  mkBe (be_next be) (be_live be) (e :: be_log be) (be_plan be) (be_cap be) (be_junk be) (be_fault be).

Definition be_malloc (be : backend) (n : N) : backend * ptr :=
  let refuse := match be_plan be with f :: _ => f | [] => false end in
  let plan' := tl (be_plan be) in
  if refuse || (be_cap be <? n) then
    (mkBe (be_next be) (be_live be) (BMalloc n Null :: be_log be) plan' (be_cap be) (be_junk be) (be_fault be),
     Null)
  else
    let b := be_next be in
    (mkBe (b + 1) ((b, repeat (be_junk be) (N.to_nat n)) :: be_live be)
          (BMalloc n (Ptr b 0) :: be_log be) plan' (be_cap be) (be_junk be) (be_fault be),
     Ptr b 0).

Definition be_free (be : backend) (p : ptr) : backend :=
  let be1 := add_log be (BFree p) in
  match p with
  | Null => be1                      (* free(NULL) is a no-op *)
  | Ptr b o =>
    if (o =? 0)%Z && amem b (be_live be) then set_live be1 (aremove b (be_live be))
    else set_fault be1
  end.

(* is [o, o+n) inside a block of [total] bytes *)
Definition in_block (o : Z) (n : N) (total : nat) : bool :=
  ((0 <=? o) && (o + Z.of_N n <=? Z.of_nat total))%Z.

Definition be_load (be : backend) (p : ptr) (n : N) : backend * list N :=
  match p with
  | Null => (set_fault be, [])
  | Ptr b o =>
    match afind b (be_live be) with
    | None => (set_fault be, [])
    | Some d =>
      if in_block o n (length d) then (be, slice (Z.to_nat o) (N.to_nat n) d)
      else (set_fault be, [])
    end
  end.

Definition be_store (be : backend) (p : ptr) (data : list N) : backend :=
  match p with
  | Null => set_fault be
  | Ptr b o =>
    match afind b (be_live be) with
    | None => set_fault be
    | Some d =>
      if in_block o (len data) (length d)
      then set_live be (aupdate b (splice (Z.to_nat o) data d) (be_live be))
      else set_fault be
    end
  end.

(* ---- UriMemory.c ---------------------------------------------------------------- *)
(* a returned pointer together with the value written to errno, if any *)
Definition ret := (ptr * option N)%type.

(* URI_CHECK_ALLOC_OVERFLOW(total_size, nmemb, size): true = "errno = ENOMEM; return NULL" *)
Definition check_alloc_overflow (total_size nmemb size : N) : bool :=
  negb (nmemb =? 0) && negb (total_size / nmemb =? size).

(* uriDecorateMalloc *)
Definition decorate_malloc (be : backend) (size : N) : backend * ret :=
  let extraBytes := SIZEOF_SIZE_T in
  (* check for unsigned overflow *)
  if SIZE_MAX - extraBytes <? size then (be, (Null, Some ENOMEM))
  else
    let (be1, buffer) := be_malloc be (wrap (extraBytes + size)) in
    if is_null buffer then (be1, (Null, None))
    else
      (* store size as a size_t at buffer:  [*(size_t * )buffer = size;] *)
      let be2 := be_store be1 buffer (le_bytes 8 size) in
      (be2, (ptr_add buffer extraBytes, None)).

(* uriDecorateFree *)
Definition decorate_free (be : backend) (p : ptr) : backend :=
  if is_null p then be
  else be_free be (ptr_sub p SIZEOF_SIZE_T).

(* uriDecorateRealloc *)
Definition decorate_realloc (be : backend) (p : ptr) (size : N) : backend * ret :=
  if is_null p then decorate_malloc be size
  else if size =? 0 then (decorate_free be p, (Null, None))
  else
    (* prevSize = the size_t found sizeof(size_t) bytes in front of ptr *)
    let (be0, hdr) := be_load be (ptr_sub p SIZEOF_SIZE_T) SIZEOF_SIZE_T in
    let prevSize := decode_le hdr in
    if size <=? prevSize then (be0, (p, None))
    else
      let '(be1, (newBuffer, e)) := decorate_malloc be0 size in
      if is_null newBuffer then (be1, (Null, e))
      else
        (* memcpy(newBuffer, ptr, prevSize); *)
        let (be2, data) := be_load be1 p prevSize in
        let be3 := be_store be2 newBuffer data in
        (decorate_free be3 p, (newBuffer, e)).

(* uriEmulateCalloc *)
Definition emulate_calloc (be : backend) (nmemb size : N) : backend * ret :=
  let total_size := wrap (nmemb * size) in
  if check_alloc_overflow total_size nmemb size then (be, (Null, Some ENOMEM))
  else
    let '(be1, (buffer, e)) := decorate_malloc be total_size in
    if is_null buffer then (be1, (Null, e))
    else
      (* memset(buffer, 0, total_size); *)
      (be_store be1 buffer (repeat 0 (N.to_nat total_size)), (buffer, e)).

(* uriEmulateReallocarray *)
Definition emulate_reallocarray (be : backend) (p : ptr) (nmemb size : N) : backend * ret :=
  let total_size := wrap (nmemb * size) in
  if check_alloc_overflow total_size nmemb size then (be, (Null, Some ENOMEM))
  else decorate_realloc be p total_size.

(* uriCompleteMemoryManager: the argument checks (the wiring is the table at the top) *)
Definition complete_memory_manager (memory_null backend_null has_malloc has_free : bool) : N :=
  if memory_null || backend_null then URI_ERROR_NULL
  else if negb has_malloc || negb has_free then URI_ERROR_MEMORY_MANAGER_INCOMPLETE
  else URI_SUCCESS.

(* ---- calls of the completed manager, and the caller's own loads and stores ------------ *)
Inductive op :=
| OMalloc (n : N)
| OCalloc (nmemb size : N)
| ORealloc (p : ptr) (n : N)
| OReallocarray (p : ptr) (nmemb size : N)
| OFree (p : ptr)
| OStore (p : ptr) (off : N) (data : list N)      (* memcpy(p + off, data, |data|) *)
| OLoad (p : ptr) (off n : N).                    (* read p[off .. off+n) *)

Record result := mkRes { r_ptr : ptr; r_errno : option N; r_data : list N }.

(* what can be read from p up to the end of its block (observation only, not part of the C code) *)
Definition block_at (be : backend) (p : ptr) : list N :=
  match p with
  | Null => []
  | Ptr b o => match afind b (be_live be) with Some d => skipn (Z.to_nat o) d | None => [] end
  end.

Definition alloc_result (x : backend * ret) : backend * result :=
  let '(be, (p, e)) := x in (be, mkRes p e (block_at be p)).

Definition step (st : backend) (o : op) : backend * result :=
  match o with
  | OMalloc n => alloc_result (decorate_malloc st n)
  | OCalloc nm sz => alloc_result (emulate_calloc st nm sz)
  | ORealloc p n => alloc_result (decorate_realloc st p n)
  | OReallocarray p nm sz => alloc_result (emulate_reallocarray st p nm sz)
  | OFree p => (decorate_free st p, mkRes Null None [])
  | OStore p off data => (be_store st (ptr_add p off) data, mkRes Null None [])
  | OLoad p off n => let (st1, d) := be_load st (ptr_add p off) n in (st1, mkRes Null None d)
  end.

Fixpoint run (st : backend) (ops : list op) : backend * list result :=
  match ops with
  | [] => (st, [])
  | o :: rest =>
    let (st1, r) := step st o in
    let (st2, rs) := run st1 rest in
    (st2, r :: rs)
  end.

(* the backend's live set reconstructed from its call log alone; None when some call was not
   legitimate: a block handed out while live, a free of anything but the start of a live block *)
Fixpoint log_live (l : list bevent) : option (list N) :=
  match l with
  | [] => Some []
  | e :: older =>
    match log_live older with
    | None => None
    | Some live =>
      match e with
      | BMalloc _ Null => Some live
      | BMalloc _ (Ptr b o) => if (o =? 0)%Z && negb (kmem b live) then Some (b :: live) else None
      | BFree Null => Some live
      | BFree (Ptr b o) => if (o =? 0)%Z && kmem b live then Some (kremove b live) else None
      end
    end
  end.
