(* Model of src/UriQuery.c on values.
   A query list (UriQueryListA/W) is a list of items (key, value) where the value is
   [None] for a NULL pointer.  A C string is represented by its NUL-free content, so
   strlen is [length].  [int] computations are done in Z; where the C code guards a value the
   model performs the same comparison; the int additions and subtractions of the chars-required
   pass are done modulo 2^32 ([int_add], [int_sub]: two's complement [wrap32]), so that the model
   does not presuppose that the guards of that pass are sufficient (Proofs/QueryProofs.v shows
   that no wrap takes effect).  Pointer differences (write - dest) are ptrdiff_t (64 bit) in the
   C code and are not wrapped. *)
From UP Require Import Base.Chars Model.Uri Model.Escape.
From Coq Require Import ZArith.
Local Open Scope Z_scope.

Definition qitem := (text * option text)%type.

Definition INT_MAX : Z := 2147483647.

(* two's complement wrap of a 32-bit int *)
Definition wrap32 (z : Z) : Z := (z + 2147483648) mod 4294967296 - 2147483648.
(* a + b and a - b computed in int *)
Definition int_add (a b : Z) : Z := wrap32 (a + b).
Definition int_sub (a b : Z) : Z := wrap32 (a - b).

(* const int worstCase = (normalizeBreaks == URI_TRUE ? 6 : 3) *)
Definition worst_case (nb : bool) : Z := if nb then 6 else 3.

(* (keyLen >= (size_t)INT_MAX / worstCase) || (valueLen >= (size_t)INT_MAX / worstCase) *)
Definition item_too_large (nb : bool) (kl vl : Z) : bool :=
  (kl >=? INT_MAX / worst_case nb) || (vl >=? INT_MAX / worst_case nb).

(* an item seen through its lengths only: (strlen key, value NULL ? None : Some (strlen value)) *)
Definition qlen := (Z * option Z)%type.
Definition vlen_of (v : option Z) : Z := match v with None => 0 | Some n => n end.
Definition item_len (it : qitem) : qlen :=
  (Z.of_nat (length (fst it)), option_map (fun v => Z.of_nat (length v)) (snd it)).

Inductive zres := ZErr (code : N) | ZOk (v : Z).

(* ---- uriComposeQueryEngine with dest == NULL ---------------------------------
   keyRequiredChars = worstCase * (int)keyLen; valueRequiredChars = worstCase * (int)valueLen;
   (both below INT_MAX after the per-item guard)
   const int valuePartChars = (value == NULL) ? 0 : 1 + valueRequiredChars;
   if ((keyRequiredChars > INT_MAX - ampersandLen - valuePartChars)
       || ( *charsRequired > INT_MAX - ampersandLen - keyRequiredChars - valuePartChars))
     return URI_ERROR_OUTPUT_TOO_LARGE;
   *charsRequired += ampersandLen + keyRequiredChars + valuePartChars;
   The subtractions and additions associate to the left, as in C. *)
Fixpoint required_loop (nb : bool) (first : bool) (acc : Z) (ls : list qlen) : zres :=
  match ls with
  | [] => ZOk acc
  | (kl, v) :: r =>
    let vl := vlen_of v in
    if item_too_large nb kl vl then ZErr URI_ERROR_OUTPUT_TOO_LARGE
    else
      let kr := worst_case nb * kl in
      let vr := worst_case nb * vl in
      let amp := if first then 0 else 1 in
      let vpc := match v with None => 0 | Some _ => int_add 1 vr end in
      if (kr >? int_sub (int_sub INT_MAX amp) vpc)
         || (acc >? int_sub (int_sub (int_sub INT_MAX amp) kr) vpc)
      then ZErr URI_ERROR_OUTPUT_TOO_LARGE
      else required_loop nb false (int_add acc (int_add (int_add amp kr) vpc)) r
  end.

(* uriComposeQueryCharsRequiredEx as a function of the lengths; an empty list is a NULL pointer *)
Definition chars_required_len (nb : bool) (ls : list qlen) : zres :=
  match ls with
  | [] => ZErr URI_ERROR_NULL
  | _ => required_loop nb true 0 ls
  end.

(* uriComposeQueryCharsRequiredEx (spaceToPlus does not influence the figure) *)
Definition chars_required (stp nb : bool) (l : list qitem) : zres :=
  chars_required_len nb (map item_len l).

(* ---- uriComposeQueryEngine with dest != NULL ---------------------------------
   [out] is dest[0 .. write); the log records every store (index, character) in program
   order, including the terminator that each uriEscapeEx call stores behind its output. *)
Definition wlog := list (nat * N).

Definition wr (w : nat) (t : text) : wlog := combine (seq w (length t)) t.

Inductive cres :=
| CErr (code : N) (out : text) (log : wlog)
| COk (out : text) (written : Z) (log : wlog).

Fixpoint compose_loop (stp nb : bool) (maxc : Z) (first : bool) (out : text) (log : wlog)
         (l : list qitem) : cres :=
  match l with
  | [] =>
    (* write[0] = '\0'; *charsWritten = (int)(write - dest) + 1 *)
    COk out (Z.of_nat (length out) + 1) (log ++ wr (length out) [0%N])
  | (k, v) :: r =>
    let kl := Z.of_nat (length k) in
    let vl := match v with None => 0 | Some t => Z.of_nat (length t) end in
    if item_too_large nb kl vl then CErr URI_ERROR_OUTPUT_TOO_LARGE out log
    else
      let kr := worst_case nb * kl in
      let vr := worst_case nb * vl in
      let amp := if first then 0 else 1 in
      if Z.of_nat (length out) + amp + kr >? maxc then CErr URI_ERROR_OUTPUT_TOO_LARGE out log
      else
        let out1 := if first then out else out ++ [38%N] in
        let log1 := if first then log else log ++ wr (length out) [38%N] in
        let ek := escape stp nb k in
        let out2 := out1 ++ ek in
        let log2 := log1 ++ wr (length out1) (ek ++ [0%N]) in
        match v with
        | None => compose_loop stp nb maxc false out2 log2 r
        | Some t =>
          if Z.of_nat (length out2) + 1 + vr >? maxc then CErr URI_ERROR_OUTPUT_TOO_LARGE out2 log2
          else
            let out3 := out2 ++ [61%N] in
            let log3 := log2 ++ wr (length out2) [61%N] in
            let ev := escape stp nb t in
            compose_loop stp nb maxc false (out3 ++ ev) (log3 ++ wr (length out3) (ev ++ [0%N])) r
        end
  end.

(* uriComposeQueryEx; [dest_null] = the dest pointer is NULL *)
Definition compose_ex (dest_null : bool) (stp nb : bool) (max_chars : Z) (l : list qitem) : cres :=
  match l with
  | [] => CErr URI_ERROR_NULL [] []
  | _ =>
    if dest_null then CErr URI_ERROR_NULL [] []
    else if max_chars <? 1 then CErr URI_ERROR_OUTPUT_TOO_LARGE [] []
    else compose_loop stp nb (max_chars - 1) true [] [] l
  end.

(* the destination buffer after the stores of a log, starting from [buf] *)
Fixpoint apply_log (buf : text) (log : wlog) : text :=
  match log with
  | [] => buf
  | (i, c) :: r => apply_log (bset buf i c) r
  end.

(* ---- uriComposeQueryMallocExMm ------------------------------------------------
   [calloc_max] is the largest element count the memory manager's calloc grants; the count
   handed to it is (size_t)charsRequired, i.e. the int converted modulo 2^64. *)
Inductive mres := MErr (code : N) | MOk (out : text).

Definition compose_malloc (calloc_max : Z) (stp nb : bool) (l : list qitem) : mres :=
  match chars_required stp nb l with
  | ZErr c => MErr c
  | ZOk r =>
    if r =? INT_MAX then MErr URI_ERROR_MALLOC
    else
      let r1 := r + 1 in
      if r1 mod 18446744073709551616 >? calloc_max then MErr URI_ERROR_MALLOC
      else match compose_ex false stp nb r1 l with
           | CErr c _ _ => MErr c
           | COk out _ _ => MOk out
           end
  end.

(* ---- uriDissectQueryMallocExMm / uriAppendQueryItem ----------------------------
   State of the scan: [kfn] = keyFirst is NULL; [key] = the characters from keyFirst to the
   walk pointer (or to keyAfter once that is set), [val] = None while valueFirst is NULL,
   otherwise the characters from valueFirst on; both kept in reverse.  [acc] is the list
   built so far, in reverse, [cnt] is *itemCount.  No allocation fails here. *)
Definition cstr (l : text) : text := until_nul l.

(* uriAppendQueryItem: nothing is appended when keyFirst is NULL or when the key range is
   empty and there is no value; key and value are unescaped copies read as C strings *)
Definition append_item (pts : bool) (bc : break_conv) (kfn : bool) (key_rev : text)
           (val_rev : option text) (acc : list qitem) (cnt : Z) : list qitem * Z :=
  if kfn then (acc, cnt)
  else match key_rev, val_rev with
       | [], None => (acc, cnt)
       | _, _ =>
         let k := cstr (unescape pts bc (rev key_rev)) in
         let v := option_map (fun vr => cstr (unescape pts bc (rev vr))) val_rev in
         ((k, v) :: acc, cnt + 1)
       end.

Fixpoint dissect_walk (pts : bool) (bc : break_conv) (l : text) (kfn : bool) (key_rev : text)
         (val_rev : option text) (acc : list qitem) (cnt : Z) : list qitem * Z :=
  match l with
  | [] =>
    let '(acc', cnt') := append_item pts bc kfn key_rev val_rev acc cnt in (rev acc', cnt')
  | c :: r =>
    if (c =? 38)%N then
      let '(acc', cnt') := append_item pts bc kfn key_rev val_rev acc cnt in
      (* keyFirst = (walk + 1 < afterLast) ? walk + 1 : NULL *)
      dissect_walk pts bc r (match r with [] => true | _ => false end) [] None acc' cnt'
    else if (c =? 61)%N then
      match val_rev with
      | None => dissect_walk pts bc r kfn key_rev (Some []) acc cnt     (* first '=': keyAfter == NULL *)
      | Some vr => dissect_walk pts bc r kfn key_rev (Some (c :: vr)) acc cnt
      end
    else
      match val_rev with
      | None => dissect_walk pts bc r kfn (c :: key_rev) None acc cnt
      | Some vr => dissect_walk pts bc r kfn key_rev (Some (c :: vr)) acc cnt
      end
  end.

Inductive dres := DErr (code : N) | DOk (items : list qitem) (count : Z).

(* uriDissectQueryMallocEx on the range [first, afterLast) = [l] (both pointers non-NULL) *)
Definition dissect (pts : bool) (bc : break_conv) (l : text) : dres :=
  let '(items, cnt) := dissect_walk pts bc l false [] None [] 0 in DOk items cnt.
