(* Model of src/UriNormalize.c (pure tier): uriNormalizeSyntaxExMm, uriNormalizeSyntaxMaskRequired,
   uriMakeOwnerMm. *)
From Coq Require Import ZArith.
From UP Require Import Base.Chars Model.Uri Model.Common.
Local Open Scope N_scope.

(* uriIsUnreserved (UriNormalizeBase.c) *)
Definition is_unreserved_code (c : N) : bool := is_unreserved c.

(* uriLowercaseInplace / uriLowercaseMalloc *)
Definition lowercase (t : text) : text := map (fun c => if in_range 65 90 c then c + 32 else c) t.

(* uriLowercaseInplaceExceptPercentEncoding: the two characters after a '%' are left alone;
   a '%' with fewer than two characters after it ends the walk *)
Fixpoint lowercase_except_pct (t : text) : text :=
  match t with
  | [] => []
  | c :: r =>
    if in_range 65 90 c then (c + 32) :: lowercase_except_pct r
    else if c =? 37 then
      match r with
      | a :: b :: r2 => c :: a :: b :: lowercase_except_pct r2
      | _ => t
      end
    else c :: lowercase_except_pct r
  end.

(* uriContainsUppercaseLetters *)
Definition contains_upper (t : text) : bool := existsb (fun c => in_range 65 90 c) t.

(* uriFixPercentEncodingEngine *)
Fixpoint fix_pct (t : text) : text :=
  match t with
  | [] => []
  | c :: r =>
    match r with
    | a :: b :: r2 =>
      if c =? 37 then
        let left := hexdig_to_int a in let right := hexdig_to_int b in
        let code := 16 * left + right in
        if is_unreserved_code code then code :: fix_pct r2
        else 37 :: hex_to_letter left :: hex_to_letter right :: fix_pct r2
      else c :: fix_pct r
    | _ => t              (* fewer than three characters left: copied *)
    end
  end.

(* uriContainsUglyPercentEncoding *)
Fixpoint contains_ugly (t : text) : bool :=
  match t with
  | [] => false
  | c :: r =>
    match r with
    | a :: b :: _ =>
      ((c =? 37)
       && (in_range 97 102 a || in_range 97 102 b
           || is_unreserved_code (16 * hexdig_to_int a + hexdig_to_int b)))
      || contains_ugly r
    | _ => false
    end
  end.
Definition ugly (o : option text) : bool := match o with Some t => contains_ugly t | None => false end.

Definition bit (mask : N) (i : N) : bool := N.testbit mask i.
Definition M_SCHEME := 0. Definition M_USER_INFO := 1. Definition M_HOST := 2.
Definition M_PATH := 3. Definition M_QUERY := 4. Definition M_FRAGMENT := 5.

(* uriNormalizeSyntaxMaskRequiredEx *)
Definition mask_required (u : uri) : N :=
  (if match scheme u with Some t => contains_upper t | None => false end then 1 else 0)
  + (if ugly (userInfo u) then 2 else 0)
  + (if match hostText u with Some t => contains_upper t || contains_ugly t | None => false end then 4 else 0)
  + (if existsb (fun s => seg_dot s || seg_dotdot s || contains_ugly s) (pathSegs u) then 8 else 0)
  + (if ugly (query u) then 16 else 0)
  + (if ugly (fragment u) then 32 else 0).

Definition omap (f : text -> text) (o : option text) : option text :=
  match o with Some t => Some (f t) | None => None end.

(* uriNormalizeSyntaxEngine with outMask = NULL *)
Definition normalize (mask : N) (u : uri) : uri :=
  if mask =? 0 then u             (* inMask == URI_NORMALIZED: nothing happens, not even make-owner *)
  else
    let u := if bit mask M_SCHEME then set_scheme (omap lowercase (scheme u)) u else u in
    let u :=
      if bit mask M_HOST then
        match ipFuture u with
        | Some t => let t' := lowercase t in set_hostText (Some t') (set_ipFuture (Some t') u)
        | None =>
          match hostText u, ip4 u, ip6 u with
          | Some t, None, None => set_hostText (Some (lowercase_except_pct (fix_pct t))) u
          | _, _, _ => u
          end
        end
      else u in
    let u := if bit mask M_USER_INFO then set_userInfo (omap fix_pct (userInfo u)) u else u in
    let u :=
      if bit mask M_PATH then
        let relative := negb (is_some (scheme u)) && negb (absolutePath u) && negb (is_host_set u) in
        let u := set_pathSegs (map fix_pct (pathSegs u)) u in
        (* uriFixAmbiguity: a host-less path that would begin with "//" gets a "." segment in front *)
        fix_empty_trail_segment (fix_ambiguity (remove_dot_segments relative u))
      else u in
    let u := if bit mask M_QUERY then set_query (omap fix_pct (query u)) u else u in
    let u := if bit mask M_FRAGMENT then set_fragment (omap fix_pct (fragment u)) u else u in
    set_owner true u.

(* uriMakeOwnerMm *)
Definition make_owner (u : uri) : uri := set_owner true u.
