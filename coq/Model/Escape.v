(* Model of src/UriEscape.c: uriEscapeEx and uriUnescapeInPlaceEx.
   Pure versions over texts, and a cursor-level in-place version of unescape
   that performs the reads and writes of the C loop on a buffer. *)
From UP Require Import Base.Chars.
Local Open Scope N_scope.

(* ---- uriEscapeEx ----------------------------------------------------- *)
(* The loop of uriEscapeEx: [l] is the input range; processing stops at a
   NUL character as the C switch does.  [prev_cr] is prevWasCr.
   The result is what is written before the terminator. *)
Fixpoint escape_loop (space_to_plus normalize_breaks : bool) (prev_cr : bool) (l : text) : text :=
  match l with
  | [] => []
  | c :: r =>
    if c =? 0 then []
    else if c =? 32 then
      (if space_to_plus then [43] else [37; 50; 48]) ++ escape_loop space_to_plus normalize_breaks false r
    else if is_unreserved c then
      c :: escape_loop space_to_plus normalize_breaks false r
    else if c =? 10 then
      (if normalize_breaks
       then (if prev_cr then [] else [37; 48; 68; 37; 48; 65])
       else [37; 48; 65]) ++ escape_loop space_to_plus normalize_breaks false r
    else if c =? 13 then
      (if normalize_breaks then [37; 48; 68; 37; 48; 65] else [37; 48; 68])
        ++ escape_loop space_to_plus normalize_breaks true r
    else
      (* (unsigned char)read[0] *)
      let code := c mod 256 in
      [37; hex_to_letter (code / 16); hex_to_letter (code mod 16)]
        ++ escape_loop space_to_plus normalize_breaks false r
  end.

Definition escape (space_to_plus normalize_breaks : bool) (l : text) : text :=
  escape_loop space_to_plus normalize_breaks false l.

(* ---- uriUnescapeInPlaceEx ------------------------------------------ *)
Inductive break_conv := BrToLf | BrToCrlf | BrToCr | BrDontTouch.

(* what is written for a decoded %0A / %0D *)
Definition out_lf (bc : break_conv) (prev_cr : bool) : text :=
  match bc with
  | BrToLf => if prev_cr then [] else [10]
  | BrToCrlf => if prev_cr then [] else [13; 10]
  | BrToCr => if prev_cr then [] else [13]
  | BrDontTouch => [10]
  end.
Definition out_cr (bc : break_conv) : text :=
  match bc with
  | BrToLf => [10]
  | BrToCrlf => [13; 10]
  | BrToCr => [13]
  | BrDontTouch => [13]
  end.

(* (URI_CHAR)(code): a decoded byte 0..255 stored into a character *)
Definition unescape_loop (plus_to_space : bool) (bc : break_conv) :=
  fix go (prev_cr : bool) (l : text) {struct l} : text :=
  match l with
  | [] => []
  | c :: r =>
    if c =? 0 then []
    else if c =? 37 then
      match r with
      | a :: r1 =>
        if is_hexdig a then
          match r1 with
          | b :: r2 =>
            if is_hexdig b then
              let code := 16 * hexdig_to_int a + hexdig_to_int b in
              if code =? 10 then out_lf bc prev_cr ++ go false r2
              else if code =? 13 then out_cr bc ++ go true r2
              else code :: go false r2
            else (* copy two chars, look at read[2] again *)
              c :: a :: go false r1
          | [] => c :: a :: go false r1
          end
        else (* copy one char, look at read[1] again *)
          c :: go false r
      | [] => c :: go false r
      end
    else if c =? 43 then
      (if plus_to_space then 32 else c) :: go false r
    else c :: go false r
  end.

Definition unescape (plus_to_space : bool) (bc : break_conv) (l : text) : text :=
  unescape_loop plus_to_space bc false l.

(* ---- cursor-level version --------------------------------------------
   The buffer is a list of characters that contains a NUL; [rd] and [wr] are
   the read and write cursors.  Every read and write of the C loop is
   performed on the buffer; a write log records the indices written. *)
Definition bget (buf : text) (i : nat) : N := nth i buf 0.
Fixpoint bset (buf : text) (i : nat) (v : N) : text :=
  match buf, i with
  | [], _ => []            (* write outside the buffer: dropped, but logged *)
  | _ :: r, O => v :: r
  | x :: r, S k => x :: bset r k v
  end.

Record ustate := { u_buf : text; u_rd : nat; u_wr : nat; u_cr : bool; u_log : list nat }.

(* write a list of characters at the write cursor *)
Fixpoint bwrite (buf : text) (log : list nat) (wr : nat) (l : text) : text * list nat * nat :=
  match l with
  | [] => (buf, log, wr)
  | v :: r => bwrite (bset buf wr v) (wr :: log) (S wr) r
  end.

(* copy n characters from rd to wr only if rd > wr, as the C code does *)
Fixpoint bcopy (buf : text) (log : list nat) (rd wr : nat) (n : nat) : text * list nat :=
  match n with
  | O => (buf, log)
  | S k => if Nat.ltb wr rd
           then bcopy (bset buf wr (bget buf rd)) (wr :: log) (S rd) (S wr) k
           else bcopy buf log (S rd) (S wr) k
  end.

Inductive ustep_result := UDone (buf : text) (ret : nat) (log : list nat) | UCont (s : ustate).

Definition ustep (plus_to_space : bool) (bc : break_conv) (s : ustate) : ustep_result :=
  let buf := u_buf s in let rd := u_rd s in let wr := u_wr s in
  let c := bget buf rd in
  if c =? 0 then
    if Nat.ltb wr rd then UDone (bset buf wr 0) wr (wr :: u_log s) else UDone buf wr (u_log s)
  else if c =? 37 then
    let a := bget buf (rd + 1) in
    if is_hexdig a then
      let b := bget buf (rd + 2) in
      if is_hexdig b then
        let code := 16 * hexdig_to_int a + hexdig_to_int b in
        let out := if code =? 10 then out_lf bc (u_cr s)
                   else if code =? 13 then out_cr bc else [code] in
        let '(buf', log', wr') := bwrite buf (u_log s) wr out in
        UCont {| u_buf := buf'; u_rd := rd + 3; u_wr := wr'; u_cr := (code =? 13); u_log := log' |}
      else
        let '(buf', log') := bcopy buf (u_log s) rd wr 2 in
        UCont {| u_buf := buf'; u_rd := rd + 2; u_wr := wr + 2; u_cr := false; u_log := log' |}
    else
      let '(buf', log') := bcopy buf (u_log s) rd wr 1 in
      UCont {| u_buf := buf'; u_rd := rd + 1; u_wr := wr + 1; u_cr := false; u_log := log' |}
  else if (c =? 43) && plus_to_space then
    let '(buf', log', wr') := bwrite buf (u_log s) wr [32] in
    UCont {| u_buf := buf'; u_rd := rd + 1; u_wr := wr'; u_cr := false; u_log := log' |}
  else
    let '(buf', log') := bcopy buf (u_log s) rd wr 1 in
    UCont {| u_buf := buf'; u_rd := rd + 1; u_wr := wr + 1; u_cr := false; u_log := log' |}.

Fixpoint urun (plus_to_space : bool) (bc : break_conv) (fuel : nat) (s : ustate)
  : option (text * nat * list nat) :=
  match fuel with
  | O => None
  | S k => match ustep plus_to_space bc s with
           | UDone buf ret log => Some (buf, ret, log)
           | UCont s' => urun plus_to_space bc k s'
           end
  end.

(* run on a buffer; fuel = length of the buffer + 1 is always enough when the buffer contains a NUL *)
Definition unescape_inplace (plus_to_space : bool) (bc : break_conv) (buf : text)
  : option (text * nat * list nat) :=
  urun plus_to_space bc (S (length buf))
       {| u_buf := buf; u_rd := 0; u_wr := 0; u_cr := false; u_log := [] |}.
