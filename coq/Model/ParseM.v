(* Memory tier of the parser: the same control automaton and the same data actions as
   Model/Parse.v, with the allocations the C code makes for them, the failure exits
   (uriStopMalloc / uriStopSyntax free everything built so far) and the final clean-up of
   uriParseSingleUriExMm. *)
From Coq Require Import List NArith Bool.
From UP Require Import Base.Chars Base.Atoms Model.Uri Model.Ip4 Model.Parse Model.Mem.
Import ListNotations.
Local Open Scope N_scope.

(* blocks held by the URI under construction *)
Record pblocks := { pb_nodes : list nat; pb_ip4 : option nat; pb_ip6 : option nat }.
Definition pb_init : pblocks := {| pb_nodes := []; pb_ip4 := None; pb_ip6 := None |}.

(* uriFreeUriMembersMm on the URI under construction (owner = false): ip4, ip6, then the nodes *)
Definition free_partial (b : pblocks) (s : mstate) : mstate :=
  let s := free_opt (pb_ip4 b) s in
  let s := free_opt (pb_ip6 b) s in
  fold_left (fun st n => free_blk n st) (pb_nodes b) s.

(* one data action with its allocation; None = the allocation failed (uriStopMalloc follows) *)
Definition exec_m (ch : N) (d : pdata) (b : pblocks) (a : action) (s : mstate) : option (pdata * pblocks) * mstate :=
  match a with
  | APushSeg | APushSaved =>
    match alloc true SEG_SIZE s with
    | (Some id, s') => (Some (exec ch d a, {| pb_nodes := pb_nodes b ++ [id]; pb_ip4 := pb_ip4 b; pb_ip6 := pb_ip6 b |}), s')
    | (None, s') => (None, s')
    end
  | AHostReg | AHostPort =>
    match alloc false IP4_SIZE s with
    | (Some id, s') =>
      let d' := exec ch d a in
      match ip4 (p_uri d') with
      | Some _ => (Some (d', {| pb_nodes := pb_nodes b; pb_ip4 := Some id; pb_ip6 := pb_ip6 b |}), s')
      | None => (Some (d', b), free_blk id s')                  (* Not IPv4: freed at once *)
      end
    | (None, s') => (None, s')
    end
  | AAllocIp6 =>
    match alloc false IP6_SIZE s with
    | (Some id, s') => (Some (exec ch d a, {| pb_nodes := pb_nodes b; pb_ip4 := pb_ip4 b; pb_ip6 := Some id |}), s')
    | (None, s') => (None, s')
    end
  | AFixEmptyTrail =>
    let d' := exec ch d a in
    (* uriFixEmptyTrailSegment frees the node of the lone empty segment it removes *)
    match pathSegs (p_uri d), pathSegs (p_uri d'), pb_nodes b with
    | _ :: _, [], n :: _ => (Some (d', {| pb_nodes := []; pb_ip4 := pb_ip4 b; pb_ip6 := pb_ip6 b |}), free_blk n s)
    | _, _, _ => (Some (d', b), s)
    end
  | _ => (Some (exec ch d a, b), s)
  end.

Fixpoint exec_all_m (ch : N) (d : pdata) (b : pblocks) (acts : list action) (s : mstate)
  : option (pdata * pblocks) * pblocks * mstate :=      (* on failure the blocks held so far are returned *)
  match acts with
  | [] => (Some (d, b), b, s)
  | a :: r =>
    match exec_m ch d b a s with
    | (Some (d', b'), s') => exec_all_m ch d' b' r s'
    | (None, s') => (None, b, s')
    end
  end.

Inductive mresult :=
| MOk (u : muri)
| MSyntax (pos : nat)
| MMalloc.

Fixpoint zip_segs (texts : list text) (nodes : list nat) : list mseg :=
  match texts, nodes with
  | t :: ts, n :: ns => {| sg_text := t; sg_blk := None; sg_node := n |} :: zip_segs ts ns
  | _, _ => []
  end.

Definition muri_of (u : uri) (b : pblocks) : muri :=
  let bt := fun o => {| t_val := o; t_blk := None |} in
  {| m_scheme := bt (scheme u); m_userInfo := bt (userInfo u); m_hostText := bt (hostText u);
     m_ip4 := match ip4 u, pb_ip4 b with Some v, Some id => Some (v, id) | _, _ => None end;
     m_ip6 := match ip6 u, pb_ip6 b with Some v, Some id => Some (v, id) | _, _ => None end;
     m_ipFuture := bt (ipFuture u); m_portText := bt (portText u);
     m_segs := zip_segs (pathSegs u) (pb_nodes b);
     m_query := bt (query u); m_fragment := bt (fragment u); m_abs := absolutePath u; m_owner := false |}.

Fixpoint prun_m (c : ctrl) (d : pdata) (b : pblocks) (i : nat) (t : text) (s : mstate) : mresult * mstate :=
  match t with
  | [] =>
    match pfinish c with
    | (acts, Acc) =>
      match exec_all_m 0 d b acts s with
      | (Some (d', b'), _, s') => (MOk (muri_of (p_uri d') b'), s')
      | (None, bh, s') => (MMalloc, free_partial bh s')
      end
    | (_, StopEnd) => (MSyntax i, free_partial b s)
    end
  | ch :: r =>
    match ptrans c (atom_of ch) with
    | (acts, nx) =>
      match exec_all_m ch d b acts s with
      | (Some (d', b'), _, s') =>
        match nx with
        | Go c' => prun_m c' d' b' (S i) r s'
        | Stop off => (MSyntax (i - off), free_partial b' s')
        end
      | (None, bh, s') => (MMalloc, free_partial bh s')
      end
    end
  end.

(* uriParseSingleUriExMm *)
Definition parse_m (t : text) (s : mstate) : mresult * mstate := prun_m CStart pdata_init pb_init 0 t s.
