(* Model of src/UriResolve.c: uriAddBaseUriExMm (no allocation failure: pure tier). *)
From Coq Require Import ZArith.
From UP Require Import Base.Chars Model.Uri Model.Common.
Local Open Scope N_scope.

(* uriCopyAuthority *)
Definition copy_authority (dest src : uri) : uri :=
  set_portText (portText src)
    (set_ipFuture (match ip4 src, ip6 src with None, None => ipFuture src | _, _ => None end)
      (set_ip6 (match ip4 src with Some _ => None | None => ip6 src end)
        (set_ip4 (ip4 src)
          (set_hostText (hostText src)
            (set_userInfo (userInfo src) dest))))).

(* uriCopyPath: the list and the absolutePath flag *)
Definition copy_path (dest src : uri) : uri :=
  set_absolutePath (absolutePath src) (set_pathSegs (pathSegs src) dest).

(* uriMergePath: the last segment of the work URI is replaced by the first of the reference,
   the others are appended *)
Definition merge_path (work rel : uri) : uri :=
  match pathSegs rel with
  | [] => work
  | _ => set_pathSegs (removelast (pathSegs work) ++ pathSegs rel) work
  end.

(* uriResolveAbsolutePathFlag *)
Definition resolve_abs_flag (u : uri) : uri :=
  if is_host_set u && absolutePath u then
    set_absolutePath false (match pathSegs u with [] => set_pathSegs [[]] u | _ => u end)
  else u.

(* options bit URI_RESOLVE_IDENTICAL_SCHEME_COMPAT *)
Definition add_base_impl (compat : bool) (rel base : uri) : N * uri :=
  let d := empty_uri in
  match scheme base with
  | None => (URI_ERROR_ADDBASE_REL_BASE, d)
  | Some _ =>
    let rel_has_scheme :=
      is_some (scheme rel)
      && negb (compat && is_some (scheme rel) && range_eqb (scheme base) (scheme rel)) in
    let d :=
      if rel_has_scheme then
        let d := set_scheme (scheme rel) d in
        let d := copy_authority d rel in
        let d := copy_path d rel in
        let d := remove_dot_segments_absolute d in
        let d := fix_ambiguity d in
        set_query (query rel) d
      else
        let d :=
          if is_host_set rel then
            let d := copy_authority d rel in
            let d := copy_path d rel in
            let d := remove_dot_segments_absolute d in
            set_query (query rel) d
          else
            let d := copy_authority d base in
            let d :=
              match pathSegs rel, absolutePath rel with
              | [], false =>
                let d := copy_path d base in
                set_query (match query rel with Some q => Some q | None => query base end) d
              | _, _ =>
                let d :=
                  if absolutePath rel then
                    let d := copy_path d rel in
                    let d := resolve_abs_flag d in
                    let d := remove_dot_segments_absolute d in
                    fix_ambiguity d
                  else
                    let d := copy_path d base in
                    let d := merge_path d rel in
                    let d := remove_dot_segments_absolute d in
                    fix_ambiguity d in
                set_query (query rel) d
              end in
            d in
        set_scheme (scheme base) d in
    let d := fix_empty_trail_segment d in
    (URI_SUCCESS, set_fragment (fragment rel) d)
  end.

(* uriAddBaseUriExMm: on error the destination's members are freed (it is left reset) *)
Definition add_base (compat : bool) (rel base : uri) : N * uri := add_base_impl compat rel base.
