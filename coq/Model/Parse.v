(* Model of src/UriParse.c.

   The recursive-descent parser is rendered as an explicit control automaton:
   every rule function returns to a statically known continuation, so the call
   stack is folded into the control state.  A transition consumes one character
   and yields a list of data actions (the statements of the C branch taken) and
   the next control state, or stops with a syntax error at a position relative
   to the current character.  Rules that return without consuming are composed
   statically.  The three look-ahead sites (first[1]/first[2] in
   uriParsePctEncoded, first[1] in uriParseIpFuture, first[1]/first[2] at a ':'
   inside the IPv6 scanner) become one-character-delayed states (CPct1/CPct2,
   CFutV, CV6Colon/CV6CC).

   Control never depends on data; data is the URI under construction with the
   text of the component currently being read accumulated in [p_pend]. *)
From UP Require Import Base.Chars Base.Atoms Model.Uri Model.Ip4.
Local Open Scope N_scope.

(* ---------------------------------------------------------------- control *)
Inductive segk := KAuth | KPlain | KDefer.
(* KAuth : segment list after an authority (uriParsePathAbsEmpty, then uriFixEmptyTrailSegment)
   KPlain: uriParseZeroMoreSlashSegs
   KDefer: the segment right after the first one in uriParseSegmentNzNcOrScheme2's '/' case:
           the first segment is pushed only after this one has been scanned *)
Inductive qfk := QQuery | QFrag.

(* abstract state of the decimal-octet digits seen so far inside an IPv6 literal *)
Inductive oct :=
| O0
| O1z | O1one | O1two | O1big
| O2z | O2one | O2lo | O25 | O2hi | O2big
| O3z | O3ok | O3ov1 | O3ov2 | O3ov3
| O4.

Definition oct_count (o : oct) : nat :=
  match o with
  | O0 => 0
  | O1z | O1one | O1two | O1big => 1
  | O2z | O2one | O2lo | O25 | O2hi | O2big => 2
  | O3z | O3ok | O3ov1 | O3ov2 | O3ov3 => 3
  | O4 => 4
  end%nat.

(* digitHistory[digitCount++] = digit, on the abstraction; hex letters count as "large" *)
Definition oct_push (o : oct) (a : atom) : oct :=
  match o with
  | O0 => match a with A_d0 => O1z | A_d1 => O1one | A_d2 => O1two | _ => O1big end
  | O1z => O2z
  | O1one => O2one
  | O1two => match a with A_d0 | A_d1 | A_d2 | A_d34 => O2lo | A_d5 => O25 | _ => O2hi end
  | O1big => O2big
  | O2z => O3z
  | O2one | O2lo => O3ok
  | O25 => match a with A_d0 | A_d1 | A_d2 | A_d34 | A_d5 => O3ok | _ => O3ov1 end
  | O2hi => O3ov2
  | O2big => O3ov3
  | _ => O4
  end.

(* (digitCount > 1) && (digitHistory[0] == 0) *)
Definition oct_lz (o : oct) : bool := match o with O2z | O3z => true | _ => false end.
(* digitCount == 3 && value > 255: how far before the current character the error is reported *)
Definition oct_over (o : oct) : option nat :=
  match o with O3ov3 => Some 3%nat | O3ov2 => Some 2%nat | O3ov1 => Some 1%nat | _ => None end.

(* where uriParsePctEncoded returns to *)
Inductive pret := RMustBeSeg | RSeg (k : segk) | RUH | RUser | RHost2 | RQF (k : qfk).

Inductive ctrl :=
| CStart                      (* uriParseUriReference *)
| CSchemeOrSeg                (* uriParseSegmentNzNcOrScheme2 *)
| CMustBeSeg                  (* uriParseMustBeSegmentNzNc *)
| CHier                       (* uriParseHierPart, after "scheme:" *)
| CPart2                      (* uriParsePartHelperTwo, after a leading "/" *)
| CAuth                       (* uriParseAuthority, after "//" *)
| CUH                         (* uriParseOwnHostUserInfo *)
| CPortOrUser                 (* uriParseOwnPortUserInfo *)
| CUser                       (* uriParseOwnUserInfo *)
| COwnHost                    (* uriParseOwnHost, after "@" *)
| CHost2                      (* uriParseOwnHost2 *)
| CAuth2                      (* uriParseAuthorityTwo *)
| CPort                       (* uriParsePort *)
| CIpLit                      (* uriParseIpLit2, after "[" *)
| CFutV                       (* uriParseIpFuture, "v" consumed, first[1] pending *)
| CFutHex                     (* uriParseHexZero, then "." *)
| CFutLoop1                   (* uriParseIpFutLoop *)
| CFutLoop                    (* uriParseIpFutStopGo *)
| CV6 (z : bool) (q : nat) (l : bool) (o : oct) (i4 : nat)
                              (* uriParseIPv6address2: zipperEver, quadsDone, letterAmong,
                                 digit abstraction (digitCount inside), ip4OctetsDone *)
| CV6Colon (z : bool) (q : nat)   (* a ':' was consumed, first[1] pending *)
| CV6CC (q : nat)                 (* "::" was consumed, first[1] pending *)
| CPathStart                  (* uriParsePathAbsEmpty right after the authority *)
| CSeg (k : segk)             (* uriParseSegment inside a segment list *)
| CTail                       (* uriParseUriTail *)
| CTail2                      (* uriParseUriTailTwo *)
| CQF (k : qfk)               (* uriParseQueryFrag *)
| CPct1 (r : pret)            (* "%" consumed *)
| CPct2 (r : pret).           (* "%" HEXDIG consumed *)

Definition ctrl_of_pret (r : pret) : ctrl :=
  match r with
  | RMustBeSeg => CMustBeSeg | RSeg k => CSeg k | RUH => CUH | RUser => CUser
  | RHost2 => CHost2 | RQF k => CQF k
  end.

(* ---------------------------------------------------------------- data actions *)
Inductive action :=
| AApp                 (* the character belongs to the component being read *)
| AApp2                (* ... to the would-be port after "host:" *)
| AMerge               (* "Not a host, reset / Not a port, reset": host ":" port is user info after all *)
| ASetScheme           (* SCHEME END *)
| APushSeg             (* uriPushPathSegment(pending) -- calloc *)
| ASave                (* keep the first segment for a later push *)
| APushSaved           (* uriPushPathSegment(saved first segment) -- calloc *)
| ASetAbs              (* uriOnExitPartHelperTwo: absolutePath = TRUE *)
| ASetUserInfo         (* USERINFO END (pending) *)
| ASetUserInfoMerged   (* USERINFO END (pending ":" pending2) *)
| AHostEmptySafe       (* "" regname host: hostText = {SafeToPointTo, SafeToPointTo} *)
| AHostReg             (* uriOnExitOwnHost2 / uriOnExitOwnHostUserInfo: HOST END, malloc ip4, uriParseIpFourAddress *)
| AHostEmptyAtEnd      (* uriParseOwnHost at end of input: hostText.afterLast = afterLast, no ip4 attempt *)
| AHostPort            (* uriOnExitOwnPortUserInfo: host = pending, port = pending2, ip4 attempt *)
| ASetPort             (* PORT BEGIN / PORT END in uriParseAuthorityTwo *)
| AAllocIp6            (* malloc(sizeof(UriIp6)) *)
| AHostIp6             (* HOST END of an IPv6 literal; the 16 bytes *)
| AHostFuture          (* HOST END / IPFUTURE END *)
| ASetQuery
| ASetFragment
| AFixEmptyTrail.      (* uriFixEmptyTrailSegment *)

Inductive next := Go (c : ctrl) | Stop (off : nat).   (* Stop off: URI_ERROR_SYNTAX at (current - off) *)
Inductive fin := Acc | StopEnd.                       (* at the end of the range: success / syntax error at afterLast *)

Definition tr := (list action * next)%type.
Definition pre (acts : list action) (t : tr) : tr := (acts ++ fst t, snd t).

(* ---- character classes of the switch statements, on atoms ---------------------- *)
(* unreserved / sub-delims without '%' *)
Definition a_sub_unres (a : atom) : bool := a_unreserved a || a_subdelim a.
(* pchar without '%': unreserved / sub-delims / ':' / '@' *)
Definition a_pchar_np (a : atom) : bool :=
  a_sub_unres a || match a with A_colon | A_at => true | _ => false end.

(* ---- uriParseUriTail / uriParseUriTailTwo / uriParseQueryFrag ------------------- *)
Definition t_tail (a : atom) : tr :=
  match a with
  | A_hash => ([], Go (CQF QFrag))
  | A_qm => ([], Go (CQF QQuery))
  | _ => ([], Stop 0)          (* afterUriReference != afterLast *)
  end.

Definition t_tail2 (a : atom) : tr :=
  match a with
  | A_hash => ([], Go (CQF QFrag))
  | _ => ([], Stop 0)
  end.

Definition t_qf (k : qfk) (a : atom) : tr :=
  if a_pchar_np a then ([AApp], Go (CQF k))
  else match a with
  | A_pct => ([AApp], Go (CPct1 (RQF k)))
  | A_slash | A_qm => ([AApp], Go (CQF k))
  | _ => match k with
         | QQuery => pre [ASetQuery] (t_tail2 a)
         | QFrag => ([ASetFragment], Stop 0)
         end
  end.

(* ---- segment lists ------------------------------------------------------------- *)
(* statements executed when a segment ends *)
Definition seg_end (k : segk) : list action :=
  match k with KDefer => [APushSaved; APushSeg] | _ => [APushSeg] end.
(* the list rule returns: after an authority uriFixEmptyTrailSegment runs, then uriParseUriTail *)
Definition path_exit (k : segk) : list action :=
  match k with KAuth => [AFixEmptyTrail] | _ => [] end.
Definition seg_next (k : segk) : segk := match k with KAuth => KAuth | _ => KPlain end.

Definition t_seg (k : segk) (a : atom) : tr :=
  if a_pchar_np a then ([AApp], Go (CSeg k))
  else match a with
  | A_pct => ([AApp], Go (CPct1 (RSeg k)))
  | A_slash => (seg_end k, Go (CSeg (seg_next k)))
  | _ => pre (seg_end k ++ path_exit k) (t_tail a)
  end.

(* uriParsePathAbsEmpty right after the authority *)
Definition t_pathstart (a : atom) : tr :=
  match a with
  | A_slash => ([], Go (CSeg KAuth))
  | _ => pre [AFixEmptyTrail] (t_tail a)
  end.

(* ---- authority ------------------------------------------------------------------ *)
Definition t_port (a : atom) : tr :=
  if a_digit a then ([AApp], Go CPort) else pre [ASetPort] (t_pathstart a).

Definition t_auth2 (a : atom) : tr :=
  match a with
  | A_colon => ([], Go CPort)
  | _ => t_pathstart a
  end.

Definition t_host2 (a : atom) : tr :=
  if a_sub_unres a then ([AApp], Go CHost2)
  else match a with
  | A_pct => ([AApp], Go (CPct1 RHost2))
  | _ => pre [AHostReg] (t_auth2 a)
  end.

Definition t_ownhost (a : atom) : tr :=
  match a with
  | A_lb => ([], Go CIpLit)
  | _ => t_host2 a
  end.

Definition t_user (a : atom) : tr :=
  if a_sub_unres a then ([AApp], Go CUser)
  else match a with
  | A_pct => ([AApp], Go (CPct1 RUser))
  | A_colon => ([AApp], Go CUser)
  | A_at => ([ASetUserInfo], Go COwnHost)
  | _ => ([], Stop 0)
  end.

Definition t_portuser (a : atom) : tr :=
  if a_digit a then ([AApp2], Go CPortOrUser)
  else if a_sub_unres a then ([AMerge; AApp], Go CUser)      (* sub-delims, - . _ ~, ALPHA *)
  else match a with
  | A_colon => ([AMerge; AApp], Go CUser)
  | A_pct => ([AMerge; AApp], Go (CPct1 RUser))
  | A_at => ([ASetUserInfoMerged], Go COwnHost)
  | _ => pre [AHostPort] (t_pathstart a)
  end.

(* uriParseOwnHostUserInfoNz on a character *)
Definition t_uhnz (a : atom) : tr :=
  if a_sub_unres a then ([AApp], Go CUH)
  else match a with
  | A_pct => ([AApp], Go (CPct1 RUH))
  | A_colon => ([], Go CPortOrUser)
  | A_at => ([ASetUserInfo], Go COwnHost)
  | _ => ([], Stop 0)
  end.

(* characters on which uriParseOwnHostUserInfo / uriParseAuthority enter uriParseOwnHostUserInfoNz *)
Definition a_uh_start (a : atom) : bool :=
  a_sub_unres a || match a with A_pct | A_colon | A_at => true | _ => false end.

Definition t_uh (a : atom) : tr :=
  if a_uh_start a then t_uhnz a
  else pre [AHostReg] (t_pathstart a).

Definition t_auth (a : atom) : tr :=
  match a with
  | A_lb => ([], Go CIpLit)
  | _ => if a_uh_start a then t_uhnz a
         else pre [AHostEmptySafe] (t_pathstart a)
  end.

(* ---- IP literals ----------------------------------------------------------------- *)
(* unreserved / sub-delims / ':' of uriParseIpFutLoop *)
Definition a_fut (a : atom) : bool := a_sub_unres a || match a with A_colon => true | _ => false end.

Definition zb (z : bool) : nat := if z then 1%nat else 0%nat.

(* the hex loop of uriParseIPv6address2 (ip4OctetsDone = 0) *)
Definition t_v6hex (z : bool) (q : nat) (l : bool) (o : oct) (a : atom) : tr :=
  if a_hexdig a then
    if Nat.eqb (oct_count o) 4 then ([], Stop 0)
    else ([AApp], Go (CV6 z q (l || negb (a_digit a)) (oct_push o a) 0))
  else match a with
  | A_colon =>
    let q' := if Nat.eqb (oct_count o) 0 then q else S q in
    if Nat.leb (8 - zb z) q' then ([], Stop 0)          (* Too many quads? *)
    else ([AApp], Go (CV6Colon z q'))
  | A_dot =>
    if Nat.ltb 6 (q + zb z) || (negb z && Nat.ltb q 6) || l
       || Nat.eqb (oct_count o) 0 || Nat.eqb (oct_count o) 4 then ([], Stop 0)
    else if oct_lz o then ([], Stop (oct_count o))
    else match oct_over o with
         | Some k => ([], Stop k)
         | None => ([AApp], Go (CV6 z q false O0 1))
         end
  | A_rb =>
    if negb z && negb (Nat.eqb q 7 && negb (Nat.eqb (oct_count o) 0)) then ([], Stop 0)   (* Too little quads? *)
    else if negb (Nat.eqb (oct_count o) 0) && z && Nat.leb 7 q then ([], Stop 0)          (* Too many quads? *)
    else ([AHostIp6], Go CAuth2)
  | _ => ([], Stop 0)
  end.

(* the IPv4 loop of uriParseIPv6address2 (ip4OctetsDone > 0) *)
Definition t_v6ip4 (z : bool) (q : nat) (o : oct) (i4 : nat) (a : atom) : tr :=
  if a_digit a then
    if Nat.eqb (oct_count o) 4 then ([], Stop 0)
    else ([AApp], Go (CV6 z q false (oct_push o a) i4))
  else match a with
  | A_dot =>
    if Nat.eqb i4 4 || Nat.eqb (oct_count o) 0 || Nat.eqb (oct_count o) 4 then ([], Stop 0)
    else if oct_lz o then ([], Stop (oct_count o))
    else match oct_over o with
         | Some k => ([], Stop k)
         | None => ([AApp], Go (CV6 z q false O0 (S i4)))
         end
  | A_rb =>
    if negb (Nat.eqb i4 3) || Nat.eqb (oct_count o) 0 || Nat.eqb (oct_count o) 4 then ([], Stop 0)
    else if oct_lz o then ([], Stop (oct_count o))
    else match oct_over o with
         | Some k => ([], Stop k)
         | None => ([AHostIp6], Go CAuth2)
         end
  | _ => ([], Stop 0)
  end.

Definition t_v6 (z : bool) (q : nat) (l : bool) (o : oct) (i4 : nat) (a : atom) : tr :=
  if Nat.eqb i4 0 then t_v6hex z q l o a else t_v6ip4 z q o i4 a.

(* first[1] after a ':' *)
Definition t_v6colon (z : bool) (q : nat) (a : atom) : tr :=
  match a with
  | A_colon => if z then ([], Stop 0)                    (* "::.+::" *)
               else ([AApp], Go (CV6CC q))
  | A_rb => ([], Stop 1)                                  (* trailing ":" *)
  | _ => if Nat.eqb q 0 then ([], Stop 1)                 (* single leading ":" *)
         else t_v6hex z q false O0 a
  end.

(* first[1] after "::" *)
Definition t_v6cc (q : nat) (a : atom) : tr :=
  match a with
  | A_colon => ([], Stop 0)                               (* ":::+" *)
  | _ => t_v6hex true q false O0 a
  end.

Definition t_iplit (a : atom) : tr :=
  match a with
  | A_v => ([AApp], Go CFutV)
  | A_colon | A_rb => pre [AAllocIp6] (t_v6hex false 0 false O0 a)
  | _ => if a_hexdig a then pre [AAllocIp6] (t_v6hex false 0 false O0 a) else ([], Stop 0)
  end.

Definition t_futv (a : atom) : tr :=
  if a_hexdig a then ([AApp], Go CFutHex) else ([], Stop 0).

Definition t_futhex (a : atom) : tr :=
  if a_hexdig a then ([AApp], Go CFutHex)
  else match a with
  | A_dot => ([AApp], Go CFutLoop1)
  | _ => ([], Stop 0)
  end.

Definition t_futloop1 (a : atom) : tr :=
  if a_fut a then ([AApp], Go CFutLoop) else ([], Stop 0).

Definition t_futloop (a : atom) : tr :=
  if a_fut a then ([AApp], Go CFutLoop)
  else match a with
  | A_rb => ([AHostFuture], Go CAuth2)
  | _ => ([], Stop 0)
  end.

(* ---- hier-part and the scheme-or-segment prefix ---------------------------------- *)
(* uriParsePartHelperTwo *)
Definition t_part2 (a : atom) : tr :=
  match a with
  | A_slash => ([], Go CAuth)
  | _ =>
    (* uriOnExitPartHelperTwo, then uriParsePathAbsNoLeadSlash *)
    if a_pchar_np a then ([ASetAbs; AApp], Go (CSeg KPlain))
    else match a with
    | A_pct => ([ASetAbs; AApp], Go (CPct1 (RSeg KPlain)))
    | _ => pre [ASetAbs] (t_tail a)
    end
  end.

(* uriParseHierPart *)
Definition t_hier (a : atom) : tr :=
  if a_pchar_np a then ([AApp], Go (CSeg KPlain))          (* uriParsePathRootless *)
  else match a with
  | A_pct => ([AApp], Go (CPct1 (RSeg KPlain)))
  | A_slash => ([], Go CPart2)
  | _ => t_tail a
  end.

(* uriParseMustBeSegmentNzNc *)
Definition t_mustbeseg (a : atom) : tr :=
  if a_sub_unres a then ([AApp], Go CMustBeSeg)
  else match a with
  | A_at => ([AApp], Go CMustBeSeg)
  | A_pct => ([AApp], Go (CPct1 RMustBeSeg))
  | A_slash => ([APushSeg], Go (CSeg KPlain))
  | _ => pre [APushSeg] (t_tail a)
  end.

(* uriParseSegmentNzNcOrScheme2 *)
Definition t_schemeorseg (a : atom) : tr :=
  if a_alpha a || a_digit a then ([AApp], Go CSchemeOrSeg)
  else match a with
  | A_dot | A_plus | A_minus => ([AApp], Go CSchemeOrSeg)
  | A_pct => ([AApp], Go (CPct1 RMustBeSeg))
  | A_sd | A_at | A_ustilde => ([AApp], Go CMustBeSeg)
  | A_slash => ([ASave], Go (CSeg KDefer))
  | A_colon => ([ASetScheme], Go CHier)
  | _ => pre [APushSeg] (t_tail a)
  end.

(* uriParseUriReference *)
Definition t_start (a : atom) : tr :=
  if a_alpha a then ([AApp], Go CSchemeOrSeg)
  else if a_digit a || a_subdelim a then ([AApp], Go CMustBeSeg)
  else match a with
  | A_dot | A_ustilde | A_minus | A_at => ([AApp], Go CMustBeSeg)
  | A_pct => ([AApp], Go (CPct1 RMustBeSeg))
  | A_slash => ([], Go CPart2)
  | _ => t_tail a
  end.

(* uriParsePctEncoded *)
Definition t_pct1 (r : pret) (a : atom) : tr :=
  if a_hexdig a then ([AApp], Go (CPct2 r)) else ([], Stop 0).
Definition t_pct2 (r : pret) (a : atom) : tr :=
  if a_hexdig a then ([AApp], Go (ctrl_of_pret r)) else ([], Stop 0).

Definition ptrans (c : ctrl) (a : atom) : tr :=
  match c with
  | CStart => t_start a
  | CSchemeOrSeg => t_schemeorseg a
  | CMustBeSeg => t_mustbeseg a
  | CHier => t_hier a
  | CPart2 => t_part2 a
  | CAuth => t_auth a
  | CUH => t_uh a
  | CPortOrUser => t_portuser a
  | CUser => t_user a
  | COwnHost => t_ownhost a
  | CHost2 => t_host2 a
  | CAuth2 => t_auth2 a
  | CPort => t_port a
  | CIpLit => t_iplit a
  | CFutV => t_futv a
  | CFutHex => t_futhex a
  | CFutLoop1 => t_futloop1 a
  | CFutLoop => t_futloop a
  | CV6 z q l o i4 => t_v6 z q l o i4 a
  | CV6Colon z q => t_v6colon z q a
  | CV6CC q => t_v6cc q a
  | CPathStart => t_pathstart a
  | CSeg k => t_seg k a
  | CTail => t_tail a
  | CTail2 => t_tail2 a
  | CQF k => t_qf k a
  | CPct1 r => t_pct1 r a
  | CPct2 r => t_pct2 r a
  end.

(* end of the range reached in control state c *)
Definition pfinish (c : ctrl) : list action * fin :=
  match c with
  | CStart => ([], Acc)
  | CSchemeOrSeg => ([APushSeg], Acc)                   (* uriOnExitSegmentNzNcOrScheme2 *)
  | CMustBeSeg => ([APushSeg], Acc)
  | CHier => ([], Acc)
  | CPart2 => ([ASetAbs], Acc)
  | CAuth => ([AHostEmptySafe; AFixEmptyTrail], Acc)
  | CUH => ([AHostReg; AFixEmptyTrail], Acc)            (* uriOnExitOwnHostUserInfo *)
  | CPortOrUser => ([AHostPort; AFixEmptyTrail], Acc)   (* uriOnExitOwnPortUserInfo *)
  | CUser => ([], StopEnd)
  | COwnHost => ([AHostEmptyAtEnd; AFixEmptyTrail], Acc)
  | CHost2 => ([AHostReg; AFixEmptyTrail], Acc)         (* uriOnExitOwnHost2 *)
  | CAuth2 => ([AFixEmptyTrail], Acc)
  | CPort => ([ASetPort; AFixEmptyTrail], Acc)
  | CIpLit | CFutV | CFutHex | CFutLoop1 | CFutLoop => ([], StopEnd)
  | CV6 _ _ _ _ _ | CV6Colon _ _ | CV6CC _ => ([], StopEnd)
  | CPathStart => ([AFixEmptyTrail], Acc)
  | CSeg k => (seg_end k ++ path_exit k, Acc)
  | CTail | CTail2 => ([], Acc)
  | CQF QQuery => ([ASetQuery], Acc)
  | CQF QFrag => ([ASetFragment], Acc)
  | CPct1 _ | CPct2 _ => ([], StopEnd)
  end.

(* CAuth2 is only entered after a bracketed literal; CPathStart is never a resting state
   (kept for the epsilon composition); both are listed for completeness. *)

(* ---------------------------------------------------------------- data *)
(* bytes of an IPv6 literal, computed as uriParseIPv6address2 computes them *)
Definition quad_bytes (h : list N) : list N :=           (* uriWriteQuadToDoubleByte *)
  match h with
  | [a] => [0; a]
  | [a; b] => [0; (16 * a + b) mod 256]
  | [a; b; c] => [a; (16 * b + c) mod 256]
  | [a; b; c; d] => [(16 * a + b) mod 256; (16 * c + d) mod 256]
  | _ => []
  end.
Definition octet_value (h : list N) : N :=               (* uriGetOctetValue *)
  match h with
  | [a] => a
  | [a; b] => (10 * a + b) mod 256
  | a :: b :: c :: _ => (100 * a + 10 * b + c) mod 256
  | [] => 0
  end.

Fixpoint bset_nth (d : list N) (i : nat) (v : N) : list N :=
  match d, i with
  | [], _ => []
  | _ :: r, O => v :: r
  | x :: r, S k => x :: bset_nth r k v
  end.

(* write l into d starting at index i (memcpy into the 16-byte array) *)
Fixpoint put_at (d : list N) (i : nat) (l : list N) : list N :=
  match l with
  | [] => d
  | x :: r => put_at (bset_nth d i x) (S i) r
  end.

(* memset(data + from, 0, 16 - from) *)
Fixpoint zero_from (d : list N) (from : nat) : list N :=
  match d, from with
  | [], _ => []
  | _ :: r, O => 0 :: zero_from r O
  | x :: r, S k => x :: zero_from r k
  end.

Record v6st := {
  v_data : list N;          (* ip6->data, 16 bytes *)
  v_hist : list N;          (* digitHistory[0..digitCount) *)
  v_zip : bool;             (* zipperEver *)
  v_quads : nat;            (* quadsDone *)
  v_qaz : list N;           (* quadsAfterZipper, 2 bytes per quad *)
  v_ip4 : nat }.            (* ip4OctetsDone *)

Definition v6_init : v6st :=
  {| v_data := repeat 0 16; v_hist := []; v_zip := false; v_quads := 0; v_qaz := []; v_ip4 := 0 |}.

(* store the quad in digitHistory *)
Definition v6_flush_quad (s : v6st) : v6st :=
  match v_hist s with
  | [] => s
  | h => if v_zip s
         then {| v_data := v_data s; v_hist := []; v_zip := true; v_quads := S (v_quads s);
                 v_qaz := v_qaz s ++ quad_bytes h; v_ip4 := v_ip4 s |}
         else {| v_data := put_at (v_data s) (2 * v_quads s) (quad_bytes h); v_hist := [];
                 v_zip := false; v_quads := S (v_quads s); v_qaz := v_qaz s; v_ip4 := v_ip4 s |}
  end.

(* data effects of the scanner on the literal text (between the brackets) *)
Fixpoint v6_scan (s : v6st) (t : text) : v6st :=
  match t with
  | [] => s
  | c :: r =>
    if is_hexdig c then
      v6_scan {| v_data := v_data s; v_hist := v_hist s ++ [hexdig_to_int c]; v_zip := v_zip s;
                 v_quads := v_quads s; v_qaz := v_qaz s; v_ip4 := v_ip4 s |} r
    else if c =? 58 then
      let s1 := v6_flush_quad s in
      match r with
      | c2 :: r2 =>
        if c2 =? 58 then   (* "::": zero everything after the zipper *)
          v6_scan {| v_data := zero_from (v_data s1) (2 * v_quads s1); v_hist := []; v_zip := true;
                     v_quads := v_quads s1; v_qaz := v_qaz s1; v_ip4 := v_ip4 s1 |} r2
        else v6_scan s1 r
      | [] => s1
      end
    else if c =? 46 then   (* copy an IPv4 octet *)
      v6_scan {| v_data := bset_nth (v_data s) (12 + v_ip4 s) (octet_value (v_hist s)); v_hist := [];
                 v_zip := v_zip s; v_quads := v_quads s; v_qaz := v_qaz s; v_ip4 := S (v_ip4 s) |} r
    else s
  end.

(* the closing ']' *)
Definition v6_close (s : v6st) : list N :=
  if Nat.eqb (v_ip4 s) 0 then
    let s1 := match v_hist s with
              | [] => s
              | h => if v_zip s
                     then {| v_data := v_data s; v_hist := []; v_zip := true; v_quads := v_quads s;
                             v_qaz := v_qaz s ++ quad_bytes h; v_ip4 := 0 |}
                     else {| v_data := put_at (v_data s) (2 * v_quads s) (quad_bytes h); v_hist := [];
                             v_zip := false; v_quads := v_quads s; v_qaz := v_qaz s; v_ip4 := 0 |}
              end in
    put_at (v_data s1) (16 - length (v_qaz s1)) (v_qaz s1)
  else
    let d := put_at (v_data s) (16 - 4 - length (v_qaz s)) (v_qaz s) in
    bset_nth d 15 (octet_value (v_hist s)).

Definition ip6_bytes (lit : text) : list N := v6_close (v6_scan v6_init lit).

Record pdata := {
  p_uri : uri;
  p_pend : text;       (* text of the component being read *)
  p_pend2 : text;      (* digits after "host:" while it is undecided whether they are a port *)
  p_saved : text }.    (* first segment waiting to be pushed *)

Definition pdata_init : pdata :=
  {| p_uri := empty_uri; p_pend := []; p_pend2 := []; p_saved := [] |}.

Definition with_uri (d : pdata) (u : uri) : pdata :=
  {| p_uri := u; p_pend := []; p_pend2 := []; p_saved := p_saved d |}.

(* uriFixEmptyTrailSegment *)
Definition fix_empty_trail (u : uri) : uri :=
  if negb (is_host_set u) then
    match pathSegs u with
    | [[]] => set_pathSegs [] u
    | _ => u
    end
  else u.

Definition exec (ch : N) (d : pdata) (a : action) : pdata :=
  let u := p_uri d in
  match a with
  | AApp => {| p_uri := u; p_pend := p_pend d ++ [ch]; p_pend2 := p_pend2 d; p_saved := p_saved d |}
  | AApp2 => {| p_uri := u; p_pend := p_pend d; p_pend2 := p_pend2 d ++ [ch]; p_saved := p_saved d |}
  | AMerge => {| p_uri := u; p_pend := p_pend d ++ [58] ++ p_pend2 d; p_pend2 := []; p_saved := p_saved d |}
  | ASetScheme => with_uri d (set_scheme (Some (p_pend d)) u)
  | APushSeg => with_uri d (set_pathSegs (pathSegs u ++ [p_pend d]) u)
  | ASave => {| p_uri := u; p_pend := []; p_pend2 := []; p_saved := p_pend d |}
  | APushSaved => {| p_uri := set_pathSegs (pathSegs u ++ [p_saved d]) u; p_pend := p_pend d;
                     p_pend2 := p_pend2 d; p_saved := [] |}
  | ASetAbs => {| p_uri := set_absolutePath true u; p_pend := p_pend d; p_pend2 := p_pend2 d; p_saved := p_saved d |}
  | ASetUserInfo => with_uri d (set_userInfo (Some (p_pend d)) u)
  | ASetUserInfoMerged => with_uri d (set_userInfo (Some (p_pend d ++ [58] ++ p_pend2 d)) u)
  | AHostEmptySafe => with_uri d (set_hostText (Some []) u)
  | AHostReg => with_uri d (set_ip4 (parse_ip4 (p_pend d)) (set_hostText (Some (p_pend d)) u))
  | AHostEmptyAtEnd => with_uri d (set_hostText (Some (p_pend d)) u)
  | AHostPort => with_uri d (set_portText (Some (p_pend2 d))
                               (set_ip4 (parse_ip4 (p_pend d)) (set_hostText (Some (p_pend d)) u)))
  | ASetPort => with_uri d (set_portText (Some (p_pend d)) u)
  | AAllocIp6 => d
  | AHostIp6 => with_uri d (set_ip6 (Some (ip6_bytes (p_pend d))) (set_hostText (Some (p_pend d)) u))
  | AHostFuture => with_uri d (set_ipFuture (Some (p_pend d)) (set_hostText (Some (p_pend d)) u))
  | ASetQuery => with_uri d (set_query (Some (p_pend d)) u)
  | ASetFragment => with_uri d (set_fragment (Some (p_pend d)) u)
  | AFixEmptyTrail => {| p_uri := fix_empty_trail u; p_pend := p_pend d; p_pend2 := p_pend2 d; p_saved := p_saved d |}
  end.

Definition exec_all (ch : N) (d : pdata) (acts : list action) : pdata := fold_left (exec ch) acts d.

(* ---------------------------------------------------------------- the parser *)
Inductive presult :=
| POk (u : uri)
| PSyntax (pos : nat).      (* URI_ERROR_SYNTAX, errorPos = first + pos *)

Fixpoint prun (c : ctrl) (d : pdata) (i : nat) (s : text) : presult :=
  match s with
  | [] =>
    match pfinish c with
    | (acts, Acc) => POk (p_uri (exec_all 0 d acts))
    | (_, StopEnd) => PSyntax i
    end
  | ch :: t =>
    match ptrans c (atom_of ch) with
    | (acts, Go c') => prun c' (exec_all ch d acts) (S i) t
    | (_, Stop off) => PSyntax (i - off)
    end
  end.

(* uriParseSingleUriExMm / uriParseUriEx on the range [first, afterLast) *)
Definition parse (s : text) : presult := prun CStart pdata_init 0 s.

(* the entry points that take a NUL-terminated string *)
Definition parse_cstr (buf : text) : presult := parse (until_nul buf).

(* control-only run, used for acceptance and error position *)
Inductive cresult := CAcc | CErr (pos : nat).
Fixpoint crun (c : ctrl) (i : nat) (w : list atom) : cresult :=
  match w with
  | [] => match snd (pfinish c) with Acc => CAcc | StopEnd => CErr i end
  | a :: t => match snd (ptrans c a) with
              | Go c' => crun c' (S i) t
              | Stop off => CErr (i - off)
              end
  end.
