(* Model of src/UriIp4.c + src/UriIp4Base.c: uriParseIpFourAddress with its digit stack. *)
From UP Require Import Base.Chars.
Local Open Scope N_scope.

(* uriStackToOctet (the value is stored into an unsigned char) *)
Definition stack_to_octet (st : list N) : N :=
  match st with
  | [a] => a
  | [a; b] => (a * 10 + b) mod 256
  | [a; b; c] => (a * 100 + b * 10 + c) mod 256
  | _ => 0
  end.

(* uriParseDecOctetThree: at most one more digit *)
Definition dec_octet_three (st : list N) (s : text) : list N * text :=
  match s with
  | c :: t => if is_digit c then (st ++ [c - 48], t) else (st, s)
  | [] => (st, s)
  end.

(* uriParseDecOctetFour: after "25", one of 0..5 *)
Definition dec_octet_four (st : list N) (s : text) : list N * text :=
  match s with
  | c :: t => if in_range 48 53 c then (st ++ [c - 48], t) else (st, s)
  | [] => (st, s)
  end.

(* uriParseDecOctetOne: after "1" *)
Definition dec_octet_one (st : list N) (s : text) : list N * text :=
  match s with
  | c :: t => if is_digit c then dec_octet_three (st ++ [c - 48]) t else (st, s)
  | [] => (st, s)
  end.

(* uriParseDecOctetTwo: after "2" *)
Definition dec_octet_two (st : list N) (s : text) : list N * text :=
  match s with
  | c :: t =>
    if in_range 48 52 c then dec_octet_three (st ++ [c - 48]) t
    else if c =? 53 then dec_octet_four (st ++ [5]) t
    else if in_range 54 57 c then (st ++ [c - 48], t)
    else (st, s)
  | [] => (st, s)
  end.

(* uriParseDecOctet: None = NULL *)
Definition dec_octet (s : text) : option (list N * text) :=
  match s with
  | [] => None
  | c :: t =>
    if c =? 48 then Some ([0], t)
    else if c =? 49 then Some (dec_octet_one [1] t)
    else if c =? 50 then Some (dec_octet_two [2] t)
    else if in_range 51 57 c then Some (dec_octet_three [c - 48] t)
    else None
  end.

(* one octet followed by '.' *)
Definition octet_dot (s : text) : option (N * text) :=
  match dec_octet s with
  | Some (st, r) =>
    match r with
    | c :: r' => if c =? 46 then Some (stack_to_octet st, r') else None
    | [] => None
    end
  | None => None
  end.

(* uriParseIpFourAddress on the range [first, afterLast): Some octets on URI_SUCCESS *)
Definition parse_ip4 (s : text) : option (list N) :=
  match s with
  | [] => None                           (* afterLast <= first *)
  | _ =>
    match octet_dot s with
    | Some (o1, r1) =>
      match octet_dot r1 with
      | Some (o2, r2) =>
        match octet_dot r2 with
        | Some (o3, r3) =>
          match dec_octet r3 with
          | Some (st, []) => Some [o1; o2; o3; stack_to_octet st]
          | _ => None
          end
        | None => None
        end
      | None => None
      end
    | None => None
    end
  end.
