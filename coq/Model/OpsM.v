(* Memory tier of the transformations: uriMakeOwnerMm, uriNormalizeSyntaxExMm, uriAddBaseUriExMm,
   uriRemoveBaseUriMm with every allocation request in the order the C code makes it and every
   error exit (uriPreventLeakage with its done-mask, the list repairs of uriCopyPath /
   uriMergePath, the trailing-segment failure of uriRemoveDotSegmentsEx, the public wrappers
   freeing the destination).  Values are computed with the functions of the pure tier. *)
From Coq Require Import List NArith Bool.
From UP Require Import Base.Chars Model.Uri Model.Common Model.Compare Model.Resolve Model.Shorten Model.Normalize Model.Mem.
Import ListNotations.
Local Open Scope N_scope.

Section WithCsize.
Variable csize : N.          (* sizeof(URI_CHAR) *)

Definition bad_free (s : mstate) : mstate :=
  {| ms_next := ms_next s; ms_live := ms_live s; ms_requests := ms_requests s; ms_plan := ms_plan s;
     ms_trace := EvBadFree :: ms_trace s |}.

Definition tlen (t : text) : N := N.of_nat (length t).

(* ---------------------------------------------------------------- uriMakeRangeOwner *)
(* duplicate a non-empty range; None = the allocation failed *)
Definition dup_text (t : mtext) (s : mstate) : option mtext * mstate :=
  match t_val t with
  | Some ((_ :: _) as x) =>
    match alloc false (tlen x * csize) s with
    | (Some id, s') => (Some {| t_val := Some x; t_blk := Some id |}, s')
    | (None, s') => (None, s')
    end
  | _ => (Some t, s)
  end.

(* with a done-mask bit: nothing happens when the bit is already set; the bit is set after a copy *)
Definition range_owner (done : N) (bitv : N) (t : mtext) (s : mstate) : option (mtext * N) * mstate :=
  if negb (N.land done bitv =? 0) then (Some (t, done), s)
  else match t_val t with
       | Some (_ :: _) =>
         match dup_text t s with
         | (Some t', s') => (Some (t', N.lor done bitv), s')
         | (None, s') => (None, s')
         end
       | _ => (Some (t, done), s)
       end.

Definition B_SCHEME : N := 1. Definition B_USER : N := 2. Definition B_HOST : N := 4.
Definition B_PATH : N := 8. Definition B_QUERY : N := 16. Definition B_FRAG : N := 32.

Definition set_m_scheme v m := {| m_scheme := v; m_userInfo := m_userInfo m; m_hostText := m_hostText m; m_ip4 := m_ip4 m; m_ip6 := m_ip6 m; m_ipFuture := m_ipFuture m; m_portText := m_portText m; m_segs := m_segs m; m_query := m_query m; m_fragment := m_fragment m; m_abs := m_abs m; m_owner := m_owner m |}.
Definition set_m_userInfo v m := {| m_scheme := m_scheme m; m_userInfo := v; m_hostText := m_hostText m; m_ip4 := m_ip4 m; m_ip6 := m_ip6 m; m_ipFuture := m_ipFuture m; m_portText := m_portText m; m_segs := m_segs m; m_query := m_query m; m_fragment := m_fragment m; m_abs := m_abs m; m_owner := m_owner m |}.
Definition set_m_hostText v m := {| m_scheme := m_scheme m; m_userInfo := m_userInfo m; m_hostText := v; m_ip4 := m_ip4 m; m_ip6 := m_ip6 m; m_ipFuture := m_ipFuture m; m_portText := m_portText m; m_segs := m_segs m; m_query := m_query m; m_fragment := m_fragment m; m_abs := m_abs m; m_owner := m_owner m |}.
Definition set_m_ip4 v m := {| m_scheme := m_scheme m; m_userInfo := m_userInfo m; m_hostText := m_hostText m; m_ip4 := v; m_ip6 := m_ip6 m; m_ipFuture := m_ipFuture m; m_portText := m_portText m; m_segs := m_segs m; m_query := m_query m; m_fragment := m_fragment m; m_abs := m_abs m; m_owner := m_owner m |}.
Definition set_m_ip6 v m := {| m_scheme := m_scheme m; m_userInfo := m_userInfo m; m_hostText := m_hostText m; m_ip4 := m_ip4 m; m_ip6 := v; m_ipFuture := m_ipFuture m; m_portText := m_portText m; m_segs := m_segs m; m_query := m_query m; m_fragment := m_fragment m; m_abs := m_abs m; m_owner := m_owner m |}.
Definition set_m_ipFuture v m := {| m_scheme := m_scheme m; m_userInfo := m_userInfo m; m_hostText := m_hostText m; m_ip4 := m_ip4 m; m_ip6 := m_ip6 m; m_ipFuture := v; m_portText := m_portText m; m_segs := m_segs m; m_query := m_query m; m_fragment := m_fragment m; m_abs := m_abs m; m_owner := m_owner m |}.
Definition set_m_portText v m := {| m_scheme := m_scheme m; m_userInfo := m_userInfo m; m_hostText := m_hostText m; m_ip4 := m_ip4 m; m_ip6 := m_ip6 m; m_ipFuture := m_ipFuture m; m_portText := v; m_segs := m_segs m; m_query := m_query m; m_fragment := m_fragment m; m_abs := m_abs m; m_owner := m_owner m |}.
Definition set_m_segs v m := {| m_scheme := m_scheme m; m_userInfo := m_userInfo m; m_hostText := m_hostText m; m_ip4 := m_ip4 m; m_ip6 := m_ip6 m; m_ipFuture := m_ipFuture m; m_portText := m_portText m; m_segs := v; m_query := m_query m; m_fragment := m_fragment m; m_abs := m_abs m; m_owner := m_owner m |}.
Definition set_m_query v m := {| m_scheme := m_scheme m; m_userInfo := m_userInfo m; m_hostText := m_hostText m; m_ip4 := m_ip4 m; m_ip6 := m_ip6 m; m_ipFuture := m_ipFuture m; m_portText := m_portText m; m_segs := m_segs m; m_query := v; m_fragment := m_fragment m; m_abs := m_abs m; m_owner := m_owner m |}.
Definition set_m_fragment v m := {| m_scheme := m_scheme m; m_userInfo := m_userInfo m; m_hostText := m_hostText m; m_ip4 := m_ip4 m; m_ip6 := m_ip6 m; m_ipFuture := m_ipFuture m; m_portText := m_portText m; m_segs := m_segs m; m_query := m_query m; m_fragment := v; m_abs := m_abs m; m_owner := m_owner m |}.
Definition set_m_abs v m := {| m_scheme := m_scheme m; m_userInfo := m_userInfo m; m_hostText := m_hostText m; m_ip4 := m_ip4 m; m_ip6 := m_ip6 m; m_ipFuture := m_ipFuture m; m_portText := m_portText m; m_segs := m_segs m; m_query := m_query m; m_fragment := m_fragment m; m_abs := v; m_owner := m_owner m |}.
Definition set_m_owner v m := {| m_scheme := m_scheme m; m_userInfo := m_userInfo m; m_hostText := m_hostText m; m_ip4 := m_ip4 m; m_ip6 := m_ip6 m; m_ipFuture := m_ipFuture m; m_portText := m_portText m; m_segs := m_segs m; m_query := m_query m; m_fragment := m_fragment m; m_abs := m_abs m; m_owner := v |}.

(* free a text block if the text is non-empty (the C test first != afterLast / afterLast > first) *)
Definition free_nonempty (t : mtext) (s : mstate) : mstate :=
  match t_val t with
  | Some (_ :: _) => match t_blk t with Some b => free_blk b s | None => bad_free s end
  | _ => s
  end.

(* ---------------------------------------------------------------- uriPreventLeakage *)
Definition free_seg_owned (sg : mseg) (s : mstate) : mstate :=
  let s := match sg_text sg with
           | _ :: _ => match sg_blk sg with Some b => free_blk b s | None => bad_free s end
           | [] => s
           end in
  free_blk (sg_node sg) s.

Definition prevent_leakage (m : muri) (revert : N) (s : mstate) : muri * mstate :=
  let '(m, s) :=
    if negb (N.land revert B_SCHEME =? 0)
    then (set_m_scheme mt_none m,
          match t_blk (m_scheme m) with Some b => free_blk b s | None => bad_free s end)   (* freed unconditionally *)
    else (m, s) in
  let '(m, s) :=
    if negb (N.land revert B_USER =? 0) then (set_m_userInfo mt_none m, free_nonempty (m_userInfo m) s) else (m, s) in
  let '(m, s) :=
    if negb (N.land revert B_HOST =? 0) then
      match t_val (m_ipFuture m) with
      | Some _ => (set_m_hostText mt_none (set_m_ipFuture mt_none m),
                   match t_blk (m_ipFuture m) with Some b => free_blk b s | None => bad_free s end)
      | None => match t_val (m_hostText m) with
                | Some _ => (set_m_hostText mt_none m, free_nonempty (m_hostText m) s)
                | None => (m, s)
                end
      end
    else (m, s) in
  let '(m, s) :=
    if negb (N.land revert B_PATH =? 0)
    then (set_m_segs [] m, fold_left (fun st sg => free_seg_owned sg st) (m_segs m) s)
    else (m, s) in
  let '(m, s) :=
    if negb (N.land revert B_QUERY =? 0) then (set_m_query mt_none m, free_nonempty (m_query m) s) else (m, s) in
  if negb (N.land revert B_FRAG =? 0) then (set_m_fragment mt_none m, free_nonempty (m_fragment m) s) else (m, s).

(* ---------------------------------------------------------------- uriMakeOwnerEngine *)
(* the path loop: duplicate each segment text; on failure free the copies made so far, all nodes,
   and kill the path *)
Fixpoint own_segs (done_segs : list mseg) (rest : list mseg) (s : mstate) : option (list mseg) * mstate :=
  match rest with
  | [] => (Some (rev done_segs), s)
  | sg :: r =>
    match sg_text sg with
    | _ :: _ =>
      match alloc false (tlen (sg_text sg) * csize) s with
      | (Some id, s') => own_segs ({| sg_text := sg_text sg; sg_blk := Some id; sg_node := sg_node sg |} :: done_segs) r s'
      | (None, s') =>
        (* Kill path to one before walker, then from walker *)
        let s1 := fold_left (fun st x => free_seg_owned x st) (rev done_segs) s' in
        let s2 := fold_left (fun st x => free_blk (sg_node x) st) rest s1 in
        (None, s2)
      end
    | [] => own_segs (sg :: done_segs) r s
    end
  end.

(* returns (ok, object, done mask) *)
Definition make_owner_engine (m : muri) (done : N) (s : mstate) : bool * muri * N * mstate :=
  match range_owner done B_SCHEME (m_scheme m) s with
  | (None, s) => (false, m, done, s)
  | (Some (t, done), s) =>
    let m := set_m_scheme t m in
    match range_owner done B_USER (m_userInfo m) s with
    | (None, s) => (false, m, done, s)
    | (Some (t, done), s) =>
      let m := set_m_userInfo t m in
      match range_owner done B_QUERY (m_query m) s with
      | (None, s) => (false, m, done, s)
      | (Some (t, done), s) =>
        let m := set_m_query t m in
        match range_owner done B_FRAG (m_fragment m) s with
        | (None, s) => (false, m, done, s)
        | (Some (t, done), s) =>
          let m := set_m_fragment t m in
          (* Host *)
          let host_step : option (muri * N) * mstate :=
            if negb (N.land done B_HOST =? 0) then (Some (m, done), s)
            else match t_val (m_ipFuture m) with
                 | Some _ =>
                   match range_owner done B_HOST (m_ipFuture m) s with
                   | (None, s) => (None, s)
                   | (Some (t, done), s) =>
                     (Some (set_m_hostText {| t_val := t_val t; t_blk := None |} (set_m_ipFuture t m), done), s)
                   end
                 | None =>
                   match t_val (m_hostText m) with
                   | Some _ =>
                     match range_owner done B_HOST (m_hostText m) s with
                     | (None, s) => (None, s)
                     | (Some (t, done), s) => (Some (set_m_hostText t m, done), s)
                     end
                   | None => (Some (m, done), s)
                   end
                 end in
          match host_step with
          | (None, s) => (false, m, done, s)
          | (Some (m, done), s) =>
            (* Path *)
            let path_step : option (muri * N) * mstate :=
              if negb (N.land done B_PATH =? 0) then (Some (m, done), s)
              else match own_segs [] (m_segs m) s with
                   | (Some segs, s) => (Some (set_m_segs segs m, N.lor done B_PATH), s)
                   | (None, s) => (None, s)
                   end in
            match path_step with
            | (None, s) => (false, set_m_segs [] m, done, s)
            | (Some (m, done), s) =>
              (* Port text comes last *)
              match dup_text (m_portText m) s with
              | (None, s) => (false, m, done, s)
              | (Some t, s) => (true, set_m_portText t m, done, s)
              end
            end
          end
        end
      end
    end
  end.

(* uriMakeOwnerMm: (return code, object) *)
Definition make_owner_m (m : muri) (s : mstate) : N * muri * mstate :=
  if m_owner m then (URI_SUCCESS, m, s)
  else match make_owner_engine m 0 s with
       | (true, m', _, s') => (URI_SUCCESS, set_m_owner true m', s')
       | (false, m', done, s') =>
         let '(m'', s'') := prevent_leakage m' done s' in (URI_ERROR_MALLOC, m'', s'')
       end.

(* ---------------------------------------------------------------- uriRemoveDotSegmentsEx *)
(* free what the C code frees when it drops a segment: the text if the path is owned and the
   text is not empty, then the node *)
Definition drop_seg (owned : bool) (sg : mseg) (s : mstate) : mstate :=
  let s := if owned then
             match sg_text sg with
             | _ :: _ => match sg_blk sg with Some b => free_blk b s | None => bad_free s end
             | [] => s
             end
           else s in
  free_blk (sg_node sg) s.
(* keep the node, replace the text by the empty placeholder *)
Definition blank_seg (owned : bool) (sg : mseg) (s : mstate) : mseg * mstate :=
  ({| sg_text := []; sg_blk := None; sg_node := sg_node sg |},
   if owned then
     match sg_text sg with
     | _ :: _ => match sg_blk sg with Some b => free_blk b s | None => bad_free s end
     | [] => s
     end
   else s).

(* result: Some segments, or None when the allocation of the trailing segment failed (the list
   left behind is returned as well: it is what uriPreventLeakage / uriFreeUriMembers then see) *)
Fixpoint rds_walk_m (relative host abs owned : bool) (kept : list mseg) (rest : list mseg) (s : mstate)
  {struct rest} : bool * list mseg * mstate :=
  match rest with
  | [] => (true, rev kept, s)
  | w :: nxt =>
    if seg_dot (sg_text w) then
      let essential :=
        relative && (match kept with [] => true | _ => false end)
        && (match nxt with n1 :: _ => has_colon (sg_text n1) | [] => false end) in
      if essential then rds_walk_m relative host abs owned (w :: kept) nxt s
      else
        match nxt with
        | _ :: _ => rds_walk_m relative host abs owned kept nxt (drop_seg owned w s)
        | [] =>
          match kept with
          | [] => if host then let '(w', s') := blank_seg owned w s in (true, [w'], s')
                  else (true, [], drop_seg owned w s)
          | _ => let '(w', s') := blank_seg owned w s in (true, rev (w' :: kept), s')
          end
        end
    else if seg_dotdot (sg_text w) then
      let keep :=
        relative && (match kept with [] => true | p :: _ => seg_dotdot (sg_text p) end) in
      if keep then rds_walk_m relative host abs owned (w :: kept) nxt s
      else
        match kept with
        | p :: pp :: kk =>
          match nxt with
          | _ :: _ => rds_walk_m relative host abs owned (pp :: kk) nxt (drop_seg owned p (drop_seg owned w s))
          | [] =>
            match alloc true SEG_SIZE s with
            | (Some id, s1) =>
              (true, rev ({| sg_text := []; sg_blk := None; sg_node := id |} :: pp :: kk),
               drop_seg owned p (drop_seg owned w s1))
            | (None, s1) => (false, rev (pp :: kk), drop_seg owned p (drop_seg owned w s1))
            end
          end
        | [p] =>
          match nxt with
          | _ :: _ => rds_walk_m relative host abs owned [] nxt (drop_seg owned p (drop_seg owned w s))
          | [] =>
            if abs then (true, [], drop_seg owned p (drop_seg owned w s))
            else let '(w', s') := blank_seg owned w s in (true, [w'], drop_seg owned p s')
          end
        | [] =>
          match nxt with
          | _ :: _ => rds_walk_m relative host abs owned [] nxt (drop_seg owned w s)
          | [] => if abs then (true, [], drop_seg owned w s)
                  else let '(w', s') := blank_seg owned w s in (true, [w'], s')
          end
        end
    else rds_walk_m relative host abs owned (w :: kept) nxt s
  end.

Definition m_host_set (m : muri) : bool := is_host_set (erase m).

Definition remove_dot_segments_m (relative owned : bool) (m : muri) (s : mstate) : bool * muri * mstate :=
  match m_segs m with
  | [] => (true, m, s)
  | segs => let '(ok, segs', s') := rds_walk_m relative (m_host_set m) (m_abs m) owned [] segs s in
            (ok, set_m_segs segs' m, s')
  end.

(* uriFixAmbiguity: the "." segment points to a constant, only the node is allocated *)
Definition fix_ambiguity_m (m : muri) (s : mstate) : bool * muri * mstate :=
  let need :=
    match m_abs m, map sg_text (m_segs m) with
    | true, [] :: _ :: _ => true
    | false, [] :: [] :: _ => negb (m_host_set m)
    | _, _ => false
    end in
  if need then
    match alloc false SEG_SIZE s with
    | (Some id, s') => (true, set_m_segs ({| sg_text := [46]; sg_blk := None; sg_node := id |} :: m_segs m) m, s')
    | (None, s') => (false, m, s')
    end
  else (true, m, s).

(* uriFixAmbiguity as uriNormalizeSyntaxEngine uses it: the object owns its path texts there, so the "."
   of the new segment is copied into a block of its own (uriMakeRangeOwner on that one range); when
   the copy fails the node is released again and the path is as it was *)
Definition fix_ambiguity_owned_m (m : muri) (s : mstate) : bool * muri * mstate :=
  let need :=
    match m_abs m, map sg_text (m_segs m) with
    | true, [] :: _ :: _ => true
    | false, [] :: [] :: _ => negb (m_host_set m)
    | _, _ => false
    end in
  if need then
    match alloc false SEG_SIZE s with
    | (Some id, s1) =>
      match alloc false (tlen [46] * csize) s1 with
      | (Some b, s2) => (true, set_m_segs ({| sg_text := [46]; sg_blk := Some b; sg_node := id |} :: m_segs m) m, s2)
      | (None, s2) => (false, m, free_blk id s2)
      end
    | (None, s1) => (false, m, s1)
    end
  else (true, m, s).

(* uriFixEmptyTrailSegment *)
Definition fix_empty_trail_m (m : muri) (s : mstate) : muri * mstate :=
  if negb (m_host_set m) then
    match m_segs m with
    | [sg] => match sg_text sg with
              | [] => (set_m_segs [] m, free_blk (sg_node sg) s)
              | _ => (m, s)
              end
    | _ => (m, s)
    end
  else (m, s).

(* ---------------------------------------------------------------- uriNormalizeSyntaxEngine *)
(* the malloc variants (borrowed URI) and the in-place variants (owned URI) of one text component;
   [f] is the text transformation.  An empty text is not copied. *)
Definition norm_text (owner : bool) (f : text -> text) (t : mtext) (s : mstate) : option mtext * mstate :=
  match t_val t with
  | None => (Some t, s)
  | Some x =>
    if owner then (Some {| t_val := Some (f x); t_blk := t_blk t |}, s)
    else match x with
         | [] => (Some t, s)
         | _ => match alloc false (tlen x * csize) s with
                | (Some id, s') => (Some {| t_val := Some (f x); t_blk := Some id |}, s')
                | (None, s') => (None, s')
                end
         end
  end.

(* the path loop of a borrowed URI: on failure the copies made so far and all nodes are released and
   the path is dropped (the done-mask does not contain PATH yet) *)
Fixpoint norm_segs_malloc (done_segs : list mseg) (rest : list mseg) (s : mstate) : bool * list mseg * mstate :=
  match rest with
  | [] => (true, rev done_segs, s)
  | sg :: r =>
    match sg_text sg with
    | [] => norm_segs_malloc (sg :: done_segs) r s
    | x => match alloc false (tlen x * csize) s with
           | (Some id, s') => norm_segs_malloc ({| sg_text := fix_pct x; sg_blk := Some id; sg_node := sg_node sg |} :: done_segs) r s'
           | (None, s') =>
             let s1 := fold_left (fun st x => free_seg_owned x st) (rev done_segs) s' in
             let s2 := fold_left (fun st x => free_blk (sg_node x) st) rest s1 in
             (false, [], s2)
           end
    end
  end.

Definition normalize_m (mask : N) (m : muri) (s : mstate) : N * muri * mstate :=
  if mask =? 0 then (URI_SUCCESS, m, s)
  else
    let owner := m_owner m in
    let fail (m : muri) (done : N) (s : mstate) :=
      let '(m', s') := prevent_leakage m done s in (URI_ERROR_MALLOC, m', s') in
    let done := 0 in
    (* scheme *)
    let r1 : option (muri * N) * mstate :=
      if bit mask M_SCHEME && is_some (t_val (m_scheme m)) then
        match norm_text owner lowercase (m_scheme m) s with
        | (Some t, s') => (Some (set_m_scheme t m, if owner then done else N.lor done B_SCHEME), s')
        | (None, s') => (None, s')
        end
      else (Some (m, done), s) in
    match r1 with
    | (None, s) => fail m done s
    | (Some (m, done), s) =>
    (* host *)
    let r2 : option (muri * N) * mstate :=
      if bit mask M_HOST then
        match t_val (m_ipFuture m) with
        | Some _ =>
          match norm_text owner lowercase (m_ipFuture m) s with
          | (Some t, s') => (Some (set_m_hostText {| t_val := t_val t; t_blk := None |} (set_m_ipFuture t m),
                                   if owner then done else N.lor done B_HOST), s')
          | (None, s') => (None, s')
          end
        | None =>
          match t_val (m_hostText m), m_ip4 m, m_ip6 m with
          | Some _, None, None =>
            match norm_text owner (fun x => lowercase_except_pct (fix_pct x)) (m_hostText m) s with
            | (Some t, s') => (Some (set_m_hostText t m, if owner then done else N.lor done B_HOST), s')
            | (None, s') => (None, s')
            end
          | _, _, _ => (Some (m, done), s)
          end
        end
      else (Some (m, done), s) in
    match r2 with
    | (None, s) => fail m done s
    | (Some (m, done), s) =>
    (* user info *)
    let r3 : option (muri * N) * mstate :=
      if bit mask M_USER_INFO && is_some (t_val (m_userInfo m)) then
        match norm_text owner fix_pct (m_userInfo m) s with
        | (Some t, s') => (Some (set_m_userInfo t m, if owner then done else N.lor done B_USER), s')
        | (None, s') => (None, s')
        end
      else (Some (m, done), s) in
    match r3 with
    | (None, s) => fail m done s
    | (Some (m, done), s) =>
    (* path *)
    let r4 : option (muri * N) * muri * N * mstate :=      (* on failure: the object and mask to clean up with *)
      if bit mask M_PATH then
        let relative := negb (is_some (t_val (m_scheme m))) && negb (m_abs m) && negb (m_host_set m) in
        let step1 : bool * muri * N * mstate :=
          if owner then
            (true, set_m_segs (map (fun sg => {| sg_text := fix_pct (sg_text sg); sg_blk := sg_blk sg; sg_node := sg_node sg |}) (m_segs m)) m, done, s)
          else
            let '(ok, segs, s') := norm_segs_malloc [] (m_segs m) s in
            (ok, set_m_segs segs m, if ok then N.lor done B_PATH else done, s') in
        match step1 with
        | (false, m1, done1, s1) => (None, m1, done1, s1)
        | (true, m1, done1, s1) =>
          let '(ok, m2, s2) := remove_dot_segments_m relative (owner || negb (N.land done1 B_PATH =? 0)) m1 s1 in
          if ok then
            let '(ok', m2', s2') := fix_ambiguity_owned_m m2 s2 in
            if ok' then let '(m3, s3) := fix_empty_trail_m m2' s2' in (Some (m3, done1), m3, done1, s3)
            else (None, m2', done1, s2')
          else (None, m2, done1, s2)
        end
      else (Some (m, done), m, done, s) in
    match r4 with
    | (None, mf, donef, s) => fail mf donef s
    | (Some (m, done), _, _, s) =>
    (* query, fragment *)
    let r5 : option (muri * N) * mstate :=
      if bit mask M_QUERY && is_some (t_val (m_query m)) then
        match norm_text owner fix_pct (m_query m) s with
        | (Some t, s') => (Some (set_m_query t m, if owner then done else N.lor done B_QUERY), s')
        | (None, s') => (None, s')
        end
      else (Some (m, done), s) in
    match r5 with
    | (None, s) => fail m done s
    | (Some (m, done), s) =>
    let r6 : option (muri * N) * mstate :=
      if bit mask M_FRAGMENT && is_some (t_val (m_fragment m)) then
        match norm_text owner fix_pct (m_fragment m) s with
        | (Some t, s') => (Some (set_m_fragment t m, if owner then done else N.lor done B_FRAG), s')
        | (None, s') => (None, s')
        end
      else (Some (m, done), s) in
    match r6 with
    | (None, s) => fail m done s
    | (Some (m, done), s) =>
    (* Dup all not duped yet *)
    if owner then (URI_SUCCESS, m, s)
    else match make_owner_engine m done s with
         | (true, m', _, s') => (URI_SUCCESS, set_m_owner true m', s')
         | (false, m', done', s') => fail m' done' s'
         end
    end end end end end end.

(* ---------------------------------------------------------------- uriCopyPath / uriCopyAuthority / uriMergePath *)
(* the destination borrows the texts of the source (block = None: not its own block) *)
Definition borrow (t : mtext) : mtext := {| t_val := t_val t; t_blk := None |}.

Fixpoint copy_segs (acc : list mseg) (src : list mseg) (s : mstate) : bool * list mseg * mstate :=
  match src with
  | [] => (true, rev acc, s)
  | sg :: r =>
    match alloc false SEG_SIZE s with
    | (Some id, s') => copy_segs ({| sg_text := sg_text sg; sg_blk := None; sg_node := id |} :: acc) r s'
    | (None, s') => (false, rev acc, s')           (* Fix broken list *)
    end
  end.

Definition copy_path_m (dest src : muri) (s : mstate) : bool * muri * mstate :=
  let '(ok, segs, s') := copy_segs [] (m_segs src) s in
  if ok then (true, set_m_abs (m_abs src) (set_m_segs segs dest), s')
  else (false, set_m_segs segs dest, s').

Definition copy_authority_m (dest src : muri) (s : mstate) : bool * muri * mstate :=
  let d := set_m_hostText (borrow (m_hostText src)) (set_m_userInfo (borrow (m_userInfo src)) dest) in
  match m_ip4 src with
  | Some (v, _) =>
    match alloc false IP4_SIZE s with
    | (Some id, s') => (true, set_m_portText (borrow (m_portText src)) (set_m_ipFuture mt_none (set_m_ip6 None (set_m_ip4 (Some (v, id)) d))), s')
    | (None, s') => (false, d, s')
    end
  | None =>
    match m_ip6 src with
    | Some (v, _) =>
      match alloc false IP6_SIZE s with
      | (Some id, s') => (true, set_m_portText (borrow (m_portText src)) (set_m_ipFuture mt_none (set_m_ip6 (Some (v, id)) (set_m_ip4 None d))), s')
      | (None, s') => (false, set_m_ip4 None d, s')
      end
    | None => (true, set_m_portText (borrow (m_portText src)) (set_m_ipFuture (borrow (m_ipFuture src)) (set_m_ip6 None (set_m_ip4 None d))), s)
    end
  end.

(* uriMergePath *)
Definition merge_path_m (work rel : muri) (s : mstate) : bool * muri * mstate :=
  match m_segs rel with
  | [] => (true, work, s)
  | r1 :: rr =>
    (* make sure there is a last segment to overwrite *)
    let pre : option (list mseg) * mstate :=
      match m_segs work with
      | [] => match alloc false SEG_SIZE s with
              | (Some id, s') => (Some [{| sg_text := []; sg_blk := None; sg_node := id |}], s')
              | (None, s') => (None, s')
              end
      | l => (Some l, s)
      end in
    match pre with
    | (None, s') => (false, work, s')
    | (Some l, s') =>
      let init := removelast l in
      let lastn := sg_node (last l {| sg_text := []; sg_blk := None; sg_node := 0 |}) in
      let first := {| sg_text := sg_text r1; sg_blk := None; sg_node := lastn |} in
      let '(ok, more, s'') := copy_segs [] rr s' in
      (ok, set_m_segs (init ++ first :: more) work, s'')
    end
  end.

(* uriResolveAbsolutePathFlag *)
Definition resolve_abs_flag_m (m : muri) (s : mstate) : option muri * mstate :=
  if m_host_set m && m_abs m then
    match m_segs m with
    | [] => match alloc false SEG_SIZE s with
            | (Some id, s') => (Some (set_m_abs false (set_m_segs [{| sg_text := []; sg_blk := None; sg_node := id |}] m)), s')
            | (None, s') => (None, s')
            end
    | _ => (Some (set_m_abs false m), s)
    end
  else (Some m, s).

(* ---------------------------------------------------------------- uriAddBaseUriExMm *)
Definition add_base_impl_m (compat : bool) (rel base : muri) (s : mstate) : N * muri * mstate :=
  let d := muri_empty in
  match t_val (m_scheme base) with
  | None => (URI_ERROR_ADDBASE_REL_BASE, d, s)
  | Some _ =>
    let rel_has_scheme :=
      is_some (t_val (m_scheme rel))
      && negb (compat && range_eqb (t_val (m_scheme base)) (t_val (m_scheme rel))) in
    let finish (d : muri) (s : mstate) :=
      let '(d, s) := fix_empty_trail_m d s in
      (URI_SUCCESS, set_m_fragment (borrow (m_fragment rel)) d, s) in
    (* copy authority + path of [src], remove dots, fix ambiguity *)
    let take_from (src : muri) (d : muri) (s : mstate) : bool * muri * mstate :=
      let '(ok, d, s) := copy_authority_m d src s in
      if negb ok then (false, d, s) else
      let '(ok, d, s) := copy_path_m d src s in
      if negb ok then (false, d, s) else
      let '(ok, d, s) := remove_dot_segments_m false (m_owner d) d s in
      if negb ok then (false, d, s) else
      fix_ambiguity_m d s in
    if rel_has_scheme then
      let d := set_m_scheme (borrow (m_scheme rel)) d in
      let '(ok, d, s) := take_from rel d s in
      if negb ok then (URI_ERROR_MALLOC, d, s)
      else finish (set_m_query (borrow (m_query rel)) d) s
    else if m_host_set rel then
      let '(ok, d, s) := copy_authority_m d rel s in
      if negb ok then (URI_ERROR_MALLOC, d, s) else
      let '(ok, d, s) := copy_path_m d rel s in
      if negb ok then (URI_ERROR_MALLOC, d, s) else
      let '(ok, d, s) := remove_dot_segments_m false (m_owner d) d s in
      if negb ok then (URI_ERROR_MALLOC, d, s)
      else finish (set_m_scheme (borrow (m_scheme base)) (set_m_query (borrow (m_query rel)) d)) s
    else
      let '(ok, d, s) := copy_authority_m d base s in
      if negb ok then (URI_ERROR_MALLOC, d, s) else
      match m_segs rel, m_abs rel with
      | [], false =>
        let '(ok, d, s) := copy_path_m d base s in
        if negb ok then (URI_ERROR_MALLOC, d, s)
        else finish (set_m_scheme (borrow (m_scheme base))
                       (set_m_query (borrow (match t_val (m_query rel) with Some _ => m_query rel | None => m_query base end)) d)) s
      | _, _ =>
        if m_abs rel then
          let '(ok, d, s) := copy_path_m d rel s in
          if negb ok then (URI_ERROR_MALLOC, d, s) else
          match resolve_abs_flag_m d s with
          | (None, s) => (URI_ERROR_MALLOC, d, s)
          | (Some d, s) =>
            let '(ok, d, s) := remove_dot_segments_m false (m_owner d) d s in
            if negb ok then (URI_ERROR_MALLOC, d, s) else
            let '(ok, d, s) := fix_ambiguity_m d s in
            if negb ok then (URI_ERROR_MALLOC, d, s)
            else finish (set_m_scheme (borrow (m_scheme base)) (set_m_query (borrow (m_query rel)) d)) s
          end
        else
          let '(ok, d, s) := copy_path_m d base s in
          if negb ok then (URI_ERROR_MALLOC, d, s) else
          let '(ok, d, s) := merge_path_m d rel s in
          if negb ok then (URI_ERROR_MALLOC, d, s) else
          let '(ok, d, s) := remove_dot_segments_m false (m_owner d) d s in
          if negb ok then (URI_ERROR_MALLOC, d, s) else
          let '(ok, d, s) := fix_ambiguity_m d s in
          if negb ok then (URI_ERROR_MALLOC, d, s)
          else finish (set_m_scheme (borrow (m_scheme base)) (set_m_query (borrow (m_query rel)) d)) s
      end
  end.

(* the public wrapper frees the destination's members on any error *)
Definition add_base_m (compat : bool) (rel base : muri) (s : mstate) : N * muri * mstate :=
  let '(rc, d, s) := add_base_impl_m compat rel base s in
  if rc =? 0 then (rc, d, s)
  else let '(d', s') := free_members d s in (rc, d', s').

(* ---------------------------------------------------------------- uriRemoveBaseUriMm *)
Fixpoint append_segs (acc : list mseg) (texts : list text) (s : mstate) : bool * list mseg * mstate :=
  match texts with
  | [] => (true, rev acc, s)
  | t :: r =>
    match alloc false SEG_SIZE s with
    | (Some id, s') => append_segs ({| sg_text := t; sg_blk := None; sg_node := id |} :: acc) r s'
    | (None, s') => (false, rev acc, s')
    end
  end.

Definition remove_base_impl_m (domain_root : bool) (src base : muri) (s : mstate) : N * muri * mstate :=
  let d := muri_empty in
  match t_val (m_scheme base), t_val (m_scheme src) with
  | None, _ => (URI_ERROR_REMOVEBASE_REL_BASE, d, s)
  | Some _, None => (URI_ERROR_REMOVEBASE_REL_SOURCE, d, s)
  | Some _, Some _ =>
    let finish (d : muri) (s : mstate) :=
      (URI_SUCCESS, set_m_fragment (borrow (m_fragment src)) (set_m_query (borrow (m_query src)) d), s) in
    let es := erase src in let eb := erase base in
    if negb (range_eqb (scheme es) (scheme eb)) then
      let d := set_m_scheme (borrow (m_scheme src)) d in
      let '(ok, d, s) := copy_authority_m d src s in
      if negb ok then (URI_ERROR_MALLOC, d, s) else
      let '(ok, d, s) := copy_path_m d src s in
      if negb ok then (URI_ERROR_MALLOC, d, s) else finish d s
    else if negb (equals_authority es eb) then
      let d := if negb (is_host_set es) && is_host_set eb then set_m_scheme (borrow (m_scheme src)) d else d in
      let '(ok, d, s) := copy_authority_m d src s in
      if negb ok then (URI_ERROR_MALLOC, d, s) else
      let '(ok, d, s) := copy_path_m d src s in
      if negb ok then (URI_ERROR_MALLOC, d, s) else finish d s
    else if domain_root then
      let '(ok, d, s) := copy_path_m d src s in
      if negb ok then (URI_ERROR_MALLOC, d, s) else
      (* the path "/" is the absolute path without segments: the node of a lone empty segment is released *)
      let '(d, s) := fix_empty_trail_m (set_m_abs true d) s in
      let '(ok, d, s) := fix_ambiguity_m d s in
      if negb ok then (URI_ERROR_MALLOC, d, s) else finish d s
    else
      let '(s', b') := skip_common (pathSegs es) (pathSegs eb) in
      let ups := parents b' in
      let naked := match ups with [] => true | _ => false end in
      let '(ok, segs, s) := append_segs [] (ups ++ rest_segments naked s') s in
      if ok then finish (set_m_segs segs d) s else (URI_ERROR_MALLOC, set_m_segs segs d, s)
  end.

Definition remove_base_m (domain_root : bool) (src base : muri) (s : mstate) : N * muri * mstate :=
  let '(rc, d, s) := remove_base_impl_m domain_root src base s in
  if rc =? 0 then (rc, d, s)
  else let '(d', s') := free_members d s in (rc, d', s').

End WithCsize.
