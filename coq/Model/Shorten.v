(* Model of src/UriShorten.c: uriRemoveBaseUriMm (pure tier). *)
From Coq Require Import ZArith.
From UP Require Import Base.Chars Model.Uri Model.Common Model.Compare Model.Resolve.
Local Open Scope N_scope.

(* uriEqualsAuthority: user info, port, then the host by kind.  A registered name (no IP data in the
   first URI) is only compared with a host that has no IP data either: an IP literal with the same text,
   e.g. "[v1.x]" against the registered name "v1.x", is a different host *)
Definition equals_authority (a b : uri) : bool :=
  range_eqb (userInfo a) (userInfo b) && range_eqb (portText a) (portText b) &&
  match ip4 a with
  | Some x => match ip4 b with Some y => bytes_eqb x y | None => false end
  | None =>
    match ip6 a with
    | Some x => match ip6 b with Some y => bytes_eqb x y | None => false end
    | None =>
      match ipFuture a with
      | Some _ => is_some (ipFuture b) && range_eqb (ipFuture a) (ipFuture b)
      | None =>
        if is_some (ip4 b) || is_some (ip6 b) || is_some (ipFuture b) then false
        else range_eqb (hostText a) (hostText b)
      end
    end
  end.

(* [22/50] the common-prefix walk *)
Fixpoint skip_common (s b : list text) : list text * list text :=
  match s, b with
  | x :: s', y :: b' =>
    if range_eqb (Some x) (Some y)
       && negb ((match x with [] => true | _ => false end)
                && negb (Bool.eqb (match s' with [] => true | _ => false end)
                                  (match b' with [] => true | _ => false end)))
    then skip_common s' b'
    else (s, b)
  | _, _ => (s, b)
  end.

(* [26/50] one ".." for every remaining base segment but the last *)
Fixpoint parents (b : list text) : list text :=
  match b with
  | _ :: ((_ :: _) as b') => [46; 46] :: parents b'
  | _ => []
  end.

(* [31/50] the remaining source segments, the first one guarded when the path is still naked *)
Definition rest_segments (naked : bool) (s : list text) : list text :=
  match s with
  | [] => []
  | x :: s' =>
    (if naked && (has_colon x || match x with [] => true | _ => false end) then [[46]] else []) ++ x :: s'
  end.

Definition remove_base_impl (domain_root : bool) (src base : uri) : N * uri :=
  let d := empty_uri in
  match scheme base, scheme src with
  | None, _ => (URI_ERROR_REMOVEBASE_REL_BASE, d)
  | Some _, None => (URI_ERROR_REMOVEBASE_REL_SOURCE, d)
  | Some _, Some _ =>
    let d :=
      if negb (range_eqb (scheme src) (scheme base)) then
        copy_path (copy_authority (set_scheme (scheme src) d) src) src
      else if negb (equals_authority src base) then
        let d := if negb (is_host_set src) && is_host_set base then set_scheme (scheme src) d else d in
        copy_path (copy_authority d src) src
      else if domain_root then
        (* the path "/" is the absolute path without segments: uriFixEmptyTrailSegment ([dest] has no
           authority here), then uriFixAmbiguity *)
        fix_ambiguity (fix_empty_trail_segment (set_absolutePath true (copy_path d src)))
      else
        let '(s, b) := skip_common (pathSegs src) (pathSegs base) in
        let ups := parents b in
        let naked := match ups with [] => true | _ => false end in
        set_pathSegs (ups ++ rest_segments naked s) d in
    (URI_SUCCESS, set_fragment (fragment src) (set_query (query src) d))
  end.

Definition remove_base (domain_root : bool) (src base : uri) : N * uri := remove_base_impl domain_root src base.
