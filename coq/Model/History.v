(* Histories of the pure tier: a store of URI objects in numbered slots and the library calls that fill
   them -- uriParseSingleUriExMm, uriAddBaseUriExMm, uriRemoveBaseUriMm, uriNormalizeSyntaxExMm,
   uriMakeOwnerMm, uriFreeUriMembersMm -- in any order, on any slots (property C07 quantifies over these).
   A call whose operand slot is empty cannot be made (the store stays as it is); a call that fails leaves
   its destination empty (the C code resets / frees the destination on every error path). *)
From Coq Require Import List NArith Bool.
From UP Require Import Base.Chars Model.Uri Model.Parse Model.Resolve Model.Shorten Model.Normalize.
Import ListNotations.
Local Open Scope N_scope.

Inductive step :=
| SParse (slot : nat) (s : text)                             (* slot := parse s *)
| SAddBase (dst rel base : nat) (compat : bool)              (* dst := rel resolved against base *)
| SRemoveBase (dst src base : nat) (domain_root : bool)      (* dst := src made relative to base *)
| SNormalize (slot : nat) (mask : N)                         (* in place *)
| SMakeOwner (slot : nat)                                    (* in place *)
| SFree (slot : nat).

Definition store := nat -> option uri.
Definition empty_store : store := fun _ => None.
Definition put (st : store) (i : nat) (o : option uri) : store :=
  fun j => if Nat.eqb j i then o else st j.

Definition on_success (r : N * uri) : option uri :=
  if fst r =? URI_SUCCESS then Some (snd r) else None.

Definition run_step (st : store) (op : step) : store :=
  match op with
  | SParse i s => put st i (match parse s with POk u => Some u | PSyntax _ => None end)
  | SAddBase d r b compat =>
    match st r, st b with
    | Some ur, Some ub => put st d (on_success (add_base compat ur ub))
    | _, _ => st
    end
  | SRemoveBase d s b dr =>
    match st s, st b with
    | Some us, Some ub => put st d (on_success (remove_base dr us ub))
    | _, _ => st
    end
  | SNormalize i mask =>
    match st i with Some u => put st i (Some (normalize mask u)) | None => st end
  | SMakeOwner i =>
    match st i with Some u => put st i (Some (make_owner u)) | None => st end
  | SFree i => put st i None
  end.

Definition run (st : store) (ops : list step) : store := fold_left run_step ops st.

(* every normalization step of the history is applied to an object (and with a mask) that [ok] admits *)
Fixpoint normalize_steps_ok (ok : N -> uri -> Prop) (st : store) (ops : list step) : Prop :=
  match ops with
  | [] => True
  | op :: r =>
    match op with
    | SNormalize i mask => match st i with Some u => ok mask u | None => True end
    | _ => True
    end
    /\ normalize_steps_ok ok (run_step st op) r
  end.
