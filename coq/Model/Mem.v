(* Memory tier: the allocation ledger and the URI object with ownership.

   A state-and-failure monad over an allocation ledger.  malloc / calloc / free are the only
   effects; the fault plan says which allocation requests fail.  Sizes are in bytes:
   [csize] is sizeof(URI_CHAR) (1 or 4), the structure sizes are those of the LP64 build the
   harness runs (sizeof(UriPathSegment) = 32, sizeof(UriIp4) = 4, sizeof(UriIp6) = 16).

   A memory-tier URI ([muri]) is the value-level URI plus, for every component, the block
   that holds it when it lives on the heap.  [erase] forgets the blocks. *)
From Coq Require Import List NArith Bool.
From UP Require Import Base.Chars Model.Uri.
Import ListNotations.
Local Open Scope N_scope.

Definition SEG_SIZE : N := 32.
Definition IP4_SIZE : N := 4.
Definition IP6_SIZE : N := 16.

Inductive fault_plan :=
| NoFault
| FailOnce (k : nat)       (* the k-th allocation request (1-based) fails *)
| FailFrom (k : nat).      (* every request from the k-th on fails *)

Inductive event :=
| EvMalloc (size : N) (ok : bool)
| EvCalloc (size : N) (ok : bool)
| EvFree (size : N)
| EvBadFree.               (* free of a block that is not live: never handed out, or already released *)

Record mstate := {
  ms_next : nat;                     (* next block id *)
  ms_live : list (nat * N);          (* live blocks: id, size *)
  ms_requests : nat;                 (* allocation requests made so far *)
  ms_plan : fault_plan;
  ms_trace : list event }.           (* most recent first *)

Definition ms_init (p : fault_plan) : mstate :=
  {| ms_next := 0; ms_live := []; ms_requests := 0; ms_plan := p; ms_trace := [] |}.

Definition plan_fails (p : fault_plan) (n : nat) : bool :=
  match p with
  | NoFault => false
  | FailOnce k => Nat.eqb n k
  | FailFrom k => Nat.leb k n
  end.

(* result of an allocation: Some id, or None (NULL) *)
Definition alloc (calloc : bool) (size : N) (s : mstate) : option nat * mstate :=
  let n := S (ms_requests s) in
  if plan_fails (ms_plan s) n then
    (None, {| ms_next := ms_next s; ms_live := ms_live s; ms_requests := n; ms_plan := ms_plan s;
              ms_trace := (if calloc then EvCalloc size false else EvMalloc size false) :: ms_trace s |})
  else
    (Some (ms_next s),
     {| ms_next := S (ms_next s); ms_live := (ms_next s, size) :: ms_live s; ms_requests := n;
        ms_plan := ms_plan s;
        ms_trace := (if calloc then EvCalloc size true else EvMalloc size true) :: ms_trace s |}).

Fixpoint remove_blk (id : nat) (l : list (nat * N)) : option (N * list (nat * N)) :=
  match l with
  | [] => None
  | (i, sz) :: r =>
    if Nat.eqb i id then Some (sz, r)
    else match remove_blk id r with
         | Some (sz', r') => Some (sz', (i, sz) :: r')
         | None => None
         end
  end.

Definition free_blk (id : nat) (s : mstate) : mstate :=
  match remove_blk id (ms_live s) with
  | Some (sz, l') => {| ms_next := ms_next s; ms_live := l'; ms_requests := ms_requests s;
                        ms_plan := ms_plan s; ms_trace := EvFree sz :: ms_trace s |}
  | None => {| ms_next := ms_next s; ms_live := ms_live s; ms_requests := ms_requests s;
               ms_plan := ms_plan s; ms_trace := EvBadFree :: ms_trace s |}
  end.

Definition free_opt (o : option nat) (s : mstate) : mstate :=
  match o with Some id => free_blk id s | None => s end.

(* ---------------------------------------------------------------- URI objects with ownership *)
(* a text range and, if it is a heap block of its own, that block *)
Record mtext := { t_val : option text; t_blk : option nat }.
Definition mt_none : mtext := {| t_val := None; t_blk := None |}.
Definition mt_borrowed (t : text) : mtext := {| t_val := Some t; t_blk := None |}.

Record mseg := { sg_text : text; sg_blk : option nat; sg_node : nat }.

Record muri := {
  m_scheme : mtext;
  m_userInfo : mtext;
  m_hostText : mtext;            (* for an IPvFuture host the block is recorded in m_ipFuture only *)
  m_ip4 : option (list N * nat);
  m_ip6 : option (list N * nat);
  m_ipFuture : mtext;
  m_portText : mtext;
  m_segs : list mseg;
  m_query : mtext;
  m_fragment : mtext;
  m_abs : bool;
  m_owner : bool }.

Definition muri_empty : muri :=
  {| m_scheme := mt_none; m_userInfo := mt_none; m_hostText := mt_none; m_ip4 := None; m_ip6 := None;
     m_ipFuture := mt_none; m_portText := mt_none; m_segs := []; m_query := mt_none;
     m_fragment := mt_none; m_abs := false; m_owner := false |}.

Definition erase (m : muri) : uri :=
  mkUri (t_val (m_scheme m)) (t_val (m_userInfo m)) (t_val (m_hostText m))
        (match m_ip4 m with Some (b, _) => Some b | None => None end)
        (match m_ip6 m with Some (b, _) => Some b | None => None end)
        (t_val (m_ipFuture m)) (t_val (m_portText m)) (map sg_text (m_segs m))
        (t_val (m_query m)) (t_val (m_fragment m)) (m_abs m) (m_owner m).

(* every block the object refers to *)
Definition blk_list (o : option nat) : list nat := match o with Some b => [b] | None => [] end.
Definition muri_blocks (m : muri) : list nat :=
  blk_list (t_blk (m_scheme m)) ++ blk_list (t_blk (m_userInfo m)) ++ blk_list (t_blk (m_hostText m))
  ++ match m_ip4 m with Some (_, b) => [b] | None => [] end
  ++ match m_ip6 m with Some (_, b) => [b] | None => [] end
  ++ blk_list (t_blk (m_ipFuture m)) ++ blk_list (t_blk (m_portText m))
  ++ flat_map (fun s => sg_node s :: blk_list (sg_blk s)) (m_segs m)
  ++ blk_list (t_blk (m_query m)) ++ blk_list (t_blk (m_fragment m)).

(* uriFreeUriMembersMm.  With owner set every non-empty text is released (the C code frees
   [first] when first != afterLast; a text that is not a heap block would be a bad free: the
   model records that as freeing "no block"); nodes and address blocks are always released.
   All pointers are reset, so a second call finds nothing. *)
Definition free_text (owner : bool) (t : mtext) (s : mstate) : mstate :=
  if owner then
    match t_val t with
    | Some (_ :: _) => match t_blk t with
                       | Some b => free_blk b s
                       | None => {| ms_next := ms_next s; ms_live := ms_live s; ms_requests := ms_requests s;
                                    ms_plan := ms_plan s; ms_trace := EvBadFree :: ms_trace s |}
                       end
    | _ => s
    end
  else s.

Definition free_seg (owner : bool) (sg : mseg) (s : mstate) : mstate :=
  let s := if owner then
             match sg_text sg with
             | _ :: _ => match sg_blk sg with
                         | Some b => free_blk b s
                         | None => {| ms_next := ms_next s; ms_live := ms_live s; ms_requests := ms_requests s;
                                      ms_plan := ms_plan s; ms_trace := EvBadFree :: ms_trace s |}
                         end
             | [] => s
             end
           else s in
  free_blk (sg_node sg) s.

Definition free_members (m : muri) (s : mstate) : muri * mstate :=
  let o := m_owner m in
  let s := free_text o (m_scheme m) s in
  let s := free_text o (m_userInfo m) s in
  (* IPvFuture first: it shares its range with hostText *)
  let s := free_text o (m_ipFuture m) s in
  let s := match t_val (m_ipFuture m) with
           | Some _ => s
           | None => free_text o (m_hostText m) s
           end in
  let s := match m_ip4 m with Some (_, b) => free_blk b s | None => s end in
  let s := match m_ip6 m with Some (_, b) => free_blk b s | None => s end in
  let s := free_text o (m_portText m) s in
  let s := fold_left (fun st sg => free_seg o sg st) (m_segs m) s in
  let s := free_text o (m_query m) s in
  let s := free_text o (m_fragment m) s in
  (* with owner every range is reset to NULL; without, the ranges keep pointing into the input *)
  (if o then {| m_scheme := mt_none; m_userInfo := mt_none; m_hostText := mt_none; m_ip4 := None; m_ip6 := None;
               m_ipFuture := mt_none; m_portText := mt_none; m_segs := []; m_query := mt_none;
               m_fragment := mt_none; m_abs := m_abs m; m_owner := true |}
   else {| m_scheme := m_scheme m; m_userInfo := m_userInfo m; m_hostText := m_hostText m; m_ip4 := None; m_ip6 := None;
           m_ipFuture := m_ipFuture m; m_portText := m_portText m; m_segs := []; m_query := m_query m;
           m_fragment := m_fragment m; m_abs := m_abs m; m_owner := false |}, s).

(* the printed form of a trace, oldest first: sizes only (addresses are not observable) *)
Definition trace_of (s : mstate) : list event := rev (ms_trace s).
Definition live_count (s : mstate) : nat := length (ms_live s).
Definition bad_frees (s : mstate) : nat := length (filter (fun e => match e with EvBadFree => true | _ => false end) (ms_trace s)).
