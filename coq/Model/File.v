(* Model of src/UriFile.c on texts.  A C string is represented by its content; reading
   filename[i] behind the content yields the terminator 0 ([nth i f 0]). *)
From UP Require Import Base.Chars Model.Escape.
Local Open Scope N_scope.

(* "file:" "file:/" "file://" "file:///" *)
Definition s_file : text := [102; 105; 108; 101; 58].
Definition s_file1 : text := s_file ++ [47].
Definition s_file2 : text := s_file ++ [47; 47].
Definition s_file3 : text := s_file ++ [47; 47; 47].

(* ---- uriFilenameToUriString ---------------------------------------------------- *)
Definition is_sep (from_unix : bool) (c : N) : bool := if from_unix then c =? 47 else c =? 92.

(* is_windows_network = (filename[0] == '\\') && (filename[1] == '\\') *)
Definition is_windows_network (f : text) : bool := (nth 0 f 0 =? 92) && (nth 1 f 0 =? 92).

(* absolute = fromUnix ? filename[0] == '/'
                       : ((filename[0] != 0) && (filename[1] == ':')) || is_windows_network *)
Definition fn_absolute (from_unix : bool) (f : text) : bool :=
  if from_unix then nth 0 f 0 =? 47
  else (negb (nth 0 f 0 =? 0) && (nth 1 f 0 =? 58)) || is_windows_network f.

Definition fn_prefix (from_unix : bool) (f : text) : text :=
  if fn_absolute from_unix f then
    (if from_unix then s_file2 else if is_windows_network f then s_file else s_file3)
  else [].

(* "Copy text after last separator": nothing for an empty segment; the first segment of an
   absolute Windows name is copied unescaped ("C:"), every other one goes through uriEscapeEx *)
Definition flush_seg (from_unix absolute first_seg : bool) (seg : text) : text :=
  match seg with
  | [] => []
  | _ => if negb from_unix && absolute && first_seg then seg else escape false false seg
  end.

(* the for(;;) loop; [seg] = the characters between lastSep + 1 and input *)
Fixpoint f2u_loop (from_unix absolute first_seg : bool) (seg : text) (l : text) : text :=
  match l with
  | [] => flush_seg from_unix absolute first_seg seg
  | c :: r =>
    if c =? 0 then flush_seg from_unix absolute first_seg seg
    else if is_sep from_unix c then
      flush_seg from_unix absolute first_seg seg ++ 47 :: f2u_loop from_unix absolute false [] r
    else f2u_loop from_unix absolute first_seg (seg ++ [c]) r
  end.

Definition filename_to_uri_string (from_unix : bool) (f : text) : text :=
  fn_prefix from_unix f ++ f2u_loop from_unix (fn_absolute from_unix f) true [] f.

Definition unix_filename_to_uri_string := filename_to_uri_string true.
Definition windows_filename_to_uri_string := filename_to_uri_string false.

(* number of characters stored into uriString (text and terminator, stores are consecutive) *)
Definition f2u_extent (from_unix : bool) (f : text) : nat :=
  S (length (filename_to_uri_string from_unix f)).

(* ---- uriUriStringToFilename ---------------------------------------------------- *)
(* strncmp(s, p, strlen(p)) == 0 *)
Fixpoint starts_with (p s : text) : bool :=
  match p, s with
  | [], _ => true
  | a :: p', b :: s' => (a =? b) && starts_with p' s'
  | _ :: _, [] => false
  end.

Definition chars_to_skip (to_unix : bool) (s : text) : nat :=
  let f0 := starts_with s_file s in
  let f1 := f0 && starts_with s_file1 s in
  let f2 := f1 && starts_with s_file2 s in
  let f3 := f2 && starts_with s_file3 s in
  if f2 then (if f3 then (if to_unix then 7 else 8) else 7)
  else if f1 && to_unix then 5
  else if negb to_unix && f0 && negb f1 then 5
  else 0%nat.

Definition is_network_with_authority (to_unix : bool) (s : text) : bool :=
  negb to_unix && starts_with s_file2 s && negb (starts_with s_file3 s).

Definition slash_to_backslash (c : N) : N := if c =? 47 then 92 else c.

(* the characters stored into filename before unescaping: optional "\\\\" then the copied tail *)
Definition u2f_buffer (to_unix : bool) (s : text) : text :=
  (if is_network_with_authority to_unix s then [92; 92] else [])
    ++ skipn (chars_to_skip to_unix s) s.

(* number of characters stored into filename (buffer and terminator) *)
Definition u2f_extent (to_unix : bool) (s : text) : nat := S (length (u2f_buffer to_unix s)).

Definition uri_string_to_filename (to_unix : bool) (s : text) : text :=
  let u := until_nul (unescape false BrDontTouch (u2f_buffer to_unix s)) in
  if to_unix then u else map slash_to_backslash u.

Definition uri_string_to_unix_filename := uri_string_to_filename true.
Definition uri_string_to_windows_filename := uri_string_to_filename false.
