(* C16 — percent-escaping is lossless, bounded and safe in place.
   Statements only; the proofs are in Proofs/EscapeProofs.v. *)
From UP Require Import Base.Chars Model.Escape Spec.PctSpec Proofs.EscapeProofs.
Local Open Scope N_scope.

(* escaping emits only unreserved characters, %XX with upper-case hex digits, and '+' only when requested *)
Theorem C16_escape_charset : forall stp nb l, escaped_form stp (escape stp nb l) = true.
Proof. exact escape_charset. Qed.
Print Assumptions C16_escape_charset.

(* never longer than 3x (6x with line-break normalisation) the input *)
Theorem C16_escape_bound : forall stp nb l,
  (length (escape stp nb l) <= (if nb then 6 else 3) * length l)%nat.
Proof. exact escape_bound. Qed.
Print Assumptions C16_escape_bound.

(* unescaping the escaped text with the matching plus/space option restores the input
   (every line break turned into CR LF if normalisation was requested) *)
Theorem C16_unescape_escape : forall stp nb pts l,
  (stp = true -> pts = true) -> Forall (fun c => 1 <= c <= 255) l ->
  unescape pts BrDontTouch (escape stp nb l) = if nb then crlf l else l.
Proof. exact unescape_escape. Qed.
Print Assumptions C16_unescape_escape.

Example C16_nonvacuous :
  unescape true BrDontTouch (escape true true [97; 32; 13; 10; 37; 200; 10])
  = crlf [97; 32; 13; 10; 37; 200; 10]
  /\ escape true true [97; 32; 13; 10; 37; 200; 10]
     = [97; 43; 37;48;68; 37;48;65; 37;50;53; 37;67;56; 37;48;68; 37;48;65].
Proof. split; vm_compute; reflexivity. Qed.

(* unescaping never lengthens the string (the NUL-terminated text the C function sees) *)
Theorem C16_unescape_shrinks : forall pts bc l,
  (length (unescape pts bc l) <= length (until_nul l))%nat.
Proof. exact unescape_shrinks. Qed.
Print Assumptions C16_unescape_shrinks.

(* unescaping is the tokenising specification: every well-formed %HH triplet (either hex case)
   is decoded, a malformed '%' stands for itself, '+' becomes a space only on request, and the
   requested line-break conversion is applied to encoded line breaks *)
Theorem C16_unescape_is_spec : forall pts bc l,
  unescape pts bc l =
  unescape_spec pts
    (match bc with BrToLf => ToLf | BrToCrlf => ToCrlf | BrToCr => ToCr | BrDontTouch => DontTouch end) l.
Proof. exact unescape_is_spec. Qed.
Print Assumptions C16_unescape_is_spec.

(* the cursor-level loop run in place on a buffer  l ++ 0 :: rest  (l NUL-free) terminates within
   its fuel, leaves the pure result followed by a terminator at the returned position, returns a
   position not after the original terminator, keeps the buffer length, changes nothing after the
   original terminator, and never writes at an index past the original terminator *)
Theorem C16_unescape_inplace_refines : forall pts bc l rest,
  Forall (fun c => c <> 0) l ->
  exists buf' ret log,
    unescape_inplace pts bc (l ++ 0 :: rest) = Some (buf', ret, log) /\
    firstn ret buf' = unescape pts bc l /\
    nth ret buf' 0 = 0 /\
    (ret <= length l)%nat /\
    length buf' = length (l ++ 0 :: rest) /\
    skipn (S (length l)) buf' = rest /\
    Forall (fun i => (i <= length l)%nat) log.
Proof. exact unescape_inplace_refines. Qed.
Print Assumptions C16_unescape_inplace_refines.

(* the hypothesis of C16_unescape_inplace_refines is satisfiable, with a non-empty [rest]:
   "a%41%0d%0A%4+%" followed by NUL and three more characters *)
Example C16_inplace_nonvacuous :
  let l := [97; 37;52;49; 37;48;100; 37;48;65; 37;52; 43; 37] in
  let rest := [55; 0; 66] in
  Forall (fun c => c <> 0) l
  /\ unescape_inplace true BrToCrlf (l ++ 0 :: rest)
     = Some ([97; 65; 13; 10; 37; 52; 32; 37; 0; 65; 37; 52; 43; 37; 0; 55; 0; 66], 8%nat,
             [8; 7; 6; 5; 4; 3; 2; 1]%nat)
  /\ unescape true BrToCrlf l = [97; 65; 13; 10; 37; 52; 32; 37].
Proof.
  cbv zeta. split; [|split; vm_compute; reflexivity].
  repeat constructor; discriminate.
Qed.

(* ---- the character switches of UriEscape.c and uriHexdigToInt, translated from the C source on every
   check (Generated/SwitchTables.v), against the case split of the model.  Proofs in Proofs/SwitchEscape.v. *)
From UP Require Import Generated.SwitchTables Proofs.SwitchBase Proofs.SwitchEscape.

Theorem C16_switch_classes :
  (* uriEscapeEx: the group copied unchanged is exactly the unreserved set; the switch is no finer than escape_loop *)
  ((forall c, In c (group_with t_escape 97%N) <-> is_unreserved c = true)
   /\ (forall c d, escape_class c = escape_class d -> group_of t_escape c = group_of t_escape d))
  (* uriUnescapeInPlaceEx: NUL, '%', '+' on read[0]; exactly the hex digits on read[1] and read[2] *)
  /\ ((forall c d, unescape_class c = unescape_class d -> group_of t_unescape0 c = group_of t_unescape0 d)
      /\ (length t_unescape1 = 1%nat /\ forall c, In c (concat t_unescape1) <-> is_hexdig c = true)
      /\ (length t_unescape2 = 1%nat /\ forall c, In c (concat t_unescape2) <-> is_hexdig c = true))
  (* uriHexdigToInt: labels exactly the hex digits, no finer than hexdig_to_int *)
  /\ ((forall c, In c (concat t_hexval) <-> is_hexdig c = true)
      /\ (forall c d, hexval_class c = hexval_class d -> group_of t_hexval c = group_of t_hexval d)).
Proof. exact (conj escape_switch (conj unescape_switches hexval_switch)). Qed.
Print Assumptions C16_switch_classes.
