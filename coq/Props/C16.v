(* C16 — percent-escaping is lossless, bounded and safe in place.
   Statements only; the proofs are in Proofs/EscapeProofs.v. *)
From UP Require Import Base.Chars Model.Escape Spec.PctSpec Proofs.EscapeProofs.
Local Open Scope N_scope.

(* escaping emits only unreserved characters, %XX with upper-case hex digits, and '+' only when requested *)
Theorem C16_escape_charset : forall stp nb l, escaped_form stp (escape stp nb l) = true.
Proof. exact escape_charset. Qed.
Print Assumptions C16_escape_charset.

(* never longer than 3x (6x with line-break normalisation) the input *)
Theorem C16_escape_bound : forall stp nb l,
  (length (escape stp nb l) <= (if nb then 6 else 3) * length l)%nat.
Proof. exact escape_bound. Qed.
Print Assumptions C16_escape_bound.

(* unescaping the escaped text with the matching plus/space option restores the input
   (every line break turned into CR LF if normalisation was requested) *)
Theorem C16_unescape_escape : forall stp nb pts l,
  (stp = true -> pts = true) -> Forall (fun c => 1 <= c <= 255) l ->
  unescape pts BrDontTouch (escape stp nb l) = if nb then crlf l else l.
Proof. exact unescape_escape. Qed.
Print Assumptions C16_unescape_escape.

Example C16_nonvacuous :
  unescape true BrDontTouch (escape true true [97; 32; 13; 10; 37; 200; 10])
  = crlf [97; 32; 13; 10; 37; 200; 10]
  /\ escape true true [97; 32; 13; 10; 37; 200; 10]
     = [97; 43; 37;48;68; 37;48;65; 37;50;53; 37;67;56; 37;48;68; 37;48;65].
Proof. split; vm_compute; reflexivity. Qed.
