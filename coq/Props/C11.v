(* C11 — URI equality means component-wise identity.

   "Two URIs compare equal exactly when all their components are identical: scheme, user info,
   host (IP addresses by value), port, absolute-path flag, the sequence of path segments, query
   and fragment, with an absent component never equal to an empty one.  For URIs produced by
   this library that is the case exactly when their recomposed texts are identical; the relation
   is reflexive, symmetric and transitive, two NULL arguments are equal, and comparing modifies
   neither argument."

   [equals_uri] (Model/Compare.v) is uriEqualsUri, [compare_range]/[strncmp] (Model/Common.v) are
   uriCompareRange and strncmp/wcsncmp; [components_identical], [nul_free], [uri_nul_free] are in
   Spec/Identity.v; [to_text] (Model/Recompose.v) is the text written by uriToString.

   Hypotheses.
   * [uri_nul_free]: no component text contains the code point 0.  The proofs force it: the
     comparison is made with strncmp/wcsncmp, which stop at a NUL, so a range is seen only through
     its length and its part before the first NUL ([C11_nul_free_needed] below is a pair that
     compares equal with different schemes).  Every text put into a URI by the parser is a piece of
     a NUL-terminated string (or of a [first, afterLast) range the caller vouches for), so for
     library-produced URIs it holds; that is a parser fact and is not proved here.  One NUL-free
     side is enough ([C11_equal_iff_identical_one_side]).
   * Nothing about the size of the IP data: [bytes_eqb] is list equality.
   * Lengths are unbounded here; the C code casts the two lengths to int before subtracting, so
     texts longer than INT_MAX are outside the model (DESIGN.md, Appendix B).
   * Reflexivity, symmetry, transitivity, the NULL cases and "identical => equal" need no
     hypothesis at all and are stated for all values.
   * [C11_text_of_identical] needs no hypothesis on the host text: uriToString prints an IPv4 /
     IPv6 host from the bytes and an IPvFuture host from hostData.ipFuture, never from hostText.

   Purity ("comparing modifies neither argument"): [equals_uri] is a function from two values to a
   bool, so in the model there is nothing to state; on the implementation it is observed by the
   harness (both arguments are const-qualified in C and their bytes are compared before/after).

   Not stated here: "for library-produced URIs, same recomposed text => equal".  It needs
   (i) a predicate for the URI values the library can produce (parser results and results of the
   resolve/normalize operations), with [uri_nul_free] and "IP data agrees with the host text" as
   consequences, and (ii) injectivity of [to_text] on that set up to [components_identical], which
   follows from the parser theorems (parse (to_text u) gives back the components of u: C02/C04
   round trip).  For values outside the parser's range the implication is false — see
   [C11_same_text_unequal] (finding D6: a URI built by uriAddBaseUri with text "s:/b" that is not
   equal to the parsed "s:/b"). *)
From Coq Require Import ZArith List Bool.
From UP Require Import Base.Chars Model.Uri Model.Common Model.Compare Model.Recompose
  Spec.Identity Proofs.CompareProofs.
Import ListNotations.
Local Open Scope N_scope.

(* ---- ranges: an absent component is equal to an absent one only; present NUL-free texts are
        equal exactly when they are the same text *)
Theorem C11_range_absent :
  range_eqb None None = true
  /\ forall x, range_eqb None (Some x) = false /\ range_eqb (Some x) None = false.
Proof. exact range_eqb_absent. Qed.
Print Assumptions C11_range_absent.

Theorem C11_range_eq_iff : forall x y, nul_free x -> nul_free y ->
  (range_eqb (Some x) (Some y) = true <-> x = y).
Proof. exact range_eqb_some_iff. Qed.
Print Assumptions C11_range_eq_iff.

(* ---- equal exactly when all components are identical *)
Theorem C11_equal_iff_identical : forall a b, uri_nul_free a -> uri_nul_free b ->
  (equals_uri (Some a) (Some b) = true <-> components_identical a b).
Proof. exact equal_iff_identical. Qed.
Print Assumptions C11_equal_iff_identical.

(* the same with the hypothesis on one argument only *)
Theorem C11_equal_iff_identical_one_side : forall a b, uri_nul_free a \/ uri_nul_free b ->
  (equals_uri (Some a) (Some b) = true <-> components_identical a b).
Proof. exact equal_iff_identical_either. Qed.
Print Assumptions C11_equal_iff_identical_one_side.

(* identical components always compare equal *)
Theorem C11_identical_implies_equal : forall a b,
  components_identical a b -> equals_uri (Some a) (Some b) = true.
Proof. exact identical_equals. Qed.
Print Assumptions C11_identical_implies_equal.

(* ---- NULL arguments *)
Theorem C11_null :
  equals_uri None None = true
  /\ forall a, equals_uri None (Some a) = false /\ equals_uri (Some a) None = false.
Proof. exact equals_uri_null. Qed.
Print Assumptions C11_null.

(* ---- an equivalence relation, on all arguments (NULL or not, NUL-free or not) *)
Theorem C11_reflexive : forall a : option uri, equals_uri a a = true.
Proof. exact equals_uri_refl. Qed.
Print Assumptions C11_reflexive.

Theorem C11_symmetric : forall a b : option uri, equals_uri a b = equals_uri b a.
Proof. exact equals_uri_sym. Qed.
Print Assumptions C11_symmetric.

Theorem C11_transitive : forall a b c : option uri,
  equals_uri a b = true -> equals_uri b c = true -> equals_uri a c = true.
Proof. exact equals_uri_trans. Qed.
Print Assumptions C11_transitive.

(* ---- identical components recompose to the same text; hence equal => same text *)
Theorem C11_text_of_identical : forall a b, components_identical a b -> to_text a = to_text b.
Proof. exact identical_to_text. Qed.
Print Assumptions C11_text_of_identical.

Theorem C11_text_of_equal : forall a b, uri_nul_free a -> uri_nul_free b ->
  equals_uri (Some a) (Some b) = true -> to_text a = to_text b.
Proof. exact equal_to_text. Qed.
Print Assumptions C11_text_of_equal.

(* ---- non-vacuity *)

(* "s:a" and "s:a?": absent query against empty query *)
Example C11_absent_vs_empty :
  let a := mkUri (Some [115]) None None None None None None [[97]] None None false false in
  let b := mkUri (Some [115]) None None None None None None [[97]] (Some []) None false false in
  uri_nul_free a /\ uri_nul_free b
  /\ equals_uri (Some a) (Some b) = false /\ ~ components_identical a b
  /\ to_text a = [115; 58; 97] /\ to_text b = [115; 58; 97; 63].
Proof.
  cbv zeta. repeat split; try (apply uri_nul_freeb_sound; reflexivity); try reflexivity.
  intros H. pose proof (ci_query _ _ H) as Q. discriminate Q.
Qed.

(* "s:/a" and "s:a" differ only in the absolute-path flag.  The original code compared the flag
   only when there was no scheme and reported these two equal (finding D1, repaired in /repo
   commit 0022ce9); the model follows the repaired code. *)
Example C11_absolute_path_flag :
  let a := mkUri (Some [115]) None None None None None None [[97]] None None true false in
  let b := mkUri (Some [115]) None None None None None None [[97]] None None false false in
  uri_nul_free a /\ uri_nul_free b
  /\ equals_uri (Some a) (Some b) = false /\ ~ components_identical a b
  /\ to_text a = [115; 58; 47; 97] /\ to_text b = [115; 58; 97].
Proof.
  cbv zeta. repeat split; try (apply uri_nul_freeb_sound; reflexivity); try reflexivity.
  intros H. pose proof (ci_absolutePath _ _ H) as Q. discriminate Q.
Qed.

(* "s://[::1]" and "s://[0:0:0:0:0:0:0:1]", one owning its memory and one not: different host
   texts, same address; equal, identical components, same recomposed text *)
Example C11_equal_pair :
  let one := [0; 0; 0; 0; 0; 0; 0; 0; 0; 0; 0; 0; 0; 0; 0; 1] in
  let a := mkUri (Some [115]) None (Some [58; 58; 49]) None (Some one) None None [] None None false true in
  let b := mkUri (Some [115]) None (Some [48; 58; 48; 58; 48; 58; 48; 58; 48; 58; 48; 58; 48; 58; 49])
                 None (Some one) None None [] None None false false in
  uri_nul_free a /\ uri_nul_free b /\ hostText a <> hostText b /\ owner a <> owner b
  /\ equals_uri (Some a) (Some b) = true /\ components_identical a b
  /\ to_text a = to_text b.
Proof.
  cbv zeta. repeat split; try (apply uri_nul_freeb_sound; reflexivity); try reflexivity;
    try (intros H; discriminate H).
Qed.

(* the NUL-freeness hypothesis cannot be dropped: strncmp stops at the NUL *)
Example C11_nul_free_needed :
  let a := mkUri (Some [0; 1]) None None None None None None [] None None false false in
  let b := mkUri (Some [0; 2]) None None None None None None [] None None false false in
  equals_uri (Some a) (Some b) = true /\ ~ components_identical a b.
Proof.
  cbv zeta. split; [reflexivity|].
  intros H. pose proof (ci_scheme _ _ H) as Q. discriminate Q.
Qed.

(* "same text => equal" does not hold for arbitrary values: the result of
   uriAddBaseUri("s:a", ".//b") (rootless, segments "" and "b") and the parsed "s:/b" (absolute,
   segment "b") have the same text and are not equal (finding D6) *)
Example C11_same_text_unequal :
  let a := mkUri (Some [115]) None None None None None None [[]; [98]] None None false true in
  let b := mkUri (Some [115]) None None None None None None [[98]] None None true false in
  uri_nul_free a /\ uri_nul_free b
  /\ to_text a = [115; 58; 47; 98] /\ to_text b = [115; 58; 47; 98]
  /\ equals_uri (Some a) (Some b) = false.
Proof.
  cbv zeta. repeat split; try (apply uri_nul_freeb_sound; reflexivity); reflexivity.
Qed.
