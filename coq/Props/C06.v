(* C06 — reference resolution follows RFC 3986 section 5.2.  Statements only. *)
From Coq Require Import List NArith.
From UP Require Import Base.Chars Model.Uri Model.Common Model.Resolve Spec.Resolve.
Import ListNotations.
