(* C06 — reference resolution follows RFC 3986 section 5.2.  Statements only.

   Vocabulary (definitions in Proofs/ResolveProofs.v and Proofs/DotSegments.v):
     five_of_uri u   the five RFC components of a URI object as texts: scheme; authority =
                     [userinfo "@"] host-as-written (in brackets for IP literals) [":" port], defined when
                     uriIsHostSet; path = the segments as uriToString prints them; query; fragment
     wf u            what the parser guarantees of an object: no "/" inside a segment; with a host the
                     absolute-path flag is off; a host-less absolute path does not print as "//..."; a
                     host-less rootless path does not begin with an empty segment; no NUL in the scheme
     corner_obj      host-less result, rootless path to clean (the reference's own, or the merge with a
                     host-less rootless base), and an empty first segment after cleaning.  There "never
                     turn a rootless path into an absolute one" and "the RFC's target" cannot both hold;
                     C06_corner_is_spec_corner: it is exactly Spec.Resolve.unspecified_corner, the corner
                     the run-time oracle (gen/c06.py) leaves out.
   Spec.Resolve.transform is RFC 3986 5.2.2 with the 5.2.3 merge and the 5.2.4 loop (through
   rds_keep_kind); its first argument [strict] is false under the identical-scheme compatibility option.
   guard_slashes puts "/." in front of a host-less path beginning with "//" and does nothing else. *)
From Coq Require Import List NArith Bool String.
From UP Require Import Base.Chars Model.Uri Model.Common Model.Resolve Model.Recompose Spec.Resolve
  Proofs.DotSegments Proofs.ResolveProofs.
Import ListNotations.
Local Open Scope N_scope.

(* ---- the resolution theorem: every absolute base, every reference, both option values ------------- *)
Theorem C06_resolve : forall compat rel base,
  wf rel = true -> wf base = true -> scheme base <> None -> corner_obj compat rel base = false ->
  fst (add_base compat rel base) = URI_SUCCESS
  /\ five_of_uri (snd (add_base compat rel base))
     = guard_slashes (transform (negb compat) (five_of_uri base) (five_of_uri rel)).
Proof. exact resolve_five_obj. Qed.
Print Assumptions C06_resolve.

(* the excluded corner is the specification's, not one chosen to fit the model *)
Theorem C06_corner_is_spec_corner : forall compat rel base,
  wf rel = true -> wf base = true -> scheme base <> None ->
  unspecified_corner (negb compat) (five_of_uri base) (five_of_uri rel) = corner_obj compat rel base.
Proof. exact corner_obj_spec. Qed.
Print Assumptions C06_corner_is_spec_corner.

(* user info, host text, host kind with its data, port: field by field those of the reference when it
   keeps its scheme or has an authority, else those of the base *)
Theorem C06_authority : forall compat rel base,
  one_kind rel = true -> one_kind base = true -> scheme base <> None ->
  auth_fields (snd (add_base compat rel base))
  = auth_fields (if keeps_scheme compat (scheme base) rel || is_host_set rel then rel else base).
Proof. exact resolve_authority. Qed.
Print Assumptions C06_authority.

(* the text uriToString gives for the result is the RFC 5.3 recomposition of the target (hosts that are
   printed as written: no IP data, which uriToString re-renders from the numeric value) *)
Theorem C06_text : forall compat rel base,
  wf rel = true -> wf base = true -> scheme base <> None -> corner_obj compat rel base = false ->
  no_ip rel = true -> no_ip base = true ->
  to_text (snd (add_base compat rel base))
  = recompose (guard_slashes (transform (negb compat) (five_of_uri base) (five_of_uri rel))).
Proof. exact resolve_text_obj. Qed.
Print Assumptions C06_text.

(* ---- a base without scheme is rejected, the destination left reset -------------------------------- *)
Theorem C06_rel_base : forall compat rel base, scheme base = None ->
  add_base compat rel base = (URI_ERROR_ADDBASE_REL_BASE, empty_uri).
Proof. exact add_base_rel_base. Qed.
Print Assumptions C06_rel_base.

(* ---- the identical-scheme compatibility option ----------------------------------------------------- *)
Theorem C06_compat : forall rel base, scheme base <> None -> scheme rel = scheme base ->
  add_base true rel base = add_base true (set_scheme None rel) base.
Proof. exact add_base_compat. Qed.
Print Assumptions C06_compat.

(* and it changes nothing else: no scheme in the reference, or another one (uriCompareRange) *)
Theorem C06_compat_other : forall rel base,
  is_some (scheme rel) && range_eqb (scheme base) (scheme rel) = false ->
  add_base true rel base = add_base false rel base.
Proof. exact add_base_compat_other. Qed.
Print Assumptions C06_compat_other.

(* ---- dot-segment removal: the segment walk of uriRemoveDotSegmentsEx in absolute mode is the string
   loop of RFC 3986 5.2.4.  A rooted path prints as "/" before every segment; the results [] (host-less,
   everything cancelled) and [[]] both print as "/" (rooted_text). -------------------------------- *)
Theorem C06_dot_segments : forall host abs segs, segs <> [] -> forallb noslash segs = true ->
  rooted_text (rds_walk false host abs [] segs)
  = Spec.Resolve.remove_dot_segments (path_text_rooted segs).
Proof. exact rds_walk_rfc. Qed.
Print Assumptions C06_dot_segments.

(* a rootless path stays rootless: cleaned as if rooted, the root taken off again *)
Theorem C06_dot_segments_rootless : forall host abs segs, segs <> [] -> forallb noslash segs = true ->
  head_is 47 (join_text segs) = false ->
  join_text (rds_walk false host abs [] segs) = rds_keep_kind (join_text segs).
Proof. exact rds_walk_rfc_rootless. Qed.
Print Assumptions C06_dot_segments_rootless.

(* no "." or ".." segment is left, and the walk is idempotent *)
Theorem C06_dot_segments_gone : forall host abs segs,
  Forall (fun s => s <> [46] /\ s <> [46; 46]) (rds_walk false host abs [] segs).
Proof. exact rds_walk_nodots_Forall. Qed.
Print Assumptions C06_dot_segments_gone.

Theorem C06_dot_segments_idempotent : forall host abs segs,
  rds_walk false host abs [] (rds_walk false host abs [] segs) = rds_walk false host abs [] segs.
Proof. exact rds_walk_idempotent. Qed.
Print Assumptions C06_dot_segments_idempotent.

(* ---- uriMergePath on segment lists is RFC 3986 5.2.3 on texts ------------------------------------- *)
Theorem C06_merge : forall abs host bsegs rsegs, rsegs <> [] -> forallb noslash bsegs = true ->
  path_text_of abs host (removelast bsegs ++ rsegs)
  = merge host (path_text_of abs host bsegs) (join_text rsegs).
Proof. exact merge_text. Qed.
Print Assumptions C06_merge.

(* ---- non-vacuity ------------------------------------------------------------------------------------ *)
Local Open Scope string_scope.

(* RFC 3986 5.4.1 and 5.4.2, all of them: the parsed objects satisfy every hypothesis of C06_resolve and
   C06_text, and the model's text is the one the RFC lists *)
Example C06_rfc_5_4 :
  let b := "http://a/b/c/d;p?q" in
  wf (uri_of b) = true /\ no_ip (uri_of b) = true /\ scheme (uri_of b) <> None /\
  forallb (fun '(r, e) => text_eqb (resolved_text false b r) (txt e)
                          && wf (uri_of r) && no_ip (uri_of r) && negb (corner_obj false (uri_of r) (uri_of b))
                          && negb (corner_obj true (uri_of r) (uri_of b)))
    [("g:h","g:h"); ("g","http://a/b/c/g"); ("./g","http://a/b/c/g"); ("g/","http://a/b/c/g/");
     ("/g","http://a/g"); ("//g","http://g"); ("?y","http://a/b/c/d;p?y"); ("g?y","http://a/b/c/g?y");
     ("#s","http://a/b/c/d;p?q#s"); ("g#s","http://a/b/c/g#s"); ("g?y#s","http://a/b/c/g?y#s");
     (";x","http://a/b/c/;x"); ("g;x","http://a/b/c/g;x"); ("g;x?y#s","http://a/b/c/g;x?y#s");
     ("","http://a/b/c/d;p?q"); (".","http://a/b/c/"); ("./","http://a/b/c/"); ("..","http://a/b/");
     ("../","http://a/b/"); ("../g","http://a/b/g"); ("../..","http://a/"); ("../../","http://a/");
     ("../../g","http://a/g");
     ("../../../g","http://a/g"); ("../../../../g","http://a/g"); ("/./g","http://a/g"); ("/../g","http://a/g");
     ("g.","http://a/b/c/g."); (".g","http://a/b/c/.g"); ("g..","http://a/b/c/g.."); ("..g","http://a/b/c/..g");
     ("./../g","http://a/b/g"); ("./g/.","http://a/b/c/g/"); ("g/./h","http://a/b/c/g/h");
     ("g/../h","http://a/b/c/h"); ("g;x=1/./y","http://a/b/c/g;x=1/y"); ("g;x=1/../y","http://a/b/c/y");
     ("g?y/./x","http://a/b/c/g?y/./x"); ("g?y/../x","http://a/b/c/g?y/../x");
     ("g#s/./x","http://a/b/c/g#s/./x"); ("g#s/../x","http://a/b/c/g#s/../x"); ("http:g","http:g")] = true
  /\ resolved_text true b "http:g" = txt "http://a/b/c/g".
Proof. vm_compute. repeat split. discriminate. Qed.

(* small scope: every text of at most 6 characters over "/.a:?@[" that the parser accepts yields an object
   satisfying wf and one_kind (the hypotheses of C06_resolve / C06_authority are what parsing guarantees) *)
Example C06_wf_of_parsed :
  forallb parsed_wf (all_texts [47; 46; 97; 58; 63; 64; 91]%N 6) = true.
Proof. vm_compute. reflexivity. Qed.

(* the "/." guard is used: a host-less target whose path begins with "//" *)
Example C06_guard_used :
  wf (uri_of "s:/a") = true /\ wf (uri_of "..//c") = true /\ corner_obj false (uri_of "..//c") (uri_of "s:/a") = false
  /\ resolved_text false "s:/a" "..//c" = txt "s:/.//c".
Proof. vm_compute. repeat split. Qed.

(* a relative base *)
Example C06_rel_base_used : add_base false (uri_of "g") (uri_of "//a/b") = (URI_ERROR_ADDBASE_REL_BASE, empty_uri).
Proof. vm_compute. reflexivity. Qed.

(* the corner is inhabited by parsed URIs, and its exclusion from C06_resolve is necessary: base "s:a",
   reference ".///c": the model keeps the path rootless (".///c"), the RFC's target with the guard is
   "/.//c" *)
Example C06_corner_necessary :
  exists rel base, wf rel = true /\ wf base = true /\ scheme base <> None
    /\ corner_obj false rel base = true
    /\ five_of_uri (snd (add_base false rel base))
       <> guard_slashes (transform true (five_of_uri base) (five_of_uri rel)).
Proof.
  exists (uri_of ".///c"), (uri_of "s:a"). vm_compute. repeat split; discriminate.
Qed.
