(* C10 -- reference creation is the inverse of reference resolution: PARSED TEXTS.  Statements only;
   proofs in Proofs/ShortenText.v (from Proofs/ShortenProofs.v).

   Props/C10.v states the round trip  add_base false (remove_base m S B) B ~ S  for URI objects under
   object-level hypotheses (wf, one_kind, no NUL in segments and authority, no lone empty segment, user
   info / port only with a host: c10_good, walk_ok), and its carved form only for hosts without IP data.
   Here S and B are the objects parsed from two texts s and b: every hypothesis the parser guarantees is
   gone (C02_wf, C02_parsed_wf_for_resolution, C02_parsed_wf_for_equality, C02_parsed_wf_for_normalization),
   EVERY host kind is covered, and the results are compared as the texts uriToString writes:
     to_text back = canon_ip6 s     the source text, an IPv6 literal in uriToString's eight-group form
                                    (Spec/Recompose.v; the identity on texts without IPv6 literal)
     same_text_target a b           to_text (canon10 a) = to_text (canon10 b): the texts after the
                                    cleaning of Props/C10.v (dot segments removed, "" = "/" under a host)
   What stays, all booleans on the parsed objects:
     walk_shape S B                 [walk_ok] of Props/C10.v without its four clauses about parser
                                    output: both absolute, same scheme, same authority, same root, the
                                    common-prefix walk leaves segments on both sides, no dot segment in
                                    the source path and in the rest of the base path
     c10_failing_shape m S B        the known failing shapes of Props/C10.v (D8a, b, c, d, f, dotted base)
   No hypothesis about the host kinds is left: uriEqualsAuthority answers "equal" only for hosts of the
   same kind (C10_equals_authority_same_kind).  HISTORY: lifting the restriction to hosts without IP data
   first exposed a failing shape -- source "s://v1.x/a/b" (registered name) against base "s://[v1.x]/a/c"
   (IPvFuture literal): uriEqualsAuthority compared the name with the host text of the literal, the
   reference was "b" and resolved to "s://[v1.x]/a/b".  The C code (src/UriShorten.c) and the model
   (Model/Shorten.v equals_authority) were repaired: a registered name is only compared with a host without
   IP data.  The witness is now a positive example (C10_parsed_regname_vs_literal). *)
From Coq Require Import List NArith Bool String.
From UP Require Import Base.Chars Model.Uri Model.Common Model.Compare Model.Resolve Model.Shorten
  Model.Recompose Model.Parse Spec.NormalWf Proofs.DotSegments Proofs.ResolveProofs Proofs.ShortenProofs Proofs.ShortenText.
From UP Require Spec.Recompose.
Import ListNotations.
Local Open Scope N_scope.
Local Notation canon_ip6 := Spec.Recompose.canon_ip6.

(* ---- 0. the reference made from a parsed source never holds a lone empty segment (host-less, the
        path exactly one empty segment): uriRemoveBaseUriMm calls uriFixEmptyTrailSegment in domain-root
        mode since the repair of the witness "s://h/" against "s://h/a" (Props/C11text.v) ---------- *)
Theorem C10_parsed_reference_no_lone_empty : forall m s S base, parse s = POk S ->
  lone_empty_hostless (snd (remove_base m S base)) = false.
Proof. exact remove_base_no_lone_empty_parsed. Qed.
Print Assumptions C10_parsed_reference_no_lone_empty.

(* ---- 1. what the parser guarantees of the hypotheses of Props/C10.v ---------------------------- *)
Theorem C10_parsed_walk_ok : forall s b S B, parse s = POk S -> parse b = POk B ->
  walk_ok S B = walk_shape S B.
Proof. exact walk_ok_parsed. Qed.
Print Assumptions C10_parsed_walk_ok.

Theorem C10_parsed_good : forall s u, parse s = POk u -> no_ip u = true -> c10_good u = true.
Proof. exact parsed_c10_good. Qed.
Print Assumptions C10_parsed_good.

Theorem C10_parsed_base : forall s u, parse s = POk u -> c10_base u = true.
Proof. exact parsed_c10_base. Qed.
Print Assumptions C10_parsed_base.

(* when uriEqualsAuthority says "equal" the hosts are of the same kind (objects with one host kind) ... *)
Theorem C10_equals_authority_same_kind : forall a b, one_kind a = true -> one_kind b = true ->
  equals_authority a b = true ->
  is_some (ip4 a) = is_some (ip4 b) /\ is_some (ip6 a) = is_some (ip6 b)
  /\ is_some (ipFuture a) = is_some (ipFuture b).
Proof. exact equals_authority_same_kind. Qed.
Print Assumptions C10_equals_authority_same_kind.

(* ... and uriToString writes the same authority for both: user info, host, port *)
Theorem C10_parsed_shared_authority : forall s b S B, parse s = POk S -> parse b = POk B ->
  equals_authority S B = true -> shown_auth B = shown_auth S.
Proof. exact shared_authority_shown. Qed.
Print Assumptions C10_parsed_shared_authority.

(* ---- 2. the walk: the text comes back ---------------------------------------------------------- *)
(* C10_roundtrip_partial / _target for parsed texts, every host kind *)
Theorem C10_parsed_roundtrip_walk : forall s b S B, parse s = POk S -> parse b = POk B ->
  walk_shape S B = true ->
  let r := snd (remove_base false S B) in
  let back := snd (add_base false r B) in
  fst (remove_base false S B) = URI_SUCCESS
  /\ fst (add_base false r B) = URI_SUCCESS
  /\ to_text back = canon_ip6 s.
Proof. exact roundtrip_parsed_walk. Qed.
Print Assumptions C10_parsed_roundtrip_walk.

(* no IPv6 literal in the source: the source text itself *)
Theorem C10_parsed_roundtrip_walk_no_ip6 : forall s b S B, parse s = POk S -> parse b = POk B ->
  walk_shape S B = true -> ip6 S = None ->
  to_text (snd (add_base false (snd (remove_base false S B)) B)) = s.
Proof. exact roundtrip_parsed_walk_no_ip6. Qed.
Print Assumptions C10_parsed_roundtrip_walk_no_ip6.

(* ---- 3. the round trip outside the failing shapes: both modes, any paths, every host kind ----- *)
Theorem C10_parsed_roundtrip : forall m s b S B, parse s = POk S -> parse b = POk B ->
  scheme S <> None -> scheme B <> None ->
  c10_failing_shape m S B = false ->
  let r := snd (remove_base m S B) in
  fst (remove_base m S B) = URI_SUCCESS
  /\ fst (add_base false r B) = URI_SUCCESS
  /\ same_text_target (snd (add_base false r B)) S.
Proof. exact roundtrip_parsed_carved. Qed.
Print Assumptions C10_parsed_roundtrip.

(* C10_roundtrip itself (objects compared field by field): for parsed texts c10_good is "no IP data", asked
   of the source only *)
Theorem C10_parsed_roundtrip_no_ip : forall m s b S B, parse s = POk S -> parse b = POk B ->
  no_ip S = true -> scheme S <> None -> scheme B <> None ->
  c10_failing_shape m S B = false ->
  let r := snd (remove_base m S B) in
  fst (remove_base m S B) = URI_SUCCESS
  /\ fst (add_base false r B) = URI_SUCCESS
  /\ same_target (snd (add_base false r B)) S.
Proof. exact roundtrip_parsed_carved_no_ip. Qed.
Print Assumptions C10_parsed_roundtrip_no_ip.

(* the cases of C10_roundtrip_copy_partial and C10_roundtrip_other_authority_partial (the reference is the
   source, or the source without its scheme), no dot segment in the source path: the text comes back *)
Theorem C10_parsed_roundtrip_copy : forall m s b S B, parse s = POk S -> parse b = POk B ->
  scheme S <> None -> scheme B <> None ->
  range_eqb (scheme S) (scheme B) = false
  \/ (equals_authority S B = false /\ is_host_set S = false /\ is_host_set B = true) ->
  forallb nodot (pathSegs S) = true ->
  let r := snd (remove_base m S B) in
  fst (add_base false r B) = URI_SUCCESS
  /\ to_text (snd (add_base false r B)) = canon_ip6 s.
Proof. exact roundtrip_parsed_copy. Qed.
Print Assumptions C10_parsed_roundtrip_copy.

Theorem C10_parsed_roundtrip_other_authority : forall m s b S B, parse s = POk S -> parse b = POk B ->
  scheme S <> None -> scheme B <> None ->
  range_eqb (scheme S) (scheme B) = true -> equals_authority S B = false -> is_host_set S = true ->
  forallb nodot (pathSegs S) = true ->
  let r := snd (remove_base m S B) in
  fst (add_base false r B) = URI_SUCCESS
  /\ to_text (snd (add_base false r B)) = canon_ip6 s.
Proof. exact roundtrip_parsed_other_authority. Qed.
Print Assumptions C10_parsed_roundtrip_other_authority.

(* field-by-field equality implies equality of the texts *)
Theorem C10_same_target_text : forall a b, same_target a b -> same_text_target a b.
Proof. exact same_target_text. Qed.
Print Assumptions C10_same_target_text.

(* ---- 4. host kinds ------------------------------------------------------------------------------ *)
(* the former failing shape, now a round trip: a registered name against the IPvFuture literal with the
   same text.  The authorities differ, the reference is "//v1.x/a/b" *)
Example C10_parsed_regname_vs_literal :
  exists S B, parse (txt "s://v1.x/a/b") = POk S /\ parse (txt "s://[v1.x]/a/c") = POk B
    /\ equals_authority S B = false /\ walk_shape S B = false /\ c10_failing_shape false S B = false
    /\ to_text (snd (remove_base false S B)) = txt "//v1.x/a/b"
    /\ fst (add_base false (snd (remove_base false S B)) B) = URI_SUCCESS
    /\ to_text (snd (add_base false (snd (remove_base false S B)) B)) = txt "s://v1.x/a/b"
    /\ same_text_target (snd (add_base false (snd (remove_base false S B)) B)) S.
Proof. exact roundtrip_regname_vs_literal. Qed.

Example C10_parsed_literal_vs_regname :
  exists S B, parse (txt "s://[v1.x]/a/b") = POk S /\ parse (txt "s://v1.x/a/c") = POk B
    /\ equals_authority S B = false /\ c10_failing_shape false S B = false
    /\ to_text (snd (remove_base false S B)) = txt "//[v1.x]/a/b"
    /\ to_text (snd (add_base false (snd (remove_base false S B)) B)) = txt "s://[v1.x]/a/b".
Proof. exact roundtrip_literal_vs_regname. Qed.

(* why texts are compared: two spellings of one IPv6 address.  The objects differ (the result carries the
   base's host text; C10_roundtrip asks no_ip of the source), the texts written do not *)
Theorem C10_parsed_ip6_spelling :
  exists S B, parse (txt "s://[::1]/a/b") = POk S /\ parse (txt "s://[0::1]/a/c") = POk B
    /\ walk_shape S B = true /\ no_ip S = false
    /\ ~ same_target (snd (add_base false (snd (remove_base false S B)) B)) S
    /\ to_text (snd (add_base false (snd (remove_base false S B)) B)) = canon_ip6 (txt "s://[::1]/a/b").
Proof. exact roundtrip_ip6_spelling. Qed.
Print Assumptions C10_parsed_ip6_spelling.

(* the failing shapes of Props/C10.v are witnessed by parsed texts there (C10_roundtrip_refuted,
   C10_roundtrip_refuted_dotted_base) *)

(* ---- non-vacuity ------------------------------------------------------------------------------ *)
Local Open Scope string_scope.

(* source "s://h/a/b/c", base "s://h/a/d": reference "b/c", and back *)
Example C10_parsed_walk_example :
  exists S B, parse (txt "s://h/a/b/c") = POk S /\ parse (txt "s://h/a/d") = POk B
    /\ walk_shape S B = true /\ ip6 S = None
    /\ to_text (snd (remove_base false S B)) = txt "b/c"
    /\ to_text (snd (add_base false (snd (remove_base false S B)) B)) = txt "s://h/a/b/c".
Proof. do 2 eexists. split; [vm_compute; reflexivity|]. split; [vm_compute; reflexivity|]. repeat split. Qed.

(* every host kind, user info and port, host-less rooted and rootless: the hypotheses of
   C10_parsed_roundtrip_walk hold and the text that comes back is canon_ip6 of the source text *)
Example C10_parsed_walk_kinds :
  forallb (fun '(s, b) =>
      match parse (txt s), parse (txt b) with
      | POk U, POk V =>
          walk_shape U V
          && Resolve.text_eqb (to_text (snd (add_base false (snd (remove_base false U V)) V))) (canon_ip6 (txt s))
      | _, _ => false
      end)
    [("s://h/a/b/c", "s://h/a/d"); ("s://u@199.249.250.99:8/a/b", "s://u@199.249.250.99:8/a/c/d");
     ("s://[::A]/a/b?q#f", "s://[0:0::a]/a/c"); ("s://[v1.x]/a//b", "s://[v1.x]/a/x"); ("s:/a/b", "s:/a/c");
     ("s:a/b", "s:a/c/d"); ("s://h/a/c:d", "s://h/a/x")] = true.
Proof. vm_compute. reflexivity. Qed.

(* both modes, dot segments, the other cases of the carved theorem (other scheme, other authority, equal
   paths, domain root): outside both shapes, and the cleaned texts agree *)
Example C10_parsed_roundtrip_kinds :
  forallb (fun '(m, s, b) =>
      match parse (txt s), parse (txt b) with
      | POk U, POk V =>
          is_some (scheme U) && is_some (scheme V)
          && negb (c10_failing_shape m U V)
          && (let back := snd (add_base false (snd (remove_base m U V)) V) in
              Resolve.text_eqb (to_text (canon10 back)) (to_text (canon10 U)))
      | _, _ => false
      end)
    [(false, "s://h/a/b/c", "s://h/a/d"); (true, "s://h/a/b/c", "s://h/a/d");
     (false, "s://u@[::A]:8/a/../b/c?q#f", "s://u@[0::a]:8/b/x/y"); (true, "s://[v1.x]/a/./b", "s://[v1.x]/c");
     (false, "t://1.2.3.4/a", "s://1.2.3.4/a"); (false, "s://[::1]/a", "s://[::2]/a"); (false, "s://h/a?p", "s://h/a?q");
     (false, "s:/a", "s://h/b"); (true, "s:/a", "s:b"); (false, "s://v1.x/a/b", "s://v1.x/a/c"); (false, "s://v1.x/a/b", "s://[v1.x]/a/c");
     (true, "s://v1.x/a/b", "s://[v1.x]/a/c"); (false, "s://[v1.x]/a/b", "s://v1.x/a/c")] = true.
Proof. vm_compute. reflexivity. Qed.

(* the copy cases: other scheme; same scheme, other authority *)
Example C10_parsed_copy_example :
  exists S1 B1 S2 B2, parse (txt "t://h/a") = POk S1 /\ parse (txt "s://h/a") = POk B1
    /\ parse (txt "s://u@h/a") = POk S2 /\ parse (txt "s://h/a") = POk B2
    /\ range_eqb (scheme S1) (scheme B1) = false
    /\ to_text (snd (add_base false (snd (remove_base false S1 B1)) B1)) = txt "t://h/a"
    /\ range_eqb (scheme S2) (scheme B2) = true /\ equals_authority S2 B2 = false /\ is_host_set S2 = true
    /\ to_text (snd (remove_base false S2 B2)) = txt "//u@h/a"
    /\ to_text (snd (add_base false (snd (remove_base false S2 B2)) B2)) = txt "s://u@h/a".
Proof.
  do 4 eexists. split; [vm_compute; reflexivity|]. split; [vm_compute; reflexivity|].
  split; [vm_compute; reflexivity|]. split; [vm_compute; reflexivity|]. repeat split.
Qed.

(* domain-root mode: "s://h/" against "s://h/a" is "/", the absolute path without segments *)
Example C10_parsed_domain_root_slash :
  let r := snd (remove_base true (uri_of "s://h/") (uri_of "s://h/a")) in
  to_text r = txt "/" /\ absolutePath r = true /\ pathSegs r = [] /\ lone_empty_hostless r = false
  /\ to_text (snd (add_base false r (uri_of "s://h/a"))) = txt "s://h/".
Proof. vm_compute. repeat split; reflexivity. Qed.
