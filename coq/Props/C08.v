(* C08 -- normalization yields the RFC 3986 syntax-based normal form.  Statements only.

   All theorems are about the model of src/UriNormalize.c: [normalize mask u] (uriNormalizeSyntaxExMm,
   allocation succeeding) and [mask_required u] (uriNormalizeSyntaxMaskRequiredEx), for every URI
   object [u] and every mask, not only parsed ones.  Where a statement needs more than that, the
   hypothesis is one of (Spec/NormalWf.v):
     pct_wf t            every '%' of t starts "%" HEXDIG HEXDIG   (the grammar allows no other '%')
     uri_pct_wf u        pct_wf of user info, registered name, path segments, query, fragment
     uri_wf u            uri_pct_wf u, hostText = ipFuture text when the host is an IPvFuture literal,
                         not (no host and path = one empty segment), and not ambiguous_path u (a path that
                         would be written with "//" in front without being an authority); what the parser
                         produces
     relative_ref u      no scheme, no host, not absolutePath: the case in which the C code removes dot
                         segments with its "relative" rule
   and a [_refuted] theorem shows that it cannot be dropped.
   [components u] is every field but [owner].

   Not claimed here (see the end of the file): the path of a relative-path reference equals the
   specification's (known findings D7a/b/c), and the equality of the path with RFC 3986 5.2.4 on the
   path *text* (shared with C06, Proofs/ResolveProofs.v).  The "/." guard of a host-less path that would
   begin with "//" (was finding D14, repaired in uriNormalizeSyntaxEngine) is part of C08_full_fields. *)
From Coq Require Import List NArith Bool.
From UP Require Import Base.Chars Model.Uri Model.Common Model.Normalize Model.Parse Spec.NormalWf
  Proofs.NormalizeProofs.
From UP Require Spec.Normal.
Import ListNotations.
Local Open Scope N_scope.

(* ---- A. percent-encodings ------------------------------------------------------------- *)
(* uriFixPercentEncodingEngine computes the specification's percent-encoding normalization:
   hex digits upper case, unreserved characters decoded, nothing else changed *)
Theorem C08_pct_engine_is_spec : forall t, pct_wf t = true -> fix_pct t = Normal.pct_norm false t.
Proof. exact fix_pct_spec. Qed.
Print Assumptions C08_pct_engine_is_spec.

Theorem C08_pct_idempotent : forall t, pct_wf t = true -> fix_pct (fix_pct t) = fix_pct t.
Proof. exact fix_pct_idem. Qed.
Print Assumptions C08_pct_idempotent.

(* for every text, well formed or not: the output is never longer than the input
   (uriFixPercentEncodingInplace writes into the buffer it reads; the malloc variant allocates the old length) *)
Theorem C08_pct_never_longer : forall t, (length (fix_pct t) <= length t)%nat.
Proof. exact fix_pct_length. Qed.
Print Assumptions C08_pct_never_longer.

(* uriContainsUglyPercentEncoding is exact: it answers "no" iff the engine changes nothing *)
Theorem C08_pct_query_exact : forall t, pct_wf t = true -> (contains_ugly t = false <-> fix_pct t = t).
Proof. exact contains_ugly_exact. Qed.
Print Assumptions C08_pct_query_exact.

(* ---- B. case -------------------------------------------------------------------------- *)
Theorem C08_lowercase_is_spec : forall t, lowercase t = map Normal.lower t.
Proof. exact lowercase_is_map_lower. Qed.
Print Assumptions C08_lowercase_is_spec.

Theorem C08_lowercase_idempotent : forall t, lowercase (lowercase t) = lowercase t.
Proof. exact lowercase_idem. Qed.
Print Assumptions C08_lowercase_idempotent.

Theorem C08_lowercase_length : forall t, length (lowercase t) = length t.
Proof. exact lowercase_length. Qed.
Print Assumptions C08_lowercase_length.

(* uriContainsUppercaseLetters is exact *)
Theorem C08_case_query_exact : forall t, contains_upper t = false <-> lowercase t = t.
Proof. exact contains_upper_exact. Qed.
Print Assumptions C08_case_query_exact.

(* registered name: engine, then lower-casing outside triplets = the specification's host normal form *)
Theorem C08_host_is_spec : forall t, pct_wf t = true ->
  lowercase_except_pct (fix_pct t) = Normal.pct_norm true t.
Proof. exact host_norm_spec. Qed.
Print Assumptions C08_host_is_spec.

(* ---- C. what normalization does, field by field, and mask exactness --------------------- *)
(* full normalization in the vocabulary of the specification: scheme and IPvFuture literal lower-cased,
   user info / query / fragment / every path segment percent-normalized, registered name percent-
   normalized and lower-cased, then dot segments removed by the walk of uriRemoveDotSegmentsEx, a "."
   segment put in front of a path that would otherwise be written with "//" in front (uriFixAmbiguity)
   and a lone empty segment of a host-less URI dropped; ip4, ip6, port, absolutePath as they were *)
Theorem C08_full_fields : forall u, uri_pct_wf u = true ->
  normalize 63 u =
  mkUri (omap (map Normal.lower) (scheme u))
        (omap (Normal.pct_norm false) (userInfo u))
        (match ipFuture u with
         | Some f => Some (map Normal.lower f)
         | None => if is_regname u then omap (Normal.pct_norm true) (hostText u) else hostText u
         end)
        (ip4 u) (ip6 u)
        (omap (map Normal.lower) (ipFuture u))
        (portText u)
        (let segs := map (Normal.pct_norm false) (pathSegs u) in
         let out := match segs with
                    | [] => []
                    | _ => rds_walk (relative_ref u) (is_host_set u) (absolutePath u) [] segs
                    end in
         let out := match absolutePath u, out with
                    | true, [] :: _ :: _ => [46] :: out
                    | false, [] :: [] :: _ => if is_host_set u then out else [46] :: out
                    | _, _ => out
                    end in
         if negb (is_host_set u) then match out with [[]] => [] | _ => out end else out)
        (omap (Normal.pct_norm false) (query u))
        (omap (Normal.pct_norm false) (fragment u))
        (absolutePath u) true.
Proof. exact normalize_full_fields. Qed.
Print Assumptions C08_full_fields.

Theorem C08_mask_zero_identity : forall u, normalize 0 u = u.
Proof. exact normalize_zero. Qed.
Print Assumptions C08_mask_zero_identity.

Theorem C08_owner_after : forall mask u, mask <> 0 -> owner (normalize mask u) = true.
Proof. exact normalize_owner. Qed.
Print Assumptions C08_owner_after.

Theorem C08_never_touched : forall mask u,
  ip4 (normalize mask u) = ip4 u /\ ip6 (normalize mask u) = ip6 u
  /\ portText (normalize mask u) = portText u /\ absolutePath (normalize mask u) = absolutePath u.
Proof. exact normalize_untouched. Qed.
Print Assumptions C08_never_touched.

(* a component that is not selected keeps its text *)
Theorem C08_mask_clear_unchanged : forall mask u,
  (bit mask M_SCHEME = false -> scheme (normalize mask u) = scheme u)
  /\ (bit mask M_USER_INFO = false -> userInfo (normalize mask u) = userInfo u)
  /\ (bit mask M_HOST = false ->
      hostText (normalize mask u) = hostText u /\ ipFuture (normalize mask u) = ipFuture u)
  /\ (bit mask M_PATH = false -> pathSegs (normalize mask u) = pathSegs u)
  /\ (bit mask M_QUERY = false -> query (normalize mask u) = query u)
  /\ (bit mask M_FRAGMENT = false -> fragment (normalize mask u) = fragment u).
Proof. exact mask_clear_unchanged. Qed.
Print Assumptions C08_mask_clear_unchanged.

(* a selected component takes the form full normalization gives it *)
Theorem C08_mask_set_full : forall mask u,
  (bit mask M_SCHEME = true -> scheme (normalize mask u) = scheme (normalize 63 u))
  /\ (bit mask M_USER_INFO = true -> userInfo (normalize mask u) = userInfo (normalize 63 u))
  /\ (bit mask M_HOST = true ->
      hostText (normalize mask u) = hostText (normalize 63 u)
      /\ ipFuture (normalize mask u) = ipFuture (normalize 63 u))
  /\ (bit mask M_PATH = true -> pathSegs (normalize mask u) = pathSegs (normalize 63 u))
  /\ (bit mask M_QUERY = true -> query (normalize mask u) = query (normalize 63 u))
  /\ (bit mask M_FRAGMENT = true -> fragment (normalize mask u) = fragment (normalize 63 u)).
Proof. exact mask_set_full. Qed.
Print Assumptions C08_mask_set_full.

(* ---- D. the mask-required query --------------------------------------------------------- *)
Theorem C08_mask_required_sufficient : forall u, uri_wf u ->
  components (normalize (mask_required u) u) = components (normalize 63 u).
Proof. exact mask_required_sufficient. Qed.
Print Assumptions C08_mask_required_sufficient.

(* and when the query asks for anything at all, the two results are the same object *)
Theorem C08_mask_required_sufficient_eq : forall u, uri_wf u -> mask_required u <> 0 ->
  normalize (mask_required u) u = normalize 63 u.
Proof. exact mask_required_sufficient_eq. Qed.
Print Assumptions C08_mask_required_sufficient_eq.

Theorem C08_mask_zero_normal : forall u, uri_wf u -> mask_required u = 0 ->
  components (normalize 63 u) = components u.
Proof. exact mask_zero_normal. Qed.
Print Assumptions C08_mask_zero_normal.

(* the four parts of uri_wf are needed: on URI objects the parser cannot produce the query says 0
   although full normalization changes the object *)
Theorem C08_mask_zero_lone_empty_refuted :                     (* host-less, path = [""] *)
  exists u, uri_pct_wf u = true /\ future_consistent u /\ ambiguous_path u = false /\ mask_required u = 0
            /\ components (normalize 63 u) <> components u.
Proof. exact mask_zero_lone_empty_refuted. Qed.
Print Assumptions C08_mask_zero_lone_empty_refuted.

Theorem C08_mask_zero_malformed_pct_refuted :                  (* query "%zz" becomes "%00" *)
  exists u, future_consistent u /\ lone_empty_hostless u = false /\ ambiguous_path u = false /\ mask_required u = 0
            /\ components (normalize 63 u) <> components u.
Proof. exact mask_zero_malformed_pct_refuted. Qed.
Print Assumptions C08_mask_zero_malformed_pct_refuted.

Theorem C08_mask_zero_future_inconsistent_refuted :            (* ipFuture "vA.B", hostText NULL *)
  exists u, uri_pct_wf u = true /\ lone_empty_hostless u = false /\ ambiguous_path u = false /\ mask_required u = 0
            /\ components (normalize 63 u) <> components u.
Proof. exact mask_zero_future_inconsistent_refuted. Qed.
Print Assumptions C08_mask_zero_future_inconsistent_refuted.

(* since the repair of D14 normalization guards a path that would be written with "//" in front; the query
   does not report it (no library call produces such an object unguarded) *)
Theorem C08_mask_zero_ambiguous_refuted :                      (* host-less, absolutePath, path = ["", "a"] *)
  exists u, uri_pct_wf u = true /\ future_consistent u /\ lone_empty_hostless u = false /\ mask_required u = 0
            /\ components (normalize 63 u) <> components u.
Proof. exact mask_zero_ambiguous_refuted. Qed.
Print Assumptions C08_mask_zero_ambiguous_refuted.

(* ---- E. idempotence ------------------------------------------------------------------- *)
(* "applying it twice equals applying it once" is false in the model (and in the C code): the parsed
   relative-path reference "./b:c/.." becomes "./" and then "" (known finding D7a) *)
Theorem C08_idempotent_refuted :
  exists s u, parse s = POk u /\ uri_wf u
              /\ components (normalize 63 (normalize 63 u)) <> components (normalize 63 u).
Proof. exact idempotent_refuted. Qed.
Print Assumptions C08_idempotent_refuted.

(* it holds for every URI that is not a relative-path reference (scheme, or host, or absolute path) *)
Theorem C08_idempotent_non_relative : forall u, uri_pct_wf u = true -> relative_ref u = false ->
  components (normalize 63 (normalize 63 u)) = components (normalize 63 u).
Proof. exact normalize_idem. Qed.
Print Assumptions C08_idempotent_non_relative.

(* and, relative or not, whenever the path of the first result is stable (NormalizeProofs.stable_path):
   no dot segment left, or -- relative-path references only -- a leading ".." run followed by none
   ("../../a"), or a leading "." in front of a first segment containing ':' followed by none ("./a:b").
   _partial: that every other result path (the stale "." of "./b:c/.." and "./b:c/../x") is NOT a fixed
   point, i.e. that the hypothesis is also necessary, is not proved. *)
Theorem C08_idempotent_partial : forall u, uri_pct_wf u = true ->
  stable_path (relative_ref u) (pathSegs (normalize 63 u)) = true ->
  components (normalize 63 (normalize 63 u)) = components (normalize 63 u).
Proof. exact normalize_idem_stable. Qed.
Print Assumptions C08_idempotent_partial.

(* ---- the hypotheses are satisfiable: "hTTp://u%41@H%2f:8/a/./%7e/../b?q%3d#f" ------------- *)
Example C08_nonvacuous :
  exists u, parse wit_rich = POk u /\ uri_wf u /\ relative_ref u = false /\ mask_required u = 31
            /\ components (normalize 63 u)
                = (Some [104;116;116;112], Some [117;65], Some [104;37;50;70], None, None, None, Some [56],
                   [[97];[98]], false, Some [113;37;51;68], Some [102]).   (* http://uA@h%2F:8/a/b?q%3D#f *)
Proof. exact wit_rich_ok. Qed.

(* relative-path references the hypothesis of C08_idempotent_partial admits ("../../a/./b", "./a:b/c/..")
   and the two it must not admit ("./b:c/..", "./b:c/../x") *)
Example C08_stable_examples :
  (exists u, parse [46;46;47;46;46;47;97;47;46;47;98] = POk u /\ relative_ref u = true
             /\ pathSegs (normalize 63 u) = [[46;46];[46;46];[97];[98]]
             /\ stable_path true (pathSegs (normalize 63 u)) = true)
  /\ (exists u, parse [46;47;97;58;98;47;99;47;46;46] = POk u /\ relative_ref u = true
             /\ pathSegs (normalize 63 u) = [[46];[97;58;98];[]]
             /\ stable_path true (pathSegs (normalize 63 u)) = true)
  /\ (exists u, parse wit_cancel = POk u /\ stable_path (relative_ref u) (pathSegs (normalize 63 u)) = false)
  /\ (exists u, parse wit_stale_dot = POk u /\ stable_path (relative_ref u) (pathSegs (normalize 63 u)) = false).
Proof. repeat split; eexists; (split; [vm_compute; reflexivity|]); repeat split; vm_compute; reflexivity. Qed.

(* ---- remarks (model facts, checked against the C code by the C08 correspondence) ----------
   * "normal form implies mask 0" is not claimed and is false: NormalizeProofs.mask_query_not_exact
     ("//%2F" is its own normal form, the query reports HOST because the upper-case test also sees the hex
     digits of triplets; likewise "[::A]" and "../a").
   * relative-path references: besides D7a/b/c, NormalizeProofs.idempotent_refuted_stale_dot
     ("./b:c/../x" -> "./x" -> "x") and NormalizeProofs.relative_dot_eaten ("./b:c/../../x" -> "x",
     RFC 3986: "../x"). *)

(* ---- uriIsUnreserved (UriNormalizeBase.c), its switch translated from the C source on every check: one case
   group, exactly the unreserved characters (is_unreserved_code).  Proof in Proofs/SwitchUnreserved.v. *)
From UP Require Import Generated.SwitchTables Proofs.SwitchBase Proofs.SwitchUnreserved.

Theorem C08_is_unreserved_switch :
  length t_is_unreserved = 1%nat
  /\ forall c, In c (concat t_is_unreserved) <-> is_unreserved_code c = true.
Proof. exact is_unreserved_switch. Qed.
Print Assumptions C08_is_unreserved_switch.
