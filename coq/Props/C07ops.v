(* C07, part 2b -- resolution, reference creation and histories keep [produced_wf].  Statements only. *)
From UP Require Import Base.Chars Model.Uri.
From UP Require Import Model.Parse Model.Resolve Model.Shorten Model.Normalize Model.History Spec.Reread Proofs.RereadResolve Proofs.RereadNormalize Proofs.RereadAll. From UP Require Model.Recompose.

(* resolution, reference creation, histories *)
(* uriAddBaseUriExMm: a successful resolution of an object that reads back as itself against another
   one gives an object that reads back as itself (no carve-out) *)
Theorem C07_add_base : forall compat rel base d,
  produced_wf rel -> produced_wf base -> add_base compat rel base = (URI_SUCCESS, d) -> produced_wf d.
Proof. exact add_base_produced_wf. Qed.
Print Assumptions C07_add_base.

(* uriRemoveBaseUriMm: so does a successful reference creation, in both modes (no carve-out) *)
Theorem C07_remove_base : forall domain_root src base d,
  produced_wf src -> produced_wf base -> remove_base domain_root src base = (URI_SUCCESS, d) -> produced_wf d.
Proof. exact remove_base_produced_wf. Qed.
Print Assumptions C07_remove_base.

(* histories (Model/History.v): from the empty store, after any finite sequence of parse, resolve,
   create-reference, normalize, make-owner and free steps on any slots, every object of the store
   satisfies produced_wf -- provided parsing produces such objects, make-owner keeps the condition, and
   normalization keeps it on the (mask, object) pairs [norm_ok] admits, every normalization step of the
   history being applied to such a pair *)
Theorem C07_history : forall norm_ok : N -> uri -> Prop,
  (forall s u, parse s = POk u -> produced_wf u) ->
  (forall mask u, produced_wf u -> norm_ok mask u -> produced_wf (normalize mask u)) ->
  (forall u, produced_wf u -> produced_wf (make_owner u)) ->
  forall ops, normalize_steps_ok norm_ok empty_store ops ->
  forall i u, run empty_store ops i = Some u -> produced_wf u.
Proof. exact history_produced_wf. Qed.
Print Assumptions C07_history.

(* the hypotheses are satisfiable, and the guards are what makes the conclusions true: parsed objects
   ([produced_wfb] is the boolean form of [produced_wf], RereadResolve.produced_wfb_iff) whose resolution /
   reference needs the "." guard segment.
   "/.//a" against "s:/x" gives "s:/.//a" *)
Example C07_add_base_guard_used :
  let rel := parsed [47; 46; 47; 47; 97]%N in let base := parsed [115; 58; 47; 120]%N in
  produced_wfb rel = true /\ produced_wfb base = true /\ fst (add_base false rel base) = URI_SUCCESS
  /\ Recompose.to_text (snd (add_base false rel base)) = [115; 58; 47; 46; 47; 47; 97]%N
  /\ produced_wfb (snd (add_base false rel base)) = true.
Proof. vm_compute. repeat split. Qed.

(* "s://h/b:c" relative to "s://h/a" is "./b:c"; "s://h//a" relative to it in domain-root mode is "/.//a" *)
Example C07_remove_base_guards_used :
  let src := parsed [115; 58; 47; 47; 104; 47; 98; 58; 99]%N in
  let src2 := parsed [115; 58; 47; 47; 104; 47; 47; 97]%N in
  let base := parsed [115; 58; 47; 47; 104; 47; 97]%N in
  produced_wfb src = true /\ produced_wfb src2 = true /\ produced_wfb base = true
  /\ fst (remove_base false src base) = URI_SUCCESS /\ fst (remove_base true src2 base) = URI_SUCCESS
  /\ Recompose.to_text (snd (remove_base false src base)) = [46; 47; 98; 58; 99]%N
  /\ produced_wfb (snd (remove_base false src base)) = true
  /\ Recompose.to_text (snd (remove_base true src2 base)) = [47; 46; 47; 47; 97]%N
  /\ produced_wfb (snd (remove_base true src2 base)) = true.
Proof. vm_compute. repeat split. Qed.

(* ---- the property for every reachable object -------------------------------------------------
   [norm_outside_findings mask u] = [exposes_colon mask u = false]: the normalization step is outside the
   known defect shape D7b (Props/C07norm.v shows it is exact and refutes the statement inside it; the
   former second shape, D14, was repaired: normalization now guards a path that would begin with "//").  No other hypothesis: parse, resolve, create-reference, make-owner steps
   are unrestricted, and failed steps are part of the histories. *)
Theorem C07_reachable_wf : forall ops,
  normalize_steps_ok norm_outside_findings empty_store ops ->
  forall i u, run empty_store ops i = Some u -> produced_wf u.
Proof. exact history_all_produced_wf. Qed.
Print Assumptions C07_reachable_wf.

(* ... recomposes to a text the parser accepts and reads back with the same scheme, authority
   (user info, host, port), path text, query and fragment *)
Theorem C07_reachable_reread : forall ops,
  normalize_steps_ok norm_outside_findings empty_store ops ->
  forall i u, run empty_store ops i = Some u ->
  exists v, parse (Recompose.to_text u) = POk v /\ same_meaning u v.
Proof. exact history_all_reread. Qed.
Print Assumptions C07_reachable_reread.

(* ... and a host never coexists with the absolute-path flag *)
Theorem C07_reachable_host_flag : forall ops,
  normalize_steps_ok norm_outside_findings empty_store ops ->
  forall i u, run empty_store ops i = Some u -> hostText u <> None -> absolutePath u = false.
Proof. exact history_all_host_flag. Qed.
Print Assumptions C07_reachable_host_flag.

(* non-vacuity: a history with every kind of step (and a failing one) meets the side condition
   ("a/./b:c" resolved against "s:/x/y", normalized, made owner, turned back into a reference) *)
Example C07_reachable_nonvacuous :
  let ops := [SParse 0 [97; 47; 46; 47; 98; 58; 99]%N; SParse 1 [115; 58; 47; 120; 47; 121]%N;
              SAddBase 2 0 1 false; SNormalize 2 63%N; SMakeOwner 2; SRemoveBase 3 2 1 false;
              SParse 4 [37]%N; SFree 0] in
  normalize_steps_ok norm_outside_findings empty_store ops
  /\ run empty_store ops 2 <> None /\ run empty_store ops 3 <> None /\ run empty_store ops 4 = None.
Proof. vm_compute. repeat split; try reflexivity; discriminate. Qed.
