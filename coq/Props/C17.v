(* C17 — query lists round-trip and composed output fits the stated size.
   Statements only; the proofs are in Proofs/QueryProofs.v.
   Vocabulary (Proofs/QueryProofs.v): [query_text] the text of a list, [items_1_255] all keys and
   values over code points 1..255, [log_below cap log] every store of the write log has an index
   below cap, [total_size] the worst-case size in unbounded integers, [no_item_too_large] every item
   passes the per-item guard, [lens_ok] the lengths are not negative.  The int additions and
   subtractions of the chars-required pass are modelled modulo 2^32 (Model/Query.v). *)
From UP Require Import Base.Chars Model.Uri Model.Escape Model.Query Spec.PctSpec Spec.FormUrl
  Proofs.QueryProofs.
From Coq Require Import ZArith.
Local Open Scope Z_scope.

(* compose, then dissect with matching options: same keys, values, NULL versus empty value and
   order; items with an empty key and no value vanish; the item count is the list length; line
   breaks are CR LF when normalisation was requested *)
Theorem C17_roundtrip : forall stp nb pts cap l out w log,
  (stp = true -> pts = true) -> items_1_255 l ->
  compose_ex false stp nb cap l = COk out w log ->
  dissect pts BrDontTouch out
  = DOk (roundtrip_expect nb l) (Z.of_nat (length (roundtrip_expect nb l))).
Proof. exact compose_dissect_roundtrip. Qed.
Print Assumptions C17_roundtrip.

(* the composed text consists of characters that are legal in a URI query *)
Theorem C17_query_legal : forall dn stp nb cap l out w log,
  compose_ex dn stp nb cap l = COk out w log -> query_legal out = true.
Proof. exact compose_query_legal. Qed.
Print Assumptions C17_query_legal.

(* all capacities: no store at or beyond maxChars; success means the whole text plus terminator
   fits and text length + 1 is reported; otherwise the too-large code (NULL code for a NULL
   argument) and what was stored is a prefix of the text *)
Theorem C17_capacity : forall dn stp nb cap l,
  match compose_ex dn stp nb cap l with
  | COk out w log =>
    out = query_text stp nb l /\ w = Z.of_nat (length out) + 1 /\ Z.of_nat (length out) + 1 <= cap
    /\ log_below cap log
  | CErr c out log =>
    log_below cap log /\ Z.of_nat (length out) <= Z.max 0 (cap - 1)
    /\ (exists s, query_text stp nb l = out ++ s)
    /\ (c = URI_ERROR_OUTPUT_TOO_LARGE \/ (c = URI_ERROR_NULL /\ (dn = true \/ l = [])))
  end.
Proof. exact compose_ex_fits. Qed.
Print Assumptions C17_capacity.

(* the stores leave the text and its terminator in the destination *)
Theorem C17_buffer : forall stp nb cap l out w log buf,
  compose_ex false stp nb cap l = COk out w log -> Z.of_nat (length buf) = cap ->
  firstn (length out + 1) (apply_log buf log) = out ++ [0%N].
Proof. exact compose_ex_buffer. Qed.
Print Assumptions C17_buffer.

(* whenever chars-required succeeds, its figure plus one for the terminator is sufficient for
   composing to succeed, and the text is not longer than the figure *)
Theorem C17_required_sufficient : forall stp nb l r,
  chars_required stp nb l = ZOk r ->
  forall cap, r + 1 <= cap ->
  exists log, compose_ex false stp nb cap l
              = COk (query_text stp nb l) (Z.of_nat (length (query_text stp nb l)) + 1) log
  /\ Z.of_nat (length (query_text stp nb l)) <= r.
Proof. exact chars_required_sufficient. Qed.
Print Assumptions C17_required_sufficient.

(* size computations, every list: the figure is the exact worst-case size and at most INT_MAX, or
   the call is refused with the too-large code (an item beyond the per-item limit, or a total
   above INT_MAX); no int operation of the pass wraps *)
Theorem C17_required_no_wrap : forall nb ls,
  ls <> [] -> lens_ok ls ->
  chars_required_len nb ls =
    if no_item_too_large nb ls && (total_size nb ls <=? INT_MAX)
    then ZOk (total_size nb ls) else ZErr URI_ERROR_OUTPUT_TOO_LARGE.
Proof. exact chars_required_len_no_wrap. Qed.
Print Assumptions C17_required_no_wrap.

(* the witness of the former finding D10 (one item, key = value = 715827881 characters,
   normalizeBreaks = false; the unrepaired code reported success and -9) is refused *)
Theorem C17_former_wrap_witness_refused :
  lens_ok [(715827881, Some 715827881)]
  /\ no_item_too_large false [(715827881, Some 715827881)] = true
  /\ total_size false [(715827881, Some 715827881)] = 4294967287
  /\ chars_required_len false [(715827881, Some 715827881)] = ZErr URI_ERROR_OUTPUT_TOO_LARGE.
Proof. exact former_wrap_witness_refused. Qed.
Print Assumptions C17_former_wrap_witness_refused.

(* the allocating variant, every list and every calloc limit: refused with the too-large code
   exactly when chars-required refuses; the allocation code for a total of exactly INT_MAX or when
   calloc does not grant total + 1 elements; otherwise the text *)
Theorem C17_malloc_no_wrap : forall cm stp nb l,
  l <> [] ->
  compose_malloc cm stp nb l =
    if negb (no_item_too_large nb (map item_len l) && (total_size nb (map item_len l) <=? INT_MAX))
    then MErr URI_ERROR_OUTPUT_TOO_LARGE
    else if total_size nb (map item_len l) =? INT_MAX then MErr URI_ERROR_MALLOC
    else if total_size nb (map item_len l) + 1 >? cm then MErr URI_ERROR_MALLOC
    else MOk (query_text stp nb l).
Proof. exact compose_malloc_no_wrap. Qed.
Print Assumptions C17_malloc_no_wrap.

(* dissecting any text, any options: cut at every '&', cut each piece at its first '=', drop
   empty pieces, unescape; the count is the number of items *)
Theorem C17_dissect_splits : forall pts bc l,
  dissect pts bc l
  = DOk (dissect_with (fun t => cstr (unescape pts bc t)) l)
        (Z.of_nat (length (dissect_with (fun t => cstr (unescape pts bc t)) l))).
Proof. exact dissect_splits. Qed.
Print Assumptions C17_dissect_splits.

(* ---- the hypotheses are satisfiable, the functions do what the names say ------------- *)
Definition ex_list : list qitem :=
  [([97%N; 32%N], Some [38%N; 61%N]); ([], None); ([98%N], None); ([], Some []); ([10%N], Some [200%N])].

Example C17_nonvacuous_roundtrip :
  items_1_255 ex_list /\ total_size true (map item_len ex_list) = 49
  /\ (exists log, compose_ex false true true 50 ex_list
        = COk [97;43;61;37;50;54;37;51;68; 38; 38;98; 38;61; 38;37;48;68;37;48;65;61;37;67;56]%N 26 log)
  /\ chars_required true true ex_list = ZOk 49
  /\ dissect true BrDontTouch (query_text true true ex_list)
     = DOk [([97%N; 32%N], Some [38%N; 61%N]); ([98%N], None); ([], Some []); ([13%N; 10%N], Some [200%N])] 4.
Proof.
  split. { repeat constructor; cbn; lia. }
  split; [vm_compute; reflexivity|]. split; [eexists; vm_compute; reflexivity|].
  split; vm_compute; reflexivity.
Qed.

Example C17_nonvacuous_too_small :
  exists out log, compose_ex false true true 25 ex_list = CErr URI_ERROR_OUTPUT_TOO_LARGE out log
                  /\ log_below 25 log.
Proof. do 2 eexists. split; [vm_compute; reflexivity|]. repeat constructor. Qed.

Example C17_dissect_corners :
  dissect true BrDontTouch [38; 38; 61; 38; 97; 61; 61; 98; 38; 61; 99; 38]%N
  = DOk [([], Some []); ([97%N], Some [61%N; 98%N]); ([], Some [99%N])] 3.
Proof. vm_compute. reflexivity. Qed.

(* ---- the character switch of uriDissectQueryMallocExMm, translated from the C source on every check:
   labels exactly '&' and '=', each with its own body, as dissect_walk.  Proof in Proofs/SwitchQuery.v. *)
From UP Require Import Generated.SwitchTables Proofs.SwitchBase Proofs.SwitchQuery.

Theorem C17_dissect_switch_classes :
  (forall c, In c (concat t_dissect) <-> ((c =? 38) || (c =? 61))%N = true)
  /\ (forall c d, dissect_class c = dissect_class d -> group_of t_dissect c = group_of t_dissect d).
Proof. exact dissect_switch. Qed.
Print Assumptions C17_dissect_switch_classes.
