(* C04 — recomposition reproduces the parsed text.
   Statements only; proofs in Proofs/ParseRecompose.v, on top of C02 (Proofs/ParseData.v,
   Proofs/ParseWf.v).  [to_text] is the text uriToString writes (Model/Recompose.v; that the buffer
   version writes exactly this text when it fits is C05).

   PARTIAL.  Proved here for all accepted inputs: what the engine writes is the input with the
   engine's rendering of the host in place of the host as written (C04_recompose_modulo_host);
   hence, when the host is not rendered from address bytes -- registered name, IPvFuture literal,
   no host -- the input itself (C04_recompose_partial, C04_reparse_partial); and for an IPv6 host
   the input with only the text between the brackets replaced (C04_recompose_ip6_shape).
   Missing for the full statement [to_text u = canon_ip6 s]: two facts about the address code alone,
     parse_ip4 h = Some o -> concat (ip4_pieces o 0) = h            (octet printing inverts parse_ip4)
     concat (ip6_byte_pieces (ip6_bytes h) 0) = groups_text (ip6_value h)   for accepted literals
   Proofs/ParseRecompose.v derives the IPv4 case (parse_to_text_ip4), the IPv6 case
   (parse_to_text_ip6_canon) and the full statement (parse_to_text_canon:
   forall s u, parse s = POk u -> to_text u = canon_ip6 s) from them as explicit hypotheses. *)
From Coq Require Import List NArith Bool String.
From UP Require Import Base.Chars Model.Uri Model.Ip4 Model.Parse Model.Recompose Spec.Unparse
  Proofs.ParseSplit Proofs.ParseRecompose.
From UP Require Proofs.ResolveProofs.
Import ListNotations.
Local Open Scope N_scope.

(* for every accepted input: every delimiter and every component but the host is reproduced, the
   host is written as the engine renders it (from the octets / the 16 bytes / the text) *)
Theorem C04_recompose_modulo_host : forall s u, parse s = POk u ->
  to_text u = unparse_with (host_rendered u) u
  /\ s = unparse_with (match hostText u with Some h => host_part u h | None => [] end) u.
Proof. exact parse_to_text_with. Qed.
Print Assumptions C04_recompose_modulo_host.

Theorem C04_recompose_partial : forall s u, parse s = POk u -> ip4 u = None -> ip6 u = None -> to_text u = s.
Proof. exact parse_to_text_no_ip. Qed.
Print Assumptions C04_recompose_partial.

(* consequently parsing the recomposed text gives the same object *)
Theorem C04_reparse_partial : forall s u, parse s = POk u -> ip4 u = None -> ip6 u = None ->
  parse (to_text u) = POk u.
Proof. exact parse_reparse_no_ip. Qed.
Print Assumptions C04_reparse_partial.

(* IPv6 host: the literal is non-empty, does not start with "v", its bytes are those of the text, and
   the output is the input with the text between the brackets replaced by the rendering of the bytes *)
Theorem C04_recompose_ip6_shape : forall s u b, parse s = POk u -> ip6 u = Some b ->
  exists pre h post,
    hostText u = Some h /\ h <> [] /\ b = ip6_bytes h /\ v_start h = false
    /\ avoid [91] pre /\ avoid [93] h
    /\ s = pre ++ [91] ++ h ++ [93] ++ post
    /\ to_text u = pre ++ [91] ++ concat (ip6_byte_pieces b 0) ++ [93] ++ post.
Proof. exact parse_to_text_ip6. Qed.
Print Assumptions C04_recompose_ip6_shape.

(* ---- non-vacuity ---------------------------------------------------------------------------- *)
Local Open Scope string_scope.
Notation txt := ResolveProofs.txt.

Example C04_ex_no_ip :
  forallb (fun s => match parse (txt s) with
                    | POk u => match ip4 u, ip6 u with
                               | None, None => if list_eq_dec N.eq_dec (to_text u) (txt s) then true else false
                               | _, _ => false
                               end
                    | PSyntax _ => false
                    end)
          ["http://u:p@host:80/a/b?q#f"; "//@:?#"; "x"; "//[v1.x]/"; "/"; "a:/b"; "//h/b"; ""; "a//b"; "//h//";
           "?"; "#"; "./a:b"; "%41/%42"; "//h"; "//h/"; "s:"] = true.
Proof. vm_compute. reflexivity. Qed.

Example C04_ex_ip6 :
  match parse (txt "//[::1]:8/x") with
  | POk u => to_text u = txt "//[0000:0000:0000:0000:0000:0000:0000:0001]:8/x"
  | PSyntax _ => False
  end.
Proof. vm_compute. reflexivity. Qed.
