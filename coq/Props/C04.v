(* C04 — recomposition reproduces the parsed text.
   Statements only; proofs in Proofs/ParseRecompose.v and Proofs/ParseAssemble.v, on top of C02
   (Proofs/ParseData.v, Proofs/ParseWf.v) and the address lemmas (Proofs/Ip4Proofs.v,
   Proofs/Ip6Proofs.v).  [to_text] is the text uriToString writes (Model/Recompose.v; that the buffer
   version writes exactly this text when it fits is C05).

   For every accepted input: the text written is [canon_ip6] of the input (Spec/Recompose.v: the
   input with the text of an IPv6 literal replaced by the full eight-group lower-case form of its
   value) -- C04_recompose; the input itself unless the host is an IPv6 literal -- C04_recompose_exact;
   parsing that text again succeeds and yields the first object, except that the host text of an
   IPv6 host is the canonical text, which denotes the same address, the sixteen bytes being equal
   -- C04_reparse, C04_reparse_fields, C04_reparse_same_address, C04_reparse_same; and a second
   round trip changes nothing any more -- C04_round_trip_fixpoint.
   "Borrowed and owned URIs": the model object has no ownership-dependent content (texts are
   values); that uriToString ignores the owner flag is checked on the implementation by gen/c04.py. *)
From Coq Require Import List NArith Bool String.
From UP Require Import Base.Chars Model.Uri Model.Ip4 Model.Parse Model.Recompose Spec.Unparse
  Spec.Split Spec.Recompose Proofs.ParseSplit Proofs.ParseRecompose Proofs.ParseAssemble.
From UP Require Import Base.Regex.
From UP Require Proofs.ResolveProofs Spec.Rfc3986.
Import ListNotations.
Local Open Scope N_scope.

(* for every accepted input: every delimiter and every component but the host is reproduced, the
   host is written as the engine renders it (from the octets / the 16 bytes / the text) *)
Theorem C04_recompose_modulo_host : forall s u, parse s = POk u ->
  to_text u = unparse_with (host_rendered u) u
  /\ s = unparse_with (match hostText u with Some h => host_part u h | None => [] end) u.
Proof. exact parse_to_text_with. Qed.
Print Assumptions C04_recompose_modulo_host.

(* the statement of the property: the output is the input with an IPv6 literal in canonical form *)
Theorem C04_recompose : forall s u, parse s = POk u -> to_text u = canon_ip6 s.
Proof. exact parse_to_text_full. Qed.
Print Assumptions C04_recompose.

(* no IPv6 literal (no host, registered name, IPv4 address re-rendered from its bytes, IPvFuture
   literal): the input, character for character *)
Theorem C04_recompose_exact : forall s u, parse s = POk u -> ip6 u = None -> to_text u = s.
Proof. exact parse_to_text_exact. Qed.
Print Assumptions C04_recompose_exact.

(* parsing the recomposed text succeeds and gives [canon_host u]: [u] with the text of an IPv6 host
   replaced by the canonical text of its sixteen bytes (Proofs/ParseAssemble.v; spelled out below) *)
Theorem C04_reparse : forall s u, parse s = POk u -> parse (to_text u) = POk (canon_host u).
Proof. exact parse_reparse_full. Qed.
Print Assumptions C04_reparse.

(* every field of the second object is the field of the first, the address bytes included; only the
   host text of an IPv6 host differs *)
Theorem C04_reparse_fields : forall u,
  scheme (canon_host u) = scheme u /\ userInfo (canon_host u) = userInfo u /\ ip4 (canon_host u) = ip4 u
  /\ ip6 (canon_host u) = ip6 u /\ ipFuture (canon_host u) = ipFuture u /\ portText (canon_host u) = portText u
  /\ pathSegs (canon_host u) = pathSegs u /\ query (canon_host u) = query u /\ fragment (canon_host u) = fragment u
  /\ absolutePath (canon_host u) = absolutePath u /\ owner (canon_host u) = owner u
  /\ hostText (canon_host u) = match ip6 u with Some b => Some (groups_text b) | None => hostText u end.
Proof. exact canon_host_fields. Qed.
Print Assumptions C04_reparse_fields.

(* ... and the new host text is an IPv6address text denoting the same address as the old one, which
   is the address stored *)
Theorem C04_reparse_same_address : forall s u h b, parse s = POk u -> hostText u = Some h -> ip6 u = Some b ->
  hostText (canon_host u) = Some (groups_text (ip6_value h))
  /\ matches Rfc3986.IPv6address (groups_text (ip6_value h))
  /\ ip6_value (groups_text (ip6_value h)) = ip6_value h /\ b = ip6_value h.
Proof. exact parse_reparse_same_address. Qed.
Print Assumptions C04_reparse_same_address.

(* hosts that are not IPv6 literals: parsing the recomposed text gives the very same object *)
Theorem C04_reparse_same : forall s u, parse s = POk u -> ip6 u = None -> parse (to_text u) = POk u.
Proof. exact parse_reparse_same. Qed.
Print Assumptions C04_reparse_same.

(* parsing followed by recomposition loses no information: the object obtained from the recomposed
   text recomposes to the same text, and re-parsing it changes nothing *)
Theorem C04_round_trip_fixpoint : forall s u, parse s = POk u ->
  to_text (canon_host u) = to_text u /\ canon_host (canon_host u) = canon_host u.
Proof. exact parse_reparse_fixpoint. Qed.
Print Assumptions C04_round_trip_fixpoint.

(* IPv6 host: the literal is non-empty, does not start with "v", its bytes are those of the text, and
   the output is the input with the text between the brackets replaced by the rendering of the bytes *)
Theorem C04_recompose_ip6_shape : forall s u b, parse s = POk u -> ip6 u = Some b ->
  exists pre h post,
    hostText u = Some h /\ h <> [] /\ b = ip6_bytes h /\ v_start h = false
    /\ avoid [91] pre /\ avoid [93] h
    /\ s = pre ++ [91] ++ h ++ [93] ++ post
    /\ to_text u = pre ++ [91] ++ concat (ip6_byte_pieces b 0) ++ [93] ++ post.
Proof. exact parse_to_text_ip6. Qed.
Print Assumptions C04_recompose_ip6_shape.

(* ---- non-vacuity ---------------------------------------------------------------------------- *)
Local Open Scope string_scope.
Notation txt := ResolveProofs.txt.

Example C04_ex_no_ip :
  forallb (fun s => match parse (txt s) with
                    | POk u => match ip4 u, ip6 u with
                               | None, None => if list_eq_dec N.eq_dec (to_text u) (txt s) then true else false
                               | _, _ => false
                               end
                    | PSyntax _ => false
                    end)
          ["http://u:p@host:80/a/b?q#f"; "//@:?#"; "x"; "//[v1.x]/"; "/"; "a:/b"; "//h/b"; ""; "a//b"; "//h//";
           "?"; "#"; "./a:b"; "%41/%42"; "//h"; "//h/"; "s:"] = true.
Proof. vm_compute. reflexivity. Qed.

Example C04_ex_ip6 :
  match parse (txt "//[::1]:8/x") with
  | POk u => to_text u = txt "//[0000:0000:0000:0000:0000:0000:0000:0001]:8/x"
  | PSyntax _ => False
  end.
Proof. vm_compute. reflexivity. Qed.

(* an IPv4 host (re-rendered from the four bytes), an IPv6 host with "::" and an embedded dotted
   quad, an IPvFuture host: the output is canon_ip6 of the input, and parses to canon_host *)
Example C04_ex_full :
  forallb (fun s => match parse (txt s) with
                    | POk u => (if list_eq_dec N.eq_dec (to_text u) (canon_ip6 (txt s)) then true else false)
                               && match parse (to_text u) with
                                  | POk u' => (if list_eq_dec N.eq_dec (to_text u') (to_text u) then true else false)
                                              && (if list_eq_dec (list_eq_dec N.eq_dec) (pathSegs u') (pathSegs u) then true else false)
                                  | PSyntax _ => false
                                  end
                    | PSyntax _ => false
                    end)
          ["s://u@199.249.250.99:8/p"; "//[1:2::ffff:1.2.3.4]/x"; "//[vF.a:b]:1"; "//[::]"; "//[ABCD:ef01::]?q"] = true.
Proof. vm_compute. reflexivity. Qed.

Example C04_ex_ip4 :
  match parse (txt "s://u@199.249.250.99:8/p") with
  | POk u => ip4 u = Some [199; 249; 250; 99] /\ to_text u = txt "s://u@199.249.250.99:8/p" /\ parse (to_text u) = POk u
  | PSyntax _ => False
  end.
Proof. vm_compute. repeat split; reflexivity. Qed.

Example C04_ex_ip6_mixed :
  match parse (txt "//[1:2::ffff:1.2.3.4]/x") with
  | POk u => to_text u = txt "//[0001:0002:0000:0000:0000:ffff:0102:0304]/x"
             /\ canon_ip6 (txt "//[1:2::ffff:1.2.3.4]/x") = txt "//[0001:0002:0000:0000:0000:ffff:0102:0304]/x"
             /\ parse (to_text u) = POk (canon_host u)
             /\ hostText (canon_host u) = Some (txt "0001:0002:0000:0000:0000:ffff:0102:0304")
             /\ ip6 (canon_host u) = ip6 u
  | PSyntax _ => False
  end.
Proof. vm_compute. repeat split; reflexivity. Qed.

Example C04_ex_ipfuture :
  match parse (txt "//[vF.a:b]:1") with
  | POk u => to_text u = txt "//[vF.a:b]:1" /\ parse (to_text u) = POk u
  | PSyntax _ => False
  end.
Proof. vm_compute. split; reflexivity. Qed.
