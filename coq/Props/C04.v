(* C04 — recomposition reproduces the parsed text.
   Statements only.  (Work in progress: see Proofs/ParseData.v.) *)
From Coq Require Import List NArith.
From UP Require Import Base.Chars Base.Regex Model.Uri Model.Ip4 Model.Parse Spec.Rfc3986 Spec.Split.
Import ListNotations.
