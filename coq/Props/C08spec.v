(* C08, sanity of the SPECIFICATION: Spec/Normal.v (RFC 3986 6.2.2 on texts) is idempotent -- "applying it twice
   equals applying it once" holds of the normal form the property refers to, not only of the model.
   Statements only; proofs in Proofs/NormalSpec.v.

   Vocabulary (Spec/Normal.v, Spec/Resolve.v, Spec/NormalWf.v):
     pct_norm lc t          percent-encoding normalization (lc: lower-case what is outside triplets)
     lower                  case normalization of one character
     remove_dot_segments    RFC 3986 5.2.4, the literal string loop; rds_keep_kind: the same, a rootless path
                            processed as if rooted
     rel_path_normal        the path of a relative-path reference (leading ".." run kept, "./" in front of a first
                            segment that is empty or contains ':')
     pct_wf t               every '%' of t starts "%" HEXDIG HEXDIG *)
From Coq Require Import String List NArith Bool.
From UP Require Import Base.Chars Spec.NormalWf Spec.Split Spec.Resolve Spec.Normal Proofs.NormalizeText Proofs.NormalSpec.
From UP Require Spec.Unparse Model.Parse.
Import ListNotations.
Local Open Scope N_scope.

(* ---- 1. components -------------------------------------------------------------------------- *)
Theorem C08spec_pct_norm_idem : forall lc t, pct_wf t = true -> pct_norm lc (pct_norm lc t) = pct_norm lc t.
Proof. exact pct_norm_idem. Qed.
Print Assumptions C08spec_pct_norm_idem.

Theorem C08spec_lower_idem : forall t, map lower (map lower t) = map lower t.
Proof. exact lower_idem. Qed.
Print Assumptions C08spec_lower_idem.

(* RFC 3986 5.2.4 on a text that begins with "/" *)
Theorem C08spec_rds_idem : forall p, head_is 47 p = true ->
  remove_dot_segments (remove_dot_segments p) = remove_dot_segments p.
Proof. exact rds_idem. Qed.
Print Assumptions C08spec_rds_idem.

(* every text *)
Theorem C08spec_rds_keep_kind_idem : forall p, rds_keep_kind (rds_keep_kind p) = rds_keep_kind p.
Proof. exact rds_keep_kind_idem. Qed.
Print Assumptions C08spec_rds_keep_kind_idem.

(* every text: no hypothesis is needed (tested first on all segment lists of length <= 5 over
   {"", ".", "..", "a", "b:c"}, C08spec_rel_tested); the "./" the function puts in front is stable *)
Theorem C08spec_rel_path_normal_idem : forall p, rel_path_normal (rel_path_normal p) = rel_path_normal p.
Proof. exact rel_path_normal_idem. Qed.
Print Assumptions C08spec_rel_path_normal_idem.

(* ---- 2. the path -------------------------------------------------------------------------------- *)
(* all three kinds of path at once (rooted; rootless behind a scheme or an authority; the rootless path of a
   relative-path reference), whatever the two flags: the percent-encodings of every segment well formed, which
   is what the parser guarantees (Spec.NormalWf.uri_pct_wf) *)
Theorem C08spec_path_normal_idem : forall hs ha p, forallb pct_wf (split_on 47 p) = true ->
  path_normal hs ha (path_normal hs ha p) = path_normal hs ha p.
Proof. exact path_normal_idem. Qed.
Print Assumptions C08spec_path_normal_idem.

(* the authority, given in its parts user info / host (lit: bracketed literal) / port.  Hypotheses: no part
   contains the delimiter that ends it (the conditions of NormalizeText.auth_wfb, which every parsed object
   meets: parsed_auth_wfb), percent-encodings of user info and registered name well formed *)
Theorem C08spec_auth_normal_idem : forall ui h (lit : bool) po,
  opt_avoidb [64] ui = true -> avoidb [64] h = true -> opt_avoidb [64] po = true ->
  (if lit then avoidb [93] h = true else avoidb [58] h = true /\ avoidb [91] h = true) ->
  opt_pct_wf ui = true -> (lit = false -> pct_wf h = true) ->
  let a := Unparse.opt_post ui [64] ++ (if lit then [91] ++ h ++ [93] else h) ++ Unparse.opt_pre [58] po in
  auth_normal (auth_normal a) = auth_normal a.
Proof. exact auth_normal_idem. Qed.
Print Assumptions C08spec_auth_normal_idem.

(* normalization writes no delimiter: a character that is neither unreserved nor '%' occurs in the result only
   if it occurs in the text *)
Theorem C08spec_pct_norm_no_new_delimiter : forall lc k t, is_unreserved k = false -> k <> 37 ->
  pct_wf t = true -> ~ In k t -> ~ In k (pct_norm lc t).
Proof. exact pct_norm_notin. Qed.
Print Assumptions C08spec_pct_norm_no_new_delimiter.

(* ---- 3. the text --------------------------------------------------------------------------------- *)
(* _partial.  NOT proved: normal_text (normal_text s) = normal_text s for every parsed s.  Proved: it follows
   from two facts about the five components g of the normal form -- the text written for g is read back as g
   (what Normal.guard_path is for), and g is a fixed point of component-wise normalization with the guard.
   No counterexample exists among all texts of up to four tokens over
   {"/", ".", ":", "a", "?", "#", "@", "%41", "%2e", "A"} (C08spec_text_tested, parsed or not) nor among the
   inputs of C08all_kinds (C08spec_text_kinds). *)
Theorem C08spec_normal_text_idem_partial : forall s,
  let f := five_of_text s in
  let g := guard_normal f (five_normal f) in
  five_of_text (recompose g) = g -> guard_normal g (five_normal g) = g ->
  normal_text (normal_text s) = normal_text s.
Proof. exact normal_text_idem_partial. Qed.
Print Assumptions C08spec_normal_text_idem_partial.

(* ---- tests, non-vacuity ---------------------------------------------------------------------- *)
Definition c08spec_alphabet : list text := [[]; [46]; [46; 46]; [97]; [98; 58; 99]].
Fixpoint c08spec_lists (n : nat) : list (list text) :=
  match n with
  | O => [[]]
  | S k => [] :: flat_map (fun l => map (fun a => a :: l) c08spec_alphabet) (c08spec_lists k)
  end.

Example C08spec_rel_tested :
  forallb (fun l => let p := join_slash l in text_eqb (rel_path_normal (rel_path_normal p)) (rel_path_normal p))
          (c08spec_lists 5) = true
  /\ N.of_nat (length (c08spec_lists 5)) = 3906.
Proof. vm_compute. split; reflexivity. Qed.

Local Open Scope string_scope.
Notation txt := ResolveProofs.txt.

Example C08spec_components :
  pct_norm true (txt "A%7e%2fb%41") = txt "a~%2Fba"
  /\ pct_norm true (txt "a~%2Fba") = txt "a~%2Fba"
  /\ remove_dot_segments (txt "/a/./b/../../..//c/.") = txt "//c/"
  /\ remove_dot_segments (txt "//c/") = txt "//c/"
  /\ rds_keep_kind (txt "a/..//b") = txt "/b"
  /\ rel_path_normal (txt "a/../b:c/../..") = txt ".."
  /\ rel_path_normal (txt "./b:c/..") = txt "./" /\ rel_path_normal (txt "./") = txt "./"
  /\ rel_path_normal (txt "x/../b:c") = txt "./b:c" /\ rel_path_normal (txt "./b:c") = txt "./b:c"
  /\ rel_path_normal (txt "a/..//x") = txt ".//x" /\ rel_path_normal (txt ".//x") = txt ".//x".
Proof. vm_compute. repeat split. Qed.

Definition c08spec_tokens : list text := [[47]; [46]; [58]; [97]; [63]; [35]; [64]; [37; 52; 49]; [37; 50; 101]; [65]]%N.
Fixpoint c08spec_texts (n : nat) : list text :=
  match n with
  | O => [[]]
  | S k => [] :: flat_map (fun l => map (fun a => a ++ l)%list c08spec_tokens) (c08spec_texts k)
  end.
Definition c08spec_idem (s : text) : bool := text_eqb (normal_text (normal_text s)) (normal_text s).
Definition c08spec_both (s : text) : bool :=
  let f := five_of_text s in let g := guard_normal f (five_normal f) in
  c08spec_idem s && text_eqb (recompose (five_of_text (recompose g))) (recompose g)
  && text_eqb (recompose (guard_normal g (five_normal g))) (recompose g).

Example C08spec_text_tested :
  forallb c08spec_idem (c08spec_texts 4) = true /\ N.of_nat (length (c08spec_texts 4)) = 11111%N.
Proof. vm_compute. split; reflexivity. Qed.

Example C08spec_text_kinds :
  forallb (fun s => match Parse.parse (txt s) with Parse.POk _ => c08spec_both (txt s) | _ => false end)
    ["../a/./b/../c?%7e"; "./a:b/c"; "%2e%2E/x/%2e%2e/./b:c/%7e/d/.."; "a/..//"; "./b:c/.."; "./b:c/..//x";
     "?q%3d#f"; ""; "a"; "../.."; "a/b/../"; "a/.."; "./b:c/../../x"; "a/..//b"; "a/../b:c"; "./b:c/../x";
     "S://U@199.249.250.99:8/%41/../b"; "s://[V1.A:b]:1/./x"; "s://[::A]/x/../y"; "s:/a/..//b"; "s:a/..//b";
     "s:a/..///b"; "s:a/..//"; "s:a/.."; "/a/..//b"; "//h/a/..//b"; "S://%41%7e@H%2e:/"; "s://@"; "s://h:";
     "/a/./b/../%7e"; "//h"; "s:"; "/"; "//@:?#"] = true.
Proof. vm_compute. reflexivity. Qed.

(* the path with the guard of Normal.guard_normal; _partial: behind an authority only (the guard does nothing
   there); the cases without an authority are tested (C08spec_text_kinds), not proved *)
Theorem C08spec_guarded_path_idem_partial : forall hs p, forallb pct_wf (split_on 47 p) = true ->
  guarded_path hs true (guarded_path hs true p) = guarded_path hs true p.
Proof. exact guarded_path_idem_partial. Qed.
Print Assumptions C08spec_guarded_path_idem_partial.
