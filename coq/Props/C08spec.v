(* C08, sanity of the SPECIFICATION: Spec/Normal.v (RFC 3986 6.2.2 on texts) is idempotent -- "applying it twice
   equals applying it once" holds of the normal form the property refers to, not only of the model.
   Statements only; proofs in Proofs/NormalSpec.v.

   Vocabulary (Spec/Normal.v, Spec/Resolve.v, Spec/NormalWf.v):
     pct_norm lc t          percent-encoding normalization (lc: lower-case what is outside triplets)
     lower                  case normalization of one character
     remove_dot_segments    RFC 3986 5.2.4, the literal string loop; rds_keep_kind: the same, a rootless path
                            processed as if rooted
     rel_path_normal        the path of a relative-path reference (leading ".." run kept, "./" in front of a first
                            segment that is empty or contains ':')
     pct_wf t               every '%' of t starts "%" HEXDIG HEXDIG *)
From Coq Require Import String List NArith Bool.
From UP Require Import Base.Chars Spec.NormalWf Spec.Split Spec.Resolve Spec.Normal Proofs.NormalSpec.
Import ListNotations.
Local Open Scope N_scope.

(* ---- 1. components -------------------------------------------------------------------------- *)
Theorem C08spec_pct_norm_idem : forall lc t, pct_wf t = true -> pct_norm lc (pct_norm lc t) = pct_norm lc t.
Proof. exact pct_norm_idem. Qed.
Print Assumptions C08spec_pct_norm_idem.

Theorem C08spec_lower_idem : forall t, map lower (map lower t) = map lower t.
Proof. exact lower_idem. Qed.
Print Assumptions C08spec_lower_idem.

(* RFC 3986 5.2.4 on a text that begins with "/" *)
Theorem C08spec_rds_idem : forall p, head_is 47 p = true ->
  remove_dot_segments (remove_dot_segments p) = remove_dot_segments p.
Proof. exact rds_idem. Qed.
Print Assumptions C08spec_rds_idem.

(* every text *)
Theorem C08spec_rds_keep_kind_idem : forall p, rds_keep_kind (rds_keep_kind p) = rds_keep_kind p.
Proof. exact rds_keep_kind_idem. Qed.
Print Assumptions C08spec_rds_keep_kind_idem.

(* every text: no hypothesis is needed (tested first on all segment lists of length <= 5 over
   {"", ".", "..", "a", "b:c"}, C08spec_rel_tested); the "./" the function puts in front is stable *)
Theorem C08spec_rel_path_normal_idem : forall p, rel_path_normal (rel_path_normal p) = rel_path_normal p.
Proof. exact rel_path_normal_idem. Qed.
Print Assumptions C08spec_rel_path_normal_idem.

(* ---- 2. the path -------------------------------------------------------------------------------- *)
(* all three kinds of path at once (rooted; rootless behind a scheme or an authority; the rootless path of a
   relative-path reference), whatever the two flags: the percent-encodings of every segment well formed, which
   is what the parser guarantees (Spec.NormalWf.uri_pct_wf) *)
Theorem C08spec_path_normal_idem : forall hs ha p, forallb pct_wf (split_on 47 p) = true ->
  path_normal hs ha (path_normal hs ha p) = path_normal hs ha p.
Proof. exact path_normal_idem. Qed.
Print Assumptions C08spec_path_normal_idem.

(* ---- tests, non-vacuity ---------------------------------------------------------------------- *)
Definition c08spec_alphabet : list text := [[]; [46]; [46; 46]; [97]; [98; 58; 99]].
Fixpoint c08spec_lists (n : nat) : list (list text) :=
  match n with
  | O => [[]]
  | S k => [] :: flat_map (fun l => map (fun a => a :: l) c08spec_alphabet) (c08spec_lists k)
  end.

Example C08spec_rel_tested :
  forallb (fun l => let p := join_slash l in text_eqb (rel_path_normal (rel_path_normal p)) (rel_path_normal p))
          (c08spec_lists 5) = true
  /\ N.of_nat (length (c08spec_lists 5)) = 3906.
Proof. vm_compute. split; reflexivity. Qed.

Local Open Scope string_scope.
Notation txt := ResolveProofs.txt.

Example C08spec_components :
  pct_norm true (txt "A%7e%2fb%41") = txt "a~%2Fba"
  /\ pct_norm true (txt "a~%2Fba") = txt "a~%2Fba"
  /\ remove_dot_segments (txt "/a/./b/../../..//c/.") = txt "//c/"
  /\ remove_dot_segments (txt "//c/") = txt "//c/"
  /\ rds_keep_kind (txt "a/..//b") = txt "/b"
  /\ rel_path_normal (txt "a/../b:c/../..") = txt ".."
  /\ rel_path_normal (txt "./b:c/..") = txt "./" /\ rel_path_normal (txt "./") = txt "./"
  /\ rel_path_normal (txt "x/../b:c") = txt "./b:c" /\ rel_path_normal (txt "./b:c") = txt "./b:c"
  /\ rel_path_normal (txt "a/..//x") = txt ".//x" /\ rel_path_normal (txt ".//x") = txt ".//x".
Proof. vm_compute. repeat split. Qed.
