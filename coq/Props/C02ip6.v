(* C02 (IPv6 part) — the sixteen bytes stored for a bracketed IPv6 literal are the address written
   in the text, for every text of the RFC 3986 rule IPv6address; and converting back to text writes
   the literal in full eight-group lower-case form, which denotes the same address.
   [ip6_bytes] (Model/Parse.v) mirrors the data effects of uriParseIPv6address2 on the text between
   the brackets; [ip6_value] (Spec/Split.v) is the RFC 4291 section 2.2 reading of the text;
   [ip6_byte_pieces] (Model/Recompose.v) are the copies uriToString makes for the sixteen bytes;
   [groups_text] (Spec/Recompose.v) is the canonical text.  Proofs/ParseAccept.v shows that only texts
   of the grammar reach [ip6_bytes].  Statements only; proofs in Proofs/Ip6Proofs.v. *)
From Coq Require Import List NArith.
From UP Require Import Base.Chars Base.Regex Spec.Rfc3986 Spec.Split Spec.Recompose Model.Parse Model.Recompose
  Proofs.Ip6Proofs.
Import ListNotations.
Local Open Scope N_scope.

(* the scanner stores exactly the value of the text, sixteen bytes *)
Theorem C02_ip6_bytes_value : forall lit, matches IPv6address lit ->
  ip6_bytes lit = ip6_value lit /\ length (ip6_bytes lit) = 16%nat.
Proof. exact ip6_bytes_value. Qed.
Print Assumptions C02_ip6_bytes_value.

(* each stored byte is an octet (nothing was truncated by the unsigned char stores) *)
Theorem C02_ip6_bytes_octets : forall lit, matches IPv6address lit ->
  Forall (fun x => x <= 255) (ip6_bytes lit).
Proof. exact ip6_bytes_octets. Qed.
Print Assumptions C02_ip6_bytes_octets.

(* printing any sixteen octets yields the full eight-group lower-case text *)
Theorem C02_ip6_render : forall b, length b = 16%nat -> Forall (fun x => x <= 255) b ->
  concat (ip6_byte_pieces b 0) = groups_text b.
Proof. exact ip6_render. Qed.
Print Assumptions C02_ip6_render.

(* the full eight-group lower-case text of sixteen octets denotes those octets *)
Theorem C02_ip6_canonical_same_address : forall b, length b = 16%nat -> Forall (fun x => x <= 255) b ->
  ip6_value (groups_text b) = b.
Proof. exact ip6_value_groups_text. Qed.
Print Assumptions C02_ip6_canonical_same_address.

(* parse then print: the canonical text of the value written in the input, denoting the same address *)
Theorem C02_ip6_roundtrip : forall lit, matches IPv6address lit ->
  concat (ip6_byte_pieces (ip6_bytes lit) 0) = groups_text (ip6_value lit)
  /\ ip6_value (groups_text (ip6_value lit)) = ip6_value lit.
Proof. exact ip6_roundtrip. Qed.
Print Assumptions C02_ip6_roundtrip.

(* the hypotheses are satisfiable, and the statements say what they should on concrete literals:
   "::ffff:1.2.3.4", "1:2::7:8", "ABCD:ef01::", "1:2:3:4:5:6:7:8" *)
Example C02_ip6_nonvacuous :
  let l1 := [58;58;102;102;102;102;58;49;46;50;46;51;46;52] in
  let l2 := [49;58;50;58;58;55;58;56] in
  let l3 := [65;66;67;68;58;101;102;48;49;58;58] in
  let l4 := [49;58;50;58;51;58;52;58;53;58;54;58;55;58;56] in
  matchb IPv6address l1 = true /\ matchb IPv6address l2 = true
  /\ matchb IPv6address l3 = true /\ matchb IPv6address l4 = true
  /\ ip6_bytes l1 = [0;0;0;0;0;0;0;0;0;0;255;255;1;2;3;4]
  /\ ip6_bytes l2 = [0;1;0;2;0;0;0;0;0;0;0;0;0;7;0;8]
  /\ ip6_bytes l3 = [171;205;239;1;0;0;0;0;0;0;0;0;0;0;0;0]
  /\ ip6_value l4 = [0;1;0;2;0;3;0;4;0;5;0;6;0;7;0;8]
  /\ groups_text (ip6_value l3)
     = [97;98;99;100;58;101;102;48;49;58;48;48;48;48;58;48;48;48;48;58;48;48;48;48;58;48;48;48;48;58;
        48;48;48;48;58;48;48;48;48].                 (* abcd:ef01:0000:0000:0000:0000:0000:0000 *)
Proof. vm_compute. repeat split; reflexivity. Qed.
