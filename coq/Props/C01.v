(* C01 — the parser accepts exactly the RFC 3986 URI-reference language, and reports the first
   character after which no valid completion exists.  Statements only; proofs in Proofs/ParseAccept.v
   (reflection: a derivative bisimulation of 745 live pairs and 272 post-mortem control states,
   verified inside Coq by vm_compute). *)
From Coq Require Import List NArith.
From UP Require Import Base.Chars Base.Regex Model.Uri Model.Parse Spec.Rfc3986 Spec.ErrPos Proofs.ParseAccept.
Import ListNotations.

(* for every sequence of code points: success iff it matches URI-reference of RFC 3986 Appendix A *)
Theorem C01_accept : forall s : text, (exists u, parse s = POk u) <-> matches URI_reference s.
Proof. exact parse_accepts_iff. Qed.
Print Assumptions C01_accept.

(* a rejected sequence is reported at a position inside the input which is the first dead character,
   except that when this character lies inside a bracketed IP literal the position may be anywhere in
   the same literal (Spec/ErrPos.v) *)
Theorem C01_errpos : forall (s : text) (e : nat), parse s = PSyntax e ->
  errpos_ok URI_reference s e = true /\ e <= length s.
Proof. exact parse_error_position. Qed.
Print Assumptions C01_errpos.

(* outside brackets the admissible window is the single position first_dead *)
Theorem C01_errpos_exact : forall (s : text) (e : nat),
  (forall c, In c s -> c <> 91%N) -> parse s = PSyntax e -> e = first_dead URI_reference s.
Proof. exact parse_error_position_exact. Qed.
Print Assumptions C01_errpos_exact.

(* the NUL-terminated entry points parse the text up to the first NUL *)
Theorem C01_cstr : forall buf : text, parse_cstr buf = parse (until_nul buf).
Proof. reflexivity. Qed.
Print Assumptions C01_cstr.

Local Open Scope N_scope.
Example C01_nonvacuous_accept :
  exists u, parse [104;116;116;112;58;47;47;91;58;58;49;93;58;56;48;47;97;63;113;35;102] = POk u.   (* http://[::1]:80/a?q#f *)
Proof. eexists. vm_compute. reflexivity. Qed.
Example C01_nonvacuous_reject :
  parse [47;47;91;58;58;49;46;48;50;46;51;46;52;93] = PSyntax 7%nat     (* //[::1.02.3.4] : reported at the leading zero (7) while the first dead character is the 2 (8), both inside the literal *)
  /\ first_dead URI_reference [47;47;91;58;58;49;46;48;50;46;51;46;52;93] = 8%nat
  /\ parse [97;32;98] = PSyntax 1%nat.
Proof. vm_compute. auto. Qed.

(* ---- the switch tables translated from the C source (Generated/SwitchTables.v, re-derived from the tree
   on every check by gen/switchtables.py) against the atoms: what makes the conformance suite, which puts
   the characters [suite_chars] (one per atom, plus 'A') after every access string, complete with respect
   to every `switch` on a character in UriParse.c and UriIp4.c.  Proofs in Proofs/SwitchRefine.v. *)
From Coq Require Import String.
From UP Require Import Base.Atoms Base.SuiteChars Generated.SwitchTables Proofs.SwitchBase Proofs.SwitchRefine.

(* every such switch is refined by the atoms (two characters of one atom reach the same case body),
   except the h16 scanner of uriParseIPv6address2, which has one body for a-f and one for A-F *)
Theorem C01_switches_refined_by_atoms :
  forallb (fun t => refines (snd t) || splits_hex_case t) parser_tables = true.
Proof. exact all_switches_refined. Qed.
Print Assumptions C01_switches_refined_by_atoms.

Theorem C01_hex_case_switch_refuted :
  existsb splits_hex_case parser_tables = true
  /\ exists c d, atom_of c = atom_of d
       /\ group_of (table hex_case_switch) c <> group_of (table hex_case_switch) d.
Proof. exact hex_case_switch_refuted. Qed.
Print Assumptions C01_hex_case_switch_refuted.

(* every such switch, that one included: each code point has a suite character of its atom in its case group *)
Theorem C01_switches_covered_by_suite_chars :
  forallb (fun t => covered suite_chars (snd t)) parser_tables = true.
Proof. exact all_switches_covered. Qed.
Print Assumptions C01_switches_covered_by_suite_chars.

(* what the two booleans say, for all code points (the wide ones included) *)
Theorem C01_switch_refinement_meaning : forall name g, In (name, g) parser_tables ->
  (name <> hex_case_switch ->
     forall c d : N, atom_of c = atom_of d -> group_of g c = group_of g d)
  /\ (forall c : N, exists r, In r suite_chars /\ atom_of r = atom_of c /\ group_of g r = group_of g c).
Proof. exact parser_switches_meaning. Qed.
Print Assumptions C01_switch_refinement_meaning.

(* the URI_SET_* macros, expanded from their #define text, are the character classes of Base/Chars.v *)
Theorem C01_macro_sets :
  (forall c, In c set_URI_SET_DIGIT <-> is_digit c = true)
  /\ (forall c, In c set_URI_SET_ALPHA <-> is_alpha c = true)
  /\ (forall c, In c set_URI_SET_HEXDIG <-> is_hexdig c = true)
  /\ (forall c, In c set_URI_SET_HEX_LETTER_LOWER <-> is_hex_lower c = true)
  /\ (forall c, In c set_URI_SET_HEX_LETTER_UPPER <-> is_hex_upper c = true).
Proof. exact macro_sets. Qed.
Print Assumptions C01_macro_sets.

Example C01_switch_tables_nonvacuous :
  Nat.leb 30 (List.length parser_tables) = true
  /\ existsb (fun t => String.eqb (fst t) "UriParse.c:uriParseOwnHost2#1") parser_tables = true.
Proof. exact parser_tables_found. Qed.
