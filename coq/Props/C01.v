(* C01 — the parser accepts exactly the RFC 3986 URI-reference language, and reports the first
   character after which no valid completion exists.  Statements only; proofs in Proofs/ParseAccept.v
   (reflection: a derivative bisimulation of 745 live pairs and 272 post-mortem control states,
   verified inside Coq by vm_compute). *)
From Coq Require Import List NArith.
From UP Require Import Base.Chars Base.Regex Model.Uri Model.Parse Spec.Rfc3986 Spec.ErrPos Proofs.ParseAccept.
Import ListNotations.

(* for every sequence of code points: success iff it matches URI-reference of RFC 3986 Appendix A *)
Theorem C01_accept : forall s : text, (exists u, parse s = POk u) <-> matches URI_reference s.
Proof. exact parse_accepts_iff. Qed.
Print Assumptions C01_accept.

(* a rejected sequence is reported at a position inside the input which is the first dead character,
   except that when this character lies inside a bracketed IP literal the position may be anywhere in
   the same literal (Spec/ErrPos.v) *)
Theorem C01_errpos : forall (s : text) (e : nat), parse s = PSyntax e ->
  errpos_ok URI_reference s e = true /\ e <= length s.
Proof. exact parse_error_position. Qed.
Print Assumptions C01_errpos.

(* outside brackets the admissible window is the single position first_dead *)
Theorem C01_errpos_exact : forall (s : text) (e : nat),
  (forall c, In c s -> c <> 91%N) -> parse s = PSyntax e -> e = first_dead URI_reference s.
Proof. exact parse_error_position_exact. Qed.
Print Assumptions C01_errpos_exact.

(* the NUL-terminated entry points parse the text up to the first NUL *)
Theorem C01_cstr : forall buf : text, parse_cstr buf = parse (until_nul buf).
Proof. reflexivity. Qed.
Print Assumptions C01_cstr.

Local Open Scope N_scope.
Example C01_nonvacuous_accept :
  exists u, parse [104;116;116;112;58;47;47;91;58;58;49;93;58;56;48;47;97;63;113;35;102] = POk u.   (* http://[::1]:80/a?q#f *)
Proof. eexists. vm_compute. reflexivity. Qed.
Example C01_nonvacuous_reject :
  parse [47;47;91;58;58;49;46;48;50;46;51;46;52;93] = PSyntax 7%nat     (* //[::1.02.3.4] : reported at the leading zero (7) while the first dead character is the 2 (8), both inside the literal *)
  /\ first_dead URI_reference [47;47;91;58;58;49;46;48;50;46;51;46;52;93] = 8%nat
  /\ parse [97;32;98] = PSyntax 1%nat.
Proof. vm_compute. auto. Qed.
