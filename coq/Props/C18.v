(* C18 — filename / URI-string conversions round-trip within the documented buffer sizes.
   Statements only; the proofs are in Proofs/FileProofs.v.  The filename classes, the documented
   sizes and the URI-reference shapes are defined in Spec/FileSpec.v; [f2u_extent] / [u2f_extent]
   (Model/File.v) are the numbers of characters the functions store into the caller's buffer. *)
From UP Require Import Base.Chars Model.Escape Model.File Spec.FileSpec Proofs.EscapeProofs Proofs.FileProofs.
Local Open Scope N_scope.

(* ---- round trips ---------------------------------------------------------------- *)
Theorem C18_unix_roundtrip : forall f, Forall (fun c => 1 <= c <= 255) f ->
  uri_string_to_filename true (filename_to_uri_string true f) = f.
Proof. exact unix_roundtrip. Qed.
Print Assumptions C18_unix_roundtrip.

Theorem C18_windows_drive_roundtrip : forall f, Forall (fun c => 1 <= c <= 255) f ->
  win_drive_absolute f = true ->
  uri_string_to_filename false (filename_to_uri_string false f) = f.
Proof. exact win_drive_roundtrip. Qed.
Print Assumptions C18_windows_drive_roundtrip.

Theorem C18_windows_unc_roundtrip : forall f, Forall (fun c => 1 <= c <= 255) f ->
  win_unc f = true ->
  uri_string_to_filename false (filename_to_uri_string false f) = f.
Proof. exact win_unc_roundtrip. Qed.
Print Assumptions C18_windows_unc_roundtrip.

Theorem C18_windows_relative_roundtrip : forall f, Forall (fun c => 1 <= c <= 255) f ->
  win_relative f = true ->
  uri_string_to_filename false (filename_to_uri_string false f) = f.
Proof. exact win_relative_roundtrip. Qed.
Print Assumptions C18_windows_relative_roundtrip.

(* ---- the URI string is a URI reference of the expected shape ----------------------- *)
Theorem C18_unix_uri_valid : forall f, Forall (fun c => 1 <= c <= 255) f ->
  uri_reference_shape (filename_to_uri_string true f) = true.
Proof. exact unix_uri_valid. Qed.
Print Assumptions C18_unix_uri_valid.

Theorem C18_windows_drive_uri_valid : forall f, Forall (fun c => 1 <= c <= 255) f ->
  win_drive_absolute f = true -> uri_reference_shape (filename_to_uri_string false f) = true.
Proof. exact win_drive_uri_valid. Qed.
Print Assumptions C18_windows_drive_uri_valid.

Theorem C18_windows_unc_uri_valid : forall f, Forall (fun c => 1 <= c <= 255) f ->
  win_unc f = true -> uri_reference_shape (filename_to_uri_string false f) = true.
Proof. exact win_unc_uri_valid. Qed.
Print Assumptions C18_windows_unc_uri_valid.

Theorem C18_windows_relative_uri_valid : forall f, Forall (fun c => 1 <= c <= 255) f ->
  win_relative f = true -> uri_reference_shape (filename_to_uri_string false f) = true.
Proof. exact win_relative_uri_valid. Qed.
Print Assumptions C18_windows_relative_uri_valid.

(* ---- and has the documented form: file:///x, file:///C:/x, file://server/share, no "file:" -- *)
Theorem C18_unix_form : forall f, Forall (fun c => 1 <= c <= 255) f ->
  uri_form true f (filename_to_uri_string true f) = true.
Proof. exact unix_form. Qed.
Print Assumptions C18_unix_form.

Theorem C18_windows_form : forall f, Forall (fun c => 1 <= c <= 255) f ->
  win_absolute f = true \/ win_relative f = true ->
  uri_form false f (filename_to_uri_string false f) = true.
Proof. exact windows_form. Qed.
Print Assumptions C18_windows_form.

(* ---- documented sizes: 7 + 3n + 1 / 3n + 1 (Unix), 8 + 3n + 1 / 3n + 1 (Windows) ---- *)
Theorem C18_unix_uri_fits : forall f, (f2u_extent true f <= unix_uri_size f)%nat.
Proof. exact unix_uri_fits. Qed.
Print Assumptions C18_unix_uri_fits.

Theorem C18_windows_uri_fits_absolute : forall f, win_absolute f = true ->
  (f2u_extent false f <= win_uri_size true f)%nat.
Proof. exact windows_uri_fits_absolute. Qed.
Print Assumptions C18_windows_uri_fits_absolute.

Theorem C18_windows_uri_fits_relative : forall f, win_relative f = true ->
  (f2u_extent false f <= win_uri_size false f)%nat.
Proof. exact windows_uri_fits_relative. Qed.
Print Assumptions C18_windows_uri_fits_relative.

(* every Windows name, classified the way the function itself does *)
Theorem C18_windows_uri_fits_any : forall f,
  (f2u_extent false f <= win_uri_size (fn_absolute false f) f)%nat.
Proof. exact windows_uri_fits. Qed.
Print Assumptions C18_windows_uri_fits_any.

(* ---- the filename produced fits len + 1 - 5 (from an absolute name) / len + 1 -------- *)
Theorem C18_unix_filename_fits : forall f,
  (u2f_extent true (filename_to_uri_string true f)
   <= filename_size (unix_absolute f) (filename_to_uri_string true f))%nat.
Proof. exact unix_filename_fits. Qed.
Print Assumptions C18_unix_filename_fits.

Theorem C18_windows_filename_fits : forall f,
  win_absolute f = true \/ win_relative f = true -> Forall (fun c => 1 <= c <= 255) f ->
  (u2f_extent false (filename_to_uri_string false f)
   <= filename_size (win_absolute f) (filename_to_uri_string false f))%nat.
Proof. exact windows_filename_fits. Qed.
Print Assumptions C18_windows_filename_fits.

(* any URI string at all: at most len + 1 characters are stored, and the filename with its
   terminator lies within them *)
Theorem C18_filename_fits_always : forall tu s, (u2f_extent tu s <= length s + 1)%nat.
Proof. exact filename_fits_always. Qed.
Print Assumptions C18_filename_fits_always.

Theorem C18_filename_within_extent : forall tu s,
  (length (uri_string_to_filename tu s) + 1 <= u2f_extent tu s)%nat.
Proof. exact filename_within_extent. Qed.
Print Assumptions C18_filename_within_extent.

(* ---- short forms on input: file:/x like file:///x, file:c:/x like file:///c:/x -------- *)
Theorem C18_unix_short_form : forall p, starts_with [47] p = false ->
  uri_string_to_filename true (s_file1 ++ p) = uri_string_to_filename true (s_file3 ++ p).
Proof. exact unix_short_form. Qed.
Print Assumptions C18_unix_short_form.

Theorem C18_windows_short_form : forall p, starts_with [47] p = false ->
  uri_string_to_filename false (s_file ++ p) = uri_string_to_filename false (s_file3 ++ p).
Proof. exact windows_short_form. Qed.
Print Assumptions C18_windows_short_form.

(* ---- examples: the classes are inhabited, the forms are the documented ones ---------- *)
(* "/bin/a b" -> "file:///bin/a%20b" *)
Example C18_ex_unix :
  filename_to_uri_string true [47;98;105;110;47;97;32;98]
  = [102;105;108;101;58;47;47;47;98;105;110;47;97;37;50;48;98]
  /\ uri_string_to_filename true [102;105;108;101;58;47;47;47;98;105;110;47;97;37;50;48;98]
     = [47;98;105;110;47;97;32;98].
Proof. split; vm_compute; reflexivity. Qed.

(* "E:\a b" -> "file:///E:/a%20b" ; "\\srv\sh" -> "file://srv/sh" ; "a\b:c" -> "a/b%3Ac" *)
Example C18_ex_windows :
  win_drive_absolute [69;58;92;97;32;98] = true
  /\ filename_to_uri_string false [69;58;92;97;32;98] = [102;105;108;101;58;47;47;47;69;58;47;97;37;50;48;98]
  /\ win_unc [92;92;115;114;118;92;115;104] = true
  /\ filename_to_uri_string false [92;92;115;114;118;92;115;104] = [102;105;108;101;58;47;47;115;114;118;47;115;104]
  /\ uri_string_to_filename false [102;105;108;101;58;47;47;115;114;118;47;115;104] = [92;92;115;114;118;92;115;104]
  /\ win_relative [97;92;98;58;99] = true
  /\ filename_to_uri_string false [97;92;98;58;99] = [97;47;98;37;51;65;99]
  /\ uri_reference_shape [102;105;108;101;58;47;47;115;114;118;47;115;104] = true
  /\ uri_reference_shape [97;47;98;37;51;65;99] = true
  /\ uri_reference_shape [97;58;98] = false.
Proof. repeat split; vm_compute; reflexivity. Qed.

(* "file:/x" -> "/x" ; "file:c:/x" -> "c:\x" *)
Example C18_ex_short_forms :
  uri_string_to_filename true [102;105;108;101;58;47;120] = [47;120]
  /\ uri_string_to_filename false [102;105;108;101;58;99;58;47;120] = [99;58;92;120].
Proof. split; vm_compute; reflexivity. Qed.
