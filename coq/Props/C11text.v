(* C11, the text clause -- "for URIs produced by this library, two URIs compare equal exactly when
   their recomposed texts are identical".
   Statements only; proofs in Proofs/CompareText.v, on top of C04 (parse (to_text u) = canon_host u),
   C02 (parsed objects are NUL-free), C07 (an object satisfying [produced_wf] reads back with the same
   meaning; every object reachable through the library satisfies it) and Proofs/CompareProofs.v (the
   key of the comparison).  Props/C11.v has the component-identity characterisation, the equivalence
   relation and "equal => same text" under [uri_nul_free].

   [equals_uri] (Model/Compare.v) is uriEqualsUri, [to_text] (Model/Recompose.v) the text written by
   uriToString, [parse] (Model/Parse.v) uriParseSingleUri.

   WHAT IS PROVED
   * parsed objects, no further hypothesis: equal <-> same recomposed text        C11_equal_iff_same_text_parsed
     (<-> the inputs are the same up to the spelling of an IPv6 literal            C11_equal_iff_same_canon_input)
   * objects satisfying [produced_wf] / reachable through the library:
       equal => same text, no exception                                           C11_equal_same_text_produced, _reachable
       same text => equal, for [text_faithful] objects                            C11_equal_iff_same_text_produced_partial,
                                                                                  C11_equal_iff_same_text_reachable_partial
     [text_faithful u] (a boolean, Proofs/CompareText.v) excludes three shapes:
       [rootless_leading_empty u]  no host, absolutePath off, first segment empty and followed by
                                   another one: written with "/" in front and read back as an absolute
                                   path -- known finding D6 (uriAddBaseUri("s:a", ".//b"));
       [lone_empty_hostless u]     no host, the path is one empty segment: written like no segment
                                   at all (the shape of the repaired D6a/D6b).  uriRemoveBaseUri in
                                   domain-root mode produced "/" this way; it now calls
                                   uriFixEmptyTrailSegment (C11_text_lone_empty_repaired), and NO
                                   history of library calls reaches this shape any more
                                   (C11_reachable_no_lone_empty): only hand-built objects have it;
       [ip4_name u]                a registered name whose text is a dotted quad: written like the
                                   IPv4 address, whose four octets the comparison sees
                                   (uriNormalizeSyntax of "//%31.2.3.4", DESIGN.md 0.5 item 8).
   * the exclusion is exact: an object satisfying [produced_wf] is [text_faithful] exactly when it is
     equal to every parsed object with its text                                   C11_text_faithful_exact
     and a non-faithful one is unequal to the object parsed from its own text     C11_not_faithful_unequal_reread
   * parsed objects are [text_faithful]                                           C11_parsed_text_faithful
   * reachable objects are never [lone_empty_hostless] (no side condition)        C11_reachable_no_lone_empty
     so for them two shapes are excluded, and exactly these two                   C11_equal_iff_same_text_reachable_partial2,
                                                                                  C11_reachable_faithful_exact

   WHY "_partial".  The property says "for URIs the library produced" without exception.  The two
   theorems so named carry [text_faithful u = true] and [text_faithful v = true]; by
   C11_text_faithful_exact nothing weaker will do (for reachable objects: C11_reachable_faithful_exact,
   with the two shapes that are left), and the two `_refuted` examples below that start from parsed
   texts are objects the library model produces (by uriAddBaseUri / uriNormalizeSyntax) that violate
   the clause: same text as a parsed object, not equal to it.  What is missing for the full statement
   is therefore not a proof but a change of the library (or of the property): D6 is a known finding;
   the [ip4_name] witness is of the same kind and is to be replayed on the implementation.  The third
   witness of earlier versions (uriRemoveBaseUri in domain-root mode, "lone empty segment") was such a
   change: it is repaired in the C code and is now a positive example. *)
From Coq Require Import List NArith Bool String.
From UP Require Import Base.Chars Model.Uri Model.Compare Model.Parse Model.Recompose Model.Resolve
  Model.Shorten Model.Normalize Model.History
  Spec.Identity Spec.NormalWf Spec.Reread Spec.Recompose
  Proofs.RereadWfb Proofs.RereadAll Proofs.CompareText.
From UP Require Proofs.ResolveProofs Proofs.ShortenProofs.
Import ListNotations.
Local Open Scope N_scope.

(* ---- parsed objects ---------------------------------------------------------------------------- *)
Theorem C11_equal_iff_same_text_parsed : forall a b A B, parse a = POk A -> parse b = POk B ->
  (equals_uri (Some A) (Some B) = true <-> to_text A = to_text B).
Proof. exact equal_iff_same_text_parsed. Qed.
Print Assumptions C11_equal_iff_same_text_parsed.

(* in terms of the inputs: [canon_ip6] (Spec/Recompose.v) replaces the text of an IPv6 literal by the
   eight-group lower-case form of its value and changes nothing else *)
Theorem C11_equal_iff_same_canon_input : forall a b A B, parse a = POk A -> parse b = POk B ->
  (equals_uri (Some A) (Some B) = true <-> canon_ip6 a = canon_ip6 b).
Proof. exact equal_iff_same_canon_input. Qed.
Print Assumptions C11_equal_iff_same_canon_input.

(* ---- objects satisfying the invariant of C07 --------------------------------------------------- *)
(* equal exactly when all components are identical: Props/C11.v with the NUL-freeness hypothesis
   discharged (one side is enough) *)
Theorem C11_equal_iff_identical_produced : forall a b, produced_wf a ->
  (equals_uri (Some a) (Some b) = true <-> components_identical a b).
Proof. exact equal_iff_identical_produced. Qed.
Print Assumptions C11_equal_iff_identical_produced.

Theorem C11_equal_same_text_produced : forall a b, produced_wf a ->
  equals_uri (Some a) (Some b) = true -> to_text a = to_text b.
Proof. exact equal_same_text_produced. Qed.
Print Assumptions C11_equal_same_text_produced.

(* the text determines every component the comparison looks at *)
Theorem C11_same_text_identical_produced : forall u v, produced_wf u -> produced_wf v ->
  text_faithful u = true -> text_faithful v = true ->
  to_text u = to_text v -> components_identical u v.
Proof. exact same_text_identical_produced. Qed.
Print Assumptions C11_same_text_identical_produced.

Theorem C11_equal_iff_same_text_produced_partial : forall u v, produced_wf u -> produced_wf v ->
  text_faithful u = true -> text_faithful v = true ->
  (equals_uri (Some u) (Some v) = true <-> to_text u = to_text v).
Proof. exact equal_iff_same_text_produced. Qed.
Print Assumptions C11_equal_iff_same_text_produced_partial.

(* what [text_faithful] says *)
Theorem C11_text_faithful_meaning : forall u,
  text_faithful u = negb (rootless_leading_empty u) && negb (lone_empty_hostless u) && negb (ip4_name u).
Proof. reflexivity. Qed.
Print Assumptions C11_text_faithful_meaning.

Theorem C11_parsed_text_faithful : forall s u, parse s = POk u -> text_faithful u = true.
Proof. exact parsed_text_faithful. Qed.
Print Assumptions C11_parsed_text_faithful.

(* the hypothesis is exact *)
Theorem C11_not_faithful_unequal_reread : forall u, produced_wf u -> text_faithful u = false ->
  exists w, parse (to_text u) = POk w /\ to_text w = to_text u /\ equals_uri (Some u) (Some w) = false.
Proof. exact not_faithful_unequal_reread. Qed.
Print Assumptions C11_not_faithful_unequal_reread.

Theorem C11_text_faithful_exact : forall u, produced_wf u ->
  (text_faithful u = true <->
   forall s v, parse s = POk v -> to_text v = to_text u -> equals_uri (Some u) (Some v) = true).
Proof. exact text_faithful_exact. Qed.
Print Assumptions C11_text_faithful_exact.

(* ---- objects reachable through the library (Model/History.v; the side condition on normalization
        steps is that of C07_reachable_wf: outside the defect shape D7b) ------------------------- *)
Theorem C11_equal_same_text_reachable : forall ops i u v,
  normalize_steps_ok norm_outside_findings empty_store ops -> run empty_store ops i = Some u ->
  equals_uri (Some u) (Some v) = true -> to_text u = to_text v.
Proof. exact equal_same_text_reachable. Qed.
Print Assumptions C11_equal_same_text_reachable.

Theorem C11_equal_iff_same_text_reachable_partial : forall ops ops' i j u v,
  normalize_steps_ok norm_outside_findings empty_store ops -> run empty_store ops i = Some u ->
  normalize_steps_ok norm_outside_findings empty_store ops' -> run empty_store ops' j = Some v ->
  text_faithful u = true -> text_faithful v = true ->
  (equals_uri (Some u) (Some v) = true <-> to_text u = to_text v).
Proof. exact equal_iff_same_text_reachable. Qed.
Print Assumptions C11_equal_iff_same_text_reachable_partial.

(* no reachable object is host-less with the single empty segment as its path -- any history, no side
   condition: uriRemoveBaseUri was the one operation that made such an object from operands without
   that shape *)
Theorem C11_reachable_no_lone_empty : forall ops i u,
  run empty_store ops i = Some u -> lone_empty_hostless u = false.
Proof. exact history_no_lone_empty. Qed.
Print Assumptions C11_reachable_no_lone_empty.

(* the operation itself: the reference has the shape only as a copy of a source that has it *)
Theorem C11_remove_base_no_lone_empty : forall domain_root src base, lone_empty_hostless src = false ->
  lone_empty_hostless (snd (remove_base domain_root src base)) = false.
Proof. exact ShortenProofs.remove_base_no_lone_empty. Qed.
Print Assumptions C11_remove_base_no_lone_empty.

(* so the hypothesis of the reachable clause is two shapes ... *)
Theorem C11_text_faithful_reachable_meaning : forall u,
  text_faithful_reachable u = negb (rootless_leading_empty u) && negb (ip4_name u).
Proof. reflexivity. Qed.
Print Assumptions C11_text_faithful_reachable_meaning.

Theorem C11_equal_iff_same_text_reachable_partial2 : forall ops ops' i j u v,
  normalize_steps_ok norm_outside_findings empty_store ops -> run empty_store ops i = Some u ->
  normalize_steps_ok norm_outside_findings empty_store ops' -> run empty_store ops' j = Some v ->
  text_faithful_reachable u = true -> text_faithful_reachable v = true ->
  (equals_uri (Some u) (Some v) = true <-> to_text u = to_text v).
Proof. exact equal_iff_same_text_reachable_two. Qed.
Print Assumptions C11_equal_iff_same_text_reachable_partial2.

(* ... and exactly these two *)
Theorem C11_reachable_faithful_exact : forall ops i u,
  normalize_steps_ok norm_outside_findings empty_store ops -> run empty_store ops i = Some u ->
  (text_faithful_reachable u = true <->
   forall s v, parse s = POk v -> to_text v = to_text u -> equals_uri (Some u) (Some v) = true).
Proof. exact reachable_faithful_exact. Qed.
Print Assumptions C11_reachable_faithful_exact.

(* ---- non-vacuity ------------------------------------------------------------------------------- *)
Local Open Scope string_scope.
Notation txt := ResolveProofs.txt.
Notation uri_of := ResolveProofs.uri_of.

Definition text_eqb (a b : text) : bool := if list_eq_dec N.eq_dec a b then true else false.

(* two spellings of one IPv6 address: both parse, different host texts, equal, same recomposed text *)
Example C11_text_ip6_spellings :
  match parse (txt "//[::1]"), parse (txt "//[0:0:0:0:0:0:0:1]") with
  | POk A, POk B =>
    hostText A <> hostText B /\ equals_uri (Some A) (Some B) = true
    /\ to_text A = to_text B /\ to_text A = txt "//[0000:0000:0000:0000:0000:0000:0000:0001]"
  | _, _ => False
  end.
Proof. vm_compute. repeat split; try reflexivity. intros H; discriminate H. Qed.

(* "s:/a" and "s:a": unequal, different texts; "//h" and "//h:" (absent port, empty port): unequal,
   different texts *)
Example C11_text_unequal_pairs :
  forallb (fun p => match parse (txt (fst p)), parse (txt (snd p)) with
                    | POk A, POk B => negb (equals_uri (Some A) (Some B)) && negb (text_eqb (to_text A) (to_text B))
                    | _, _ => false
                    end)
          [("s:/a", "s:a"); ("//h", "//h:"); ("s:a", "s:a?"); ("//h", "//h/"); ("//1.2.3.4", "//1.2.3.04");
           ("//[v1.x]", "//v1.x"); ("a", "A")] = true.
Proof. vm_compute. reflexivity. Qed.

(* the parsed-object theorem by computation on a pool: for every pair, equal = same text *)
Example C11_text_pool :
  let pool := ["s:/a"; "s:a"; "//h"; "//h:"; "//[::1]"; "//[0:0:0:0:0:0:0:1]"; "//[::0.0.0.1]"; "//[::2]"; "";
               "/"; "//1.2.3.4"; "//1.2.3.4."; "//[v1.x]"; "//v1.x"; "s:"; "s:?"; "?"; "#"; "a//b"; "//h//"] in
  forallb (fun a => forallb (fun b =>
             match parse (txt a), parse (txt b) with
             | POk A, POk B => Bool.eqb (equals_uri (Some A) (Some B)) (text_eqb (to_text A) (to_text B))
             | _, _ => false
             end) pool) pool = true.
Proof. vm_compute. reflexivity. Qed.

(* a reachable pair that the theorems cover: "b" resolved against "s:/a" and the parsed "s:/b" *)
Example C11_text_reachable_pair :
  let ops := [SParse 0 (txt "b"); SParse 1 (txt "s:/a"); SAddBase 2 0 1 false; SNormalize 2 63%N;
              SParse 3 (txt "s:/b")] in
  normalize_steps_ok norm_outside_findings empty_store ops
  /\ match run empty_store ops 2%nat, run empty_store ops 3%nat with
     | Some u, Some v => text_faithful u = true /\ text_faithful v = true /\ owner u <> owner v
                         /\ equals_uri (Some u) (Some v) = true /\ to_text u = to_text v
     | _, _ => False
     end.
Proof. vm_compute. repeat split; try reflexivity. intros H; discriminate H. Qed.

(* ---- the three excluded shapes: objects satisfying [produced_wf] with the text of a parsed object
        and not equal to it.  The first and the third are produced by the library model from parsed
        texts; the second is hand-built only, since the repair of uriRemoveBaseUri ---------------- *)

(* D6: uriAddBaseUri("s:a", ".//b") -- rootless, segments "" and "b" -- against the parsed "s:/b" *)
Example C11_text_rootless_leading_empty_refuted :
  let u := snd (add_base false (uri_of ".//b") (uri_of "s:a")) in
  let v := uri_of "s:/b" in
  fst (add_base false (uri_of ".//b") (uri_of "s:a")) = URI_SUCCESS
  /\ produced_wfb u = true /\ produced_wfb v = true
  /\ rootless_leading_empty u = true /\ lone_empty_hostless u = false /\ ip4_name u = false
  /\ text_faithful v = true
  /\ to_text u = txt "s:/b" /\ to_text v = txt "s:/b" /\ equals_uri (Some u) (Some v) = false
  /\ absolutePath u = false /\ pathSegs u = [[]; txt "b"] /\ absolutePath v = true /\ pathSegs v = [txt "b"].
Proof. vm_compute. repeat split; reflexivity. Qed.

(* REPAIRED.  uriRemoveBaseUri("s://h/", base "s://h/a", domainRootMode) produced: absolute, one empty
   segment, text "/", unequal to the parsed "/" (absolute, no segment) -- the same family as the repaired
   D6a/D6b.  uriRemoveBaseUriImpl now calls uriFixEmptyTrailSegment after copying the path: the
   reference is the absolute path without segments and equals the parsed "/" *)
Example C11_text_lone_empty_repaired :
  let u := snd (remove_base true (uri_of "s://h/") (uri_of "s://h/a")) in
  let v := uri_of "/" in
  fst (remove_base true (uri_of "s://h/") (uri_of "s://h/a")) = URI_SUCCESS
  /\ produced_wfb u = true /\ produced_wfb v = true
  /\ rootless_leading_empty u = false /\ lone_empty_hostless u = false /\ ip4_name u = false
  /\ text_faithful u = true /\ text_faithful v = true
  /\ to_text u = txt "/" /\ to_text v = txt "/" /\ equals_uri (Some u) (Some v) = true
  /\ absolutePath u = true /\ pathSegs u = [] /\ absolutePath v = true /\ pathSegs v = [].
Proof. vm_compute. repeat split; reflexivity. Qed.

(* the object the unrepaired code produced, hand-built (no operation of the model produces it any more:
   C11_reachable_no_lone_empty): it satisfies [produced_wf], so [text_faithful] is still what the
   [produced_wf] theorems need *)
Example C11_text_lone_empty_refuted :
  let u := mkUri None None None None None None None [[]] None None true false in
  let v := uri_of "/" in
  produced_wfb u = true /\ produced_wfb v = true
  /\ rootless_leading_empty u = false /\ lone_empty_hostless u = true /\ ip4_name u = false
  /\ text_faithful v = true
  /\ to_text u = txt "/" /\ to_text v = txt "/" /\ equals_uri (Some u) (Some v) = false
  /\ absolutePath v = true /\ pathSegs v = [].
Proof. vm_compute. repeat split; reflexivity. Qed.

(* the rootless variant, hand-built (no operation of the model produces it): one empty segment
   without the flag is written as the empty text *)
Example C11_text_lone_empty_rootless_refuted :
  let u := mkUri None None None None None None None [[]] None None false false in
  let v := uri_of "" in
  produced_wfb u = true /\ lone_empty_hostless u = true /\ rootless_leading_empty u = false
  /\ to_text u = [] /\ to_text v = [] /\ equals_uri (Some u) (Some v) = false.
Proof. vm_compute. repeat split; reflexivity. Qed.

(* uriNormalizeSyntax("//%31.2.3.4"): the registered name becomes "1.2.3.4", still without octets --
   against the parsed "//1.2.3.4", an IPv4 host with octets 1, 2, 3, 4 *)
Example C11_text_ip4_name_refuted :
  let u := normalize 63 (uri_of "//%31.2.3.4") in
  let v := uri_of "//1.2.3.4" in
  produced_wfb u = true /\ produced_wfb v = true
  /\ rootless_leading_empty u = false /\ lone_empty_hostless u = false /\ ip4_name u = true
  /\ text_faithful v = true
  /\ to_text u = txt "//1.2.3.4" /\ to_text v = txt "//1.2.3.4" /\ equals_uri (Some u) (Some v) = false
  /\ hostText u = hostText v /\ ip4 u = None /\ ip4 v = Some [1; 2; 3; 4]%N.
Proof. vm_compute. repeat split; reflexivity. Qed.

(* ... and the first and the third are reachable in the sense of C07_reachable_wf; the history that
   reached the second shape now ends in a text-faithful object equal to the parsed "/" *)
Example C11_text_refuted_reachable :
  let ops := [SParse 0 (txt ".//b"); SParse 1 (txt "s:a"); SAddBase 2 0 1 false;
              SParse 3 (txt "s://h/"); SParse 4 (txt "s://h/a"); SRemoveBase 5 3 4 true;
              SParse 6 (txt "//%31.2.3.4"); SNormalize 6 63%N; SParse 7 (txt "/")] in
  normalize_steps_ok norm_outside_findings empty_store ops
  /\ match run empty_store ops 2%nat, run empty_store ops 5%nat, run empty_store ops 6%nat, run empty_store ops 7%nat with
     | Some a, Some b, Some c, Some d =>
       rootless_leading_empty a = true /\ ip4_name c = true
       /\ lone_empty_hostless b = false /\ text_faithful b = true
       /\ to_text b = to_text d /\ equals_uri (Some b) (Some d) = true
     | _, _, _, _ => False
     end.
Proof. vm_compute. repeat split; reflexivity. Qed.
