(* C02 (IPv4 part) — uriParseIpFourAddress accepts exactly RFC 3986's IPv4address, stores the
   values written in the text, and uriToString prints those bytes back as the same text.
   Statements only; the proofs are in Proofs/Ip4Proofs.v.  (To be merged into Props/C02.v.) *)
From Coq Require Import List NArith.
From UP Require Import Base.Chars Base.Regex Model.Ip4 Model.Recompose Spec.Rfc3986 Spec.Split
  Proofs.Ip4Proofs.
Import ListNotations.
Local Open Scope N_scope.

(* RFC 3986 dec-octet is exactly the set of decimal numerals, without leading zero, of the values
   0..255 — written the way uriToString writes an octet *)
Theorem C02_ip4_dec_octet_grammar : forall t,
  matchb Rfc3986.dec_octet t = true <-> exists v, v <= 255 /\ t = octet_text v.
Proof. exact dec_octet_grammar. Qed.
Print Assumptions C02_ip4_dec_octet_grammar.

(* uriParseIpFourAddress succeeds on exactly the texts of the RFC's IPv4address *)
Theorem C02_ip4_parse_grammar : forall t,
  (exists o, parse_ip4 t = Some o) <-> matches IPv4address t.
Proof. exact parse_ip4_grammar. Qed.
Print Assumptions C02_ip4_parse_grammar.

(* the four stored bytes are the values written in the text (split at '.', decimal value of each
   part), and each fits an unsigned char without wrapping *)
Theorem C02_ip4_parse_value : forall t o, parse_ip4 t = Some o ->
  o = ip4_value t /\ length o = 4%nat /\ Forall (fun b => b <= 255) o.
Proof. exact parse_ip4_value. Qed.
Print Assumptions C02_ip4_parse_value.

(* printing the four bytes (uriToString's IPv4 branch) reproduces the host text character for
   character *)
Theorem C02_ip4_parse_render : forall t o, parse_ip4 t = Some o -> concat (ip4_pieces o 0) = t.
Proof. exact parse_ip4_render. Qed.
Print Assumptions C02_ip4_parse_render.

(* conversely, the printed form of any four bytes parses back to those bytes *)
Theorem C02_ip4_render_parse : forall a b c d, a <= 255 -> b <= 255 -> c <= 255 -> d <= 255 ->
  parse_ip4 (concat (ip4_pieces [a; b; c; d] 0)) = Some [a; b; c; d].
Proof. exact parse_ip4_of_render. Qed.
Print Assumptions C02_ip4_render_parse.

(* "199.249.250.99" is accepted with the expected bytes; "256.1.1.1", "01.2.3.4", "1.2.3",
   "1.2.3.4.5" and "" are rejected by both the function and the grammar *)
Example C02_ip4_nonvacuous :
  parse_ip4 [49;57;57;46;50;52;57;46;50;53;48;46;57;57] = Some [199; 249; 250; 99]
  /\ matchb IPv4address [49;57;57;46;50;52;57;46;50;53;48;46;57;57] = true
  /\ map (fun t => (parse_ip4 t, matchb IPv4address t))
       [ [50;53;54;46;49;46;49;46;49]; [48;49;46;50;46;51;46;52]; [49;46;50;46;51];
         [49;46;50;46;51;46;52;46;53]; [] ]
     = [ (None, false); (None, false); (None, false); (None, false); (None, false) ].
Proof. repeat split; vm_compute; reflexivity. Qed.
