(* C08, relative-path references -- outside the five known shapes normalization yields exactly the
   specification's normal form of the path.  Statements only (proofs: Proofs/RelNormalize.v).

   All theorems are about the model of src/UriNormalize.c: [normalize 63 u] (uriNormalizeSyntax, allocation
   succeeding), for every URI object [u], not only parsed ones.  A relative-path reference
   ([relative_ref u]: no scheme, no host, not absolutePath) is the one case in which the C code removes dot
   segments with its "relative" rule (uriRemoveDotSegmentsEx, relative = URI_TRUE): a leading ".." run is
   kept, and a "." is kept in front of a first segment containing ':'.  Props/C08.v leaves this case out.

   Vocabulary
     path_text u          the path as uriToString writes it (Proofs/NormalizeLink.v)
     Normal.path_normal false false p
                          the specification (Spec/Normal.v): percent-encoding normalization of every segment,
                          then, for a rootless p, Normal.rel_path_normal: "x/.." pairs and "." cancelled, the
                          leading ".." run kept, "./" in front where the text would otherwise begin with a
                          segment containing ':' or with an empty segment, "./" where everything cancels
     uri_pct_wf u         every '%' starts "%" HEXDIG HEXDIG (Spec/NormalWf.v)
     no_slash s           the segment contains no '/'
     rootless_ok u        the first segment of a host-less rootless path is not empty
     wf u                 (Proofs/ResolveProofs.v) implies the last two; every parsed reference has it
   The five shapes in which the C code leaves the specification (open findings, DESIGN.md 0.4):
     kf_cancels u         D7a  the result has no segment            "a/.."          -> ""      not "./"
     kf_exposes_colon u   D7b  the result begins with a "x:y"       "a/../b:c"      -> "b:c"   not "./b:c"
     kf_exposes_empty u   D7c  the result begins with "" and more   "a/..//b"       -> "/b"    not ".//b"
     kf_stale_dot u       D7d  the result begins with "." and a     "./b:c/../x"    -> "./x"   not "x"
                               non-empty segment without ':'
     kf_dot_eaten u       D7e  a ".." cancels the kept "."          "./b:c/../../x" -> "x"     not "../x"
   Four are predicates on the result alone, kf_dot_eaten follows the walk over the input (CommuteProofs.eats_dot);
   kf_stale_dot is also given on the input (C08rel_stale_dot_on_input).  Each has a refutation witness below, and
   on all lists of up to five segments over {"", ".", "..", "a", "b:c", "%2e", "%2E%2e"} the five shapes are exactly
   the inputs on which the model deviates (C08rel_statement_tested): no further shape was found. *)
From Coq Require Import String List NArith Bool.
From UP Require Import Base.Chars Model.Uri Model.Common Model.Normalize Spec.NormalWf
  Proofs.DotSegments Proofs.ResolveProofs Proofs.NormalizeProofs Proofs.CommuteProofs Proofs.RelNormalize.
From UP Require Spec.Normal Spec.Resolve Proofs.NormalizeLink.
Import ListNotations.
Local Open Scope N_scope.
Local Notation path_text := NormalizeLink.path_text.
Local Notation no_slash := NormalizeLink.no_slash.
Local Notation rootless_ok := NormalizeLink.rootless_ok.

(* ---- 1. the theorem ------------------------------------------------------------------------ *)
Theorem C08rel_path_is_spec : forall u,
  uri_pct_wf u = true -> Forall no_slash (pathSegs u) -> rootless_ok u ->
  relative_ref u = true ->
  kf_cancels u = false -> kf_dot_eaten u = false -> kf_exposes_empty u = false -> kf_exposes_colon u = false ->
  kf_stale_dot u = false ->
  path_text (normalize 63 u) = Normal.path_normal false false (path_text u).
Proof. exact rel_normalize_is_spec. Qed.
Print Assumptions C08rel_path_is_spec.

(* only the path segments are read *)
Theorem C08rel_path_is_spec_segs : forall u,
  forallb pct_wf (pathSegs u) = true -> Forall no_slash (pathSegs u) -> rootless_ok u ->
  relative_ref u = true ->
  kf_cancels u = false -> kf_dot_eaten u = false -> kf_exposes_empty u = false -> kf_exposes_colon u = false ->
  kf_stale_dot u = false ->
  path_text (normalize 63 u) = Normal.path_normal false false (path_text u).
Proof. exact rel_normalize_is_spec_segs. Qed.
Print Assumptions C08rel_path_is_spec_segs.

(* with the well-formedness every parsed reference has (C06: parsed_wf) *)
Theorem C08rel_path_is_spec_wf : forall u,
  uri_pct_wf u = true -> wf u = true -> relative_ref u = true ->
  kf_cancels u = false -> kf_dot_eaten u = false -> kf_exposes_empty u = false -> kf_exposes_colon u = false ->
  kf_stale_dot u = false ->
  path_text (normalize 63 u) = Normal.path_normal false false (path_text u).
Proof. exact rel_normalize_is_spec_wf. Qed.
Print Assumptions C08rel_path_is_spec_wf.

(* where the percent-encoding engine changes no segment: Normal.rel_path_normal of the text itself *)
Theorem C08rel_path_is_rel_path_normal : forall u,
  forallb pct_wf (pathSegs u) = true -> Forall no_slash (pathSegs u) -> rootless_ok u ->
  relative_ref u = true -> map fix_pct (pathSegs u) = pathSegs u ->
  kf_cancels u = false -> kf_dot_eaten u = false -> kf_exposes_empty u = false -> kf_exposes_colon u = false ->
  kf_stale_dot u = false ->
  path_text (normalize 63 u) = Normal.rel_path_normal (path_text u).
Proof. exact rel_normalize_is_rel_path_normal. Qed.
Print Assumptions C08rel_path_is_rel_path_normal.

(* ---- 2. what the proof rests on: the walk against the specification's stack ------------------- *)
(* uriRemoveDotSegmentsEx in relative mode, started on the specification's stack [st] (most recent first)
   standing on at most one kept "." ([d]), leaves the specification's segments behind at most one kept ".",
   unless a ".." cancels the kept "." (eats_dot); the one exception is a lone final "." on an empty stack
   (no segment instead of one empty segment).  [rel_from [] segs] is Normal.rel_segments segs. *)
Theorem C08rel_walk_is_spec_stack : forall rest st d,
  dot_or_none d -> eats_dot (st ++ d) rest = false -> rest <> [] ->
  (exists d', dot_or_none d' /\ rds_walk true false false (st ++ d) rest = d' ++ rel_from st rest)
  \/ (rds_walk true false false (st ++ d) rest = [] /\ rel_from st rest = [[]]).
Proof. exact walk_rel_spec. Qed.
Print Assumptions C08rel_walk_is_spec_stack.

Theorem C08rel_rel_from_is_rel_segments : forall segs, Normal.rel_segments segs = rel_from [] segs.
Proof. exact rel_segments_from. Qed.
Print Assumptions C08rel_rel_from_is_rel_segments.

(* ---- 3. the carve-out for D7d on the input ------------------------------------------------------ *)
(* kf_stale_dot looks at the result only (it begins with "." followed by a non-empty segment without ':', or
   by nothing); it is the same as following the walk over the percent-normalized input to its end
   (stale_dot, the recursion of rds_walk / eats_dot) and looking at what the walk leaves *)
Theorem C08rel_stale_dot_on_input : forall u,
  kf_stale_dot u = relative_ref u && stale_dot [] (map fix_pct (pathSegs u)).
Proof. exact kf_stale_dot_input. Qed.
Print Assumptions C08rel_stale_dot_on_input.

(* ---- 4. every carve-out is necessary ------------------------------------------------------------ *)
(* [rel_hyps R]: the four hypotheses in front of the carve-outs.  In each witness exactly one shape holds. *)
Theorem C08rel_cancels_refuted :            (* D7a *)
  exists R, parsed "a/.." R /\ rel_hyps R
    /\ kf_cancels R = true /\ kf_dot_eaten R = false /\ kf_exposes_empty R = false
    /\ kf_exposes_colon R = false /\ kf_stale_dot R = false
    /\ path_text (normalize 63 R) = txt "" /\ Normal.path_normal false false (path_text R) = txt "./".
Proof. exact rel_cancels_refuted. Qed.
Print Assumptions C08rel_cancels_refuted.

Theorem C08rel_dot_eaten_refuted :          (* D7e *)
  exists R, parsed "./b:c/../../x" R /\ rel_hyps R
    /\ kf_cancels R = false /\ kf_dot_eaten R = true /\ kf_exposes_empty R = false
    /\ kf_exposes_colon R = false /\ kf_stale_dot R = false
    /\ path_text (normalize 63 R) = txt "x" /\ Normal.path_normal false false (path_text R) = txt "../x".
Proof. exact rel_dot_eaten_refuted. Qed.
Print Assumptions C08rel_dot_eaten_refuted.

Theorem C08rel_exposes_empty_refuted :      (* D7c *)
  exists R, parsed "a/..//b" R /\ rel_hyps R
    /\ kf_cancels R = false /\ kf_dot_eaten R = false /\ kf_exposes_empty R = true
    /\ kf_exposes_colon R = false /\ kf_stale_dot R = false
    /\ path_text (normalize 63 R) = txt "/b" /\ Normal.path_normal false false (path_text R) = txt ".//b".
Proof. exact rel_exposes_empty_refuted. Qed.
Print Assumptions C08rel_exposes_empty_refuted.

Theorem C08rel_exposes_colon_refuted :      (* D7b *)
  exists R, parsed "a/../b:c" R /\ rel_hyps R
    /\ kf_cancels R = false /\ kf_dot_eaten R = false /\ kf_exposes_empty R = false
    /\ kf_exposes_colon R = true /\ kf_stale_dot R = false
    /\ path_text (normalize 63 R) = txt "b:c" /\ Normal.path_normal false false (path_text R) = txt "./b:c".
Proof. exact rel_exposes_colon_refuted. Qed.
Print Assumptions C08rel_exposes_colon_refuted.

Theorem C08rel_stale_dot_refuted :          (* D7d *)
  exists R, parsed "./b:c/../x" R /\ rel_hyps R
    /\ kf_cancels R = false /\ kf_dot_eaten R = false /\ kf_exposes_empty R = false
    /\ kf_exposes_colon R = false /\ kf_stale_dot R = true
    /\ path_text (normalize 63 R) = txt "./x" /\ Normal.path_normal false false (path_text R) = txt "x".
Proof. exact rel_stale_dot_refuted. Qed.
Print Assumptions C08rel_stale_dot_refuted.

(* the hypotheses are what [wf] says of a relative-path reference *)
Theorem C08rel_hyps_of_wf : forall u,
  uri_pct_wf u = true -> wf u = true -> relative_ref u = true -> rel_hyps u.
Proof. exact rel_hyps_of_wf. Qed.
Print Assumptions C08rel_hyps_of_wf.

(* ---- 5. the hypotheses are satisfiable, the theorem says something ------------------------------ *)
Example C08rel_dots :                       (* a leading "..", a ".", a cancelled pair *)
  exists R, parsed "../a/./b/../c" R /\ rel_hyps R
    /\ kf_cancels R = false /\ kf_dot_eaten R = false /\ kf_exposes_empty R = false
    /\ kf_exposes_colon R = false /\ kf_stale_dot R = false
    /\ path_text (normalize 63 R) = txt "../a/c".
Proof. exact rel_example_dots. Qed.

Example C08rel_essential_dot :              (* the "." in front of a first segment with ':' stays *)
  exists R, parsed "./a:b/c" R /\ rel_hyps R
    /\ kf_cancels R = false /\ kf_dot_eaten R = false /\ kf_exposes_empty R = false
    /\ kf_exposes_colon R = false /\ kf_stale_dot R = false
    /\ path_text (normalize 63 R) = txt "./a:b/c".
Proof. exact rel_example_essential_dot. Qed.

Example C08rel_pct_dots :                   (* percent-encoded dot segments; a "." in front of a "x:y" segment that
                                               is not the first one (behind a kept ".."): dropped; a final ".."
                                               leaving a trailing slash *)
  exists R, parsed "%2e%2E/x/%2e%2e/./b:c/%7e/d/.." R /\ rel_hyps R
    /\ kf_cancels R = false /\ kf_dot_eaten R = false /\ kf_exposes_empty R = false
    /\ kf_exposes_colon R = false /\ kf_stale_dot R = false
    /\ path_text (normalize 63 R) = txt "../b:c/~/".
Proof. exact rel_example_pct. Qed.

Example C08rel_guard :                      (* two empty segments exposed: the "." of uriFixAmbiguity (the repair
                                               of D14) is the "./" of the specification *)
  exists R, parsed "a/..//" R /\ rel_hyps R
    /\ kf_cancels R = false /\ kf_dot_eaten R = false /\ kf_exposes_empty R = false
    /\ kf_exposes_colon R = false /\ kf_stale_dot R = false
    /\ path_text (normalize 63 R) = txt ".//" /\ Normal.path_normal false false (path_text R) = txt ".//".
Proof. exact rel_example_guard. Qed.

(* the statement as a boolean, computed on all 19608 lists of up to five segments over
   {"", ".", "..", "a", "b:c", "%2e", "%2E%2e"}: it holds on each of the 13134 lists that satisfy the
   hypotheses, and each of the 3673 well-formed lists inside one of the five shapes deviates (a test of the
   statement and of the exactness of the carve-outs; not the proof) *)
Example C08rel_statement_tested :
  forallb stmt_ok (lists_upto 5) = true
  /\ forallb (fun segs => let u := rel_uri segs in
                          if rel_hyps_b u && carved u then negb (agrees u) else true) (lists_upto 5) = true
  /\ N.of_nat (length (lists_upto 5)) = 19608
  /\ N.of_nat (length (filter (fun segs => rel_hyps_b (rel_uri segs)) (lists_upto 5))) = 16807
  /\ N.of_nat (length (filter (fun segs => rel_hyps_b (rel_uri segs) && negb (carved (rel_uri segs)))
                              (lists_upto 5))) = 13134.
Proof. exact stmt_ok_exhaustive. Qed.
