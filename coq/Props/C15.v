(* C15 — a manager completed from malloc/free alone behaves as a correct allocator.
   Statements only; the proofs are in Proofs/MemoryProofs.v.

   Reading guide.  [Spec/AllocSpec.v] is the ideal allocator: [sstep s op r] tells whether
   answer [r] to call [op] is allowed in heap [s] and gives the heap afterwards; [svalid] is
   what the caller owes (size_t arguments, only pointers it holds, loads/stores inside its
   blocks); [accepts] runs a whole history.  [Model/Memory.v] is UriMemory.c over an abstract
   backend with a failure plan, a cap, and a call log.  [abs] forgets the 8-byte headers,
   [conc_ptr] turns the caller's block name into "backend pointer + 8".  A history is a list
   of specification-level calls; [client_ok] says each of them is one the caller may make in
   the state it is made in.  All statements are for every failure plan, cap, junk byte and
   every size_t value. *)
From UP Require Import Base.Bytes Spec.AllocSpec Model.Memory Proofs.MemoryProofs.
Local Open Scope N_scope.

(* ---- refinement ---------------------------------------------------------------- *)
(* every finite history of calls, any backend failures: every answer is one the ideal allocator
   may give, the caller's view of the final heap is the ideal allocator's final heap, and every
   returned pointer is NULL or the backend's pointer plus sizeof(size_t) *)
Theorem C15_refines_ideal_allocator : forall plan cap junk ops,
  client_ok (init plan cap junk) ops ->
  let x := run (init plan cap junk) (map conc_op ops) in
  accepts [] (combine ops (map abs_res (snd x))) = Some (abs (fst x))
  /\ Forall (fun r => r_ptr r = conc_ptr (sr_ptr (abs_res r))) (snd x)
  /\ length (snd x) = length ops
  /\ inv (fst x).
Proof. exact history_refines. Qed.
Print Assumptions C15_refines_ideal_allocator.

(* the same for one call from any reachable state (the induction step) *)
Theorem C15_one_call_refines : forall st o, inv st -> svalid (abs st) o = true ->
  inv (fst (step st (conc_op o)))
  /\ sstep (abs st) o (abs_res (snd (step st (conc_op o)))) = Some (abs (fst (step st (conc_op o))))
  /\ r_ptr (snd (step st (conc_op o))) = conc_ptr (sr_ptr (abs_res (snd (step st (conc_op o))))).
Proof. exact step_refines. Qed.
Print Assumptions C15_one_call_refines.

(* live blocks are disjoint and usable over their full size: a block of the caller is the part
   after the size header of its own backend block; the header still holds the block's size *)
Theorem C15_block_layout : forall st b c, inv st -> afind b (abs st) = Some c ->
  afind b (be_live st) = Some (le_bytes 8 (len c) ++ c) /\ len c < 2 ^ 64.
Proof. exact client_block_layout. Qed.
Print Assumptions C15_block_layout.

(* ---- what the ideal allocator demands, clause by clause -------------------------- *)
Theorem C15_spec_malloc_fresh : forall s n r s' id,
  sstep s (SMalloc n) r = Some s' -> sr_ptr r = Some id ->
  amem id s = false /\ s' = (id, sr_data r) :: s /\ n <= len (sr_data r).
Proof. exact spec_malloc_fresh. Qed.
Print Assumptions C15_spec_malloc_fresh.

Theorem C15_spec_calloc_zeroed : forall s nm sz r s' id,
  sstep s (SCalloc nm sz) r = Some s' -> sr_ptr r = Some id ->
  amem id s = false /\ s' = (id, sr_data r) :: s /\ nm * sz < SIZE_LIMIT
  /\ nm * sz <= len (sr_data r)
  /\ firstn (N.to_nat (nm * sz)) (sr_data r) = repeat 0 (N.to_nat (nm * sz)).
Proof. exact spec_calloc_zeroed. Qed.
Print Assumptions C15_spec_calloc_zeroed.

Theorem C15_spec_realloc_prefix : forall s id n r s' id' c,
  sstep s (SRealloc (Some id) n) r = Some s' -> n <> 0 -> afind id s = Some c ->
  sr_ptr r = Some id' ->
  let k := N.to_nat (N.min (len c) n) in
  n <= len (sr_data r) /\ firstn k (sr_data r) = firstn k c
  /\ ((id' = id /\ s' = aupdate id (sr_data r) s)
      \/ (id' <> id /\ amem id' s = false /\ s' = (id', sr_data r) :: aremove id s)).
Proof. exact spec_realloc_prefix. Qed.
Print Assumptions C15_spec_realloc_prefix.

Theorem C15_spec_overflow_enomem : forall s o r s' nm sz,
  (o = SCalloc nm sz \/ exists p, o = SReallocarray p nm sz) ->
  SIZE_LIMIT <= nm * sz -> sstep s o r = Some s' ->
  sr_ptr r = None /\ sr_errno r = Some AllocSpec.ENOMEM /\ s' = s.
Proof. exact spec_overflow_enomem. Qed.
Print Assumptions C15_spec_overflow_enomem.

Theorem C15_spec_null_zero_conventions : forall s r,
  (forall n, sstep s (SRealloc None n) r = sstep s (SMalloc n) r)
  /\ (forall id, amem id s = true ->
        sstep s (SRealloc (Some id) 0) r = sstep s (SFree (Some id)) r
        /\ (forall s', sstep s (SFree (Some id)) r = Some s' ->
              sr_ptr r = None /\ s' = aremove id s))
  /\ (forall s', sstep s (SFree None) r = Some s' -> s' = s).
Proof. exact spec_null_zero_conventions. Qed.
Print Assumptions C15_spec_null_zero_conventions.

Theorem C15_spec_failure_intact : forall s o r s', sstep s o r = Some s' ->
  is_alloc_call o = true -> frees_by_convention o = false -> sr_ptr r = None -> s' = s.
Proof. exact spec_failure_intact. Qed.
Print Assumptions C15_spec_failure_intact.

(* the test of URI_CHECK_ALLOC_OVERFLOW on the wrapped product is exact for size_t operands *)
Theorem C15_overflow_test_exact : forall nm sz, nm < 2 ^ 64 -> sz < 2 ^ 64 ->
  check_alloc_overflow (wrap (nm * sz)) nm sz = (SIZE_LIMIT <=? nm * sz).
Proof. exact check_alloc_overflow_spec. Qed.
Print Assumptions C15_overflow_test_exact.

(* ---- the backend's side ------------------------------------------------------------ *)
(* the backend and its memory are never misused; its live set is what its own call log says;
   every free is of a pointer the backend returned (block start); each block is handed out at
   most once and has been released exactly once unless it is still live *)
Theorem C15_backend_blocks_released_once : forall plan cap junk ops,
  client_ok (init plan cap junk) ops ->
  let st := fst (run (init plan cap junk) (map conc_op ops)) in
  be_fault st = false
  /\ log_live (be_log st) = Some (map fst (be_live st))
  /\ (forall p, In (BFree p) (be_log st) -> exists b, p = Ptr b 0)
  /\ (forall b, (n_malloc b (be_log st) <= 1)%nat
                /\ n_malloc b (be_log st)
                   = (n_free b (be_log st) + (if amem b (be_live st) then 1 else 0))%nat).
Proof. exact history_backend. Qed.
Print Assumptions C15_backend_blocks_released_once.

Theorem C15_nothing_left_allocated : forall plan cap junk ops,
  client_ok (init plan cap junk) ops ->
  let st := fst (run (init plan cap junk) (map conc_op ops)) in
  abs st = [] ->
  be_live st = [] /\ forall b, n_free b (be_log st) = n_malloc b (be_log st).
Proof. exact nothing_left. Qed.
Print Assumptions C15_nothing_left_allocated.

(* a failure surfaces as NULL with every block of the caller intact *)
Theorem C15_failure_leaves_blocks_intact : forall st o, inv st -> svalid (abs st) o = true ->
  is_alloc_call o = true -> frees_by_convention o = false ->
  r_ptr (snd (step st (conc_op o))) = Null ->
  abs (fst (step st (conc_op o))) = abs st.
Proof. exact failure_intact. Qed.
Print Assumptions C15_failure_leaves_blocks_intact.

(* and failures come only from the backend or from a request that does not fit with its header *)
Theorem C15_served_when_backend_serves : forall st o t, inv st -> svalid (abs st) o = true ->
  request o = Some t -> frees_by_convention o = false ->
  t <= SIZE_MAX - 8 -> refuses st (8 + t) = false ->
  r_ptr (snd (step st (conc_op o))) <> Null.
Proof. exact served_when_backend_serves. Qed.
Print Assumptions C15_served_when_backend_serves.

(* ---- the hypotheses are satisfiable, the model computes ------------------------------- *)
Definition ex_ops : list sop :=
  [ SMalloc 3; SStore (Some 0) 0 [1; 2; 3];
    SRealloc (Some 0) 5;                      (* backend refuses (plan): NULL, block 0 intact *)
    SRealloc (Some 0) 5;                      (* moves to block 1, prefix 1 2 3 *)
    SRealloc (Some 1) 2;                      (* shrink: same block *)
    SCalloc 2 2;                              (* block 2, zeroed *)
    SReallocarray (Some 2) (2 ^ 32) (2 ^ 32); (* product 2^64: ENOMEM *)
    SCalloc (2 ^ 63) 2;                       (* ENOMEM *)
    SMalloc (2 ^ 64 - 8);                     (* header would wrap: ENOMEM *)
    SMalloc 4096;                             (* above the backend's cap: NULL, errno untouched *)
    SLoad (Some 1) 0 5;
    SReallocarray (Some 2) 0 7;               (* frees block 2 *)
    SFree None; SRealloc (Some 1) 0 ].

Example C15_nonvacuous :
  let st0 := init [false; true] 100 165 in
  client_ok st0 ex_ops
  /\ map (fun r => (r_ptr r, r_errno r, r_data r)) (snd (run st0 (map conc_op ex_ops)))
     = [ (Ptr 0 8, None, [165; 165; 165]); (Null, None, []);
         (Null, None, []);
         (Ptr 1 8, None, [1; 2; 3; 165; 165]);
         (Ptr 1 8, None, [1; 2; 3; 165; 165]);
         (Ptr 2 8, None, [0; 0; 0; 0]);
         (Null, Some 12, []); (Null, Some 12, []); (Null, Some 12, []); (Null, None, []);
         (Null, None, [1; 2; 3; 165; 165]);
         (Null, None, []); (Null, None, []); (Null, None, []) ]
  /\ abs (fst (run st0 (map conc_op ex_ops))) = []
  /\ rev (be_log (fst (run st0 (map conc_op ex_ops))))
     = [ BMalloc 11 (Ptr 0 0); BMalloc 13 Null; BMalloc 13 (Ptr 1 0); BFree (Ptr 0 0);
         BMalloc 12 (Ptr 2 0); BMalloc 4104 Null; BFree (Ptr 2 0); BFree (Ptr 1 0) ].
Proof. vm_compute. repeat split; reflexivity. Qed.

(* the specification is not trivially permissive: it rejects a calloc result that is not zeroed,
   a realloc that loses a byte, a wrong errno on overflow, and a block handed out twice *)
Example C15_spec_rejects :
  sstep [] (SCalloc 1 2) (mkSres (Some 0) None [0; 7]) = None
  /\ sstep [(0, [1; 2])] (SRealloc (Some 0) 3) (mkSres (Some 1) None [1; 9; 0]) = None
  /\ sstep [] (SCalloc (2 ^ 63) 2) (mkSres None None []) = None
  /\ sstep [(0, [1; 2])] (SMalloc 1) (mkSres (Some 0) None [5]) = None
  /\ sstep [(0, [1; 2])] (SRealloc (Some 0) 3) (mkSres None None []) = Some [(0, [1; 2])].
Proof. vm_compute. repeat split; reflexivity. Qed.
