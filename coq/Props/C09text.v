(* C09 -- normalization never changes what a reference identifies: PARSED TEXTS.  Statements only;
   proofs in Proofs/CommuteText.v (from Proofs/CommuteProofs.v, Proofs/ResolveText.v,
   Proofs/NormalizeText.v).

   Props/C09.v states the commutation N (resolve (N R) B) = N (resolve R B) for URI objects under
   object-level hypotheses (uri_pct_wf R, one_kind R, "no host with the absolutePath flag" for B).  Here R
   and B are the objects parsed from two texts r and b: those hypotheses are gone (C02_parsed_wf_for_
   normalization, C02_parsed_wf_for_resolution), the conclusion is also given as an equation between the
   texts uriToString writes, and that text is the specification's: the recomposition of the normal form
   (Spec/Normal.v five_normal, guard_normal) of the RFC's target (Spec/Resolve.v transform,
   guard_slashes) of the five components of the two TEXTS.
   What stays, all booleans on the parsed reference R (or on the texts):
     c = false \/ f_scheme (five_of_text r) = None
                          strict resolution, or a reference text without scheme
                          (C09_commute_compat_refuted)
     no_pct_dot R         no segment that the percent-encoding engine turns into "." or ".."; not a fact
                          about parser output: "/a/%2e%2e/../b" (C09_parsed_no_pct_dot_refuted,
                          C09_commute_pct_dot_refuted)
     kf_cancels R, kf_dot_eaten R   the two shapes of relative-path references on which the property is
                          false on the current code (findings D7a, D7e; C09_commute_refuted,
                          C09_commute_dot_eaten_refuted -- both witnesses are parsed texts)
     kf_exposes_empty R, kf_exposes_colon R   (kind theorem; D7c, D7b)
     scheme B <> None and unspecified_corner ... = false   (text-is-specification theorems only; as in
                          Props/C06text.v) *)
From Coq Require Import List NArith Bool String.
From UP Require Import Base.Chars Model.Uri Model.Common Model.Resolve Model.Normalize Model.Parse Model.Recompose
  Spec.NormalWf Proofs.ResolveProofs Proofs.NormalizeProofs Proofs.CommuteProofs Proofs.CommuteText.
From UP Require Spec.Resolve Spec.Normal Spec.Recompose Proofs.NormalizeText.
Import ListNotations.
Local Open Scope N_scope.
Local Notation five_of_text := Resolve.five_of_text.
Local Notation canon_ip6 := Spec.Recompose.canon_ip6.
Local Notation ip6_rendered := NormalizeText.ip6_rendered.

(* ---- 1. normalization commutes with resolution, parsed texts ---------------------------------- *)
Theorem C09_parsed_commute : forall c b r B R, parse b = POk B -> parse r = POk R ->
  (c = false \/ Resolve.f_scheme (five_of_text r) = None) ->
  no_pct_dot R = true -> kf_cancels R = false -> kf_dot_eaten R = false ->
  components (normalize 63 (snd (add_base c (normalize 63 R) B)))
  = components (normalize 63 (snd (add_base c R B))).
Proof. exact commute_parsed. Qed.
Print Assumptions C09_parsed_commute.

(* the two texts written are the same text *)
Theorem C09_parsed_commute_text : forall c b r B R, parse b = POk B -> parse r = POk R ->
  (c = false \/ Resolve.f_scheme (five_of_text r) = None) ->
  no_pct_dot R = true -> kf_cancels R = false -> kf_dot_eaten R = false ->
  to_text (normalize 63 (snd (add_base c (normalize 63 R) B)))
  = to_text (normalize 63 (snd (add_base c R B))).
Proof. exact commute_parsed_text. Qed.
Print Assumptions C09_parsed_commute_text.

(* a reference text with a scheme, an authority or an absolute path: no carve-out *)
Theorem C09_parsed_commute_not_relative : forall c b r B R, parse b = POk B -> parse r = POk R ->
  (c = false \/ Resolve.f_scheme (five_of_text r) = None) ->
  no_pct_dot R = true -> relative_ref R = false ->
  components (normalize 63 (snd (add_base c (normalize 63 R) B)))
  = components (normalize 63 (snd (add_base c R B)))
  /\ to_text (normalize 63 (snd (add_base c (normalize 63 R) B)))
     = to_text (normalize 63 (snd (add_base c R B))).
Proof. exact commute_parsed_not_relative. Qed.
Print Assumptions C09_parsed_commute_not_relative.

(* ---- 2. ... and that text is the specification's ---------------------------------------------- *)
(* parse, parse, resolve, normalize, write = recompose (normal form (guard (transform ...))) of the two
   texts, IPv6 literals in the form uriToString writes (hypothesis) ... *)
Theorem C09_parsed_resolve_normalize_text_rendered : forall c b r B R,
  parse b = POk B -> parse r = POk R -> scheme B <> None ->
  Resolve.unspecified_corner (negb c) (five_of_text b) (five_of_text r) = false ->
  ip6_rendered B = true -> ip6_rendered R = true ->
  let t := Resolve.guard_slashes (Resolve.transform (negb c) (five_of_text b) (five_of_text r)) in
  to_text (normalize 63 (snd (add_base c R B))) = Resolve.recompose (Normal.guard_normal t (Normal.five_normal t)).
Proof. exact resolve_normalize_parsed_text_rendered. Qed.
Print Assumptions C09_parsed_resolve_normalize_text_rendered.

(* ... or rewritten in that form (canon_ip6: the identity on texts without IPv6 literal): every pair of
   texts *)
Theorem C09_parsed_resolve_normalize_text : forall c b r B R,
  parse b = POk B -> parse r = POk R -> scheme B <> None ->
  Resolve.unspecified_corner (negb c) (five_of_text b) (five_of_text r) = false ->
  let t := Resolve.guard_slashes (Resolve.transform (negb c) (five_of_text (canon_ip6 b)) (five_of_text (canon_ip6 r))) in
  to_text (normalize 63 (snd (add_base c R B))) = Resolve.recompose (Normal.guard_normal t (Normal.five_normal t)).
Proof. exact resolve_normalize_parsed_text. Qed.
Print Assumptions C09_parsed_resolve_normalize_text.

(* normalizing the reference first gives the same specification text *)
Theorem C09_parsed_normalize_resolve_normalize_text : forall c b r B R,
  parse b = POk B -> parse r = POk R -> scheme B <> None ->
  Resolve.unspecified_corner (negb c) (five_of_text b) (five_of_text r) = false ->
  (c = false \/ Resolve.f_scheme (five_of_text r) = None) ->
  no_pct_dot R = true -> kf_cancels R = false -> kf_dot_eaten R = false ->
  let t := Resolve.guard_slashes (Resolve.transform (negb c) (five_of_text (canon_ip6 b)) (five_of_text (canon_ip6 r))) in
  to_text (normalize 63 (snd (add_base c (normalize 63 R) B)))
  = Resolve.recompose (Normal.guard_normal t (Normal.five_normal t)).
Proof. exact normalize_resolve_normalize_parsed_text. Qed.
Print Assumptions C09_parsed_normalize_resolve_normalize_text.

(* ---- 3. the kind of a parsed reference with neither scheme nor authority ---------------------- *)
Theorem C09_parsed_kind_kept : forall r R, parse r = POk R ->
  Resolve.f_scheme (five_of_text r) = None -> Resolve.f_auth (five_of_text r) = None ->
  kf_cancels R = false -> kf_exposes_empty R = false -> kf_exposes_colon R = false ->
  path_kind (normalize 63 R) = path_kind R
  /\ reads_scheme (normalize 63 R) = false /\ reads_authority (normalize 63 R) = false.
Proof. exact kind_kept_parsed. Qed.
Print Assumptions C09_parsed_kind_kept.

(* ---- a hypothesis that is not a fact about parser output --------------------------------------- *)
Theorem C09_parsed_no_pct_dot_refuted :
  exists r R, parse r = POk R /\ no_pct_dot R = false /\ relative_ref R = false.
Proof. exact no_pct_dot_parsed_refuted. Qed.
Print Assumptions C09_parsed_no_pct_dot_refuted.

(* ---- non-vacuity ------------------------------------------------------------------------------ *)
Local Open Scope string_scope.

(* RFC 3986 5.4, base "http://a/b/c/d;p?q": the references parse and meet every hypothesis of
   C09_parsed_commute_text and C09_parsed_resolve_normalize_text; the three texts -- reference normalized
   first, not normalized first, specification -- are equal *)
Example C09_parsed_rfc_5_4 :
  let b := txt "http://a/b/c/d;p?q" in
  forallb (fun '(r, e) =>
      match parse b, parse (txt r) with
      | POk B, POk R =>
          is_some (scheme B) && no_pct_dot R && negb (kf_cancels R) && negb (kf_dot_eaten R)
          && negb (Resolve.unspecified_corner true (five_of_text b) (five_of_text (txt r)))
          && (let t := Resolve.guard_slashes (Resolve.transform true (five_of_text (canon_ip6 b))
                                                                (five_of_text (canon_ip6 (txt r)))) in
              Resolve.text_eqb (to_text (normalize 63 (snd (add_base false (normalize 63 R) B)))) (txt e)
              && Resolve.text_eqb (to_text (normalize 63 (snd (add_base false R B)))) (txt e)
              && Resolve.text_eqb (Resolve.recompose (Normal.guard_normal t (Normal.five_normal t))) (txt e))
      | _, _ => false
      end)
    [("../g", "http://a/b/g"); ("g;x?y#s", "http://a/b/c/g;x?y#s"); ("//g", "http://g"); ("?y", "http://a/b/c/d;p?y");
     ("../%7Eg/./h?%3d", "http://a/b/~g/h?%3D"); ("//G%41:8/x/../y", "http://ga:8/y")] = true.
Proof. vm_compute. reflexivity. Qed.

(* IPv6 literals not in uriToString's form, an upper-case scheme, percent-encodings, the "/." guard *)
Example C09_parsed_text_kinds :
  forallb (fun '(b, r) =>
      match parse (txt b), parse (txt r) with
      | POk B, POk R =>
          is_some (scheme B)
          && negb (Resolve.unspecified_corner true (five_of_text (txt b)) (five_of_text (txt r)))
          && (let t := Resolve.guard_slashes (Resolve.transform true (five_of_text (canon_ip6 (txt b)))
                                                                (five_of_text (canon_ip6 (txt r)))) in
              Resolve.text_eqb (to_text (normalize 63 (snd (add_base false R B))))
                               (Resolve.recompose (Normal.guard_normal t (Normal.five_normal t))))
      | _, _ => false
      end)
    [("S://[::A]/x/y", "../%7ez"); ("s://h/x", "//[1::2:3.4.5.6]:8/a/./b"); ("s://u@[vF.a:B]:1/x?q", "?k#f");
     ("S://199.249.250.99/a/b", "s:c/../d"); ("s:/a", "..//c"); ("s://h", "g")] = true.
Proof. vm_compute. reflexivity. Qed.

(* the kind theorem: "a/../b/./c" *)
Example C09_parsed_kind_example :
  exists R, parse (txt "a/../b/./c") = POk R
    /\ Resolve.f_scheme (five_of_text (txt "a/../b/./c")) = None /\ Resolve.f_auth (five_of_text (txt "a/../b/./c")) = None
    /\ kf_cancels R = false /\ kf_exposes_empty R = false /\ kf_exposes_colon R = false
    /\ to_text (normalize 63 R) = txt "b/c".
Proof. eexists. split; [vm_compute; reflexivity|]. repeat split. Qed.
