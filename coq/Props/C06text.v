(* C06 -- reference resolution follows RFC 3986 section 5.2: PARSED TEXTS.  Statements only; proofs in
   Proofs/ResolveText.v (and, for the invariants of the result, Proofs/CommuteText.v).

   Props/C06.v states what [add_base compat R B] (uriAddBaseUriExMm) does to URI objects that are well
   formed.  Here R and B are the objects parsed from two texts r and b, no well-formedness hypothesis is
   left (they are discharged with C02_parsed_wf_for_resolution and C08_text_parsed_meets_hyps), and the
   result is compared with the specification functions the run-time oracle evaluates ON THE TEXTS
   (Spec/Resolve.v):
     five_of_text s           the five components RFC 3986 appendix B assigns to the text
     transform strict B R     RFC 3986 5.2.2 (5.2.3 merge, 5.2.4 dot-segment removal)
     guard_slashes t          "/." in front of a host-less path beginning with "//", nothing else
     recompose t              RFC 3986 5.3
     unspecified_corner       the corner the oracle leaves out (Props/C06.v: C06_corner_is_spec_corner,
                              C06_corner_necessary)
   Hypotheses left, all on the texts or booleans on the parsed objects:
     scheme B <> None         the base is absolute (= f_scheme (five_of_text b) <> None:
                              C06_parsed_scheme_text; otherwise C06_parsed_rel_base)
     unspecified_corner ... (five_of_text b) (five_of_text r) = false
                              necessary: C06_parsed_corner_refuted
     ip6_rendered B, ip6_rendered R  (text theorem only) an IPv6 literal is in the eight-group
                              lower-case form uriToString writes.  Necessary for the equation with the
                              texts as they are (C06_parsed_text_ip6_as_written_refuted); without it the
                              equation holds for the texts with their IPv6 literals rewritten in that form,
                              Spec.Recompose.canon_ip6 (the identity on texts without IPv6 literal):
                              C06_parsed_text. *)
From Coq Require Import List NArith Bool String.
From UP Require Import Base.Chars Model.Uri Model.Common Model.Resolve Model.Recompose Model.Parse Spec.Resolve
  Spec.NormalWf Proofs.ResolveProofs Proofs.ResolveText.
From UP Require Spec.Recompose Proofs.NormalizeText Proofs.ParseAssemble Proofs.CommuteText.
Import ListNotations.
Local Open Scope N_scope.
Local Notation canon_ip6 := Spec.Recompose.canon_ip6.
Local Notation ip6_rendered := NormalizeText.ip6_rendered.
Local Notation ip4_rendered := NormalizeText.ip4_rendered.
Local Notation text_hyps := NormalizeText.text_hyps.
Local Notation canon_host := ParseAssemble.canon_host.

(* ---- 1. the five components ------------------------------------------------------------------ *)
(* for all texts b, r that parse, b with a scheme, outside the corner: resolution succeeds and the five
   components of the result are the RFC's target of the two texts, with the "/." guard *)
Theorem C06_parsed_resolve : forall compat b r B R, parse b = POk B -> parse r = POk R -> scheme B <> None ->
  unspecified_corner (negb compat) (five_of_text b) (five_of_text r) = false ->
  fst (add_base compat R B) = URI_SUCCESS
  /\ five_of_uri (snd (add_base compat R B))
     = guard_slashes (transform (negb compat) (five_of_text b) (five_of_text r)).
Proof. exact resolve_parsed_five. Qed.
Print Assumptions C06_parsed_resolve.

(* the scheme of the parsed base is the scheme of its text, so the same with every hypothesis on texts *)
Theorem C06_parsed_scheme_text : forall s u, parse s = POk u -> scheme u = f_scheme (five_of_text s).
Proof. exact parsed_scheme_text. Qed.
Print Assumptions C06_parsed_scheme_text.

Theorem C06_parsed_resolve_texts : forall compat b r B R, parse b = POk B -> parse r = POk R ->
  f_scheme (five_of_text b) <> None ->
  unspecified_corner (negb compat) (five_of_text b) (five_of_text r) = false ->
  fst (add_base compat R B) = URI_SUCCESS
  /\ five_of_uri (snd (add_base compat R B))
     = guard_slashes (transform (negb compat) (five_of_text b) (five_of_text r)).
Proof. exact resolve_parsed_five_text. Qed.
Print Assumptions C06_parsed_resolve_texts.

(* the corner evaluated on the texts is the corner of the objects (Props/C06.v corner_obj) *)
Theorem C06_parsed_corner : forall compat b r B R, parse b = POk B -> parse r = POk R -> scheme B <> None ->
  unspecified_corner (negb compat) (five_of_text b) (five_of_text r) = corner_obj compat R B.
Proof. exact resolve_parsed_corner. Qed.
Print Assumptions C06_parsed_corner.

(* a base text without scheme is rejected *)
Theorem C06_parsed_rel_base : forall compat b r B R, parse b = POk B -> parse r = POk R ->
  f_scheme (five_of_text b) = None ->
  add_base compat R B = (URI_ERROR_ADDBASE_REL_BASE, empty_uri).
Proof. exact resolve_parsed_rel_base. Qed.
Print Assumptions C06_parsed_rel_base.

(* ---- 2. the text uriToString writes ---------------------------------------------------------- *)
(* C06_text without its restriction to hosts without IP data, on objects: every host kind, provided
   uriToString copies for the host what the object holds as host text ([host_as_written]: a registered
   name; IPv4 octets that print as the host text; an IPvFuture literal; an IPv6 literal held in
   eight-group lower-case form) *)
Theorem C06_text_every_host_kind : forall compat rel base,
  wf rel = true -> wf base = true -> scheme base <> None -> corner_obj compat rel base = false ->
  one_kind rel = true -> one_kind base = true ->
  host_as_written rel = true -> host_as_written base = true ->
  to_text (snd (add_base compat rel base))
  = recompose (guard_slashes (transform (negb compat) (five_of_uri base) (five_of_uri rel))).
Proof. exact resolve_text_written. Qed.
Print Assumptions C06_text_every_host_kind.

Theorem C06_no_ip_as_written : forall u, no_ip u = true -> host_as_written u = true.
Proof. exact no_ip_as_written. Qed.
Print Assumptions C06_no_ip_as_written.

(* parse, parse, resolve, write = recompose (guard (transform ...)) of the two texts: registered names,
   IPv4 addresses, IPvFuture literals, IPv6 literals in uriToString's form ... *)
Theorem C06_parsed_text_rendered : forall compat b r B R, parse b = POk B -> parse r = POk R -> scheme B <> None ->
  unspecified_corner (negb compat) (five_of_text b) (five_of_text r) = false ->
  ip6_rendered B = true -> ip6_rendered R = true ->
  to_text (snd (add_base compat R B))
  = recompose (guard_slashes (transform (negb compat) (five_of_text b) (five_of_text r))).
Proof. exact resolve_parsed_text_rendered. Qed.
Print Assumptions C06_parsed_text_rendered.

(* ... in particular no IPv6 literal at all ... *)
Theorem C06_parsed_text_no_ip6 : forall compat b r B R, parse b = POk B -> parse r = POk R -> scheme B <> None ->
  unspecified_corner (negb compat) (five_of_text b) (five_of_text r) = false ->
  ip6 B = None -> ip6 R = None ->
  to_text (snd (add_base compat R B))
  = recompose (guard_slashes (transform (negb compat) (five_of_text b) (five_of_text r))).
Proof. exact resolve_parsed_text_no_ip6. Qed.
Print Assumptions C06_parsed_text_no_ip6.

(* ... and for EVERY pair of texts: the IPv6 literals of the texts (if any) in the form uriToString
   writes.  The corner is the one of the texts as they are (C06_parsed_corner_canon) *)
Theorem C06_parsed_text : forall compat b r B R, parse b = POk B -> parse r = POk R -> scheme B <> None ->
  unspecified_corner (negb compat) (five_of_text b) (five_of_text r) = false ->
  to_text (snd (add_base compat R B))
  = recompose (guard_slashes (transform (negb compat) (five_of_text (canon_ip6 b)) (five_of_text (canon_ip6 r)))).
Proof. exact resolve_parsed_text_canon. Qed.
Print Assumptions C06_parsed_text.

Theorem C06_parsed_corner_canon : forall compat b r B R, parse b = POk B -> parse r = POk R -> scheme B <> None ->
  unspecified_corner (negb compat) (five_of_text (canon_ip6 b)) (five_of_text (canon_ip6 r))
  = unspecified_corner (negb compat) (five_of_text b) (five_of_text r).
Proof. exact corner_canon_ip6. Qed.
Print Assumptions C06_parsed_corner_canon.

(* how the last theorem is obtained: the canonical text parses to the object with the IPv6 host text
   rewritten, resolution commutes with that rewriting, and uriToString does not read the host text of an
   IPv6 host *)
Theorem C06_parse_canon : forall s u, parse s = POk u -> parse (canon_ip6 s) = POk (canon_host u).
Proof. exact parse_canon. Qed.
Print Assumptions C06_parse_canon.

Theorem C06_resolve_canon_host : forall compat rel base, one_kind rel = true -> one_kind base = true ->
  add_base compat (canon_host rel) (canon_host base)
  = (fst (add_base compat rel base), canon_host (snd (add_base compat rel base))).
Proof. exact add_base_canon_host. Qed.
Print Assumptions C06_resolve_canon_host.

Theorem C06_to_text_canon_host : forall u, to_text (canon_host u) = to_text u.
Proof. exact to_text_canon_host. Qed.
Print Assumptions C06_to_text_canon_host.

(* ---- 3. the result has again what the theorems use of parser output -------------------------- *)
(* the authority is the reference's or the base's (C06_authority), hence of one kind, splitting into its
   own fields (auth_wfb), its IPv4 octets printing as the host text, its IPv6 literal written as that
   of the text it comes from *)
Theorem C06_parsed_authority : forall compat b r B R, parse b = POk B -> parse r = POk R -> scheme B <> None ->
  auth_fields (snd (add_base compat R B)) = auth_fields (auth_of compat R B)
  /\ auth_text (snd (add_base compat R B)) = auth_text (auth_of compat R B)
  /\ one_kind (snd (add_base compat R B)) = true
  /\ NormalizeText.auth_wfb (snd (add_base compat R B)) = true
  /\ ip4_rendered (snd (add_base compat R B)) = true
  /\ ip6_rendered (snd (add_base compat R B)) = ip6_rendered (auth_of compat R B).
Proof. exact resolve_parsed_authority. Qed.
Print Assumptions C06_parsed_authority.

(* resolution keeps [wf] outside the corner (objects) *)
Theorem C06_resolve_keeps_wf : forall compat rel base,
  wf rel = true -> wf base = true -> scheme base <> None -> corner_obj compat rel base = false ->
  wf (snd (add_base compat rel base)) = true.
Proof. exact CommuteText.resolve_wf. Qed.
Print Assumptions C06_resolve_keeps_wf.

(* so the result of resolving parsed texts meets the hypotheses of the C08 text theorems
   (C08_text_five, C08_text_to_text) and of C06_resolve, C09_commute as a new reference or base *)
Theorem C06_parsed_result_hyps : forall compat b r B R, parse b = POk B -> parse r = POk R -> scheme B <> None ->
  unspecified_corner (negb compat) (five_of_text b) (five_of_text r) = false ->
  text_hyps (snd (add_base compat R B)) = true
  /\ ip4_rendered (snd (add_base compat R B)) = true
  /\ relative_ref (snd (add_base compat R B)) = false
  /\ one_kind (snd (add_base compat R B)) = true.
Proof. exact CommuteText.resolve_parsed_text_hyps. Qed.
Print Assumptions C06_parsed_result_hyps.

(* ---- the hypotheses cannot be dropped --------------------------------------------------------- *)
(* base "s://[::A]/x", reference "y": written "s://[0000:...:000a]/y"; the target of the texts keeps "[::A]" *)
Theorem C06_parsed_text_ip6_as_written_refuted :
  exists b r B R, parse b = POk B /\ parse r = POk R /\ scheme B <> None
    /\ unspecified_corner true (five_of_text b) (five_of_text r) = false
    /\ ip6_rendered B = false
    /\ to_text (snd (add_base false R B))
       <> recompose (guard_slashes (transform true (five_of_text b) (five_of_text r))).
Proof. exact resolve_text_ip6_as_written_refuted. Qed.
Print Assumptions C06_parsed_text_ip6_as_written_refuted.

(* base "s:a", reference ".///c" *)
Theorem C06_parsed_corner_refuted :
  exists b r B R, parse b = POk B /\ parse r = POk R /\ scheme B <> None
    /\ unspecified_corner true (five_of_text b) (five_of_text r) = true
    /\ five_of_uri (snd (add_base false R B))
       <> guard_slashes (transform true (five_of_text b) (five_of_text r)).
Proof. exact resolve_parsed_corner_refuted. Qed.
Print Assumptions C06_parsed_corner_refuted.

(* ---- non-vacuity ------------------------------------------------------------------------------ *)
Local Open Scope string_scope.

(* RFC 3986 5.4, base "http://a/b/c/d;p?q": the texts parse, the hypotheses of C06_parsed_resolve and
   C06_parsed_text_no_ip6 hold (both option values), and both sides of the text equation are the text
   the RFC lists *)
Example C06_parsed_rfc_5_4 :
  let b := txt "http://a/b/c/d;p?q" in
  forallb (fun '(r, e) =>
      match parse b, parse (txt r) with
      | POk B, POk R =>
          is_some (scheme B) && negb (is_some (ip6 B)) && negb (is_some (ip6 R))
          && negb (unspecified_corner true (five_of_text b) (five_of_text (txt r)))
          && negb (unspecified_corner false (five_of_text b) (five_of_text (txt r)))
          && (fst (add_base false R B) =? URI_SUCCESS)%N
          && text_eqb (to_text (snd (add_base false R B))) (txt e)
          && text_eqb (recompose (guard_slashes (transform true (five_of_text b) (five_of_text (txt r))))) (txt e)
      | _, _ => false
      end)
    [("../g", "http://a/b/g"); ("g;x?y#s", "http://a/b/c/g;x?y#s"); ("//g", "http://g"); ("?y", "http://a/b/c/d;p?y");
     ("g:h", "g:h"); ("", "http://a/b/c/d;p?q"); ("../../../g", "http://a/g"); ("g/../h", "http://a/b/c/h");
     ("#s", "http://a/b/c/d;p?q#s"); ("/./g", "http://a/g")] = true.
Proof. vm_compute. reflexivity. Qed.

(* every host kind, IPv6 literals not in uriToString's form included: the text written is the
   recomposition of the target of the canonical texts (C06_parsed_text), both option values *)
Example C06_parsed_text_kinds :
  forallb (fun '(b, r) =>
      match parse (txt b), parse (txt r) with
      | POk B, POk R =>
          is_some (scheme B)
          && forallb (fun compat =>
               negb (unspecified_corner (negb compat) (five_of_text (txt b)) (five_of_text (txt r)))
               && text_eqb (to_text (snd (add_base compat R B)))
                    (recompose (guard_slashes (transform (negb compat) (five_of_text (canon_ip6 (txt b)))
                                                         (five_of_text (canon_ip6 (txt r)))))))
               [false; true]
      | _, _ => false
      end)
    [("s://[::A]/x/y", "../z"); ("s://h/x", "//[1::2:3.4.5.6]:8/a/./b"); ("s://u@[vF.a:B]:1/x?q", "?k#f");
     ("S://199.249.250.99/a/b", "s:c"); ("s://[::A]/x", "//[0:0::b]"); ("s:/a", "..//c"); ("s://h", "g")] = true.
Proof. vm_compute. reflexivity. Qed.

(* "s://[::A]/x/y" + "../z" = "s://[0000:0000:0000:0000:0000:0000:0000:000a]/z" *)
Example C06_parsed_text_ip6_example :
  to_text (snd (add_base false (uri_of "../z") (uri_of "s://[::A]/x/y")))
  = txt "s://[0000:0000:0000:0000:0000:0000:0000:000a]/z"
  /\ canon_ip6 (txt "s://[::A]/x/y") = txt "s://[0000:0000:0000:0000:0000:0000:0000:000a]/x/y"
  /\ recompose (guard_slashes (transform true (five_of_text (canon_ip6 (txt "s://[::A]/x/y")))
                                         (five_of_text (canon_ip6 (txt "../z")))))
     = txt "s://[0000:0000:0000:0000:0000:0000:0000:000a]/z".
Proof. vm_compute. repeat split. Qed.

(* the invariants: the result of "http://a/b/c/d;p?q" + "../g" *)
Example C06_parsed_result_hyps_example :
  let d := snd (add_base false (uri_of "../g") (uri_of "http://a/b/c/d;p?q")) in
  text_hyps d = true /\ ip4_rendered d = true /\ relative_ref d = false /\ one_kind d = true /\ wf d = true.
Proof. vm_compute. repeat split. Qed.
