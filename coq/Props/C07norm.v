(* C07, part 2a -- normalization and make-owner keep [produced_wf].  Statements only. *)
From UP Require Import Base.Chars Model.Uri.
From UP Require Import Model.Common Model.Normalize Spec.NormalWf Spec.Unparse Spec.Reread Proofs.NormalizeProofs Proofs.RereadNormalize.

(* normalization and make-owner *)
(* [normalize mask u] (uriNormalizeSyntaxExMm, allocation succeeding) and [make_owner u] (uriMakeOwnerMm)
   keep [produced_wf] (Spec/Reread.v: the condition under which an object reads back as itself), for
   every mask and every object, exactly outside one shape in which the faithful model -- and the code --
   lose it (known finding D7b).  The shape is a boolean predicate on the INPUT object and the mask
   (Proofs/RereadNormalize.v; [norm_segs u] is the segment list the PATH step computes: percent-encodings
   fixed, dot segments removed, "." put in front of a path that would be written with "//" in front, lone
   empty segment dropped):

     exposes_colon mask u  = bit mask M_PATH && relative_ref u
                             && (the first segment of norm_segs u contains ':')                  D7b

   A second shape of earlier versions (D14: no host and the path text after dot removal begins with "//",
   "/..//." -> "//") was repaired in uriNormalizeSyntaxEngine (it calls uriFixAmbiguity now):
   C07_normalize_no_dslash_runtime_shape says that no normalized object has it, and its witnesses are positive
   examples (C07_normalize_dslash_guarded).

   [rt_colon v], [rt_dslash v] are shapes of a produced object (no host, no scheme, not absolutePath,
   first segment contains ':' -- gen/c07.py tests it before it may attribute a read-back failure to the listed
   finding c08_rel_exposes_colon; no host, path text begins with "//").
   [chars_part u] is every clause of [produced_wf u] but [path_unambiguous u]. *)

(* N1: character classes, host fields, authority clause: kept for every mask, no carve-out *)
Theorem C07_normalize_keeps_chars : forall mask u, chars_part u -> chars_part (normalize mask u).
Proof. exact normalize_keeps_chars. Qed.
Print Assumptions C07_normalize_keeps_chars.

(* part of N1: lower-casing maps the IPvFuture language into itself *)
Theorem C07_normalize_ipfuture_lowercase : forall h,
  Regex.matchb Rfc3986.IPvFuture h = true -> Regex.matchb Rfc3986.IPvFuture (lowercase h) = true.
Proof. exact lowercase_ipfuture. Qed.
Print Assumptions C07_normalize_ipfuture_lowercase.

(* N2: the path stays unambiguous iff the carve-out does not apply *)
Theorem C07_normalize_keeps_unambiguous : forall mask u, produced_wf u ->
  (path_unambiguous (normalize mask u) <-> exposes_colon mask u = false).
Proof. exact normalize_keeps_unambiguous. Qed.
Print Assumptions C07_normalize_keeps_unambiguous.

(* N3 *)
Theorem C07_normalize_produced_wf : forall mask u, produced_wf u ->
  exposes_colon mask u = false -> produced_wf (normalize mask u).
Proof. exact normalize_produced_wf. Qed.
Print Assumptions C07_normalize_produced_wf.

(* ... and the carve-out is exact: inside the shape the result is not [produced_wf] *)
Theorem C07_normalize_produced_wf_iff : forall mask u, produced_wf u ->
  (produced_wf (normalize mask u) <-> exposes_colon mask u = false).
Proof. exact normalize_produced_wf_iff. Qed.
Print Assumptions C07_normalize_produced_wf_iff.

Theorem C07_make_owner_produced_wf : forall u, produced_wf u -> produced_wf (make_owner u).
Proof. exact make_owner_produced_wf. Qed.
Print Assumptions C07_make_owner_produced_wf.

(* the carve-out is needed.  D7b: a/../b:c -> b:c *)
Theorem C07_normalize_exposes_colon_refuted :
  produced_wf wit_colon
  /\ exposes_colon 8 wit_colon = true
  /\ pathSegs (normalize 8 wit_colon) = [[98; 58; 99]]%N
  /\ ~ produced_wf (normalize 8 wit_colon) /\ ~ produced_wf (normalize 63 wit_colon).
Proof. exact exposes_colon_refuted. Qed.
Print Assumptions C07_normalize_exposes_colon_refuted.

(* the witnesses of the repaired finding D14 (they gave "//", "s://", "//b", none [produced_wf]):
   /..//. -> /.//   s:/..//. -> s:/.//   a/..///b -> .///b ; the guard segment "." is in front of the empty
   one, the path text does not begin with "//", the results are [produced_wf] *)
Theorem C07_normalize_dslash_guarded :
  forall w, In w [wit_dslash; wit_dslash_scheme; wit_dslash_rel] ->
  produced_wf w /\ exposes_colon 8 w = false /\ exposes_colon 63 w = false
  /\ match pathSegs (normalize 8 w) with [46%N] :: [] :: _ => True | _ => False end
  /\ head_is 47 (path_text (normalize 8 w)) && head_is 47 (tl (path_text (normalize 8 w))) = false
  /\ produced_wf (normalize 8 w) /\ produced_wf (normalize 63 w).
Proof. exact dslash_guarded. Qed.
Print Assumptions C07_normalize_dslash_guarded.

(* N4: the carve-out is exactly the run-time shape of the result, so a read-back failure of a
   normalized object outside this shape can never be excused as a known finding *)
Theorem C07_normalize_colon_is_runtime_shape : forall mask u, produced_wf u ->
  exposes_colon mask u = rt_colon (normalize mask u).
Proof. exact exposes_colon_is_rt_colon. Qed.
Print Assumptions C07_normalize_colon_is_runtime_shape.

(* the run-time shape of the repaired finding D14 (no host, path text begins with "//") is never produced *)
Theorem C07_normalize_no_dslash_runtime_shape : forall mask u, produced_wf u ->
  rt_dslash (normalize mask u) = false.
Proof. exact normalize_no_dslash. Qed.
Print Assumptions C07_normalize_no_dslash_runtime_shape.

(* for any object whose segments contain no '/', [path_unambiguous] = neither run-time shape *)
Theorem C07_normalize_unambiguous_is_no_runtime_shape : forall v,
  Forall (fun s => ~ In 47%N s) (pathSegs v) ->
  (path_unambiguous v <-> rt_colon v = false /\ rt_dslash v = false).
Proof. exact unambiguous_iff_rt. Qed.
Print Assumptions C07_normalize_unambiguous_is_no_runtime_shape.

(* the same on segments, for every object: the "//" shape -- with a leading "/", an empty first segment
   followed by another one; without, two empty segments followed by a third -- is not what the PATH step
   computes for a host-less object *)
Theorem C07_normalize_no_dslash_on_segments : forall u, is_host_set u = false ->
  dslash_shape (absolutePath u) (map seg_empty (norm_segs u)) = false.
Proof. exact norm_segs_no_dslash_shape. Qed.
Print Assumptions C07_normalize_no_dslash_on_segments.

(* where the carve-out does not apply *)
Theorem C07_normalize_no_carve_out_path_clear : forall mask u, bit mask M_PATH = false ->
  exposes_colon mask u = false.
Proof. exact exposes_none_path_clear. Qed.
Print Assumptions C07_normalize_no_carve_out_path_clear.

Theorem C07_normalize_no_carve_out_host : forall mask u, is_host_set u = true ->
  exposes_colon mask u = false.
Proof. exact exposes_none_host. Qed.
Print Assumptions C07_normalize_no_carve_out_host.

Theorem C07_normalize_no_colon_carve_out_scheme : forall mask u, is_some (scheme u) = true ->
  exposes_colon mask u = false.
Proof. exact exposes_colon_none_scheme. Qed.
Print Assumptions C07_normalize_no_colon_carve_out_scheme.

Theorem C07_normalize_no_colon_carve_out_absolute : forall mask u, absolutePath u = true ->
  exposes_colon mask u = false.
Proof. exact exposes_colon_none_absolute. Qed.
Print Assumptions C07_normalize_no_colon_carve_out_absolute.

(* a path that has no "." / ".." segment once its percent-encodings are fixed *)
Theorem C07_normalize_no_carve_out_no_dots : forall mask u, produced_wf u ->
  no_dot_segs (map fix_pct (pathSegs u)) = true ->
  exposes_colon mask u = false.
Proof. exact exposes_none_no_dots. Qed.
Print Assumptions C07_normalize_no_carve_out_no_dots.

(* [produced_wf] is decidable: the boolean version used to test the statements above on small objects
   (Proofs/RereadNormalize.v, family_tested, family2_tested) before they were proved *)
Theorem C07_normalize_produced_wfb_n_iff : forall u, produced_wfb_n u = true <-> produced_wf u.
Proof. exact produced_wfb_n_iff. Qed.
Print Assumptions C07_normalize_produced_wfb_n_iff.

(* the hypotheses are satisfiable by an object that every step changes:
   S://U%7e@H%41/%2E/a/../b:c?%7e#%7E *)
Example C07_normalize_hypotheses_satisfiable :
  (let u := mkUri (Some [83]) (Some [85; 37; 55; 101]) (Some [72; 37; 52; 49]) None None None None
                 [[37; 50; 69]; [97]; [46; 46]; [98; 58; 99]] (Some [37; 55; 101]) (Some [37; 55; 69]) false false in
  (produced_wf u /\ exposes_colon 63 u = false)
  /\ pathSegs (normalize 63 u) = [[98; 58; 99]]
  /\ hostText (normalize 63 u) = Some [104; 97])%N.
Proof.
  cbv zeta. split; [split; [apply produced_wfb_n_sound|]|split]; vm_compute; reflexivity.
Qed.
