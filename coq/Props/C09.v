(* C09 -- normalization never changes what a reference identifies.  Statements only.

   All theorems are about the models of src/UriNormalize.c ([normalize mask u], uriNormalizeSyntaxEx with the
   allocations succeeding; mask 63 = all components = uriNormalizeSyntax) and of src/UriResolve.c
   ([add_base compat R B], uriAddBaseUriEx; compat = false is uriAddBaseUri), for every URI object, not only
   parsed ones.  Vocabulary (Spec/NormalWf.v, Proofs/ResolveProofs.v, Proofs/CommuteProofs.v):
     components u       every field but [owner]
     uri_pct_wf u       every '%' in user info, registered name, path segments, query, fragment starts
                        "%" HEXDIG HEXDIG (the grammar allows no other '%')
     one_kind u         at most one of the host-data members ip4 / ip6 / ipFuture is set
     no_pct_dot u       no segment that the percent-encoding engine turns into "." or ".." ("%2e", ".%2E", ...)
     relative_ref u     no scheme, no host, not absolutePath: a relative-path reference
     wf u               no '/' inside a segment, no absolutePath flag with a host, a host-less path does not
                        print as "//..." resp. a rootless one does not begin with an empty segment
   Every parsed reference satisfies uri_pct_wf, one_kind and wf (C06: parsed_wf).

   The property is FALSE on the current code for two shapes of relative-path references, both open findings
   confirmed on the real code, both with a refutation witness below:
     kf_cancels R       D7a  the dot segments cancel completely: "a/.." becomes the empty reference
     kf_dot_eaten R     D7e  a ".." cancels the "." kept in front of a "x:y" segment: "./b:c/../../x" becomes "x"
   and the kind of a reference changes in
     kf_cancels         D7a  "a/.."      relative path -> empty path
     kf_exposes_empty   D7c  "a/..//b"   relative path -> absolute path "/b"
     kf_exposes_colon   D7b  "a/../b:c"  "b:c" reads back as scheme b
   (The fourth shape, D14 -- "/..//." became "//", read back as an empty authority -- was repaired in
   uriNormalizeSyntaxEngine: the normal form is now "/.//", inside C09_kind_kept; see C09_kind_abs_dslash_guarded.)
   The shape D7d ("./b:c/../x" becomes "./x") is harmless here: it is covered by C09_commute. *)
From Coq Require Import List NArith Bool String.
From UP Require Import Base.Chars Model.Uri Model.Common Model.Resolve Model.Normalize Model.Parse Model.Recompose
  Spec.NormalWf Proofs.ResolveProofs Proofs.NormalizeProofs Proofs.CommuteProofs.
Import ListNotations.
Local Open Scope N_scope.

(* ---- 1. scheme and authority ------------------------------------------------------------ *)
(* whatever the mask: the result has a scheme iff the argument has one, a host iff the argument has one *)
Theorem C09_scheme_authority_kept : forall mask u,
  is_some (scheme (normalize mask u)) = is_some (scheme u)
  /\ is_host_set (normalize mask u) = is_host_set u.
Proof. exact scheme_authority_kept. Qed.
Print Assumptions C09_scheme_authority_kept.

(* ---- 2. normalization commutes with resolution --------------------------------------------- *)
(* N (resolve (N R) B) = N (resolve R B), every component, for EVERY reference R (relative-path references
   included) outside the two shapes, and every base B -- absolute or not (a base without scheme is rejected
   on both sides), with any dot segments and percent-encodings.
   Hypotheses: strict resolution, or a reference without scheme (see C09_commute_compat_refuted);
   the three facts about R above; a base object does not combine a host with the absolutePath flag
   (implied by wf B: ResolveProofs.wf_host_abs). *)
Theorem C09_commute : forall c R B,
  (c = false \/ scheme R = None) ->
  uri_pct_wf R = true -> one_kind R = true -> no_pct_dot R = true ->
  (is_host_set B = true -> absolutePath B = false) ->
  kf_cancels R = false -> kf_dot_eaten R = false ->
  components (normalize 63 (snd (add_base c (normalize 63 R) B)))
  = components (normalize 63 (snd (add_base c R B))).
Proof. exact commute. Qed.
Print Assumptions C09_commute.

(* a reference with a scheme, an authority or an absolute path: no carve-out, nothing asked of the base *)
Theorem C09_commute_not_relative : forall c R B,
  (c = false \/ scheme R = None) ->
  uri_pct_wf R = true -> one_kind R = true -> no_pct_dot R = true ->
  relative_ref R = false ->
  components (normalize 63 (snd (add_base c (normalize 63 R) B)))
  = components (normalize 63 (snd (add_base c R B))).
Proof. exact commute_not_relative. Qed.
Print Assumptions C09_commute_not_relative.

(* D7a: "a/.." against "s://h/x/y" *)
Theorem C09_commute_refuted :
  exists R B, parsed "a/.." R /\ parsed "s://h/x/y" B
    /\ uri_pct_wf R = true /\ one_kind R = true /\ no_pct_dot R = true /\ wf R = true /\ wf B = true
    /\ kf_cancels R = true /\ kf_dot_eaten R = false
    /\ to_text (normalize 63 (snd (add_base false (normalize 63 R) B))) = txt "s://h/x/y"
    /\ to_text (normalize 63 (snd (add_base false R B))) = txt "s://h/x/".
Proof. exact commute_cancels_refuted. Qed.
Print Assumptions C09_commute_refuted.

(* D7e: "./b:c/../../x" against "s:/a/b:c" *)
Theorem C09_commute_dot_eaten_refuted :
  exists R B, parsed "./b:c/../../x" R /\ parsed "s:/a/b:c" B
    /\ uri_pct_wf R = true /\ one_kind R = true /\ no_pct_dot R = true /\ wf R = true /\ wf B = true
    /\ kf_cancels R = false /\ kf_dot_eaten R = true
    /\ to_text (normalize 63 R) = txt "x"
    /\ to_text (normalize 63 (snd (add_base false (normalize 63 R) B))) = txt "s:/a/x"
    /\ to_text (normalize 63 (snd (add_base false R B))) = txt "s:/x".
Proof. exact commute_dot_eaten_refuted. Qed.
Print Assumptions C09_commute_dot_eaten_refuted.

(* the exclusion of percent-encoded dot segments in the property is needed: "/a/%2e%2e/../b" *)
Theorem C09_commute_pct_dot_refuted :
  exists R B, parsed "/a/%2e%2e/../b" R /\ parsed "s://h/x" B
    /\ uri_pct_wf R = true /\ one_kind R = true /\ no_pct_dot R = false /\ relative_ref R = false
    /\ to_text (normalize 63 (snd (add_base false (normalize 63 R) B))) = txt "s://h/b"
    /\ to_text (normalize 63 (snd (add_base false R B))) = txt "s://h/a/b".
Proof. exact commute_pct_dot_refuted. Qed.
Print Assumptions C09_commute_pct_dot_refuted.

(* with URI_RESOLVE_IDENTICAL_SCHEME_COMPAT a reference carrying the base's scheme is resolved as if it had
   none but normalized as the absolute URI it is; and normalization can make two schemes identical *)
Theorem C09_commute_compat_refuted :
  (exists R B, parsed "t:." R /\ parsed "t:/x/y" B
     /\ to_text (normalize 63 (snd (add_base true (normalize 63 R) B))) = txt "t:/x/y"
     /\ to_text (normalize 63 (snd (add_base true R B))) = txt "t:/x/")
  /\ (exists R B, parsed "T:a" R /\ parsed "t:/x/y" B
     /\ to_text (normalize 63 (snd (add_base true (normalize 63 R) B))) = txt "t:/x/a"
     /\ to_text (normalize 63 (snd (add_base true R B))) = txt "t:a").
Proof. exact commute_compat_refuted. Qed.
Print Assumptions C09_commute_compat_refuted.

(* the two hypotheses about objects that no parsed URI violates cannot be dropped either *)
Theorem C09_commute_base_flag_refuted :
  exists R B B0, parsed "../a/.." R /\ parsed "s://h/x" B0 /\ B = set_absolutePath true B0
    /\ uri_pct_wf R = true /\ one_kind R = true /\ no_pct_dot R = true
    /\ kf_cancels R = false /\ kf_dot_eaten R = false
    /\ components (normalize 63 (snd (add_base false (normalize 63 R) B)))
       <> components (normalize 63 (snd (add_base false R B))).
Proof. exact commute_base_flag_refuted. Qed.
Print Assumptions C09_commute_base_flag_refuted.

Theorem C09_commute_two_host_kinds_refuted :
  exists R B, R = mkUri None None (Some [86]) (Some [1; 2; 3; 4]) None (Some [86]) None [] None None false false
    /\ parsed "s://h/x" B /\ uri_pct_wf R = true /\ one_kind R = false /\ no_pct_dot R = true
    /\ relative_ref R = false
    /\ components (normalize 63 (snd (add_base false (normalize 63 R) B)))
       <> components (normalize 63 (snd (add_base false R B))).
Proof. exact commute_two_host_kinds_refuted. Qed.
Print Assumptions C09_commute_two_host_kinds_refuted.

(* ---- 3. the kind of a reference with neither scheme nor authority ------------------------ *)
(* [path_kind u]: the recomposed path is empty / begins with "/" / anything else;
   [reads_scheme u]: the recomposed text begins with a scheme (the scheme field, or a rootless host-less path
   whose first segment contains ':'); [reads_authority u]: the host, or a path text beginning with "//" *)
Theorem C09_kind_kept : forall R,
  scheme R = None -> is_host_set R = false -> wf R = true ->
  kf_cancels R = false -> kf_exposes_empty R = false -> kf_exposes_colon R = false ->
  path_kind (normalize 63 R) = path_kind R
  /\ reads_scheme (normalize 63 R) = false /\ reads_authority (normalize 63 R) = false.
Proof. exact kind_kept. Qed.
Print Assumptions C09_kind_kept.

Theorem C09_kind_cancels_refuted :
  exists R, parsed "a/.." R /\ wf R = true /\ kf_cancels R = true
    /\ path_kind R = PRelative /\ path_kind (normalize 63 R) = PEmpty.
Proof. exact kind_cancels_refuted. Qed.
Print Assumptions C09_kind_cancels_refuted.

Theorem C09_kind_exposes_empty_refuted :
  exists R, parsed "a/..//b" R /\ wf R = true /\ kf_cancels R = false /\ kf_exposes_empty R = true
    /\ path_kind R = PRelative /\ path_kind (normalize 63 R) = PAbsolute
    /\ to_text (normalize 63 R) = txt "/b".
Proof. exact kind_exposes_empty_refuted. Qed.
Print Assumptions C09_kind_exposes_empty_refuted.

Theorem C09_kind_exposes_colon_refuted :
  exists R v, parsed "a/../b:c" R /\ wf R = true /\ kf_exposes_colon R = true
    /\ reads_scheme R = false /\ reads_scheme (normalize 63 R) = true
    /\ parse (to_text (normalize 63 R)) = POk v /\ scheme R = None /\ scheme v = Some (txt "b").
Proof. exact kind_exposes_colon_refuted. Qed.
Print Assumptions C09_kind_exposes_colon_refuted.

(* the former fourth shape (D14): the witness now satisfies the hypotheses of C09_kind_kept, its normal form is
   "/.//" and reads back as the object held: no authority, the same segments, an absolute path *)
Theorem C09_kind_abs_dslash_guarded :
  exists R v, parsed "/..//." R /\ wf R = true
    /\ kf_cancels R = false /\ kf_exposes_empty R = false /\ kf_exposes_colon R = false
    /\ to_text (normalize 63 R) = txt "/.//"
    /\ reads_authority R = false /\ reads_authority (normalize 63 R) = false
    /\ parse (to_text (normalize 63 R)) = POk v /\ is_host_set v = false
    /\ pathSegs v = pathSegs (normalize 63 R) /\ absolutePath v = true.
Proof. exact kind_abs_dslash_guarded. Qed.
Print Assumptions C09_kind_abs_dslash_guarded.

(* ---- the hypotheses are satisfiable, the theorems say something -------------------------- *)
(* the stale dot D7d is inside C09_commute *)
Example C09_stale_dot_covered :
  exists R, parsed "./b:c/../x" R /\ to_text (normalize 63 R) = txt "./x"
    /\ uri_pct_wf R = true /\ one_kind R = true /\ no_pct_dot R = true
    /\ kf_cancels R = false /\ kf_dot_eaten R = false.
Proof. exact stale_dot_covered. Qed.

(* a relative-path reference with dot segments, percent-encodings and a query against a base with all
   components: every hypothesis of C09_commute holds, the result is "s://u@h:8/x/y/~a/b?q%3D" *)
Example C09_commute_nonvacuous :
  exists R B, parsed "../y/./%7ea/c/../b?q%3d" R /\ parsed "S://u@H:8/x/y/z?k#f" B
    /\ uri_pct_wf R = true /\ one_kind R = true /\ no_pct_dot R = true /\ wf B = true
    /\ kf_cancels R = false /\ kf_dot_eaten R = false
    /\ to_text (normalize 63 R) = txt "../y/~a/b?q%3D"
    /\ to_text (normalize 63 (snd (add_base false R B))) = txt "s://u@h:8/x/y/~a/b?q%3D".
Proof. do 2 eexists. split; [vm_compute; reflexivity|]. split; [vm_compute; reflexivity|]. repeat split. Qed.

Example C09_kind_nonvacuous :
  exists R, parsed "a/../b/./c" R /\ scheme R = None /\ is_host_set R = false /\ wf R = true
    /\ kf_cancels R = false /\ kf_exposes_empty R = false /\ kf_exposes_colon R = false
    /\ to_text (normalize 63 R) = txt "b/c" /\ path_kind R = PRelative.
Proof. eexists. split; [vm_compute; reflexivity|]. repeat split. Qed.

(* the two carve-outs of C09_commute are exact on a small scope (computed in Proofs/CommuteProofs.v): of the
   656 well-formed relative-path references with at most four segments over {"", ".", "..", "a", "b:c"}, or
   "./b:c/../.." and at most two more, those in one of the two shapes fail against one of three bases, all
   others commute against all three *)
Example C09_carveouts_exact_small_scope :
  forallb (fun R => if kf_cancels R || kf_dot_eaten R
                    then existsb (fun B => negb (commutes_b R B)) scope_bases
                    else forallb (fun B => commutes_b R B) scope_bases) scope_refs = true
  /\ existsb kf_cancels scope_refs = true /\ existsb kf_dot_eaten scope_refs = true
  /\ (600 <=? N.of_nat (length scope_refs)) = true.
Proof. exact carveouts_exact_small_scope. Qed.
