(* C02 — parsed components are the exact RFC 3986 sub-ranges of the input.
   Statements only.  (Work in progress: see Proofs/ParseData.v.) *)
From Coq Require Import List NArith.
From UP Require Import Base.Chars Base.Regex Model.Uri Model.Ip4 Model.Parse Spec.Rfc3986 Spec.Split.
Import ListNotations.
