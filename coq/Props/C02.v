(* C02 — parsed components are the exact RFC 3986 sub-ranges of the input.
   Statements only; proofs in Proofs/ParseData.v (concatenation), Proofs/ParseWfStep.v and
   Proofs/ParseWf.v (well-formedness), Proofs/ParseSplit.v (the splitter), Proofs/ParseAssemble.v (the
   bracketed literal against the grammar; the address scanners plugged in).  The statements about
   the two address scanners alone are in Props/C02ip4.v and Props/C02ip6.v.  The statements are about the model parser
   (Model/Parse.v); its correspondence with src/UriParse.c is checked by gen/c02.py.

   "The path list is well formed with its tail being the last node" holds by construction in
   the model and is therefore NOT a theorem here: the model's path is a Coq list (pathSegs),
   which has no separate tail pointer.  That pathTail of the C object is the last node of the
   chain from pathHead is checked on the implementation's own objects by the harness
   (harness/drv.c prints "bad" otherwise, gen/c02.py reports it). *)
From Coq Require Import List NArith Bool String.
From UP Require Import Base.Chars Model.Uri Model.Ip4 Model.Parse Spec.NormalWf Spec.Unparse Spec.Identity
  Spec.Split Proofs.ParseData Proofs.ParseWfStep Proofs.ParseWf Proofs.ParseSplit Proofs.ParseAssemble.
From UP Require Import Base.Regex.
From UP Require Proofs.ResolveProofs Spec.Rfc3986.
Import ListNotations.
Local Open Scope N_scope.

(* The components reported, written one after the other with nothing but their delimiters in
   between (scheme ":", "//" userinfo "@" host ":" port, "/"-separated segments, "?" query,
   "#" fragment; IP literals between brackets), are the input: each component is a sub-range of
   the input, the sub-ranges are in order and they leave out the delimiters only.  A leading "/"
   is written for a host-less path exactly when the absolute-path flag is set. *)
Theorem C02_unparse : forall s u, parse s = POk u -> unparse u = s.
Proof. exact parse_unparse. Qed.
Print Assumptions C02_unparse.

(* Every parsed object is well formed (Spec/Unparse.v): each component consists of the characters
   of its grammar rule with well-formed percent-encodings; the host is classified as IPv6 literal /
   IPvFuture literal / IPv4 address / registered name by its text, with the address data computed
   from that text; the absolute-path flag is off when there is a host; a host-less path does not
   begin with an empty segment; user info and port only occur with a host. *)
Theorem C02_wf : forall s u, parse s = POk u -> parsed_wf parse_ip4 ip6_bytes u.
Proof. exact parse_wf. Qed.
Print Assumptions C02_wf.

(* Consequently no component contains a delimiter that would end it, nor a NUL. *)
Theorem C02_delimiters : forall s u, parse s = POk u ->
  opt_ok (fun s => s <> [] /\ none_of [58; 47; 63; 35; 64; 91; 93; 37; 0] s) (scheme u)
  /\ opt_ok (none_of [64; 47; 63; 35; 91; 93; 0]) (userInfo u)
  /\ opt_ok (fun h => if is_lit u then none_of [91; 93; 47; 63; 35; 64; 37; 0] h
                      else none_of [58; 47; 63; 35; 64; 91; 93; 0] h) (hostText u)
  /\ opt_ok (none_of [58; 47; 63; 35; 64; 91; 93; 37; 0]) (portText u)
  /\ Forall (none_of [47; 63; 35; 91; 93; 0]) (pathSegs u)
  /\ opt_ok (none_of [35; 91; 93; 0]) (query u)
  /\ opt_ok (none_of [35; 91; 93; 0]) (fragment u).
Proof. exact parse_delims. Qed.
Print Assumptions C02_delimiters.

(* Parsed objects satisfy what the theorems about the other operations assume of their arguments *)
Theorem C02_parsed_wf_for_resolution : forall s u, parse s = POk u ->
  ResolveProofs.wf u = true /\ ResolveProofs.one_kind u = true.
Proof. exact parse_wf_resolution. Qed.
Print Assumptions C02_parsed_wf_for_resolution.

Theorem C02_parsed_wf_for_normalization : forall s u, parse s = POk u -> uri_wf u.
Proof. exact parse_wf_normalization. Qed.
Print Assumptions C02_parsed_wf_for_normalization.

Theorem C02_parsed_wf_for_equality : forall s u, parse s = POk u -> uri_nul_free u.
Proof. exact parse_wf_equality. Qed.
Print Assumptions C02_parsed_wf_for_equality.

(* The object IS the one the Appendix-B style splitter of Spec/Split.v (RFC 3986 appendix B plus the
   authority and path structure of section 3) assigns to the text: every component, the
   absolute-path flag, the host kind (a bracketed literal is IPvFuture when it begins with "v",
   IPv6 otherwise; an unbracketed host is IPv4 when its text matches the grammar's IPv4address, a
   registered name otherwise) and the address bytes (Spec/Split.v ip4_value: decimal value of each
   dotted part; ip6_value: RFC 4291 section 2.2 reading of the literal). *)
Theorem C02_split : forall s u, parse s = POk u -> u = split_spec s.
Proof. exact parse_is_split_full. Qed.
Print Assumptions C02_split.

(* The text between the brackets of an accepted input is a text of the grammar's
   IPv6address / IPvFuture rule (so the address theorems of Props/C02ip6.v, which are stated for
   texts of IPv6address, apply to every parsed IPv6 host). *)
Theorem C02_literal_grammar : forall s u h, parse s = POk u -> hostText u = Some h -> is_lit u = true ->
  matches (Alt Rfc3986.IPv6address Rfc3986.IPvFuture) h.
Proof. exact parsed_literal_matches. Qed.
Print Assumptions C02_literal_grammar.

(* Host classification against the grammar itself (not only against the splitter): exactly one kind;
   a bracketed host is an IPv6address text with its sixteen bytes or an IPvFuture text; an
   unbracketed one is an IPv4address text with its four bytes, or else consists of reg-name
   characters with well-formed percent-encodings and has no address data. *)
Theorem C02_host_kind : forall s u h, parse s = POk u -> hostText u = Some h ->
  (is_lit u = true /\ ip4 u = None /\
     ((matches Rfc3986.IPv6address h /\ ip6 u = Some (ip6_value h) /\ ipFuture u = None /\ length (ip6_value h) = 16%nat)
      \/ (matches Rfc3986.IPvFuture h /\ ip6 u = None /\ ipFuture u = Some h)))
  \/ (is_lit u = false /\ ip6 u = None /\ ipFuture u = None /\
     ((matches Rfc3986.IPv4address h /\ ip4 u = Some (ip4_value h))
      \/ (~ matches Rfc3986.IPv4address h /\ text_ok is_regname_char h /\ ip4 u = None))).
Proof. exact parse_host_kind. Qed.
Print Assumptions C02_host_kind.

(* Absent components are reported as absent (None) and present-but-empty ones as empty (Some []):
   each optional component, as an [option text], is the splitter's.  The splitter reports a
   component as present exactly when its delimiter is in the text (":" before any "/?#", "//",
   "@" inside the authority, ":" after the host, "?", "#") and then gives the possibly empty text
   it delimits.  Also: same segments, same absolute-path flag, same host kind. *)
Theorem C02_absent_vs_empty : forall s u, parse s = POk u ->
  scheme u = scheme (split_spec s) /\ userInfo u = userInfo (split_spec s)
  /\ hostText u = hostText (split_spec s) /\ portText u = portText (split_spec s)
  /\ pathSegs u = pathSegs (split_spec s) /\ absolutePath u = absolutePath (split_spec s)
  /\ query u = query (split_spec s) /\ fragment u = fragment (split_spec s)
  /\ ipFuture u = ipFuture (split_spec s)
  /\ is_some (ip6 u) = is_some (ip6 (split_spec s))
  /\ (is_lit u = true -> ip4 u = None /\ ip4 (split_spec s) = None).
Proof. exact parse_split_components. Qed.
Print Assumptions C02_absent_vs_empty.

(* ---- non-vacuity: concrete inputs (the hypothesis [parse s = POk u] is satisfiable, and the
   objects are what one expects) ------------------------------------------------------------- *)
Local Open Scope string_scope.
Notation txt := ResolveProofs.txt.

Example C02_ex_all_components :
  parse (txt "http://u:p@[::1]:80/a/b?q#f") =
  POk (mkUri (Some (txt "http")) (Some (txt "u:p")) (Some (txt "::1")) None
             (Some [0; 0; 0; 0; 0; 0; 0; 0; 0; 0; 0; 0; 0; 0; 0; 1]%N) None (Some (txt "80"))
             [txt "a"; txt "b"] (Some (txt "q")) (Some (txt "f")) false false).
Proof. vm_compute. reflexivity. Qed.

(* present but empty: Some [] ... *)
Example C02_ex_present_but_empty :
  parse (txt "//@:?#") =
  POk (mkUri None (Some []) (Some []) None None None (Some []) [] (Some []) (Some []) false false).
Proof. vm_compute. reflexivity. Qed.
(* ... absent: None *)
Example C02_ex_absent :
  parse (txt "x") = POk (mkUri None None None None None None None [txt "x"] None None false false).
Proof. vm_compute. reflexivity. Qed.

Example C02_ex_ip4 :
  parse (txt "//1.2.3.4/") =
  POk (mkUri None None (Some (txt "1.2.3.4")) (Some [1; 2; 3; 4]%N) None None None [[]] None None false false).
Proof. vm_compute. reflexivity. Qed.

Example C02_ex_ipfuture :
  parse (txt "//[v1.x]") =
  POk (mkUri None None (Some (txt "v1.x")) None None (Some (txt "v1.x")) None [] None None false false).
Proof. vm_compute. reflexivity. Qed.

(* the absolute-path flag: host-less paths beginning with "/" *)
Example C02_ex_abs :
  parse (txt "/") = POk (mkUri None None None None None None None [] None None true false)
  /\ parse (txt "a:/b") = POk (mkUri (Some (txt "a")) None None None None None None [txt "b"] None None true false)
  /\ parse (txt "//h/b") = POk (mkUri None None (Some (txt "h")) None None None None [txt "b"] None None false false).
Proof. vm_compute. repeat split; reflexivity. Qed.

(* the round trip on all of them *)
Example C02_ex_unparse :
  forallb (fun s => match parse (txt s) with
                    | POk u => if list_eq_dec N.eq_dec (unparse u) (txt s) then true else false
                    | PSyntax _ => false
                    end)
          ["http://u:p@[::1]:80/a/b?q#f"; "//@:?#"; "x"; "//1.2.3.4/"; "//[v1.x]"; "/"; "a:/b"; "//h/b"; "";
           "a//b"; "//h//"; "?"; "#"; "./a:b"; "%41/%42"] = true.
Proof. vm_compute. reflexivity. Qed.

(* the parsed object is the splitter's, on an IPv4 host, an IPv6 host with "::" and an embedded
   dotted quad, and an IPvFuture host; and the address bytes are the values written *)
Example C02_ex_split_ip4 :
  parse (txt "s://u@199.249.250.99:8/p") = POk (split_spec (txt "s://u@199.249.250.99:8/p"))
  /\ ip4 (split_spec (txt "s://u@199.249.250.99:8/p")) = Some [199; 249; 250; 99]%N.
Proof. vm_compute. split; reflexivity. Qed.

Example C02_ex_split_ip6 :
  parse (txt "//[1:2::ffff:1.2.3.4]/x") = POk (split_spec (txt "//[1:2::ffff:1.2.3.4]/x"))
  /\ ip6 (split_spec (txt "//[1:2::ffff:1.2.3.4]/x")) = Some [0; 1; 0; 2; 0; 0; 0; 0; 0; 0; 255; 255; 1; 2; 3; 4]%N
  /\ matchb Rfc3986.IPv6address (txt "1:2::ffff:1.2.3.4") = true.
Proof. vm_compute. repeat split; reflexivity. Qed.

Example C02_ex_split_ipfuture :
  parse (txt "//[vF.a:b]:1") = POk (split_spec (txt "//[vF.a:b]:1"))
  /\ ipFuture (split_spec (txt "//[vF.a:b]:1")) = Some (txt "vF.a:b")
  /\ matchb Rfc3986.IPvFuture (txt "vF.a:b") = true.
Proof. vm_compute. repeat split; reflexivity. Qed.

(* a host that looks like a dotted quad but is not one (leading zero) is a registered name *)
Example C02_ex_split_regname :
  parse (txt "//01.2.3.4") = POk (split_spec (txt "//01.2.3.4")) /\ ip4 (split_spec (txt "//01.2.3.4")) = None.
Proof. vm_compute. split; reflexivity. Qed.
