(* C02 — parsed components are the exact RFC 3986 sub-ranges of the input.
   Statements only; proofs in Proofs/ParseData.v (concatenation), Proofs/ParseWfStep.v and
   Proofs/ParseWf.v (well-formedness).  The statements are about the model parser
   (Model/Parse.v); its correspondence with src/UriParse.c is checked by gen/c02.py.

   "The path list is well formed with its tail being the last node" holds by construction in
   the model and is therefore NOT a theorem here: the model's path is a Coq list (pathSegs),
   which has no separate tail pointer.  That pathTail of the C object is the last node of the
   chain from pathHead is checked on the implementation's own objects by the harness
   (harness/drv.c prints "bad" otherwise, gen/c02.py reports it). *)
From Coq Require Import List NArith Bool String.
From UP Require Import Base.Chars Model.Uri Model.Ip4 Model.Parse Spec.NormalWf Spec.Unparse Spec.Identity
  Spec.Split Proofs.ParseData Proofs.ParseWfStep Proofs.ParseWf Proofs.ParseSplit.
From UP Require Proofs.ResolveProofs Spec.Rfc3986.
Import ListNotations.
Local Open Scope N_scope.

(* The components reported, written one after the other with nothing but their delimiters in
   between (scheme ":", "//" userinfo "@" host ":" port, "/"-separated segments, "?" query,
   "#" fragment; IP literals between brackets), are the input: each component is a sub-range of
   the input, the sub-ranges are in order and they leave out the delimiters only.  A leading "/"
   is written for a host-less path exactly when the absolute-path flag is set. *)
Theorem C02_unparse : forall s u, parse s = POk u -> unparse u = s.
Proof. exact parse_unparse. Qed.
Print Assumptions C02_unparse.

(* Every parsed object is well formed (Spec/Unparse.v): each component consists of the characters
   of its grammar rule with well-formed percent-encodings; the host is classified as IPv6 literal /
   IPvFuture literal / IPv4 address / registered name by its text, with the address data computed
   from that text; the absolute-path flag is off when there is a host; a host-less path does not
   begin with an empty segment; user info and port only occur with a host. *)
Theorem C02_wf : forall s u, parse s = POk u -> parsed_wf parse_ip4 ip6_bytes u.
Proof. exact parse_wf. Qed.
Print Assumptions C02_wf.

(* Consequently no component contains a delimiter that would end it, nor a NUL. *)
Theorem C02_delimiters : forall s u, parse s = POk u ->
  opt_ok (fun s => s <> [] /\ none_of [58; 47; 63; 35; 64; 91; 93; 37; 0] s) (scheme u)
  /\ opt_ok (none_of [64; 47; 63; 35; 91; 93; 0]) (userInfo u)
  /\ opt_ok (fun h => if is_lit u then none_of [91; 93; 47; 63; 35; 64; 37; 0] h
                      else none_of [58; 47; 63; 35; 64; 91; 93; 0] h) (hostText u)
  /\ opt_ok (none_of [58; 47; 63; 35; 64; 91; 93; 37; 0]) (portText u)
  /\ Forall (none_of [47; 63; 35; 91; 93; 0]) (pathSegs u)
  /\ opt_ok (none_of [35; 91; 93; 0]) (query u)
  /\ opt_ok (none_of [35; 91; 93; 0]) (fragment u).
Proof. exact parse_delims. Qed.
Print Assumptions C02_delimiters.

(* Parsed objects satisfy what the theorems about the other operations assume of their arguments *)
Theorem C02_parsed_wf_for_resolution : forall s u, parse s = POk u ->
  ResolveProofs.wf u = true /\ ResolveProofs.one_kind u = true.
Proof. exact parse_wf_resolution. Qed.
Print Assumptions C02_parsed_wf_for_resolution.

Theorem C02_parsed_wf_for_normalization : forall s u, parse s = POk u -> uri_wf u.
Proof. exact parse_wf_normalization. Qed.
Print Assumptions C02_parsed_wf_for_normalization.

Theorem C02_parsed_wf_for_equality : forall s u, parse s = POk u -> uri_nul_free u.
Proof. exact parse_wf_equality. Qed.
Print Assumptions C02_parsed_wf_for_equality.

(* The object is the one the Appendix-B style splitter of Spec/Split.v (RFC 3986 appendix B plus
   the authority and path structure of section 3) assigns to the text: [spec_addr u] is [u] with the
   two address fields recomputed from the host text by the specification functions (ip4_value when
   the text matches IPv4address, ip6_value).
   PARTIAL: what is missing for [u = split_spec s] is exactly
     parse_ip4 h = if matchb IPv4address h then Some (ip4_value h) else None      (Model/Ip4.v)
     ip6_bytes h = ip6_value h   for the text h of an accepted IPv6 literal       (Model/Parse.v)
   which are statements about the two address scanners alone; Proofs/ParseSplit.v
   parse_split_given_addr / parse_is_split derive [u = split_spec s] from them. *)
Theorem C02_split_partial : forall s u, parse s = POk u -> split_spec s = spec_addr u.
Proof. exact parse_split. Qed.
Print Assumptions C02_split_partial.

(* Absent components are reported as absent (None) and present-but-empty ones as empty (Some []):
   each optional component, as an [option text], is the splitter's.  The splitter reports a
   component as present exactly when its delimiter is in the text (":" before any "/?#", "//",
   "@" inside the authority, ":" after the host, "?", "#") and then gives the possibly empty text
   it delimits.  Also: same segments, same absolute-path flag, same host kind. *)
Theorem C02_absent_vs_empty : forall s u, parse s = POk u ->
  scheme u = scheme (split_spec s) /\ userInfo u = userInfo (split_spec s)
  /\ hostText u = hostText (split_spec s) /\ portText u = portText (split_spec s)
  /\ pathSegs u = pathSegs (split_spec s) /\ absolutePath u = absolutePath (split_spec s)
  /\ query u = query (split_spec s) /\ fragment u = fragment (split_spec s)
  /\ ipFuture u = ipFuture (split_spec s)
  /\ is_some (ip6 u) = is_some (ip6 (split_spec s))
  /\ (is_lit u = true -> ip4 u = None /\ ip4 (split_spec s) = None).
Proof. exact parse_split_components. Qed.
Print Assumptions C02_absent_vs_empty.

(* ---- non-vacuity: concrete inputs (the hypothesis [parse s = POk u] is satisfiable, and the
   objects are what one expects) ------------------------------------------------------------- *)
Local Open Scope string_scope.
Notation txt := ResolveProofs.txt.

Example C02_ex_all_components :
  parse (txt "http://u:p@[::1]:80/a/b?q#f") =
  POk (mkUri (Some (txt "http")) (Some (txt "u:p")) (Some (txt "::1")) None
             (Some [0; 0; 0; 0; 0; 0; 0; 0; 0; 0; 0; 0; 0; 0; 0; 1]%N) None (Some (txt "80"))
             [txt "a"; txt "b"] (Some (txt "q")) (Some (txt "f")) false false).
Proof. vm_compute. reflexivity. Qed.

(* present but empty: Some [] ... *)
Example C02_ex_present_but_empty :
  parse (txt "//@:?#") =
  POk (mkUri None (Some []) (Some []) None None None (Some []) [] (Some []) (Some []) false false).
Proof. vm_compute. reflexivity. Qed.
(* ... absent: None *)
Example C02_ex_absent :
  parse (txt "x") = POk (mkUri None None None None None None None [txt "x"] None None false false).
Proof. vm_compute. reflexivity. Qed.

Example C02_ex_ip4 :
  parse (txt "//1.2.3.4/") =
  POk (mkUri None None (Some (txt "1.2.3.4")) (Some [1; 2; 3; 4]%N) None None None [[]] None None false false).
Proof. vm_compute. reflexivity. Qed.

Example C02_ex_ipfuture :
  parse (txt "//[v1.x]") =
  POk (mkUri None None (Some (txt "v1.x")) None None (Some (txt "v1.x")) None [] None None false false).
Proof. vm_compute. reflexivity. Qed.

(* the absolute-path flag: host-less paths beginning with "/" *)
Example C02_ex_abs :
  parse (txt "/") = POk (mkUri None None None None None None None [] None None true false)
  /\ parse (txt "a:/b") = POk (mkUri (Some (txt "a")) None None None None None None [txt "b"] None None true false)
  /\ parse (txt "//h/b") = POk (mkUri None None (Some (txt "h")) None None None None [txt "b"] None None false false).
Proof. vm_compute. repeat split; reflexivity. Qed.

(* the round trip on all of them *)
Example C02_ex_unparse :
  forallb (fun s => match parse (txt s) with
                    | POk u => if list_eq_dec N.eq_dec (unparse u) (txt s) then true else false
                    | PSyntax _ => false
                    end)
          ["http://u:p@[::1]:80/a/b?q#f"; "//@:?#"; "x"; "//1.2.3.4/"; "//[v1.x]"; "/"; "a:/b"; "//h/b"; "";
           "a//b"; "//h//"; "?"; "#"; "./a:b"; "%41/%42"] = true.
Proof. vm_compute. reflexivity. Qed.
