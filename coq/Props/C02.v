(* C02 — parsed components are the exact RFC 3986 sub-ranges of the input.
   Statements only; proofs in Proofs/ParseData.v.  The statements are about the model parser
   (Model/Parse.v); the correspondence with src/UriParse.c is checked by gen/c02.py. *)
From Coq Require Import List NArith Bool String.
From UP Require Import Base.Chars Model.Uri Model.Ip4 Model.Parse Spec.Unparse Proofs.ParseData.
Import ListNotations.

(* The components reported, written one after the other with nothing but their delimiters in
   between (scheme ":", "//" userinfo "@" host ":" port, "/"-separated segments, "?" query,
   "#" fragment; IP literals between brackets), are the input: each component is a sub-range of
   the input, the sub-ranges are in order and they leave out the delimiters only. *)
Theorem C02_unparse : forall s u, parse s = POk u -> unparse u = s.
Proof. exact parse_unparse. Qed.
Print Assumptions C02_unparse.
