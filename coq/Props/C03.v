(* C03 -- statements only.
   Here: the part of C03 that is about the parsed object ("on success every reported text range
   lies inside the input").  Non-interference with what follows the range and the absence of
   residue on failure are statements about the tape-level / memory-level models, not stated in this
   file yet. *)
From Coq Require Import List NArith Bool String.
From UP Require Import Base.Chars Model.Uri Model.Parse Spec.Unparse Proofs.ParseWf.
From UP Require Proofs.ResolveProofs.
Import ListNotations.

(* Every text the object reports (scheme, user info, host, IPvFuture text, port, every segment,
   query, fragment) is a contiguous piece of the input.  (Property C02_unparse says more: the pieces
   are consecutive and separated by their delimiters only.)  In the model a component is a value,
   not a pointer pair; that the C ranges point into the caller's buffer -- or, for an empty text, at
   the private placeholder -- is checked on the implementation by gen/c03.py. *)
Theorem C03_ranges_inside : forall s u, parse s = POk u -> components_inside u s.
Proof. exact parse_inside. Qed.
Print Assumptions C03_ranges_inside.

(* non-vacuity *)
Local Open Scope string_scope.
Example C03_ex : exists u, parse (ResolveProofs.txt "http://u@h:1/a/b?q#f") = POk u /\ pathSegs u <> [].
Proof. eexists. split; [vm_compute; reflexivity|discriminate]. Qed.
