(* C03 — parsing stays inside the given range and leaves no residue on failure.  Statements only.
   Proofs in Proofs/ParseWf.v (ranges inside the input), Proofs/ParsePrefix.v (left to right; the
   memory tier reports the outcome of the data tier), Proofs/ParseAccept.v (error position),
   Proofs/LedgerProofs.v and Proofs/LedgerTheorems.v (nothing stays allocated after a failure).

   What the model can and cannot say.  In the parser model (Model/Parse.v) the range
   [first, afterLast) IS the argument, a list of code points: there is nothing outside it to read and
   nothing to write to, so "never reads a character outside the range, never writes to the input"
   has no model-level content.  It is checked on the implementation only, by gen/c03.py: every input
   is parsed (a) in a buffer that ends exactly at the end of an allocation / of readable memory
   (sanitizer red zone behind afterLast), (b) in the middle of larger buffers with varying trailing
   content, every split point of a longer text included, and (c) on a private exact-size copy; the
   results must be equal, the input bytes unchanged, and every reported range must point into the
   caller's buffer or, for an empty component, at the private placeholder (uriSafeToPointTo).
   What IS stated here about the model: the parser consumes the text from left to right, and what it
   has done after a prefix is a function of that prefix (C03_left_to_right, C03_common_prefix,
   C03_error_in_prefix_is_final); the position reported with a syntax error lies inside the range
   (C03_error_inside); the NUL-terminated entry points see nothing behind the terminator
   (C03_cstr_ignores_rest); on success every reported text is a contiguous piece of the input
   (C03_ranges_inside).
   No residue: the memory tier (Model/ParseM.v parse_m over the allocation ledger of Model/Mem.v) is
   the same automaton with the allocations and the failure exits of the C code
   (uriStopSyntax / uriStopMalloc free what was built; uriParseSingleUriExMm frees again);
   C03_same_outcome ties its outcome to [parse]; C03_no_residue / C03_no_residue_count say that after
   a syntax error or an out-of-memory failure exactly the blocks live before the call are live,
   for every ledger state and every fault plan, and no block was released that was not live.  The
   model returns no object on failure; the C code leaves the reset structure, for which releasing
   the members is a no-op however often it is repeated (C03_free_after_failure; that the structure
   really is reset, and that the C free function survives it under the sanitizer, is checked by
   gen/c03.py). *)
From Coq Require Import List NArith Bool String Permutation.
From UP Require Import Base.Chars Model.Uri Model.Parse Model.Mem Model.ParseM Spec.Unparse Proofs.ParseWf
  Proofs.ParsePrefix Proofs.LedgerProofs Proofs.LedgerTheorems.
From UP Require Proofs.ResolveProofs.
Import ListNotations.

(* Every text the object reports (scheme, user info, host, IPvFuture text, port, every segment,
   query, fragment) is a contiguous piece of the input.  (Property C02_unparse says more: the pieces
   are consecutive and separated by their delimiters only.)  In the model a component is a value,
   not a pointer pair; that the C ranges point into the caller's buffer -- or, for an empty text, at
   the private placeholder -- is checked on the implementation by gen/c03.py. *)
Theorem C03_ranges_inside : forall s u, parse s = POk u -> components_inside u s.
Proof. exact parse_inside. Qed.
Print Assumptions C03_ranges_inside.

(* Left to right: running over s1 ++ s2 is running over s1 and continuing over s2 from the state
   reached ([psteps]: control state, data, position; or the error raised on the way). *)
Theorem C03_left_to_right : forall s1 c d i s2,
  prun c d i (s1 ++ s2) =
  match psteps c d i s1 with
  | inl (c', d', i') => prun c' d' i' s2
  | inr e => PSyntax e
  end.
Proof. exact prun_app. Qed.
Print Assumptions C03_left_to_right.

(* Two texts with a common prefix: after the prefix the parser is in the same state, at the position
   just behind it, in both; what follows the prefix has had no influence on that state. *)
Theorem C03_common_prefix : forall s1 s2 s2',
  match psteps CStart pdata_init 0 s1 with
  | inl (c', d', i') => parse (s1 ++ s2) = prun c' d' i' s2 /\ parse (s1 ++ s2') = prun c' d' i' s2' /\ i' = length s1
  | inr e => parse (s1 ++ s2) = PSyntax e /\ parse (s1 ++ s2') = PSyntax e
  end.
Proof. exact parse_common_prefix. Qed.
Print Assumptions C03_common_prefix.

(* A syntax error raised while reading a prefix is the outcome whatever follows, and its position
   lies inside the prefix. *)
Theorem C03_error_in_prefix_is_final : forall s1 e, psteps CStart pdata_init 0 s1 = inr e ->
  forall s2, parse (s1 ++ s2) = PSyntax e /\ (e < length s1)%nat.
Proof. exact parse_prefix_error. Qed.
Print Assumptions C03_error_in_prefix_is_final.

(* The reported error position lies inside the range (afterLast itself for "unexpected end").
   (C01_errpos says where exactly.) *)
Theorem C03_error_inside : forall s e, parse s = PSyntax e -> (e <= length s)%nat.
Proof. exact parse_error_inside. Qed.
Print Assumptions C03_error_inside.

(* The NUL-terminated entry points parse the text before the first NUL: whatever stands behind the
   terminator does not influence the outcome. *)
Theorem C03_cstr_ignores_rest : forall s junk junk', ~ In 0%N s ->
  parse_cstr (s ++ 0%N :: junk) = parse s /\ parse_cstr (s ++ 0%N :: junk) = parse_cstr (s ++ 0%N :: junk').
Proof. exact parse_cstr_ignores_rest. Qed.
Print Assumptions C03_cstr_ignores_rest.

(* The memory tier reports success where [parse] does, and the same error position, unless an
   allocation failed. *)
Theorem C03_same_outcome : forall t s,
  match fst (parse_m t s) with
  | MOk m => exists u, parse t = POk u
  | MSyntax e => parse t = PSyntax e
  | MMalloc => True
  end.
Proof. exact parse_m_agrees. Qed.
Print Assumptions C03_same_outcome.

(* No residue, for every text, every consistent ledger state and every fault plan: after a syntax
   error or an out-of-memory failure the live blocks are those live before the call ([ext]: the
   ledger only grew a trace, no release of a block that was not live); out-of-memory is reported only
   when a request made during the call was refused.  On success the object holds exactly what the
   ledger gained. *)
Theorem C03_no_residue : forall t s0, wf s0 ->
  match parse_m t s0 with
  | (MOk m, s') => wf s' /\ ext s0 s' /\ owns m s' /\ m_owner m = false
                   /\ Permutation (live_ids s') (muri_blocks m ++ live_ids s0)
  | (MSyntax _, s') => wf s' /\ ext s0 s' /\ Permutation (live_ids s') (live_ids s0)
  | (MMalloc, s') => wf s' /\ ext s0 s' /\ Permutation (live_ids s') (live_ids s0) /\ fails_between s0 s'
  end.
Proof. exact parse_m_no_residue. Qed.
Print Assumptions C03_no_residue.

(* the same as counts: as many blocks live after a failure as before, no bad release *)
Theorem C03_no_residue_count : forall t s0, wf s0 ->
  match parse_m t s0 with
  | (MOk m, s') => live_count s' = (length (muri_blocks m) + live_count s0)%nat
  | (_, s') => live_count s' = live_count s0
  end /\ bad_frees (snd (parse_m t s0)) = bad_frees s0.
Proof. exact parse_m_no_residue_count. Qed.
Print Assumptions C03_no_residue_count.

(* What a failed parse leaves to the caller is the reset structure: passing it to the free function
   releases nothing, records no bad release and leaves it reset, any number of times. *)
Theorem C03_free_after_failure : forall n s, free_times n muri_empty s = (muri_empty, s).
Proof. exact free_reset_repeatedly. Qed.
Print Assumptions C03_free_after_failure.

(* ---- non-vacuity ---------------------------------------------------------------------------- *)
Local Open Scope string_scope.
Notation txt := ResolveProofs.txt.

Example C03_ex : exists u, parse (txt "http://u@h:1/a/b?q#f") = POk u /\ pathSegs u <> [].
Proof. eexists. split; [vm_compute; reflexivity|discriminate]. Qed.

(* a prefix that is read without error ("//[::44.1", the literal of the regression test), one that
   raises the error itself ("//[::44.1x"), the position reported, and the end-of-range error *)
Example C03_ex_prefix :
  (exists c d, psteps CStart pdata_init 0 (txt "//[::44.1") = inl (c, d, 9%nat))
  /\ parse (txt "//[::44.1") = PSyntax 9
  /\ psteps CStart pdata_init 0 (txt "//[::44.1x") = inr 9%nat
  /\ parse (txt "//[::44.1x" ++ txt ".2.3]")%list = PSyntax 9
  /\ parse (txt "//[::44.1" ++ txt ".2.3]")%list = parse (txt "//[::44.1.2.3]")
  /\ (exists u, parse (txt "//[::44.1.2.3]") = POk u).
Proof. vm_compute. repeat split; eauto. Qed.

Example C03_ex_cstr : parse_cstr (txt "a:b" ++ 0%N :: txt "/junk")%list = parse (txt "a:b").
Proof. vm_compute. reflexivity. Qed.

(* a syntax failure and an out-of-memory failure with blocks already allocated: nothing stays *)
Example C03_ex_residue :
  (let '(r, s') := parse_m (txt "//1.2.3.4/a/b c") (ms_init NoFault) in r = MSyntax 13 /\ ms_live s' = [])
  /\ (let '(r, s') := parse_m (txt "//1.2.3.4/a/b/c") (ms_init (FailOnce 3)) in r = MMalloc /\ ms_live s' = []).
Proof. vm_compute. repeat split; reflexivity. Qed.
