(* C20 -- statements only. *)
From UP Require Import Base.Chars Model.Uri.
