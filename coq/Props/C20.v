(* C20 — concurrent calls on distinct objects are safe; no mutable shared state.

   PARTIAL BY NATURE.  The theorems below are about footprint-disciplined programs in general
   (Spec/Footprint.v): if every step of every thread changes only locations its thread owns and
   depends only on those and on shared read-only locations, then in EVERY interleaving each thread
   observes exactly what it observes when run alone, shared inputs never change, and no location is
   accessed by two threads with one of them writing.  That the C functions are disciplined in this
   sense — they write only to their own arguments and to blocks they allocate, and the library has
   no writable global or static data — is runtime behaviour; the check observes it on the code
   (symbol tables of the freshly built objects, per-thread digests, ThreadSanitizer).  In the Coq
   model every operation is a Gallina function of its arguments (and of the ledger value it is
   given), hence trivially without hidden state; the allocator itself is the caller's. *)
From Coq Require Import List Arith.
From UP Require Import Spec.Footprint Proofs.FootprintProofs.
From UP Require Import Base.Chars Model.Uri Model.Parse Model.Mem Model.ParseM Model.OpsM Proofs.OwnershipProofs Proofs.LedgerIndependence.
Import ListNotations.

(* every schedule of a disciplined program: per-thread views are those of the solo runs, at every
   moment (first clause: for the steps taken so far) and at the end; shared locations are unchanged *)
Theorem C20_schedule_independent :
  forall (V : Type) (owner : loc -> option nat) (P : program V) (m0 : store V) (sched : list nat),
  (forall i g, In g (P i) -> disciplined V owner i g) ->
  let r := run_sched V P sched m0 in
  (forall i, exists pre, P i = pre ++ fst r i /\ agree_on V owner i (snd r) (run_solo V pre m0))
  /\ (forall i, fst r i = [] -> agree_on V owner i (snd r) (run_solo V (P i) m0))
  /\ (forall l, owner l = None -> snd r l = m0 l).
Proof. exact schedule_independent. Qed.
Print Assumptions C20_schedule_independent.

(* race freedom: a location changed by a step of thread i is owned by i and invisible to every other thread *)
Theorem C20_no_conflicting_access :
  forall (V : Type) (owner : loc -> option nat) i j (f : step V) m l,
  i <> j -> disciplined V owner i f -> f m l <> m l ->
  owner l = Some i /\ ~ visible owner j l.
Proof. exact no_conflict. Qed.
Print Assumptions C20_no_conflicting_access.

(* non-vacuity: two threads, each copying the shared location 0 into its own location *)
Example C20_nonvacuous :
  let owner := fun l => match l with 0 => None | 1 => Some 0 | 2 => Some 1 | _ => None end in
  let copy_to (d : loc) : step nat := fun m l => if Nat.eqb l d then m 0 + m d else m l in
  disciplined nat owner 0 (copy_to 1) /\ disciplined nat owner 1 (copy_to 2).
Proof.
  cbv zeta. split; split.
  - intros m l H. destruct (Nat.eqb l 1) eqn:E; [apply Nat.eqb_eq in E; subst; exfalso; apply H; reflexivity|reflexivity].
  - intros m m' A l Hl. destruct (Nat.eqb l 1) eqn:E.
    + rewrite (A 0), (A 1); [reflexivity| |]; [left; reflexivity|right; reflexivity].
    + apply A. exact Hl.
  - intros m l H. destruct (Nat.eqb l 2) eqn:E; [apply Nat.eqb_eq in E; subst; exfalso; apply H; reflexivity|reflexivity].
  - intros m m' A l Hl. destruct (Nat.eqb l 2) eqn:E.
    + rewrite (A 0), (A 2); [reflexivity| |]; [left; reflexivity|right; reflexivity].
    + apply A. exact Hl.
Qed.

(* ---- the one piece of state the threads do share: the allocator ---------------------------------
   In the memory tier every operation receives the ledger (the state of the memory manager) and returns
   it; with a thread-safe manager the ledger a call sees depends on what the other threads did before.
   The value computed -- return code, error position, every component of the resulting object -- does
   not: for any two fault-free ledger states it is the same (it is the pure-tier function of the
   arguments, Props/C12.v).  [mresult_value] / [op_value] forget the block identities, which are the
   only thing that differs. *)
Theorem C20_parse_independent_of_allocator_state : forall t s1 s2, nofault s1 -> nofault s2 ->
  mresult_value (fst (parse_m t s1)) = mresult_value (fst (parse_m t s2)).
Proof. exact parse_ledger_independent. Qed.
Print Assumptions C20_parse_independent_of_allocator_state.

Theorem C20_add_base_independent_of_allocator_state : forall compat rel base s1 s2, nofault s1 -> nofault s2 ->
  op_value (add_base_m compat rel base s1) = op_value (add_base_m compat rel base s2).
Proof. exact add_base_ledger_independent. Qed.
Print Assumptions C20_add_base_independent_of_allocator_state.

Theorem C20_remove_base_independent_of_allocator_state : forall dr src base s1 s2, nofault s1 -> nofault s2 ->
  op_value (remove_base_m dr src base s1) = op_value (remove_base_m dr src base s2).
Proof. exact remove_base_ledger_independent. Qed.
Print Assumptions C20_remove_base_independent_of_allocator_state.

Theorem C20_make_owner_independent_of_allocator_state : forall csize m s1 s2, nofault s1 -> nofault s2 -> mwf m ->
  op_value (make_owner_m csize m s1) = op_value (make_owner_m csize m s2).
Proof. exact make_owner_ledger_independent. Qed.
Print Assumptions C20_make_owner_independent_of_allocator_state.

Theorem C20_normalize_independent_of_allocator_state : forall csize mask m s1 s2, nofault s1 -> nofault s2 -> mwf m ->
  op_value (normalize_m csize mask m s1) = op_value (normalize_m csize mask m s2).
Proof. exact normalize_ledger_independent. Qed.
Print Assumptions C20_normalize_independent_of_allocator_state.
