(* C14 -- any allocation failure is reported cleanly, without leak or corruption.
   Statements only; proofs in Proofs/LedgerProofs.v, LedgerOps.v, LedgerBase.v, LedgerNormalize.v, LedgerTheorems.v,
   LedgerTransparent.v, LedgerRefused.v, LedgerQuery.v.

   The theorems are about the memory tier of the model (Model/Mem.v, ParseM.v, OpsM.v), which mirrors the C
   code allocation by allocation, every error exit included (gen/c14.py compares full allocation traces for
   every failure position).  No hypothesis is made on the fault plan: [ms_plan s] is any of NoFault,
   FailOnce k, FailFrom k, for any k, and the request counter of [s] is arbitrary, so "the k-th request fails,
   whether or not later ones fail too" is covered for every k.  Sizes are unbounded.

   Reading guide.  [fails_between s s']: the plan refused a request made between s and s' (C14_vocabulary).
   [bad_frees]: releases that hit a block that was not live = released twice, or never handed out.
   [owns m s]: every block the object refers to is live in s (and they are pairwise distinct), so the object
   the call leaves behind never refers to released memory; this is as far as "no released memory is touched"
   can be said in this model: reads and writes of block contents are not modelled (the sanitizer builds of
   gen/c14.py observe them on the implementation).
   Read-only inputs ([rel], [base], [src]) are Coq values passed to the function and not returned: the model
   cannot change them by construction; what the theorems add is that none of their blocks is released
   ([incl (live_ids s) (live_ids s')], resp. the permutations, which leave every other live block in place).

   Covered calls: parse, make owner, normalize (any mask, borrowed and owned), add base (resolve), remove
   base (create reference), free members, and (second part of this file; memory tier Model/QueryM.v, proofs
   Proofs/LedgerQuery.v) dissect query, compose query, free query list. *)
From Coq Require Import List NArith Permutation Lia.
From UP Require Import Base.Chars Model.Uri Model.Mem Model.ParseM Model.OpsM
  Proofs.LedgerProofs Proofs.LedgerOps Proofs.LedgerBase Proofs.LedgerNormalize Proofs.LedgerTheorems Proofs.LedgerTransparent
  Proofs.LedgerRefused.
Import ListNotations.

Theorem C14_vocabulary : forall s s',
  (fails_between s s' <-> exists n, ms_requests s < n <= ms_requests s' /\ plan_fails (ms_plan s) n = true)
  /\ (wf s <-> (NoDup (live_ids s) /\ forall id, In id (live_ids s) -> id < ms_next s)).
Proof. exact (fun s s' => conj (fails_between_meaning s s') (wf_meaning s)). Qed.
Print Assumptions C14_vocabulary.

Theorem C14_owns_meaning : forall m s, wf s ->
  (owns m s <-> (consistent m /\ NoDup (muri_blocks m) /\ incl (muri_blocks m) (live_ids s))).
Proof. exact owns_meaning. Qed.
Print Assumptions C14_owns_meaning.

(* ---- parse: out-of-memory only if a request was refused; then (as after a syntax error) the ledger is as
   before the call; never a bad release; under NoFault never out-of-memory *)
Theorem C14_parse_oom : forall t s0, wf s0 ->
  match parse_m t s0 with
  | (MMalloc, s') => fails_between s0 s' /\ Permutation (live_ids s') (live_ids s0) /\ bad_frees s' = bad_frees s0
  | (_, s') => bad_frees s' = bad_frees s0
  end /\ (ms_plan s0 = NoFault -> fst (parse_m t s0) <> MMalloc).
Proof. exact parse_m_oom. Qed.
Print Assumptions C14_parse_oom.

(* the object of a successful parse owns its blocks, whatever the plan did in between (nothing was refused,
   or the call would not have succeeded); no residue otherwise *)
Theorem C14_parse_no_residue : forall t s0, wf s0 ->
  match parse_m t s0 with
  | (MOk m, s') => wf s' /\ ext s0 s' /\ owns m s' /\ m_owner m = false
                   /\ Permutation (live_ids s') (muri_blocks m ++ live_ids s0)
  | (MSyntax _, s') => wf s' /\ ext s0 s' /\ Permutation (live_ids s') (live_ids s0)
  | (MMalloc, s') => wf s' /\ ext s0 s' /\ Permutation (live_ids s') (live_ids s0) /\ fails_between s0 s'
  end.
Proof. exact parse_m_no_residue. Qed.
Print Assumptions C14_parse_no_residue.

(* ---- in-place calls followed by the caller's ordinary clean-up (free the members of that object, nothing
   else).  Whatever the call returned: the code is success or out-of-memory; out-of-memory only if a request
   was refused; never under NoFault; no bad release anywhere; the blocks that left the ledger are exactly the
   ones the object held before the call (each of them exactly once: the ledger has no duplicates); every other
   live block is still live; a second clean-up does nothing *)
Theorem C14_make_owner_clean : forall csize m s rc m' s' m'' s'', wf s -> owns m s ->
  make_owner_m csize m s = (rc, m', s') -> free_members m' s' = (m'', s'') ->
  (rc = URI_SUCCESS \/ rc = URI_ERROR_MALLOC) /\ (rc = URI_ERROR_MALLOC -> fails_between s s')
  /\ (ms_plan s = NoFault -> rc = URI_SUCCESS)
  /\ wf s'' /\ bad_frees s'' = bad_frees s /\ Permutation (live_ids s) (muri_blocks m ++ live_ids s'') /\ muri_blocks m'' = []
  /\ free_members m'' s'' = (m'', s'').
Proof. exact make_owner_m_cleanup. Qed.
Print Assumptions C14_make_owner_clean.

(* [sane]: a borrowed object must not have a present-but-empty scheme or IPvFuture text; parsed objects are
   sane (C13_parsed_sane); without it the statement is false: C14_normalize_insane_refuted *)
Theorem C14_normalize_clean : forall csize mask m s rc m' s' m'' s'', wf s -> owns m s -> (m_owner m = false -> sane m) ->
  normalize_m csize mask m s = (rc, m', s') -> free_members m' s' = (m'', s'') ->
  (rc = URI_SUCCESS \/ rc = URI_ERROR_MALLOC) /\ (rc = URI_ERROR_MALLOC -> fails_between s s')
  /\ (ms_plan s = NoFault -> rc = URI_SUCCESS)
  /\ wf s'' /\ bad_frees s'' = bad_frees s /\ Permutation (live_ids s) (muri_blocks m ++ live_ids s'') /\ muri_blocks m'' = []
  /\ free_members m'' s'' = (m'', s'').
Proof. exact normalize_m_cleanup. Qed.
Print Assumptions C14_normalize_clean.

(* before the clean-up: the object left behind is consistent and refers to live blocks only (also after
   out-of-memory, where it is the partially converted object uriPreventLeakage leaves) *)
Theorem C14_normalize_state : forall csize mask m s, wf s -> owns m s -> (m_owner m = false -> sane m) ->
  match normalize_m csize mask m s with
  | (rc, m', s') =>
    wf s' /\ bad_frees s' = bad_frees s /\ owns m' s'
    /\ Permutation (live_ids s' ++ muri_blocks m) (muri_blocks m' ++ live_ids s)
    /\ ((rc = URI_SUCCESS /\ (mask <> 0%N -> m_owner m' = true) /\ (mask = 0%N -> m' = m /\ s' = s))
        \/ (rc = URI_ERROR_MALLOC /\ m_owner m' = m_owner m /\ fails_between s s'))
  end.
Proof. exact normalize_m_balanced. Qed.
Print Assumptions C14_normalize_state.

Theorem C14_make_owner_state : forall csize m s, wf s -> owns m s ->
  match make_owner_m csize m s with
  | (rc, m', s') =>
    wf s' /\ bad_frees s' = bad_frees s /\ owns m' s'
    /\ Permutation (live_ids s' ++ muri_blocks m) (muri_blocks m' ++ live_ids s)
    /\ ((rc = URI_SUCCESS /\ m_owner m' = true) \/ (rc = URI_ERROR_MALLOC /\ m_owner m' = false /\ fails_between s s'))
  end.
Proof. exact make_owner_m_balanced. Qed.
Print Assumptions C14_make_owner_state.

(* the finding behind [sane]: a hand-built borrowed URI whose scheme (resp. IPvFuture text) is present but
   empty, mask = SCHEME|USER_INFO (resp. HOST|USER_INFO), first request refused: uriPreventLeakage releases
   scheme.first (resp. hostData.ipFuture.first), which no allocator call returned.  Reproduced on the C code. *)
Theorem C14_normalize_insane_refuted :
  exists m mask p, owns m (ms_init p) /\ m_owner m = false /\ ~ sane m
    /\ let '(rc, m', s') := normalize_m 1 mask m (ms_init p) in rc = URI_ERROR_MALLOC /\ bad_frees s' = 1.
Proof. exact normalize_m_insane_refuted. Qed.
Print Assumptions C14_normalize_insane_refuted.

Theorem C14_normalize_insane_future_refuted :
  exists m mask p, owns m (ms_init p) /\ m_owner m = false /\ ~ sane m /\ t_val (m_scheme m) <> Some []
    /\ let '(rc, m', s') := normalize_m 1 mask m (ms_init p) in rc = URI_ERROR_MALLOC /\ bad_frees s' = 1.
Proof. exact normalize_m_insane_future_refuted. Qed.
Print Assumptions C14_normalize_insane_future_refuted.

(* ---- calls with a destination, followed by the clean-up of the destination.  No hypothesis on the
   arguments.  Nothing that was live before the call was released by it (so the read-only arguments keep all
   their blocks); after the clean-up the live blocks are those from before the call *)
Theorem C14_add_base_clean : forall compat rel base s rc d s' d'' s'', wf s ->
  add_base_m compat rel base s = (rc, d, s') -> free_members d s' = (d'', s'') ->
  (rc = URI_SUCCESS \/ rc = URI_ERROR_ADDBASE_REL_BASE \/ rc = URI_ERROR_MALLOC)
  /\ (rc = URI_ERROR_MALLOC -> fails_between s s') /\ (ms_plan s = NoFault -> rc <> URI_ERROR_MALLOC)
  /\ incl (live_ids s) (live_ids s')
  /\ wf s'' /\ bad_frees s'' = bad_frees s /\ Permutation (live_ids s'') (live_ids s) /\ muri_blocks d'' = []
  /\ free_members d'' s'' = (d'', s'').
Proof. exact add_base_m_cleanup. Qed.
Print Assumptions C14_add_base_clean.

Theorem C14_remove_base_clean : forall domain_root src base s rc d s' d'' s'', wf s ->
  remove_base_m domain_root src base s = (rc, d, s') -> free_members d s' = (d'', s'') ->
  (rc = URI_SUCCESS \/ rc = URI_ERROR_REMOVEBASE_REL_BASE \/ rc = URI_ERROR_REMOVEBASE_REL_SOURCE \/ rc = URI_ERROR_MALLOC)
  /\ (rc = URI_ERROR_MALLOC -> fails_between s s') /\ (ms_plan s = NoFault -> rc <> URI_ERROR_MALLOC)
  /\ incl (live_ids s) (live_ids s')
  /\ wf s'' /\ bad_frees s'' = bad_frees s /\ Permutation (live_ids s'') (live_ids s) /\ muri_blocks d'' = []
  /\ free_members d'' s'' = (d'', s'').
Proof. exact remove_base_m_cleanup. Qed.
Print Assumptions C14_remove_base_clean.

(* on any error the wrapper has already released the destination: it holds nothing and the caller's clean-up
   is a no-op *)
Theorem C14_add_base_state : forall compat rel base s, wf s ->
  match add_base_m compat rel base s with
  | (rc, d, s') =>
    wf s' /\ bad_frees s' = bad_frees s /\ owns d s' /\ m_owner d = false
    /\ Permutation (live_ids s') (muri_blocks d ++ live_ids s)
    /\ (rc = URI_SUCCESS \/ rc = URI_ERROR_ADDBASE_REL_BASE \/ (rc = URI_ERROR_MALLOC /\ fails_between s s'))
    /\ (rc <> URI_SUCCESS -> muri_blocks d = [] /\ free_members d s' = (d, s'))
  end.
Proof. exact add_base_m_balanced. Qed.
Print Assumptions C14_add_base_state.

Theorem C14_remove_base_state : forall domain_root src base s, wf s ->
  match remove_base_m domain_root src base s with
  | (rc, d, s') =>
    wf s' /\ bad_frees s' = bad_frees s /\ owns d s' /\ m_owner d = false
    /\ Permutation (live_ids s') (muri_blocks d ++ live_ids s)
    /\ (rc = URI_SUCCESS \/ rc = URI_ERROR_REMOVEBASE_REL_BASE \/ rc = URI_ERROR_REMOVEBASE_REL_SOURCE
        \/ (rc = URI_ERROR_MALLOC /\ fails_between s s'))
    /\ (rc <> URI_SUCCESS -> muri_blocks d = [] /\ free_members d s' = (d, s'))
  end.
Proof. exact remove_base_m_balanced. Qed.
Print Assumptions C14_remove_base_state.

(* ---- a refused request is always reported: if the plan refused any request made during the call (the k-th,
   for any k, whatever happens to later ones), the call returns the out-of-memory code.  With the theorems
   above: the code is out-of-memory iff a request made during the call was refused.  No hypothesis on the
   state or the arguments. *)
Theorem C14_parse_refused_is_oom : forall t s, fails_between s (snd (parse_m t s)) -> fst (parse_m t s) = MMalloc.
Proof. exact parse_m_refused_is_oom. Qed.
Print Assumptions C14_parse_refused_is_oom.

Theorem C14_make_owner_refused_is_oom : forall csize m s,
  fails_between s (snd (make_owner_m csize m s)) -> fst (fst (make_owner_m csize m s)) = URI_ERROR_MALLOC.
Proof. exact make_owner_m_refused_is_oom. Qed.
Print Assumptions C14_make_owner_refused_is_oom.

Theorem C14_normalize_refused_is_oom : forall csize mask m s,
  fails_between s (snd (normalize_m csize mask m s)) -> fst (fst (normalize_m csize mask m s)) = URI_ERROR_MALLOC.
Proof. exact normalize_m_refused_is_oom. Qed.
Print Assumptions C14_normalize_refused_is_oom.

Theorem C14_add_base_refused_is_oom : forall compat rel base s,
  fails_between s (snd (add_base_m compat rel base s)) -> fst (fst (add_base_m compat rel base s)) = URI_ERROR_MALLOC.
Proof. exact add_base_m_refused_is_oom. Qed.
Print Assumptions C14_add_base_refused_is_oom.

Theorem C14_remove_base_refused_is_oom : forall domain_root src base s,
  fails_between s (snd (remove_base_m domain_root src base s)) -> fst (fst (remove_base_m domain_root src base s)) = URI_ERROR_MALLOC.
Proof. exact remove_base_m_refused_is_oom. Qed.
Print Assumptions C14_remove_base_refused_is_oom.

(* ---- fault transparency: if the plan refuses none of the requests the call makes, the call returns what it
   returns under NoFault and leaves the same ledger, counters and trace ([np s] = s with the plan NoFault).
   No hypothesis on the state or the arguments. *)
Theorem C14_parse_transparent : forall t s, ~ fails_between s (snd (parse_m t s)) ->
  parse_m t (np s) = (fst (parse_m t s), np (snd (parse_m t s))).
Proof. exact parse_m_fault_transparent. Qed.
Print Assumptions C14_parse_transparent.

Theorem C14_make_owner_transparent : forall csize m s, ~ fails_between s (snd (make_owner_m csize m s)) ->
  make_owner_m csize m (np s) = (fst (make_owner_m csize m s), np (snd (make_owner_m csize m s))).
Proof. exact make_owner_m_fault_transparent. Qed.
Print Assumptions C14_make_owner_transparent.

Theorem C14_normalize_transparent : forall csize mask m s, ~ fails_between s (snd (normalize_m csize mask m s)) ->
  normalize_m csize mask m (np s) = (fst (normalize_m csize mask m s), np (snd (normalize_m csize mask m s))).
Proof. exact normalize_m_fault_transparent. Qed.
Print Assumptions C14_normalize_transparent.

Theorem C14_add_base_transparent : forall compat rel base s, ~ fails_between s (snd (add_base_m compat rel base s)) ->
  add_base_m compat rel base (np s) = (fst (add_base_m compat rel base s), np (snd (add_base_m compat rel base s))).
Proof. exact add_base_m_fault_transparent. Qed.
Print Assumptions C14_add_base_transparent.

Theorem C14_remove_base_transparent : forall domain_root src base s, ~ fails_between s (snd (remove_base_m domain_root src base s)) ->
  remove_base_m domain_root src base (np s) = (fst (remove_base_m domain_root src base s), np (snd (remove_base_m domain_root src base s))).
Proof. exact remove_base_m_fault_transparent. Qed.
Print Assumptions C14_remove_base_transparent.

(* the release call makes no request and does not look at the plan *)
Theorem C14_free_members_plan_independent : forall m s,
  free_members m (np s) = (fst (free_members m s), np (snd (free_members m s)))
  /\ ms_requests (snd (free_members m s)) = ms_requests s.
Proof. exact free_members_plan_independent. Qed.
Print Assumptions C14_free_members_plan_independent.

(* example: "a/b/c" (borrowed, PATH bit, csize 4, three requests): every failure position ends with an empty
   ledger (the former leak D9 -- second or third segment copy refused -- is gone), and the code is out-of-memory
   exactly when one of the three requests is refused *)
Example C14_nonvacuous :
  let t := [97; 47; 98; 47; 99]%N in
  (forall k, k <= 5 ->
     match parse_m t (ms_init NoFault) with
     | (MOk m, s1) =>
       let s1' := {| ms_next := ms_next s1; ms_live := ms_live s1; ms_requests := 0; ms_plan := FailOnce k; ms_trace := ms_trace s1 |} in
       let '(rc, m', s2) := normalize_m 4 8 m s1' in
       let '(m'', s3) := free_members m' s2 in
       ms_live s3 = [] /\ bad_frees s3 = 0 /\ (rc = URI_ERROR_MALLOC <-> (1 <= k <= 3))
     | _ => False
     end).
Proof.
  cbv zeta. intros k Hk.
  do 6 (destruct k as [|k]; [vm_compute; repeat split; try discriminate; try lia; intros [? ?]; lia|]). lia.
Qed.

(* example: uriRemoveBaseUriMm in domain-root mode, source "s://h/" against base "s://h/a".  The path of the
   source (one empty segment) is copied -- one node -- and uriFixEmptyTrailSegment releases that node again
   before uriFixAmbiguity looks at the path: the reference is "/" without segments, the ledger is as before
   the call.  With source "s://h//a" nothing is released: two nodes copied, one "." node added *)
Example C14_remove_base_domain_root_trace :
  let src := [115; 58; 47; 47; 104; 47]%N in
  let src2 := [115; 58; 47; 47; 104; 47; 47; 97]%N in
  let base := [115; 58; 47; 47; 104; 47; 97]%N in
  let run (t : text) :=
    match parse_m t (ms_init NoFault) with
    | (MOk a, s1) =>
      match parse_m base s1 with
      | (MOk b, s2) =>
        let '(rc, d, s3) := remove_base_m true a b s2 in
        Some (rc, map sg_text (m_segs d), m_abs d, skipn (length (ms_trace s2)) (trace_of s3), live_count s3 - live_count s2)
      | _ => None
      end
    | _ => None
    end in
  run src = Some (URI_SUCCESS, [], true, [EvMalloc SEG_SIZE true; EvFree SEG_SIZE], 0)
  /\ run src2 = Some (URI_SUCCESS, [[46]; []; [97]]%N, true,
                      [EvMalloc SEG_SIZE true; EvMalloc SEG_SIZE true; EvMalloc SEG_SIZE true], 3).
Proof. vm_compute. split; reflexivity. Qed.

(* ================================================================================================================
   The query functions (memory tier: Model/QueryM.v, proofs: Proofs/LedgerQuery.v): uriDissectQueryMallocExMm (with
   uriAppendQueryItem's unwinding and the release of the partial list) and uriComposeQueryMallocExMm.  As above: any
   well-formed ledger, any fault plan (no hypothesis on [ms_plan s]), any request counter, both widths, unbounded sizes.
   The caller's ordinary clean-up is: after a successful dissect, uriFreeQueryListMm on the list; after a successful
   compose, free of the string; after a failure, nothing. *)
From Coq Require Import ZArith.
From UP Require Import Model.Escape Model.Query Model.QueryM Proofs.QueryProofs Proofs.LedgerQuery.

Theorem C14_query_vocabulary : forall r, is_oom r = true <-> exists d, r = DMMalloc d.
Proof. exact is_oom_meaning. Qed.
Print Assumptions C14_query_vocabulary.

(* ---- dissect.  Out-of-memory only if a request was refused; then nothing of what the call allocated is left (the
   live blocks are those from before the call) and nothing was released that was not live; never under NoFault *)
Theorem C14_dissect_oom : forall csize pts bc t s0, wf s0 ->
  match dissect_m csize pts bc t s0 with
  | (DMMalloc d, s') => fails_between s0 s' /\ Permutation (live_ids s') (live_ids s0) /\ bad_frees s' = bad_frees s0
  | (DMOk _ _, s') => bad_frees s' = bad_frees s0
  end /\ (ms_plan s0 = NoFault -> is_oom (fst (dissect_m csize pts bc t s0)) = false).
Proof. exact dissect_m_oom. Qed.
Print Assumptions C14_dissect_oom.

(* the state the call leaves: the list of a successful call owns its blocks (live, pairwise distinct), whatever the plan
   did; after out-of-memory no block of the list the call had begun is live *)
Theorem C14_dissect_state : forall csize pts bc t s0, wf s0 ->
  match dissect_m csize pts bc t s0 with
  | (DMOk items n, s') =>
    wf s' /\ ext s0 s' /\ Permutation (live_ids s') (mqlist_blocks items ++ live_ids s0)
    /\ NoDup (mqlist_blocks items) /\ n = Z.of_nat (length items)
  | (DMMalloc d, s') =>
    wf s' /\ ext s0 s' /\ Permutation (live_ids s') (live_ids s0) /\ fails_between s0 s'
    /\ (forall b, In b (mqlist_blocks d) -> ~ In b (live_ids s'))
  end.
Proof. exact dissect_m_balanced. Qed.
Print Assumptions C14_dissect_state.

(* success followed by the clean-up: the ledger is back, no bad release *)
Theorem C14_dissect_clean : forall csize pts bc t s0 items n s1, wf s0 -> dissect_m csize pts bc t s0 = (DMOk items n, s1) ->
  let s2 := free_query_list_m items s1 in
  wf s2 /\ Permutation (live_ids s2) (live_ids s0) /\ bad_frees s2 = bad_frees s0
  /\ ms_requests s2 = ms_requests s1 /\ ms_plan s2 = ms_plan s0.
Proof. exact dissect_m_release. Qed.
Print Assumptions C14_dissect_clean.

(* a refused request is always reported; with C14_dissect_oom: out-of-memory iff a request made during the call was refused *)
Theorem C14_dissect_refused_is_oom : forall csize pts bc t s,
  fails_between s (snd (dissect_m csize pts bc t s)) -> is_oom (fst (dissect_m csize pts bc t s)) = true.
Proof. exact dissect_m_refused_is_oom. Qed.
Print Assumptions C14_dissect_refused_is_oom.

Theorem C14_dissect_transparent : forall csize pts bc t s, ~ fails_between s (snd (dissect_m csize pts bc t s)) ->
  dissect_m csize pts bc t (np s) = (fst (dissect_m csize pts bc t s), np (snd (dissect_m csize pts bc t s))).
Proof. exact dissect_m_fault_transparent. Qed.
Print Assumptions C14_dissect_transparent.

(* the deviation: "*dest is NULL after a failure" is FALSE for the code as it is.  uriDissectQueryMallocExMm releases
   the partial list but leaves its address in *dest when at least one item had been appended ([DMMalloc d] with
   d <> []).  Witness "a=b&c", fifth request refused (harness request: qdissectx 1 3 61.3d.62.26.63 5 0, reproduced on
   the C code: dest=1 ... bad=3).  A caller that does nothing after the failure is fine (C14_dissect_oom); one that
   hands *dest to uriFreeQueryListMm releases every block of the stale list a second time: *)
Theorem C14_dissect_oom_dest_null_refuted :
  exists pts bc t p, match dissect_m 1 pts bc t (ms_init p) with
                     | (DMMalloc d, s') => d <> [] /\ ms_live s' = [] /\ bad_frees s' = 0 /\ bad_frees (free_query_list_m d s') = 3
                     | _ => False
                     end.
Proof. exact dissect_m_oom_dest_null_refuted. Qed.
Print Assumptions C14_dissect_oom_dest_null_refuted.

Theorem C14_dissect_stale_dest : forall csize pts bc t s0 d s1, wf s0 -> dissect_m csize pts bc t s0 = (DMMalloc d, s1) ->
  ms_live (free_query_list_m d s1) = ms_live s1
  /\ bad_frees (free_query_list_m d s1) = bad_frees s0 + length (mqlist_blocks d).
Proof. exact dissect_m_stale_dest. Qed.
Print Assumptions C14_dissect_stale_dest.

(* ---- compose.  Whatever the call returns, after the clean-up (free of the string if there is one) the ledger is back
   and nothing bad was released *)
Theorem C14_compose_clean : forall csize stp nb l s0, wf s0 ->
  let '(r, s1) := compose_m csize stp nb l s0 in
  let s2 := free_string_m r s1 in
  wf s2 /\ Permutation (live_ids s2) (live_ids s0) /\ bad_frees s2 = bad_frees s0 /\ ms_requests s2 = ms_requests s1
  /\ ms_plan s2 = ms_plan s0.
Proof. exact compose_m_release. Qed.
Print Assumptions C14_compose_clean.

(* the state the call leaves; out-of-memory is returned when the (single) request was refused -- or, without any request,
   when the required size is exactly INT_MAX; any other error code is the one of the chars-required pass and leaves the
   state untouched *)
Theorem C14_compose_state : forall csize stp nb l s0, wf s0 ->
  match compose_m csize stp nb l s0 with
  | (CMOk out b, s') =>
    wf s' /\ ext s0 s' /\ Permutation (live_ids s') (b :: live_ids s0) /\ ~ In b (live_ids s0)
    /\ exists r, chars_required stp nb l = ZOk r /\ (0 <= r < INT_MAX)%Z
         /\ In (b, (Z.to_N (r + 1) * csize)%N) (ms_live s') /\ out = query_text stp nb l /\ (Z.of_nat (length out) <= r)%Z
  | (CMErr c, s') =>
    wf s' /\ ext s0 s' /\ Permutation (live_ids s') (live_ids s0)
    /\ (c = URI_ERROR_MALLOC -> fails_between s0 s' \/ (chars_required stp nb l = ZOk INT_MAX /\ s' = s0))
    /\ (c <> URI_ERROR_MALLOC -> s' = s0 /\ chars_required stp nb l = ZErr c)
  end.
Proof. exact compose_m_balanced. Qed.
Print Assumptions C14_compose_state.

Theorem C14_compose_refused_is_oom : forall csize stp nb l s,
  fails_between s (snd (compose_m csize stp nb l s)) -> fst (compose_m csize stp nb l s) = CMErr URI_ERROR_MALLOC.
Proof. exact compose_m_refused_is_oom. Qed.
Print Assumptions C14_compose_refused_is_oom.

Theorem C14_compose_transparent : forall csize stp nb l s, ~ fails_between s (snd (compose_m csize stp nb l s)) ->
  compose_m csize stp nb l (np s) = (fst (compose_m csize stp nb l s), np (snd (compose_m csize stp nb l s))).
Proof. exact compose_m_fault_transparent. Qed.
Print Assumptions C14_compose_transparent.

(* "never out-of-memory under NoFault" is FALSE for compose: exactly the lists whose required size is INT_MAX get the
   out-of-memory code although the manager was never asked.  (The property does not forbid it; the pure tier has the
   same branch, Props/C17.v.) *)
Theorem C14_compose_nofault_oom : forall csize stp nb l s, wf s -> ms_plan s = NoFault ->
  (fst (compose_m csize stp nb l s) = CMErr URI_ERROR_MALLOC <-> chars_required stp nb l = ZOk INT_MAX).
Proof. exact compose_m_nofault_oom. Qed.
Print Assumptions C14_compose_nofault_oom.

(* witness: one item, a key of 715827881 characters and a value of one, no break normalisation *)
Theorem C14_compose_oom_without_request_refuted :
  exists l, chars_required false false l = ZOk INT_MAX
            /\ forall csize s, compose_m csize false false l s = (CMErr URI_ERROR_MALLOC, s).
Proof. exact compose_m_oom_without_request_refuted. Qed.
Print Assumptions C14_compose_oom_without_request_refuted.

(* the release call makes no request and does not look at the plan *)
Theorem C14_free_query_list_plan_independent : forall l s,
  free_query_list_m l (np s) = np (free_query_list_m l s) /\ ms_requests (free_query_list_m l s) = ms_requests s
  /\ ms_plan (free_query_list_m l s) = ms_plan s.
Proof. exact free_query_list_m_plan_independent. Qed.
Print Assumptions C14_free_query_list_plan_independent.

(* example: "a=b&c&d=" makes 8 requests (three nodes, three keys, two values); for every position k the ledger is empty
   after the call, no bad release, and the code is out-of-memory exactly for 1 <= k <= 8; dissect, compose (ninth
   request), clean-up: empty for every k, both modes *)
Example C14_query_nonvacuous :
  let t := [97; 61; 98; 38; 99; 38; 100; 61]%N in
  (forall k, k <= 9 ->
     let '(r, s1) := dissect_m 4 true BrDontTouch t (ms_init (FailOnce k)) in
     bad_frees s1 = 0 /\ (is_oom r = true <-> 1 <= k <= 8) /\ (is_oom r = true -> ms_live s1 = []))
  /\ (forall k, k <= 10 ->
     match dissect_m 1 true BrDontTouch t (ms_init (FailFrom k)) with
     | (DMOk items n, s1) =>
       let '(r, s2) := compose_m 1 true true (erase_q items) s1 in
       ms_live (free_query_list_m items (free_string_m r s2)) = []
       /\ bad_frees (free_query_list_m items (free_string_m r s2)) = 0 /\ (is_cm_oom r = true <-> k = 9)
     | (DMMalloc _, s1) => ms_live s1 = [] /\ k <= 8
     end).
Proof.
  cbv zeta. split; intros k Hk.
  - do 10 (destruct k as [|k]; [vm_compute; repeat split; intros; first [reflexivity | congruence | lia | (exfalso; lia)]|]). lia.
  - do 11 (destruct k as [|k]; [vm_compute; repeat split; intros; first [reflexivity | congruence | lia | (exfalso; lia)]|]). lia.
Qed.
