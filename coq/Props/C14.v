(* C14 -- statements only. *)
From UP Require Import Base.Chars Model.Uri.
