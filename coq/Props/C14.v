(* C14 -- any allocation failure is reported cleanly, without leak or corruption.
   Statements only; proofs in Proofs/LedgerProofs.v, LedgerOps.v, LedgerBase.v, LedgerNormalize.v, LedgerTheorems.v,
   LedgerTransparent.v, LedgerRefused.v.

   The theorems are about the memory tier of the model (Model/Mem.v, ParseM.v, OpsM.v), which mirrors the C
   code allocation by allocation, every error exit included (gen/c14.py compares full allocation traces for
   every failure position).  No hypothesis is made on the fault plan: [ms_plan s] is any of NoFault,
   FailOnce k, FailFrom k, for any k, and the request counter of [s] is arbitrary, so "the k-th request fails,
   whether or not later ones fail too" is covered for every k.  Sizes are unbounded.

   Reading guide.  [fails_between s s']: the plan refused a request made between s and s' (C14_vocabulary).
   [bad_frees]: releases that hit a block that was not live = released twice, or never handed out.
   [owns m s]: every block the object refers to is live in s (and they are pairwise distinct), so the object
   the call leaves behind never refers to released memory; this is as far as "no released memory is touched"
   can be said in this model: reads and writes of block contents are not modelled (the sanitizer builds of
   gen/c14.py observe them on the implementation).
   Read-only inputs ([rel], [base], [src]) are Coq values passed to the function and not returned: the model
   cannot change them by construction; what the theorems add is that none of their blocks is released
   ([incl (live_ids s) (live_ids s')], resp. the permutations, which leave every other live block in place).

   Covered calls: parse, make owner, normalize (any mask, borrowed and owned), add base (resolve), remove
   base (create reference), free members.  NOT covered: dissect query / compose query (no memory-tier model). *)
From Coq Require Import List NArith Permutation Lia.
From UP Require Import Base.Chars Model.Uri Model.Mem Model.ParseM Model.OpsM
  Proofs.LedgerProofs Proofs.LedgerOps Proofs.LedgerBase Proofs.LedgerNormalize Proofs.LedgerTheorems Proofs.LedgerTransparent
  Proofs.LedgerRefused.
Import ListNotations.

Theorem C14_vocabulary : forall s s',
  (fails_between s s' <-> exists n, ms_requests s < n <= ms_requests s' /\ plan_fails (ms_plan s) n = true)
  /\ (wf s <-> (NoDup (live_ids s) /\ forall id, In id (live_ids s) -> id < ms_next s)).
Proof. exact (fun s s' => conj (fails_between_meaning s s') (wf_meaning s)). Qed.
Print Assumptions C14_vocabulary.

Theorem C14_owns_meaning : forall m s, wf s ->
  (owns m s <-> (consistent m /\ NoDup (muri_blocks m) /\ incl (muri_blocks m) (live_ids s))).
Proof. exact owns_meaning. Qed.
Print Assumptions C14_owns_meaning.

(* ---- parse: out-of-memory only if a request was refused; then (as after a syntax error) the ledger is as
   before the call; never a bad release; under NoFault never out-of-memory *)
Theorem C14_parse_oom : forall t s0, wf s0 ->
  match parse_m t s0 with
  | (MMalloc, s') => fails_between s0 s' /\ Permutation (live_ids s') (live_ids s0) /\ bad_frees s' = bad_frees s0
  | (_, s') => bad_frees s' = bad_frees s0
  end /\ (ms_plan s0 = NoFault -> fst (parse_m t s0) <> MMalloc).
Proof. exact parse_m_oom. Qed.
Print Assumptions C14_parse_oom.

(* the object of a successful parse owns its blocks, whatever the plan did in between (nothing was refused,
   or the call would not have succeeded); no residue otherwise *)
Theorem C14_parse_no_residue : forall t s0, wf s0 ->
  match parse_m t s0 with
  | (MOk m, s') => wf s' /\ ext s0 s' /\ owns m s' /\ m_owner m = false
                   /\ Permutation (live_ids s') (muri_blocks m ++ live_ids s0)
  | (MSyntax _, s') => wf s' /\ ext s0 s' /\ Permutation (live_ids s') (live_ids s0)
  | (MMalloc, s') => wf s' /\ ext s0 s' /\ Permutation (live_ids s') (live_ids s0) /\ fails_between s0 s'
  end.
Proof. exact parse_m_no_residue. Qed.
Print Assumptions C14_parse_no_residue.

(* ---- in-place calls followed by the caller's ordinary clean-up (free the members of that object, nothing
   else).  Whatever the call returned: the code is success or out-of-memory; out-of-memory only if a request
   was refused; never under NoFault; no bad release anywhere; the blocks that left the ledger are exactly the
   ones the object held before the call (each of them exactly once: the ledger has no duplicates); every other
   live block is still live; a second clean-up does nothing *)
Theorem C14_make_owner_clean : forall csize m s rc m' s' m'' s'', wf s -> owns m s ->
  make_owner_m csize m s = (rc, m', s') -> free_members m' s' = (m'', s'') ->
  (rc = URI_SUCCESS \/ rc = URI_ERROR_MALLOC) /\ (rc = URI_ERROR_MALLOC -> fails_between s s')
  /\ (ms_plan s = NoFault -> rc = URI_SUCCESS)
  /\ wf s'' /\ bad_frees s'' = bad_frees s /\ Permutation (live_ids s) (muri_blocks m ++ live_ids s'') /\ muri_blocks m'' = []
  /\ free_members m'' s'' = (m'', s'').
Proof. exact make_owner_m_cleanup. Qed.
Print Assumptions C14_make_owner_clean.

(* [sane]: a borrowed object must not have a present-but-empty scheme or IPvFuture text; parsed objects are
   sane (C13_parsed_sane); without it the statement is false: C14_normalize_insane_refuted *)
Theorem C14_normalize_clean : forall csize mask m s rc m' s' m'' s'', wf s -> owns m s -> (m_owner m = false -> sane m) ->
  normalize_m csize mask m s = (rc, m', s') -> free_members m' s' = (m'', s'') ->
  (rc = URI_SUCCESS \/ rc = URI_ERROR_MALLOC) /\ (rc = URI_ERROR_MALLOC -> fails_between s s')
  /\ (ms_plan s = NoFault -> rc = URI_SUCCESS)
  /\ wf s'' /\ bad_frees s'' = bad_frees s /\ Permutation (live_ids s) (muri_blocks m ++ live_ids s'') /\ muri_blocks m'' = []
  /\ free_members m'' s'' = (m'', s'').
Proof. exact normalize_m_cleanup. Qed.
Print Assumptions C14_normalize_clean.

(* before the clean-up: the object left behind is consistent and refers to live blocks only (also after
   out-of-memory, where it is the partially converted object uriPreventLeakage leaves) *)
Theorem C14_normalize_state : forall csize mask m s, wf s -> owns m s -> (m_owner m = false -> sane m) ->
  match normalize_m csize mask m s with
  | (rc, m', s') =>
    wf s' /\ bad_frees s' = bad_frees s /\ owns m' s'
    /\ Permutation (live_ids s' ++ muri_blocks m) (muri_blocks m' ++ live_ids s)
    /\ ((rc = URI_SUCCESS /\ (mask <> 0%N -> m_owner m' = true) /\ (mask = 0%N -> m' = m /\ s' = s))
        \/ (rc = URI_ERROR_MALLOC /\ m_owner m' = m_owner m /\ fails_between s s'))
  end.
Proof. exact normalize_m_balanced. Qed.
Print Assumptions C14_normalize_state.

Theorem C14_make_owner_state : forall csize m s, wf s -> owns m s ->
  match make_owner_m csize m s with
  | (rc, m', s') =>
    wf s' /\ bad_frees s' = bad_frees s /\ owns m' s'
    /\ Permutation (live_ids s' ++ muri_blocks m) (muri_blocks m' ++ live_ids s)
    /\ ((rc = URI_SUCCESS /\ m_owner m' = true) \/ (rc = URI_ERROR_MALLOC /\ m_owner m' = false /\ fails_between s s'))
  end.
Proof. exact make_owner_m_balanced. Qed.
Print Assumptions C14_make_owner_state.

(* the finding behind [sane]: a hand-built borrowed URI whose scheme (resp. IPvFuture text) is present but
   empty, mask = SCHEME|USER_INFO (resp. HOST|USER_INFO), first request refused: uriPreventLeakage releases
   scheme.first (resp. hostData.ipFuture.first), which no allocator call returned.  Reproduced on the C code. *)
Theorem C14_normalize_insane_refuted :
  exists m mask p, owns m (ms_init p) /\ m_owner m = false /\ ~ sane m
    /\ let '(rc, m', s') := normalize_m 1 mask m (ms_init p) in rc = URI_ERROR_MALLOC /\ bad_frees s' = 1.
Proof. exact normalize_m_insane_refuted. Qed.
Print Assumptions C14_normalize_insane_refuted.

Theorem C14_normalize_insane_future_refuted :
  exists m mask p, owns m (ms_init p) /\ m_owner m = false /\ ~ sane m /\ t_val (m_scheme m) <> Some []
    /\ let '(rc, m', s') := normalize_m 1 mask m (ms_init p) in rc = URI_ERROR_MALLOC /\ bad_frees s' = 1.
Proof. exact normalize_m_insane_future_refuted. Qed.
Print Assumptions C14_normalize_insane_future_refuted.

(* ---- calls with a destination, followed by the clean-up of the destination.  No hypothesis on the
   arguments.  Nothing that was live before the call was released by it (so the read-only arguments keep all
   their blocks); after the clean-up the live blocks are those from before the call *)
Theorem C14_add_base_clean : forall compat rel base s rc d s' d'' s'', wf s ->
  add_base_m compat rel base s = (rc, d, s') -> free_members d s' = (d'', s'') ->
  (rc = URI_SUCCESS \/ rc = URI_ERROR_ADDBASE_REL_BASE \/ rc = URI_ERROR_MALLOC)
  /\ (rc = URI_ERROR_MALLOC -> fails_between s s') /\ (ms_plan s = NoFault -> rc <> URI_ERROR_MALLOC)
  /\ incl (live_ids s) (live_ids s')
  /\ wf s'' /\ bad_frees s'' = bad_frees s /\ Permutation (live_ids s'') (live_ids s) /\ muri_blocks d'' = []
  /\ free_members d'' s'' = (d'', s'').
Proof. exact add_base_m_cleanup. Qed.
Print Assumptions C14_add_base_clean.

Theorem C14_remove_base_clean : forall domain_root src base s rc d s' d'' s'', wf s ->
  remove_base_m domain_root src base s = (rc, d, s') -> free_members d s' = (d'', s'') ->
  (rc = URI_SUCCESS \/ rc = URI_ERROR_REMOVEBASE_REL_BASE \/ rc = URI_ERROR_REMOVEBASE_REL_SOURCE \/ rc = URI_ERROR_MALLOC)
  /\ (rc = URI_ERROR_MALLOC -> fails_between s s') /\ (ms_plan s = NoFault -> rc <> URI_ERROR_MALLOC)
  /\ incl (live_ids s) (live_ids s')
  /\ wf s'' /\ bad_frees s'' = bad_frees s /\ Permutation (live_ids s'') (live_ids s) /\ muri_blocks d'' = []
  /\ free_members d'' s'' = (d'', s'').
Proof. exact remove_base_m_cleanup. Qed.
Print Assumptions C14_remove_base_clean.

(* on any error the wrapper has already released the destination: it holds nothing and the caller's clean-up
   is a no-op *)
Theorem C14_add_base_state : forall compat rel base s, wf s ->
  match add_base_m compat rel base s with
  | (rc, d, s') =>
    wf s' /\ bad_frees s' = bad_frees s /\ owns d s' /\ m_owner d = false
    /\ Permutation (live_ids s') (muri_blocks d ++ live_ids s)
    /\ (rc = URI_SUCCESS \/ rc = URI_ERROR_ADDBASE_REL_BASE \/ (rc = URI_ERROR_MALLOC /\ fails_between s s'))
    /\ (rc <> URI_SUCCESS -> muri_blocks d = [] /\ free_members d s' = (d, s'))
  end.
Proof. exact add_base_m_balanced. Qed.
Print Assumptions C14_add_base_state.

Theorem C14_remove_base_state : forall domain_root src base s, wf s ->
  match remove_base_m domain_root src base s with
  | (rc, d, s') =>
    wf s' /\ bad_frees s' = bad_frees s /\ owns d s' /\ m_owner d = false
    /\ Permutation (live_ids s') (muri_blocks d ++ live_ids s)
    /\ (rc = URI_SUCCESS \/ rc = URI_ERROR_REMOVEBASE_REL_BASE \/ rc = URI_ERROR_REMOVEBASE_REL_SOURCE
        \/ (rc = URI_ERROR_MALLOC /\ fails_between s s'))
    /\ (rc <> URI_SUCCESS -> muri_blocks d = [] /\ free_members d s' = (d, s'))
  end.
Proof. exact remove_base_m_balanced. Qed.
Print Assumptions C14_remove_base_state.

(* ---- a refused request is always reported: if the plan refused any request made during the call (the k-th,
   for any k, whatever happens to later ones), the call returns the out-of-memory code.  With the theorems
   above: the code is out-of-memory iff a request made during the call was refused.  No hypothesis on the
   state or the arguments. *)
Theorem C14_parse_refused_is_oom : forall t s, fails_between s (snd (parse_m t s)) -> fst (parse_m t s) = MMalloc.
Proof. exact parse_m_refused_is_oom. Qed.
Print Assumptions C14_parse_refused_is_oom.

Theorem C14_make_owner_refused_is_oom : forall csize m s,
  fails_between s (snd (make_owner_m csize m s)) -> fst (fst (make_owner_m csize m s)) = URI_ERROR_MALLOC.
Proof. exact make_owner_m_refused_is_oom. Qed.
Print Assumptions C14_make_owner_refused_is_oom.

Theorem C14_normalize_refused_is_oom : forall csize mask m s,
  fails_between s (snd (normalize_m csize mask m s)) -> fst (fst (normalize_m csize mask m s)) = URI_ERROR_MALLOC.
Proof. exact normalize_m_refused_is_oom. Qed.
Print Assumptions C14_normalize_refused_is_oom.

Theorem C14_add_base_refused_is_oom : forall compat rel base s,
  fails_between s (snd (add_base_m compat rel base s)) -> fst (fst (add_base_m compat rel base s)) = URI_ERROR_MALLOC.
Proof. exact add_base_m_refused_is_oom. Qed.
Print Assumptions C14_add_base_refused_is_oom.

Theorem C14_remove_base_refused_is_oom : forall domain_root src base s,
  fails_between s (snd (remove_base_m domain_root src base s)) -> fst (fst (remove_base_m domain_root src base s)) = URI_ERROR_MALLOC.
Proof. exact remove_base_m_refused_is_oom. Qed.
Print Assumptions C14_remove_base_refused_is_oom.

(* ---- fault transparency: if the plan refuses none of the requests the call makes, the call returns what it
   returns under NoFault and leaves the same ledger, counters and trace ([np s] = s with the plan NoFault).
   No hypothesis on the state or the arguments. *)
Theorem C14_parse_transparent : forall t s, ~ fails_between s (snd (parse_m t s)) ->
  parse_m t (np s) = (fst (parse_m t s), np (snd (parse_m t s))).
Proof. exact parse_m_fault_transparent. Qed.
Print Assumptions C14_parse_transparent.

Theorem C14_make_owner_transparent : forall csize m s, ~ fails_between s (snd (make_owner_m csize m s)) ->
  make_owner_m csize m (np s) = (fst (make_owner_m csize m s), np (snd (make_owner_m csize m s))).
Proof. exact make_owner_m_fault_transparent. Qed.
Print Assumptions C14_make_owner_transparent.

Theorem C14_normalize_transparent : forall csize mask m s, ~ fails_between s (snd (normalize_m csize mask m s)) ->
  normalize_m csize mask m (np s) = (fst (normalize_m csize mask m s), np (snd (normalize_m csize mask m s))).
Proof. exact normalize_m_fault_transparent. Qed.
Print Assumptions C14_normalize_transparent.

Theorem C14_add_base_transparent : forall compat rel base s, ~ fails_between s (snd (add_base_m compat rel base s)) ->
  add_base_m compat rel base (np s) = (fst (add_base_m compat rel base s), np (snd (add_base_m compat rel base s))).
Proof. exact add_base_m_fault_transparent. Qed.
Print Assumptions C14_add_base_transparent.

Theorem C14_remove_base_transparent : forall domain_root src base s, ~ fails_between s (snd (remove_base_m domain_root src base s)) ->
  remove_base_m domain_root src base (np s) = (fst (remove_base_m domain_root src base s), np (snd (remove_base_m domain_root src base s))).
Proof. exact remove_base_m_fault_transparent. Qed.
Print Assumptions C14_remove_base_transparent.

(* the release call makes no request and does not look at the plan *)
Theorem C14_free_members_plan_independent : forall m s,
  free_members m (np s) = (fst (free_members m s), np (snd (free_members m s)))
  /\ ms_requests (snd (free_members m s)) = ms_requests s.
Proof. exact free_members_plan_independent. Qed.
Print Assumptions C14_free_members_plan_independent.

(* example: "a/b/c" (borrowed, PATH bit, csize 4, three requests): every failure position ends with an empty
   ledger (the former leak D9 -- second or third segment copy refused -- is gone), and the code is out-of-memory
   exactly when one of the three requests is refused *)
Example C14_nonvacuous :
  let t := [97; 47; 98; 47; 99]%N in
  (forall k, k <= 5 ->
     match parse_m t (ms_init NoFault) with
     | (MOk m, s1) =>
       let s1' := {| ms_next := ms_next s1; ms_live := ms_live s1; ms_requests := 0; ms_plan := FailOnce k; ms_trace := ms_trace s1 |} in
       let '(rc, m', s2) := normalize_m 4 8 m s1' in
       let '(m'', s3) := free_members m' s2 in
       ms_live s3 = [] /\ bad_frees s3 = 0 /\ (rc = URI_ERROR_MALLOC <-> (1 <= k <= 3))
     | _ => False
     end).
Proof.
  cbv zeta. intros k Hk.
  do 6 (destruct k as [|k]; [vm_compute; repeat split; try discriminate; try lia; intros [? ?]; lia|]). lia.
Qed.
