(* C08 -- normalization yields the RFC 3986 syntax-based normal form; idempotent: EVERY parsed reference.
   Statements only; proofs in Proofs/NormalizeAll.v, which glues Proofs/NormalizeText.v (Props/C08text.v:
   references that are not relative-path references) to Proofs/RelNormalize.v (Props/C08rel.v: relative-path
   references outside the five shapes).

   Vocabulary (Props/C08text.v, Props/C08rel.v):
     normalize 63 u            uriNormalizeSyntax (model of src/UriNormalize.c), allocation succeeding
     to_text u                 the text uriToString writes
     five_of_uri u             the five components of the object as texts
     Normal.normal_text s      the specification: recompose (guard_normal f (five_normal f)), f = five_of_text s
     Spec.Recompose.canon_ip6  the text with its IPv6 literal (if any) in the eight-group lower-case form
                               uriToString writes; the identity on every other text
     text_hyps, ip4_rendered, ip6_rendered
                               the hypotheses of Props/C08text.v; every parsed object meets them
     components u              every field but [owner]
   The five shapes in which the C code leaves the specification (open findings D7a..D7e, relative-path
   references only; each predicate contains [relative_ref u]):
     c08_deviates u = kf_cancels u || kf_dot_eaten u || kf_exposes_empty u || kf_exposes_colon u || kf_stale_dot u
   New here, for idempotence:
     dot_needed out            [out] does not begin with a "." segment, or that "." stands in front of a segment
                               containing ':' (the essential dot) or in front of two empty segments (the guard
                               of uriFixAmbiguity)
     kf_dot_unneeded u         relative_ref u && negb (dot_needed (pathSegs (normalize 63 u)))

   FOUND FALSE: "normalization is idempotent on every parsed reference outside the five shapes".  The parsed
   reference "./b:c/.." is outside the five shapes, its normal form "./" is the specification's, and a second
   normalization gives "" (D7a of the normal form): C08all_idempotent_refuted.  What holds is
   C08all_idempotent_exact (iff, every object) and its corollaries. *)
From Coq Require Import String List NArith Bool.
From UP Require Import Base.Chars Model.Uri Model.Common Model.Normalize Model.Recompose Model.Parse
  Spec.NormalWf Proofs.NormalizeProofs Proofs.CommuteProofs Proofs.RelNormalize Proofs.NormalizeText
  Proofs.NormalizeAll.
From UP Require Spec.Normal Spec.Resolve Spec.Recompose Proofs.ResolveProofs.
Import ListNotations.
Local Open Scope N_scope.

(* ---- 1. the text of every parsed reference -------------------------------------------------- *)
(* the five shapes concern relative-path references only *)
Theorem C08all_deviates_relative_only : forall u, relative_ref u = false -> c08_deviates u = false.
Proof. exact c08_deviates_non_relative. Qed.
Print Assumptions C08all_deviates_relative_only.

(* parse, normalize, write: the text is the specification's normal form of the text parsed (with its IPv6
   literal, if any, in the form uriToString writes) -- the equation the run-time oracle checks *)
Theorem C08all_normal_text : forall s u, parse s = POk u -> c08_deviates u = false ->
  to_text (normalize 63 u) = Normal.normal_text (Spec.Recompose.canon_ip6 s).
Proof. exact parsed_normal_text_all. Qed.
Print Assumptions C08all_normal_text.

Theorem C08all_normal_text_no_ip6 : forall s u, parse s = POk u -> c08_deviates u = false -> ip6 u = None ->
  to_text (normalize 63 u) = Normal.normal_text s.
Proof. exact parsed_normal_text_all_no_ip6. Qed.
Print Assumptions C08all_normal_text_no_ip6.

(* the five components of the normalized object are the normal form of the five components of the text *)
Theorem C08all_normal_five : forall s u, parse s = POk u -> c08_deviates u = false ->
  ResolveProofs.five_of_uri (normalize 63 u)
  = Normal.guard_normal (Resolve.five_of_text s) (Normal.five_normal (Resolve.five_of_text s)).
Proof. exact parsed_normal_five_all. Qed.
Print Assumptions C08all_normal_five.

(* any object, parsed or not, that meets the hypotheses of Props/C08text.v *)
Theorem C08all_five : forall u, text_hyps u = true -> c08_deviates u = false ->
  ResolveProofs.five_of_uri (normalize 63 u)
  = Normal.guard_normal (ResolveProofs.five_of_uri u) (Normal.five_normal (ResolveProofs.five_of_uri u)).
Proof. exact normalize_text_is_spec_all. Qed.
Print Assumptions C08all_five.

Theorem C08all_to_text : forall u,
  text_hyps u = true -> ip4_rendered u = true -> ip6_rendered u = true -> c08_deviates u = false ->
  to_text (normalize 63 u)
  = Resolve.recompose
      (Normal.guard_normal (ResolveProofs.five_of_uri u) (Normal.five_normal (ResolveProofs.five_of_uri u))).
Proof. exact normalize_to_text_is_spec_all. Qed.
Print Assumptions C08all_to_text.

(* the specification's guard (Normal.guard_path) does nothing to the path the model leaves for a relative-path
   reference: uriFixAmbiguity has put its "." in front of two empty segments, so the text neither begins with
   "//" nor is "/" *)
Theorem C08all_relative_unguarded : forall u,
  forallb pct_wf (pathSegs u) = true -> Forall NormalizeLink.no_slash (pathSegs u) -> relative_ref u = true ->
  forall rootless,
  Normal.guard_path rootless false (NormalizeLink.path_text (normalize 63 u))
  = NormalizeLink.path_text (normalize 63 u).
Proof. exact rel_path_text_unguarded. Qed.
Print Assumptions C08all_relative_unguarded.

(* ---- 2. idempotence ------------------------------------------------------------------------- *)
(* what the walk of uriRemoveDotSegmentsEx leaves in relative mode: a ".." run followed by no dot segment, or
   one "." followed by no dot segment (every segment list, no hypothesis) *)
Theorem C08all_walk_shape : forall segs,
  let out := walk0 true false false segs in
  no_dots (drop_dotdots out) = true \/ exists a, out = @cons text [46] a /\ no_dots a = true.
Proof. exact walk_shape. Qed.
Print Assumptions C08all_walk_shape.

(* EXACTLY when a second normalization changes nothing: every object with well-formed percent-encodings *)
Theorem C08all_idempotent_exact : forall u, uri_pct_wf u = true ->
  (components (normalize 63 (normalize 63 u)) = components (normalize 63 u) <-> kf_dot_unneeded u = false).
Proof. exact normalize_idempotent_exact. Qed.
Print Assumptions C08all_idempotent_exact.

(* relative-path references: read off the first result alone.  This settles the remark at
   C08_idempotent_partial (Props/C08.v): a result path that fails [dot_needed] is NOT a fixed point *)
Theorem C08all_idempotent_iff : forall u, uri_pct_wf u = true -> relative_ref u = true ->
  (components (normalize 63 (normalize 63 u)) = components (normalize 63 u)
   <-> dot_needed (pathSegs (normalize 63 u)) = true).
Proof. exact normalize_idempotent_iff. Qed.
Print Assumptions C08all_idempotent_iff.

(* an unneeded "." is finding D7d of the reference, or finding D7a / D7c of its normal form *)
Theorem C08all_dot_unneeded_shapes : forall u, uri_pct_wf u = true -> kf_dot_unneeded u = true ->
  kf_stale_dot u = true \/ kf_cancels (normalize 63 u) = true \/ kf_exposes_empty (normalize 63 u) = true.
Proof. exact dot_unneeded_shapes. Qed.
Print Assumptions C08all_dot_unneeded_shapes.

Theorem C08all_idempotent_shapes : forall u, uri_pct_wf u = true ->
  kf_stale_dot u = false -> kf_cancels (normalize 63 u) = false -> kf_exposes_empty (normalize 63 u) = false ->
  components (normalize 63 (normalize 63 u)) = components (normalize 63 u).
Proof. exact normalize_idempotent_shapes. Qed.
Print Assumptions C08all_idempotent_shapes.

(* _partial: every parsed reference such that the reference AND its normal form are outside the five shapes.
   The second hypothesis cannot be dropped (C08all_idempotent_refuted). *)
Theorem C08all_idempotent_partial : forall s u, parse s = POk u ->
  c08_deviates u = false -> c08_deviates (normalize 63 u) = false ->
  components (normalize 63 (normalize 63 u)) = components (normalize 63 u).
Proof. exact normalize_idempotent_all_partial. Qed.
Print Assumptions C08all_idempotent_partial.

(* ---- the hypotheses cannot be dropped ------------------------------------------------------- *)
(* "./b:c/..": outside the five shapes, normal form "./" as the specification says; "./" is D7a *)
Theorem C08all_idempotent_refuted :
  exists s u, parse s = POk u /\ c08_deviates u = false
              /\ to_text (normalize 63 u) = Normal.normal_text s
              /\ kf_cancels (normalize 63 u) = true
              /\ components (normalize 63 (normalize 63 u)) <> components (normalize 63 u).
Proof. exact normalize_idempotent_all_refuted. Qed.
Print Assumptions C08all_idempotent_refuted.

(* "./b:c/..//x": outside the five shapes, normal form ".//x" as the specification says; ".//x" is D7c *)
Theorem C08all_idempotent_exposes_refuted :
  exists s u, parse s = POk u /\ c08_deviates u = false
              /\ to_text (normalize 63 u) = Normal.normal_text s
              /\ kf_exposes_empty (normalize 63 u) = true
              /\ components (normalize 63 (normalize 63 u)) <> components (normalize 63 u).
Proof. exact normalize_idempotent_exposes_refuted. Qed.
Print Assumptions C08all_idempotent_exposes_refuted.

(* the converse, on the witnesses of Props/C08.v: the normal form "./" of "./b:c/.." (D7a, C08_idempotent_refuted)
   and the stale dot of "./b:c/../x" (D7d: "./x", then "x") break idempotence *)
Theorem C08all_cancel_breaks_idempotence :
  exists s u, parse s = POk u /\ uri_wf u
              /\ components (normalize 63 (normalize 63 u)) <> components (normalize 63 u).
Proof. exact idempotent_refuted. Qed.
Print Assumptions C08all_cancel_breaks_idempotence.

Theorem C08all_stale_dot_breaks_idempotence :
  exists u, parse wit_stale_dot = POk u /\ uri_wf u
            /\ pathSegs (normalize 63 u) = [[46]; [120]]
            /\ pathSegs (normalize 63 (normalize 63 u)) = [[120]].
Proof. exact idempotent_refuted_stale_dot. Qed.
Print Assumptions C08all_stale_dot_breaks_idempotence.

(* ---- non-vacuity ------------------------------------------------------------------------------ *)
Local Open Scope string_scope.
Notation txt := ResolveProofs.txt.
Notation uri_of := ResolveProofs.uri_of.

(* a relative-path reference: "../a/./b/../c?%7e" -> "../a/c?~" on both sides; normalizing again changes nothing *)
Example C08all_relative :
  let s := "../a/./b/../c?%7e" in
  parse (txt s) = POk (uri_of s)
  /\ relative_ref (uri_of s) = true
  /\ c08_deviates (uri_of s) = false /\ c08_deviates (normalize 63 (uri_of s)) = false
  /\ text_hyps (uri_of s) = true /\ ip4_rendered (uri_of s) = true /\ ip6_rendered (uri_of s) = true
  /\ to_text (normalize 63 (uri_of s)) = txt "../a/c?~"
  /\ Normal.normal_text (Spec.Recompose.canon_ip6 (txt s)) = txt "../a/c?~"
  /\ components (normalize 63 (normalize 63 (uri_of s))) = components (normalize 63 (uri_of s)).
Proof. vm_compute. repeat split. Qed.

(* scheme, user info, IPv6 literal, port: "S://U@[::A]:8/a/../b" -> "s://U@[0000:...:000a]:8/b" on both sides *)
Example C08all_ip6 :
  let s := "S://U@[::A]:8/a/../b" in
  parse (txt s) = POk (uri_of s)
  /\ relative_ref (uri_of s) = false /\ ip6 (uri_of s) <> None
  /\ c08_deviates (uri_of s) = false /\ c08_deviates (normalize 63 (uri_of s)) = false
  /\ text_hyps (uri_of s) = true /\ ip4_rendered (uri_of s) = true
  /\ to_text (normalize 63 (uri_of s)) = txt "s://U@[0000:0000:0000:0000:0000:0000:0000:000a]:8/b"
  /\ Normal.normal_text (Spec.Recompose.canon_ip6 (txt s))
     = txt "s://U@[0000:0000:0000:0000:0000:0000:0000:000a]:8/b"
  /\ components (normalize 63 (normalize 63 (uri_of s))) = components (normalize 63 (uri_of s)).
Proof. vm_compute. repeat split; discriminate. Qed.

(* one input per kind: relative with a leading ".." run, an essential dot, percent-encoded dots, the guard; and
   the inputs of C08_text_kinds.  Each is parsed, lies outside the shapes, and the text written for the
   normalized object is the normal form of the canonical text *)
Example C08all_kinds :
  forallb (fun s => match parse (txt s) with
                    | POk u => negb (c08_deviates u)
                               && Resolve.text_eqb (to_text (normalize 63 u))
                                    (Normal.normal_text (Spec.Recompose.canon_ip6 (txt s)))
                    | PSyntax _ => false
                    end)
    ["../a/./b/../c?%7e"; "./a:b/c"; "%2e%2E/x/%2e%2e/./b:c/%7e/d/.."; "a/..//"; "./b:c/.."; "./b:c/..//x";
     "?q%3d#f"; ""; "a"; "../.."; "a/b/../";
     "S://U@199.249.250.99:8/%41/../b"; "s://[V1.A:b]:1/./x"; "s://[::A]/x/../y"; "s:/a/..//b"; "s:a/..//b";
     "/a/./b/../%7e"; "//h"; "s:"; "/"; "//@:?#"] = true.
Proof. vm_compute. reflexivity. Qed.

(* each of the five shapes is refuted in Props/C08rel.v (C08rel_*_refuted): there the text differs *)
Example C08all_shapes_deviate :
  forallb (fun s => match parse (txt s) with
                    | POk u => c08_deviates u
                               && negb (Resolve.text_eqb (to_text (normalize 63 u)) (Normal.normal_text (txt s)))
                    | PSyntax _ => false
                    end)
    ["a/.."; "./b:c/../../x"; "a/..//b"; "a/../b:c"; "./b:c/../x"] = true.
Proof. vm_compute. reflexivity. Qed.

(* the iff tested by computation on all 19608 lists of up to five segments over
   {"", ".", "..", "a", "b:c", "%2e", "%2E%2e"}: on each of the 16807 well-formed ones idempotence holds exactly
   when kf_dot_unneeded is false; 224 of those outside the five shapes are not idempotent; none of them has its
   normal form outside the five shapes as well (a test of the statements, not the proof) *)
Example C08all_idempotence_tested :
  forallb (fun segs => let u := rel_uri segs in
                       if rel_hyps_b u then Bool.eqb (idem_segs u) (negb (kf_dot_unneeded u)) else true)
          (lists_upto 5) = true
  /\ N.of_nat (length (filter (fun segs => let u := rel_uri segs in
                                           rel_hyps_b u && negb (carved u) && negb (idem_segs u)) (lists_upto 5))) = 224
  /\ forallb (fun segs => let u := rel_uri segs in
                          if rel_hyps_b u && negb (carved u) && negb (carved (normalize 63 u)) then idem_segs u else true)
             (lists_upto 5) = true.
Proof. exact idempotence_tested. Qed.
