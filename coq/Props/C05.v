(* C05 — string output never exceeds the caller's buffer and reported sizes are exact.
   For every URI value (not only parsed ones) and every capacity.  Texts longer than INT_MAX are
   outside the model (the C code casts pointer differences to int). *)
From Coq Require Import ZArith List.
From UP Require Import Base.Chars Model.Uri Model.Recompose Proofs.RecomposeProofs.
Import ListNotations.
Local Open Scope Z_scope.

(* the chars-required query returns exactly the length of the recomposed text *)
Theorem C05_chars_required : forall u, chars_required u = Z.of_nat (length (to_text u)).
Proof. exact chars_required_exact. Qed.
Print Assumptions C05_chars_required.

(* capacity >= length + 1: success, the whole text, length + 1 characters reported (terminator included),
   and every write lies inside [0, capacity) *)
Theorem C05_fits : forall u cap, Z.of_nat (length (to_text u)) + 1 <= cap ->
  exists log, to_string u cap = TsOk (to_text u) (Z.of_nat (length (to_text u)) + 1) log
              /\ Forall (fun w => 0 <= fst w /\ 0 <= snd w /\ fst w + snd w <= cap) log.
Proof. exact to_string_fits. Qed.
Print Assumptions C05_fits.

(* any smaller capacity: the too-long code (charsWritten = 0), an empty string iff capacity >= 1,
   and still every write inside [0, capacity) *)
Theorem C05_too_long : forall u cap, cap < Z.of_nat (length (to_text u)) + 1 ->
  exists log, to_string u cap = TsTooLong (1 <=? cap) log
              /\ Forall (fun w => 0 <= fst w /\ 0 <= snd w /\ fst w + snd w <= cap) log.
Proof. exact to_string_too_long. Qed.
Print Assumptions C05_too_long.

Example C05_nonvacuous :
  let u := mkUri (Some [115%N]) None (Some [104%N]) None None None (Some [56%N]) [[97%N]; []] None (Some []) false false in
  to_text u = [115; 58; 47; 47; 104; 58; 56; 47; 97; 47; 35]%N       (* s://h:8/a/# *)
  /\ (exists log, to_string u 12 = TsOk (to_text u) 12 log) /\ (exists log, to_string u 11 = TsTooLong true log)
  /\ to_string u 0 = TsTooLong false [].
Proof. vm_compute. repeat split; eexists; reflexivity. Qed.
