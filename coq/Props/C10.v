(* C10 -- reference creation is the inverse of reference resolution.  Statements only.

   All theorems are about the pure-tier models [remove_base m src base] (Model/Shorten.v,
   uriRemoveBaseUriMm; m = domainRootMode) and [add_base false r base] (Model/Resolve.v,
   uriAddBaseUriExMm without options), for every URI object, not only parsed ones.

   Vocabulary (Proofs/ShortenProofs.v, Proofs/ResolveProofs.v, Spec/NormalWf.v):
     components u     every field of the object but [owner]
     auth_fields u    (userInfo, hostText, ip4, ip6, ipFuture, portText)
     one_kind u       at most one of ip4 / ip6 / ipFuture is set (uriCopyAuthority keeps only one)
     wf u             what the parser guarantees of an object (see Props/C06.v)
     nodot s          the segment s is neither "." nor ".."
     equals_authority uriEqualsAuthority: user info, port, and the host in the kind of the first URI; a
                      registered name is only compared with a host without IP data ("v1.x" and the
                      IPvFuture literal "[v1.x]" are different hosts: the former finding, repaired in
                      src/UriShorten.c; C10_equal_authority_no_ip, C10_ex_regname_vs_literal)
     canon10 u        dot segments removed (uriRemoveDotSegmentsAbsolute), an empty path under a host
                      replaced by the single empty segment ("/"), and the single empty segment of a
                      host-less URI dropped (uriFixEmptyTrailSegment, as at the end of every parse and
                      every resolution; both forms print the same text)
     same_target a b  components (canon10 a) = components (canon10 b): the comparison of the property
     c10_good u       an object as the parser makes it, with a registered name as host if any
     c10_base u       what is asked of the base: wf, user info and port only with a host (any host kind)
     c10_failing_shape m src base
                      the named shapes on which the round trip is known to fail (section E)
     walk_ok src base the sufficient condition of the round trip in the mode that walks the two paths:
                      both absolute, same scheme, same authority, same root (both with a host, or
                      both host-less and both rooted or both rootless), the common-prefix walk leaves
                      segments on both sides, no dot segment in the source path and in the rest of
                      the base path, no NUL in the source's segments, wf of both, and the source is
                      not "host-less with the single empty segment as path"
     walk_ok_dotted   the same without the two clauses on the source path

   The property as a whole is false of the code as it is: C10_roundtrip_refuted (open findings
   D8a, D8b, D8c, D8d, D8f) and C10_roundtrip_refuted_dotted_base (a base path with a dot segment). *)
From Coq Require Import List NArith Bool String.
From UP Require Import Base.Chars Model.Uri Model.Common Model.Compare Model.Resolve Model.Shorten
  Model.Recompose Spec.NormalWf Proofs.DotSegments Proofs.ResolveProofs Proofs.Findings10
  Proofs.ShortenProofs.
Import ListNotations.
Local Open Scope N_scope.

(* ---- A. a non-absolute base or source is rejected with its own error code ------------------------ *)
Theorem C10_rel_base : forall m src base, scheme base = None ->
  remove_base m src base = (URI_ERROR_REMOVEBASE_REL_BASE, empty_uri).
Proof. exact remove_base_rel_base. Qed.
Print Assumptions C10_rel_base.

Theorem C10_rel_source : forall m src base, scheme base <> None -> scheme src = None ->
  remove_base m src base = (URI_ERROR_REMOVEBASE_REL_SOURCE, empty_uri).
Proof. exact remove_base_rel_source. Qed.
Print Assumptions C10_rel_source.

(* two absolute URIs: the call succeeds; query and fragment of the reference are the source's *)
Theorem C10_success : forall m src base, scheme src <> None -> scheme base <> None ->
  fst (remove_base m src base) = URI_SUCCESS.
Proof. exact remove_base_success. Qed.
Print Assumptions C10_success.

Theorem C10_query_fragment : forall m src base, scheme src <> None -> scheme base <> None ->
  query (snd (remove_base m src base)) = query src
  /\ fragment (snd (remove_base m src base)) = fragment src.
Proof. exact rb_query_fragment. Qed.
Print Assumptions C10_query_fragment.

(* ---- B. the schemes differ: the reference is the source unchanged -------------------------------- *)
(* field by field; the authority as uriCopyAuthority leaves it, which is the source's own when at most
   one host kind is set *)
Theorem C10_other_scheme : forall m src base, scheme src <> None -> scheme base <> None ->
  range_eqb (scheme src) (scheme base) = false ->
  fst (remove_base m src base) = URI_SUCCESS
  /\ components (snd (remove_base m src base)) = components (copy_authority src src)
  /\ (one_kind src = true -> components (snd (remove_base m src base)) = components src).
Proof. exact remove_base_other_scheme. Qed.
Print Assumptions C10_other_scheme.

(* ---- C. what the reference leaves out ------------------------------------------------------------- *)
(* same scheme: no scheme in the reference, when a reference without scheme can resolve to the source
   (the source has a host, or the base has none, or the authorities are equal) *)
Theorem C10_scheme_omitted : forall m src base, scheme src <> None -> scheme base <> None ->
  range_eqb (scheme src) (scheme base) = true ->
  is_host_set src = true \/ is_host_set base = false \/ equals_authority src base = true ->
  scheme (snd (remove_base m src base)) = None.
Proof. exact rb_scheme_omitted. Qed.
Print Assumptions C10_scheme_omitted.

(* ... and otherwise (host-less source, base with a host) it is the source unchanged, scheme included *)
Theorem C10_scheme_kept : forall m src base, scheme src <> None -> scheme base <> None ->
  range_eqb (scheme src) (scheme base) = true -> equals_authority src base = false ->
  is_host_set src = false -> is_host_set base = true ->
  components (snd (remove_base m src base)) = components src.
Proof. exact rb_scheme_kept. Qed.
Print Assumptions C10_scheme_kept.

(* same scheme and the whole authority shared (user info, host, port): neither scheme nor authority *)
Theorem C10_authority_omitted : forall m src base, scheme src <> None -> scheme base <> None ->
  range_eqb (scheme src) (scheme base) = true -> equals_authority src base = true ->
  let r := snd (remove_base m src base) in
  scheme r = None /\ auth_fields r = (None, None, None, None, None, None) /\ is_host_set r = false.
Proof. exact rb_authority_omitted. Qed.
Print Assumptions C10_authority_omitted.

(* same scheme, authorities differ: authority, path and flag are the source's *)
Theorem C10_authority_kept : forall m src base, scheme src <> None -> scheme base <> None ->
  range_eqb (scheme src) (scheme base) = true -> equals_authority src base = false ->
  let r := snd (remove_base m src base) in
  auth_fields r = auth_fields (copy_authority src src)
  /\ (one_kind src = true -> auth_fields r = auth_fields src)
  /\ pathSegs r = pathSegs src /\ absolutePath r = absolutePath src
  /\ query r = query src /\ fragment r = fragment src.
Proof. exact rb_authority_kept. Qed.
Print Assumptions C10_authority_kept.

(* "share the entire authority" in fields: uriEqualsAuthority is equality of user info, of port and
   of the host in the kind of the first URI (for a URI without IP data: equal host texts and no IP data in
   the second URI either), for texts without NUL (uriCompareRange is strncmp) *)
Theorem C10_equals_authority_is_field_equality : forall a b, auth_nonul a = true ->
  (equals_authority a b = true <-> userInfo a = userInfo b /\ portText a = portText b /\ host_same a b).
Proof. exact equals_authority_fields. Qed.
Print Assumptions C10_equals_authority_is_field_equality.

(* a host without IP data is equal only to a host without IP data *)
Theorem C10_equal_authority_no_ip : forall a b, no_ip a = true -> equals_authority a b = true -> no_ip b = true.
Proof. exact equal_authority_no_ip. Qed.
Print Assumptions C10_equal_authority_no_ip.

(* ... and then the authorities are equal field by field *)
Theorem C10_equal_authority_fields_no_ip : forall a b, no_ip a = true -> auth_nonul a = true ->
  equals_authority a b = true -> auth_fields a = auth_fields b.
Proof. exact equal_authority_fields_no_ip. Qed.
Print Assumptions C10_equal_authority_fields_no_ip.

(* domain-root mode: the path of the reference is absolute; it is the source's, without segments when
   the source's is the single empty segment ("/" is the absolute path without segments:
   uriFixEmptyTrailSegment), and with "." in front when it begins with an empty segment followed by
   another (uriFixAmbiguity) *)
Theorem C10_domain_root_absolute : forall src base, scheme src <> None -> scheme base <> None ->
  range_eqb (scheme src) (scheme base) = true -> equals_authority src base = true ->
  let r := snd (remove_base true src base) in
  absolutePath r = true /\ pathSegs r = fixamb_p false true (fixtrail_p false (pathSegs src)).
Proof. exact rb_domain_root. Qed.
Print Assumptions C10_domain_root_absolute.

(* the same list, case by case *)
Theorem C10_domain_root_path : forall src base, scheme src <> None -> scheme base <> None ->
  range_eqb (scheme src) (scheme base) = true -> equals_authority src base = true ->
  pathSegs (snd (remove_base true src base))
  = match pathSegs src with [[]] => [] | _ => fixamb_p false true (pathSegs src) end.
Proof.
  intros src base Hs Hb He Ea. rewrite (proj2 (rb_domain_root src base Hs Hb He Ea)). apply fixamb_fixtrail_abs.
Qed.
Print Assumptions C10_domain_root_path.

(* the reference is never host-less with the single empty segment as its path, unless it is a copy
   (other scheme or other authority) of a source of that shape *)
Theorem C10_reference_no_lone_empty : forall m src base, lone_empty_hostless src = false ->
  lone_empty_hostless (snd (remove_base m src base)) = false.
Proof. exact remove_base_no_lone_empty. Qed.
Print Assumptions C10_reference_no_lone_empty.

Theorem C10_reference_same_authority_no_lone_empty : forall m src base,
  range_eqb (scheme src) (scheme base) = true -> equals_authority src base = true ->
  lone_empty_hostless (snd (remove_base m src base)) = false.
Proof. exact remove_base_same_authority_no_lone_empty. Qed.
Print Assumptions C10_reference_same_authority_no_lone_empty.

Theorem C10_reference_lone_empty_iff : forall m src base,
  lone_empty_hostless (snd (remove_base m src base)) = true <->
  scheme src <> None /\ scheme base <> None /\ lone_empty_hostless src = true
  /\ (range_eqb (scheme src) (scheme base) = false \/ equals_authority src base = false).
Proof. exact remove_base_lone_empty_iff. Qed.
Print Assumptions C10_reference_lone_empty_iff.

(* the other mode: the reference is a rootless path, one ".." for every segment left of the base but
   the last, then the segments left of the source (guarded by "." when the path would begin with an
   empty segment or with one containing ":"), plus the source's query and fragment *)
Theorem C10_reference_path : forall src base s b, scheme src <> None -> scheme base <> None ->
  range_eqb (scheme src) (scheme base) = true -> equals_authority src base = true ->
  skip_common (pathSegs src) (pathSegs base) = (s, b) ->
  snd (remove_base false src base)
  = set_fragment (fragment src) (set_query (query src)
      (set_pathSegs (parents b ++ rest_segments (match parents b with [] => true | _ => false end) s) empty_uri)).
Proof. exact rb_walk. Qed.
Print Assumptions C10_reference_path.

(* the walk splits both paths at a common prefix (segment by segment equal under uriCompareRange) *)
Theorem C10_common_prefix : forall s b s' b', skip_common s b = (s', b') ->
  exists c cb, s = c ++ s' /\ b = cb ++ b' /\ Forall2 seg_req c cb.
Proof. exact skip_common_split. Qed.
Print Assumptions C10_common_prefix.

(* ---- D. the round trip, where it holds ------------------------------------------------------------ *)
(* The property claims the round trip for all absolute S and B.  That is false (section E).

   C10_roundtrip is the property with the failing shapes carved out: for a source as the parser makes
   it (c10_good: wf, registered-name host or none, no NUL, user info / port only with a host) and a
   base with ANY kind of host (c10_base: wf, user info / port only with a host; C10_good_is_base), both
   modes, any paths (dot segments included), outside c10_failing_shape, the reference resolves back to
   S under same_target.  Every clause of c10_failing_shape contains a real failure
   (C10_failing_shapes_inhabited, C10_roundtrip_refuted).

   The _partial theorems are the cases it is made of, each for all inputs of its shape and with the
   exact fields of the result; they also cover IP-literal hosts (hypothesis auth_fields src =
   auth_fields base: the result carries the base's spelling of a literal):
     - C10_roundtrip_partial: same scheme and authority, the path walk, under walk_ok: the result is S
       field by field; C10_roundtrip_dotted_partial: any source path, under same_target;
     - C10_roundtrip_same_path_partial: equal paths (the empty reference);
     - C10_roundtrip_copy_partial: the schemes differ, or the scheme is kept;
     - C10_roundtrip_other_authority_partial: same scheme, other authority, source with a host;
     - C10_roundtrip_domain_root_partial: same scheme and authority, domain-root mode, rooted source.
   Missing, i.e. neither proved nor refuted: objects the parser never makes (segments with NUL, several
   host kinds set, a host-less URI with user info or port) and pairs inside c10_failing_shape that
   happen to round-trip (the shape is sufficient for nothing; it is where the known failures live). *)
Theorem C10_good_is_base : forall u, c10_good u = true -> c10_base u = true.
Proof. exact c10_good_base. Qed.
Print Assumptions C10_good_is_base.

Theorem C10_roundtrip : forall m src base, c10_good src = true -> c10_base base = true ->
  scheme src <> None -> scheme base <> None -> c10_failing_shape m src base = false ->
  let r := snd (remove_base m src base) in
  fst (remove_base m src base) = URI_SUCCESS
  /\ fst (add_base false r base) = URI_SUCCESS
  /\ same_target (snd (add_base false r base)) src.
Proof. exact roundtrip_carved. Qed.
Print Assumptions C10_roundtrip.

Theorem C10_roundtrip_partial : forall src base, walk_ok src base = true ->
  let r := snd (remove_base false src base) in
  let back := snd (add_base false r base) in
  fst (remove_base false src base) = URI_SUCCESS
  /\ fst (add_base false r base) = URI_SUCCESS
  /\ scheme back = scheme src
  /\ auth_fields back = auth_fields (copy_authority empty_uri base)
  /\ pathSegs back = pathSegs src /\ absolutePath back = absolutePath src
  /\ query back = query src /\ fragment back = fragment src.
Proof. exact roundtrip_walk. Qed.
Print Assumptions C10_roundtrip_partial.

(* the authority of the result is a copy of the base's, which uriEqualsAuthority only relates to the
   source's (C10_equals_authority_is_field_equality); when the fields are equal the result is S *)
Theorem C10_roundtrip_partial_target : forall src base, walk_ok src base = true ->
  one_kind base = true -> auth_fields src = auth_fields base ->
  let back := snd (add_base false (snd (remove_base false src base)) base) in
  components back = components src /\ same_target back src.
Proof. exact roundtrip_walk_components. Qed.
Print Assumptions C10_roundtrip_partial_target.

(* any source path: the comparison is same_target *)
Theorem C10_roundtrip_dotted_partial : forall src base, walk_ok_dotted src base = true ->
  let r := snd (remove_base false src base) in
  let back := snd (add_base false r base) in
  fst (remove_base false src base) = URI_SUCCESS
  /\ fst (add_base false r base) = URI_SUCCESS
  /\ scheme back = scheme src
  /\ auth_fields back = auth_fields (copy_authority empty_uri base)
  /\ pathSegs (canon10 back) = pathSegs (canon10 src) /\ absolutePath back = absolutePath src
  /\ query back = query src /\ fragment back = fragment src.
Proof. exact roundtrip_walk_dotted. Qed.
Print Assumptions C10_roundtrip_dotted_partial.

Theorem C10_roundtrip_dotted_partial_target : forall src base, walk_ok_dotted src base = true ->
  one_kind base = true -> auth_fields src = auth_fields base ->
  same_target (snd (add_base false (snd (remove_base false src base)) base)) src.
Proof. exact roundtrip_walk_dotted_target. Qed.
Print Assumptions C10_roundtrip_dotted_partial_target.

(* equal paths: the reference is empty (query and fragment apart) and inherits the base's query when
   the source has none -- harmless unless only the base has one *)
Theorem C10_roundtrip_same_path_partial : forall src base, scheme src <> None -> scheme base <> None ->
  range_eqb (scheme src) (scheme base) = true -> equals_authority src base = true ->
  is_host_set src = is_host_set base -> absolutePath src = absolutePath base ->
  skip_common (pathSegs src) (pathSegs base) = ([], []) ->
  is_some (query base) && negb (is_some (query src)) = false ->
  forallb nonul (pathSegs src) = true -> wf src = true ->
  let r := snd (remove_base false src base) in
  let back := snd (add_base false r base) in
  fst (add_base false r base) = URI_SUCCESS
  /\ scheme back = scheme src
  /\ auth_fields back = auth_fields (copy_authority empty_uri base)
  /\ pathSegs (canon10 back) = pathSegs (canon10 src) /\ absolutePath back = absolutePath src
  /\ query back = query src /\ fragment back = fragment src.
Proof. exact roundtrip_same_path. Qed.
Print Assumptions C10_roundtrip_same_path_partial.

Theorem C10_roundtrip_copy_partial : forall m src base, scheme src <> None -> scheme base <> None ->
  range_eqb (scheme src) (scheme base) = false
  \/ (equals_authority src base = false /\ is_host_set src = false /\ is_host_set base = true) ->
  forallb nodot (pathSegs src) = true -> wf src = true -> lone_empty_hostless src = false ->
  one_kind src = true ->
  let r := snd (remove_base m src base) in
  fst (add_base false r base) = URI_SUCCESS
  /\ components (snd (add_base false r base)) = components src.
Proof. exact roundtrip_copy. Qed.
Print Assumptions C10_roundtrip_copy_partial.

Theorem C10_roundtrip_copy_partial_target : forall m src base, scheme src <> None -> scheme base <> None ->
  range_eqb (scheme src) (scheme base) = false
  \/ (equals_authority src base = false /\ is_host_set src = false /\ is_host_set base = true) ->
  wf src = true -> one_kind src = true ->
  let r := snd (remove_base m src base) in
  fst (add_base false r base) = URI_SUCCESS /\ same_target (snd (add_base false r base)) src.
Proof. exact roundtrip_copy_target. Qed.
Print Assumptions C10_roundtrip_copy_partial_target.

Theorem C10_roundtrip_other_authority_partial : forall m src base,
  scheme src <> None -> scheme base <> None ->
  range_eqb (scheme src) (scheme base) = true -> equals_authority src base = false ->
  is_host_set src = true ->
  forallb nodot (pathSegs src) = true -> wf src = true -> one_kind src = true ->
  let r := snd (remove_base m src base) in
  fst (add_base false r base) = URI_SUCCESS
  /\ components (snd (add_base false r base)) = components src.
Proof. exact roundtrip_other_authority. Qed.
Print Assumptions C10_roundtrip_other_authority_partial.

Theorem C10_roundtrip_other_authority_partial_target : forall m src base,
  scheme src <> None -> scheme base <> None ->
  range_eqb (scheme src) (scheme base) = true -> equals_authority src base = false ->
  is_host_set src = true -> wf src = true -> one_kind src = true ->
  let r := snd (remove_base m src base) in
  fst (add_base false r base) = URI_SUCCESS /\ same_target (snd (add_base false r base)) src.
Proof. exact roundtrip_other_authority_target. Qed.
Print Assumptions C10_roundtrip_other_authority_partial_target.

(* domain-root mode; with a host an empty source path comes back as "/" *)
Theorem C10_roundtrip_domain_root_partial : forall src base, scheme src <> None -> scheme base <> None ->
  range_eqb (scheme src) (scheme base) = true -> equals_authority src base = true ->
  is_host_set src = is_host_set base -> (is_host_set src = false -> absolutePath src = true) ->
  forallb nodot (pathSegs src) = true -> wf src = true -> lone_empty_hostless src = false ->
  let r := snd (remove_base true src base) in
  let back := snd (add_base false r base) in
  fst (add_base false r base) = URI_SUCCESS
  /\ scheme back = scheme src
  /\ auth_fields back = auth_fields (copy_authority empty_uri base)
  /\ pathSegs back = (if is_host_set src then match pathSegs src with [] => [[]] | _ => pathSegs src end
                      else pathSegs src)
  /\ absolutePath back = absolutePath src
  /\ query back = query src /\ fragment back = fragment src.
Proof. exact roundtrip_domain_root. Qed.
Print Assumptions C10_roundtrip_domain_root_partial.

(* any source path *)
Theorem C10_roundtrip_domain_root_partial_any : forall src base, scheme src <> None -> scheme base <> None ->
  range_eqb (scheme src) (scheme base) = true -> equals_authority src base = true ->
  is_host_set src = is_host_set base -> (is_host_set src = false -> absolutePath src = true) ->
  wf src = true ->
  let r := snd (remove_base true src base) in
  let back := snd (add_base false r base) in
  fst (add_base false r base) = URI_SUCCESS
  /\ scheme back = scheme src
  /\ auth_fields back = auth_fields (copy_authority empty_uri base)
  /\ pathSegs (canon10 back) = pathSegs (canon10 src)
  /\ absolutePath back = absolutePath src
  /\ query back = query src /\ fragment back = fragment src.
Proof. exact roundtrip_domain_root_any. Qed.
Print Assumptions C10_roundtrip_domain_root_partial_any.

Theorem C10_roundtrip_domain_root_partial_target : forall src base,
  scheme src <> None -> scheme base <> None ->
  range_eqb (scheme src) (scheme base) = true -> equals_authority src base = true ->
  is_host_set src = is_host_set base -> (is_host_set src = false -> absolutePath src = true) ->
  wf src = true -> one_kind base = true -> auth_fields src = auth_fields base ->
  same_target (snd (add_base false (snd (remove_base true src base)) base)) src.
Proof. exact roundtrip_domain_root_any_target. Qed.
Print Assumptions C10_roundtrip_domain_root_partial_target.

(* ---- E. the round trip, where it fails ------------------------------------------------------------ *)
(* [round_trip_fails m S B]: the texts S and B parse to absolute, well-formed objects without dot
   segments in S; creating the reference and resolving it succeed; the result is not S under same_target.
   D8a base path a prefix of the source path, D8b source path a prefix of the base path, D8c equal
   paths and only the base has a query, D8d one path rooted and the other rootless, D8f domain-root
   mode with a rootless source *)
Theorem C10_roundtrip_refuted :
  round_trip_fails false "s://h/a/b" "s://h/a"
  /\ round_trip_fails false "s://h/a" "s://h/a/b/c"
  /\ round_trip_fails false "s://h/a" "s://h/a?q"
  /\ round_trip_fails false "s:/a" "s:b"
  /\ round_trip_fails true "s:a" "s:b".
Proof. exact roundtrip_refuted. Qed.
Print Assumptions C10_roundtrip_refuted.

Theorem C10_roundtrip_refuted_exists : exists m src base,
  scheme src <> None /\ scheme base <> None /\ wf src = true /\ wf base = true
  /\ fst (add_base false (snd (remove_base m src base)) base) = URI_SUCCESS
  /\ ~ same_target (snd (add_base false (snd (remove_base m src base)) base)) src.
Proof. exact roundtrip_refuted_exists. Qed.
Print Assumptions C10_roundtrip_refuted_exists.

(* not among the five: a "." or ".." segment of the base below the common prefix is counted as a level *)
Theorem C10_roundtrip_refuted_dotted_base : round_trip_fails false "s://h/a/b" "s://h/a/./x".
Proof. exact fails_dotted_base. Qed.
Print Assumptions C10_roundtrip_refuted_dotted_base.

(* what the six resolve back to *)
Theorem C10_refuted_texts :
  back_text false "s://h/a/b" "s://h/a" = txt "s://h/b"
  /\ back_text false "s://h/a" "s://h/a/b/c" = txt "s://h/a/"
  /\ back_text false "s://h/a" "s://h/a?q" = txt "s://h/a?q"
  /\ back_text false "s:/a" "s:b" = txt "s:a"
  /\ back_text true "s:a" "s:b" = txt "s:/a"
  /\ back_text false "s://h/a/b" "s://h/a/./x" = txt "s://h/b".
Proof. exact refuted_texts. Qed.
Print Assumptions C10_refuted_texts.

(* the classes of Proofs/Findings10.v the run-time check (gen/c10.py) files the five under *)
Theorem C10_witness_classes :
  c10_class false (uri_of "s://h/a/b") (uri_of "s://h/a") = 7
  /\ c10_class false (uri_of "s://h/a") (uri_of "s://h/a/b/c") = 6
  /\ c10_class false (uri_of "s://h/a") (uri_of "s://h/a?q") = 5
  /\ c10_class false (uri_of "s:/a") (uri_of "s:b") = 4
  /\ c10_class true (uri_of "s:a") (uri_of "s:b") = 3.
Proof. exact witness_classes. Qed.
Print Assumptions C10_witness_classes.

(* the six witnesses are c10_good objects inside c10_failing_shape, one for each of its clauses *)
Theorem C10_failing_shapes_inhabited :
  in_failing_shape false "s://h/a/b" "s://h/a" = true
  /\ in_failing_shape false "s://h/a" "s://h/a/b/c" = true
  /\ in_failing_shape false "s://h/a" "s://h/a?q" = true
  /\ in_failing_shape false "s:/a" "s:b" = true
  /\ in_failing_shape true "s:a" "s:b" = true
  /\ in_failing_shape false "s://h/a/b" "s://h/a/./x" = true.
Proof. exact failing_shape_witnesses. Qed.
Print Assumptions C10_failing_shapes_inhabited.

(* two clauses that only objects can violate: a NUL in a common segment (uriCompareRange equates "a\0b"
   and "a\0c", and the result takes the base's segment), and the host-less source whose path is the
   single empty segment (dropped by resolution; harmless under same_target) *)
Theorem C10_walk_ok_object_clauses_refuted :
  (let s := obj (Some [104]) false [[97; 0; 98]; [120]] in
   let b := obj (Some [104]) false [[97; 0; 99]; [121]] in
   walk_ok_dotted s b = false /\ walk_ok_dotted (obj (Some [104]) false [[97; 98]; [120]]) (obj (Some [104]) false [[97; 98]; [121]]) = true
   /\ back_path s b = [[97; 0; 99]; [120]])
  /\ (let s := obj None true [[]] in
      let b := obj None true [[97]] in
      walk_ok_dotted s b = true /\ walk_ok s b = false /\ back_path s b = []).
Proof. exact walk_ok_object_clauses. Qed.
Print Assumptions C10_walk_ok_object_clauses_refuted.

(* ---- F. the hypotheses are satisfiable ------------------------------------------------------------- *)
(* walk_ok, the reference and the way back *)
Example C10_ex_walk :
  walk_ok (uri_of "s://h/a/b/c") (uri_of "s://h/a/x/y") = true
  /\ one_kind (uri_of "s://h/a/x/y") = true
  /\ auth_fields (uri_of "s://h/a/b/c") = auth_fields (uri_of "s://h/a/x/y")
  /\ ref_text false "s://h/a/b/c" "s://h/a/x/y" = txt "../b/c"
  /\ back_text false "s://h/a/b/c" "s://h/a/x/y" = txt "s://h/a/b/c".
Proof. vm_compute. repeat split. Qed.

(* the "." guard: a remaining source path beginning with an empty segment, or with a segment with ":" *)
Example C10_ex_walk_guard :
  walk_ok (uri_of "s://h/a//b") (uri_of "s://h/a/x") = true
  /\ ref_text false "s://h/a//b" "s://h/a/x" = txt ".//b"
  /\ back_text false "s://h/a//b" "s://h/a/x" = txt "s://h/a//b"
  /\ walk_ok (uri_of "s://h/a/c:d") (uri_of "s://h/a/x") = true
  /\ ref_text false "s://h/a/c:d" "s://h/a/x" = txt "./c:d"
  /\ back_text false "s://h/a/c:d" "s://h/a/x" = txt "s://h/a/c:d".
Proof. vm_compute. repeat split. Qed.

(* host-less, rooted and rootless; user info and port *)
Example C10_ex_walk_hostless :
  walk_ok (uri_of "s:/a/b") (uri_of "s:/a/c") = true
  /\ walk_ok (uri_of "s:a/b") (uri_of "s:a/c/d") = true
  /\ ref_text false "s:a/b" "s:a/c/d" = txt "../b"
  /\ walk_ok (uri_of "s://u@h:8/a/b") (uri_of "s://u@h:8/a/c") = true.
Proof. vm_compute. repeat split. Qed.

(* the two error cases and the schemes-differ case *)
Example C10_ex_errors :
  scheme (uri_of "//h/a") = None /\ scheme (uri_of "s://h/a") <> None
  /\ range_eqb (scheme (uri_of "t://h/a")) (scheme (uri_of "s://h/a")) = false
  /\ one_kind (uri_of "t://h/a") = true
  /\ ref_text false "t://h/a" "s://h/a" = txt "t://h/a".
Proof. vm_compute. repeat split. discriminate. Qed.

(* scheme kept; other authority; whole authority shared *)
Example C10_ex_omission :
  (range_eqb (scheme (uri_of "s:/a")) (scheme (uri_of "s://h/b")) = true
   /\ equals_authority (uri_of "s:/a") (uri_of "s://h/b") = false
   /\ is_host_set (uri_of "s:/a") = false /\ is_host_set (uri_of "s://h/b") = true
   /\ ref_text false "s:/a" "s://h/b" = txt "s:/a")
  /\ (equals_authority (uri_of "s://u@h/a") (uri_of "s://h/a") = false
      /\ ref_text false "s://u@h/a" "s://h/a" = txt "//u@h/a"
      /\ back_text false "s://u@h/a" "s://h/a" = txt "s://u@h/a")
  /\ (equals_authority (uri_of "s://h:8/a") (uri_of "s://h/a") = false
      /\ ref_text false "s://h:8/a" "s://h/a" = txt "//h:8/a")
  /\ (equals_authority (uri_of "s://u@h:8/a/b") (uri_of "s://u@h:8/c") = true
      /\ auth_nonul (uri_of "s://u@h:8/a/b") = true
      /\ ref_text false "s://u@h:8/a/b" "s://u@h:8/c" = txt "a/b").
Proof. vm_compute. repeat split. Qed.

(* domain-root mode, with the empty path under a host coming back as "/" *)
Example C10_ex_domain_root :
  ref_text true "s://h/a/b" "s://h/x/y" = txt "/a/b"
  /\ back_text true "s://h/a/b" "s://h/x/y" = txt "s://h/a/b"
  /\ ref_text true "s://h" "s://h/x" = txt "/"
  /\ back_text true "s://h" "s://h/x" = txt "s://h/"
  /\ lone_empty_hostless (uri_of "s://h") = false /\ wf (uri_of "s://h") = true
  /\ ref_text true "s:/a" "s:b" = txt "/a"
  /\ back_text true "s:/a" "s:b" = txt "s:/a".
Proof. vm_compute. repeat split. Qed.

(* the carved theorem is not vacuous: good objects outside the failing shapes, dot segments included *)
Example C10_ex_carved :
  c10_good (uri_of "s://u@h:8/a/../b/c?q#f") = true /\ c10_good (uri_of "s://u@h:8/b/x/y") = true
  /\ c10_failing_shape false (uri_of "s://u@h:8/a/../b/c?q#f") (uri_of "s://u@h:8/b/x/y") = false
  /\ ref_text false "s://u@h:8/a/../b/c?q#f" "s://u@h:8/b/x/y" = txt "../../a/../b/c?q#f"
  /\ back_text false "s://u@h:8/a/../b/c?q#f" "s://u@h:8/b/x/y" = txt "s://u@h:8/b/c?q#f"
  /\ c10_failing_shape true (uri_of "s://h/a") (uri_of "s://h/a?q") = false
  /\ c10_failing_shape false (uri_of "s://h/a?p") (uri_of "s://h/a?q") = false
  /\ ref_text false "s://h/a?p" "s://h/a?q" = txt "?p".
Proof. vm_compute. repeat split. Qed.

(* walk_ok_dotted with a dotted source *)
Example C10_ex_walk_dotted :
  walk_ok_dotted (uri_of "s://h/a/./b/../c") (uri_of "s://h/a/x") = true
  /\ walk_ok (uri_of "s://h/a/./b/../c") (uri_of "s://h/a/x") = false
  /\ back_text false "s://h/a/./b/../c" "s://h/a/x" = txt "s://h/a/c".
Proof. vm_compute. repeat split. Qed.

(* a registered name against an IP literal with the same text (the repaired finding): the authorities
   differ, the reference keeps the source's authority, the round trip holds; the base is c10_base, not
   c10_good *)
Example C10_ex_regname_vs_literal :
  equals_authority (uri_of "s://v1.x/a/b") (uri_of "s://[v1.x]/a/c") = false
  /\ equals_authority (uri_of "s://[v1.x]/a/b") (uri_of "s://v1.x/a/c") = false
  /\ c10_good (uri_of "s://v1.x/a/b") = true /\ c10_base (uri_of "s://[v1.x]/a/c") = true
  /\ c10_good (uri_of "s://[v1.x]/a/c") = false
  /\ c10_failing_shape false (uri_of "s://v1.x/a/b") (uri_of "s://[v1.x]/a/c") = false
  /\ ref_text false "s://v1.x/a/b" "s://[v1.x]/a/c" = txt "//v1.x/a/b"
  /\ back_text false "s://v1.x/a/b" "s://[v1.x]/a/c" = txt "s://v1.x/a/b".
Proof. vm_compute. repeat split. Qed.
