(* C08 -- normalization yields the RFC 3986 syntax-based normal form: the TEXT.  Statements only; proofs
   in Proofs/NormalizeText.v (with Proofs/NormalizeLink.v, Proofs/DotSegments.v, Proofs/NormalizeProofs.v).

   Props/C08.v states, field by field, what [normalize mask u] (uriNormalizeSyntaxExMm) does to a URI
   object.  Here the result of full normalization, [normalize 63 u], is compared as a text with the
   specification function the run-time oracle evaluates (Spec/Normal.v):
     Normal.five_normal f     RFC 3986 6.2.2 on the five components of a reference: scheme lower case,
                              authority [Normal.auth_normal], path [Normal.path_normal] (percent-encoding
                              normalization of every segment, then RFC 3986 5.2.4 on the path text),
                              query and fragment [Normal.pct_norm false]
     Normal.guard_normal o f  the "." segment in front of a host-less path that would be written "//..."
     Normal.normal_text s     recompose (guard_normal f (five_normal f)) with f = five_of_text s
                              (Spec.Resolve.five_of_text: RFC 3986 appendix B)
   Vocabulary on the object side (Proofs/ResolveProofs.v, as for C06):
     five_of_uri u            the five components of the object as texts: scheme; authority =
                              [userinfo "@"] host text (in brackets for an IP literal) [":" port], defined
                              when uriIsHostSet; the path as uriToString prints it; query; fragment
     to_text u                the text uriToString writes (Model/Recompose.v)
   Hypotheses (all boolean, all true of every parsed object: C08_text_parsed_meets_hyps):
     text_hyps u = uri_pct_wf u && wf u && auth_wfb u
       uri_pct_wf u           every "%" of user info, registered name, path segments, query, fragment
                              starts "%" HEXDIG HEXDIG                                 (Spec/NormalWf.v)
       wf u                   no "/" inside a segment; with a host the absolutePath flag is off; a
                              host-less path is not written "//..." and, rootless, does not begin with an
                              empty segment; no NUL in the scheme                (Proofs/ResolveProofs.v)
       auth_wfb u             the authority text splits (Spec.Split.split_authority) into the object's own
                              user info, host and port: no "@" in them, no ":" / "[" in a registered
                              name, an IPv4 host text of digits and dots, no "]" in a literal, which
                              begins with "v"/"V" exactly when it is IPvFuture (then hostText = ipFuture
                              text); one host kind; a host only with a host text  (Proofs/NormalizeText.v)
     ip4_rendered u           the octets of an IPv4 host print as the host text
     ip6_rendered u           the bytes of an IPv6 host print as the host text (the literal is in the
                              eight-group lower-case form uriToString writes)
     relative_ref u = false   not a relative-path reference (scheme, or host, or absolutePath).  For
                              relative-path references the statement is false (C08_text_relative_refuted,
                              findings D7a/b/c); nothing is claimed here about those relative-path
                              references on which model and specification do agree. *)
From Coq Require Import List NArith Bool String.
From UP Require Import Base.Chars Model.Uri Model.Common Model.Normalize Model.Recompose Model.Parse
  Spec.NormalWf Proofs.NormalizeProofs Proofs.NormalizeLink Proofs.NormalizeText.
From UP Require Spec.Normal Spec.Resolve Spec.Recompose Proofs.ResolveProofs.
Import ListNotations.
Local Open Scope N_scope.

(* ---- 1. the path --------------------------------------------------------------------------- *)
(* the segment walk of uriRemoveDotSegmentsEx (absolute mode) is RFC 3986 5.2.4 on the joined text: the
   hypothesis [rds_link] of Proofs/NormalizeLink.v, discharged from C06_dot_segments *)
Theorem C08_text_dot_segments : forall host abs segs, segs <> [] -> Forall no_slash segs ->
  47 :: Normal.join_slash (rds_walk false host abs [] segs)
  = Resolve.remove_dot_segments (47 :: Normal.join_slash segs).
Proof. exact rds_link_holds. Qed.
Print Assumptions C08_text_dot_segments.

(* the path text of the normalized object is the specification's normal form of the path text, guard
   included *)
Theorem C08_text_path : forall u,
  forallb pct_wf (pathSegs u) = true -> Forall no_slash (pathSegs u) -> rootless_ok u ->
  (is_host_set u = true -> absolutePath u = false) ->
  relative_ref u = false ->
  path_text (normalize 63 u)
  = Normal.guard_path (Normal.is_rootless (path_text u)) (is_host_set u)
      (Normal.path_normal (is_some (scheme u)) (is_host_set u) (path_text u)).
Proof. exact path_link_closed. Qed.
Print Assumptions C08_text_path.

(* ---- 2. the other components ---------------------------------------------------------------- *)
Theorem C08_text_scheme : forall u, scheme (normalize 63 u) = omap (map Normal.lower) (scheme u).
Proof. exact scheme_link. Qed.
Print Assumptions C08_text_scheme.

Theorem C08_text_query : forall u, opt_pct_wf (query u) = true ->
  query (normalize 63 u) = omap (Normal.pct_norm false) (query u).
Proof. exact query_link. Qed.
Print Assumptions C08_text_query.

Theorem C08_text_fragment : forall u, opt_pct_wf (fragment u) = true ->
  fragment (normalize 63 u) = omap (Normal.pct_norm false) (fragment u).
Proof. exact fragment_link. Qed.
Print Assumptions C08_text_fragment.

(* the authority text, every host kind: registered name (percent-encodings normalized, lower case), IPv4
   (left alone; Normal.auth_normal leaves a dotted quad alone), IPvFuture literal (lower case), IPv6
   literal (left alone, as written) *)
Theorem C08_text_authority : forall u, uri_pct_wf u = true -> auth_wfb u = true ->
  ResolveProofs.auth_text (normalize 63 u) = omap Normal.auth_normal (ResolveProofs.auth_text u).
Proof. exact auth_link. Qed.
Print Assumptions C08_text_authority.

(* ---- 3. the five components, and the text, of any object ------------------------------------ *)
Theorem C08_text_five : forall u, text_hyps u = true -> relative_ref u = false ->
  ResolveProofs.five_of_uri (normalize 63 u)
  = Normal.guard_normal (ResolveProofs.five_of_uri u) (Normal.five_normal (ResolveProofs.five_of_uri u)).
Proof. exact normalize_text_is_spec. Qed.
Print Assumptions C08_text_five.

(* what uriToString writes for the normalized object is the RFC 5.3 recomposition of the normal form *)
Theorem C08_text_to_text : forall u,
  text_hyps u = true -> ip4_rendered u = true -> ip6_rendered u = true -> relative_ref u = false ->
  to_text (normalize 63 u)
  = Resolve.recompose
      (Normal.guard_normal (ResolveProofs.five_of_uri u) (Normal.five_normal (ResolveProofs.five_of_uri u))).
Proof. exact normalize_to_text_is_spec. Qed.
Print Assumptions C08_text_to_text.

(* every parsed object meets the hypotheses (from C02_wf) *)
Theorem C08_text_parsed_meets_hyps : forall s u, parse s = POk u ->
  text_hyps u = true /\ ip4_rendered u = true.
Proof. exact parsed_meets_hyps. Qed.
Print Assumptions C08_text_parsed_meets_hyps.

(* ---- 4. parsed texts ------------------------------------------------------------------------ *)
(* the five components of a parsed object are those RFC 3986 appendix B assigns to the text parsed
   (every host kind: the object's authority text has the host as written) *)
Theorem C08_text_parsed_five : forall s u, parse s = POk u ->
  ResolveProofs.five_of_uri u = Resolve.five_of_text s.
Proof. exact parsed_five_of_text. Qed.
Print Assumptions C08_text_parsed_five.

(* parse, normalize: the five components are the normal form of the five components of the text *)
Theorem C08_text_normal_five_non_relative : forall s u, parse s = POk u -> relative_ref u = false ->
  ResolveProofs.five_of_uri (normalize 63 u)
  = Normal.guard_normal (Resolve.five_of_text s) (Normal.five_normal (Resolve.five_of_text s)).
Proof. exact parsed_normal_five. Qed.
Print Assumptions C08_text_normal_five_non_relative.

(* parse, normalize, write: the text is the specification's normal form of the text parsed -- the equation
   the run-time oracle checks -- unless the host is an IPv6 literal ... *)
Theorem C08_text_normal_text_no_ip6 : forall s u, parse s = POk u -> relative_ref u = false -> ip6 u = None ->
  to_text (normalize 63 u) = Normal.normal_text s.
Proof. exact parsed_normal_text. Qed.
Print Assumptions C08_text_normal_text_no_ip6.

(* ... which uriToString writes from the sixteen bytes, in full eight-group lower-case form (C04), while
   the normal form keeps a literal as written: for every host kind the text is the normal form of the
   text parsed with its IPv6 literal (if any) in that form (Spec/Recompose.v canon_ip6, the identity on
   texts without an IPv6 literal) *)
Theorem C08_text_normal_text_non_relative : forall s u, parse s = POk u -> relative_ref u = false ->
  to_text (normalize 63 u) = Normal.normal_text (Spec.Recompose.canon_ip6 s).
Proof. exact parsed_normal_text_canon. Qed.
Print Assumptions C08_text_normal_text_non_relative.

(* ---- the hypotheses cannot be dropped ------------------------------------------------------- *)
(* relative-path references: "a/.." gives "", the specification "./" (finding D7) *)
Theorem C08_text_relative_refuted :
  exists s u, parse s = POk u /\ relative_ref u = true /\ to_text (normalize 63 u) <> Normal.normal_text s.
Proof. exact normal_text_relative_refuted. Qed.
Print Assumptions C08_text_relative_refuted.

(* an IPv6 literal not in uriToString's form: "s://[::A]/x/../y" *)
Theorem C08_text_ip6_as_written_refuted :
  exists s u, parse s = POk u /\ relative_ref u = false /\ ip6 u <> None
              /\ to_text (normalize 63 u) <> Normal.normal_text s.
Proof. exact normal_text_ip6_as_written_refuted. Qed.
Print Assumptions C08_text_ip6_as_written_refuted.

(* an object (no parsed one) with "@" in its user info: user info "A@B", host "h" *)
Theorem C08_text_auth_wfb_refuted :
  exists u, uri_pct_wf u = true /\ ResolveProofs.wf u = true /\ relative_ref u = false /\ auth_wfb u = false
            /\ ResolveProofs.five_of_uri (normalize 63 u)
               <> Normal.guard_normal (ResolveProofs.five_of_uri u)
                    (Normal.five_normal (ResolveProofs.five_of_uri u)).
Proof. exact auth_wfb_needed_refuted. Qed.
Print Assumptions C08_text_auth_wfb_refuted.

(* ---- non-vacuity ------------------------------------------------------------------------------ *)
Local Open Scope string_scope.
Notation txt := ResolveProofs.txt.
Notation uri_of := ResolveProofs.uri_of.

(* "hTTp://u%41@H%2f:8/a/./%7e/../b?q%3d#f" (Props/C08.v wit_rich): the parsed object meets every
   hypothesis of C08_text_five / C08_text_to_text, and both sides are "http://uA@h%2F:8/a/b?q%3D#f" *)
Example C08_text_nonvacuous :
  let s := "hTTp://u%41@H%2f:8/a/./%7e/../b?q%3d#f" in
  txt s = wit_rich
  /\ parse (txt s) = POk (uri_of s)
  /\ text_hyps (uri_of s) = true /\ ip4_rendered (uri_of s) = true /\ ip6_rendered (uri_of s) = true
  /\ relative_ref (uri_of s) = false
  /\ to_text (normalize 63 (uri_of s)) = txt "http://uA@h%2F:8/a/b?q%3D#f"
  /\ Normal.normal_text (txt s) = txt "http://uA@h%2F:8/a/b?q%3D#f".
Proof. vm_compute. repeat split. Qed.

(* one input per host kind and path kind: IPv4, IPvFuture, IPv6 (canonical and not), the "/." and "./"
   guards, an absolute path without host, a rootless path behind a scheme.  Each is parsed, meets the
   hypotheses, and the text written for the normalized object is the normal form of the canonical text *)
Example C08_text_kinds :
  forallb (fun s => match parse (txt s) with
                    | POk u => text_hyps u && ip4_rendered u && negb (relative_ref u)
                               && Resolve.text_eqb (to_text (normalize 63 u))
                                    (Normal.normal_text (Spec.Recompose.canon_ip6 (txt s)))
                    | PSyntax _ => false
                    end)
    ["S://U@199.249.250.99:8/%41/../b"; "s://[V1.A:b]:1/./x"; "s://[::A]/x/../y";
     "s://[0000:0000:0000:0000:0000:0000:0000:000a]/%7E"; "s:/a/..//b"; "s:a/..//b"; "s:a/..///b"; "/a/./b/../%7e";
     "s:a/./b/.."; "//h"; "//H%2e/"; "s:"; "/"; "//@:?#"] = true.
Proof. vm_compute. reflexivity. Qed.

(* the guards are used: "s:/a/..//b" -> "s:/.//b", "s:a/..///b" -> "s:.///b" (both sides) *)
Example C08_text_guards :
  to_text (normalize 63 (uri_of "s:/a/..//b")) = txt "s:/.//b"
  /\ Normal.normal_text (txt "s:/a/..//b") = txt "s:/.//b"
  /\ to_text (normalize 63 (uri_of "s:a/..///b")) = txt "s:.///b"
  /\ Normal.normal_text (txt "s:a/..///b") = txt "s:.///b".
Proof. vm_compute. repeat split. Qed.
