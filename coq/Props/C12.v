(* C12 -- owned URIs are independent of their source; borrowed text is never altered.  Statements only.

   The theorems are about the memory-tier model (Model/Mem.v, Model/ParseM.v, Model/OpsM.v), which mirrors
   /repo/src allocation by allocation (gen/c14.py compares the allocation traces with the real code;
   gen/c12.py observes provenance at run time: it overwrites and frees the source buffers and re-reads).
   All of them are for the fault plan NoFault (failure behaviour: C13/C14) and for every input.

   Vocabulary (definitions in Proofs/OwnershipProofs.v, Part 0 and Part 6):
     erase m            the value-level URI of the memory-tier object m (Model/Mem.v)
     nofault s          the ledger s has the plan NoFault
     text_owned t       the text t is absent, empty, or a heap block of its own (t_blk t = Some _)
     all_owned m        every present non-empty text of m -- scheme, userInfo, hostText (for an IPvFuture
                        host: the ipFuture range it shares), portText, every segment, query, fragment --
                        lives in its own heap block
     depends_on_input m negb (all_owned m): some present non-empty text still points into the caller's string
     text_blocks m      the heap blocks holding the present non-empty texts of m, in field order (list
                        nodes and address blocks are not text and not listed); hostText/ipFuture of an
                        IPvFuture host is one range and is recorded once (in m_ipFuture)
     mwf m              well-formed object: hostText = ipFuture when ipFuture is set; the text blocks are
                        pairwise distinct; an owned object owns all its text; a borrowed object owns none.
                        (Node list and segment list have the same length by construction of [muri].)
     fresh_blocks s s' m'  the text blocks of m' are pairwise distinct, were all handed out between the
                        ledger states s and s' (ms_next s <= b < ms_next s'), and -- when every live block
                        of s has an id below ms_next s ([ledger_wf], true of ms_init and kept by alloc and
                        free) -- none of them was live before the call.
   "Overwriting or releasing the original string changes nothing" is stated as: after the operation
   depends_on_input = false and the blocks are fresh_blocks, i.e. no component refers to caller memory
   or to a block that existed before; the values (erase, to_text) are functions of the object alone.

   Two clauses of the property are true by construction of the model and are therefore NOT theorems here:
   "no operation ever writes into caller-supplied input text" and "read-only arguments are left
   bit-for-bit unchanged".  In the model inputs are values passed by value and are never outputs; only
   the run-time check (gen/c12.py: in=1 / ro= fields, ASan builds) speaks about the C code.

   Not proved: that the text blocks of the result are still live in the final ledger (the model never
   frees a block it has just recorded, but the theorem is not stated); pairwise distinctness including
   the node and address blocks. *)
From Coq Require Import List NArith Bool.
From UP Require Import Base.Chars Model.Uri Model.Parse Model.Normalize Model.Resolve Model.Shorten Model.Recompose
  Model.Mem Model.ParseM Model.OpsM Proofs.OwnershipProofs.
Import ListNotations.
Local Open Scope N_scope.

(* ---- erasure: the two tiers agree --------------------------------------------------------------- *)
(* the memory-tier parser succeeds exactly when the pure parser does, with the same object, the same
   error position, never the out-of-memory code, and its results are well-formed borrowed objects *)
Theorem C12_parse_erasure : forall t s, nofault s ->
  (forall m, fst (parse_m t s) = MOk m -> parse t = POk (erase m) /\ mwf m /\ m_owner m = false)
  /\ (forall u, parse t = POk u -> exists m, fst (parse_m t s) = MOk m /\ erase m = u)
  /\ (forall pos, fst (parse_m t s) = MSyntax pos <-> parse t = PSyntax pos)
  /\ fst (parse_m t s) <> MMalloc
  /\ nofault (snd (parse_m t s)).
Proof. exact parse_m_erasure. Qed.
Print Assumptions C12_parse_erasure.

(* ---- make-owner ----------------------------------------------------------------------------------- *)
(* on a borrowed object: success; the value differs in the owner flag only (make_owner = set_owner true),
   so the recomposed text is the same; every text is now a heap block of its own, freshly handed out and
   distinct from the others; well-formedness is kept *)
Theorem C12_make_owner : forall csize m s, nofault s -> mwf m -> m_owner m = false ->
  exists m' s', make_owner_m csize m s = (URI_SUCCESS, m', s')
    /\ erase m' = make_owner (erase m) /\ to_text (erase m') = to_text (erase m)
    /\ m_owner m' = true /\ all_owned m' = true /\ depends_on_input m' = false
    /\ mwf m' /\ fresh_blocks s s' m' /\ nofault s'.
Proof. exact C12_make_owner_stmt. Qed.
Print Assumptions C12_make_owner.

(* on an owned object nothing happens, under any fault plan *)
Theorem C12_make_owner_owned : forall csize m s, m_owner m = true -> make_owner_m csize m s = (URI_SUCCESS, m, s).
Proof. exact make_owner_m_owned. Qed.
Print Assumptions C12_make_owner_owned.

(* ---- normalisation -------------------------------------------------------------------------------- *)
(* any non-zero mask, borrowed object: the value is the pure normalisation, and the result owns all its
   text in fresh, pairwise distinct blocks *)
Theorem C12_normalize_borrowed : forall csize mask m s, nofault s -> mwf m -> m_owner m = false -> mask <> 0 ->
  exists m' s', normalize_m csize mask m s = (URI_SUCCESS, m', s')
    /\ erase m' = normalize mask (erase m)
    /\ m_owner m' = true /\ all_owned m' = true /\ depends_on_input m' = false
    /\ mwf m' /\ fresh_blocks s s' m' /\ nofault s'.
Proof. exact C12_normalize_borrowed_stmt. Qed.
Print Assumptions C12_normalize_borrowed.

(* any non-zero mask, owned object: normalised in place; it still owns all its text and holds no block
   it did not hold before *)
Theorem C12_normalize_owned : forall csize mask m s, nofault s -> mwf m -> m_owner m = true -> mask <> 0 ->
  exists m' s', normalize_m csize mask m s = (URI_SUCCESS, m', s')
    /\ erase m' = normalize mask (erase m)
    /\ m_owner m' = true /\ all_owned m' = true /\ depends_on_input m' = false
    /\ mwf m' /\ incl (text_blocks m') (text_blocks m) /\ nofault s'.
Proof. exact C12_normalize_owned_stmt. Qed.
Print Assumptions C12_normalize_owned.

(* mask 0: nothing changes, not even ownership, under any fault plan *)
Theorem C12_normalize_zero : forall csize m s,
  normalize_m csize 0 m s = (URI_SUCCESS, m, s) /\ normalize 0 (erase m) = erase m.
Proof. exact C12_normalize_zero_stmt. Qed.
Print Assumptions C12_normalize_zero.

(* ---- resolution and reference creation: the results borrow, the values are the pure ones ---------- *)
Theorem C12_add_base_erasure : forall compat rel base s, nofault s ->
  exists rc d s', add_base_m compat rel base s = (rc, d, s')
    /\ (rc, erase d) = add_base compat (erase rel) (erase base)
    /\ m_owner d = false /\ text_blocks d = []
    /\ (mwf rel -> mwf base -> mwf d) /\ nofault s'.
Proof. exact C12_add_base_stmt. Qed.
Print Assumptions C12_add_base_erasure.

Theorem C12_remove_base_erasure : forall domain_root src base s, nofault s ->
  exists rc d s', remove_base_m domain_root src base s = (rc, d, s')
    /\ (rc, erase d) = remove_base domain_root (erase src) (erase base)
    /\ m_owner d = false /\ text_blocks d = []
    /\ (mwf src -> mwf base -> mwf d) /\ nofault s'.
Proof. exact C12_remove_base_stmt. Qed.
Print Assumptions C12_remove_base_erasure.

(* the ledger hypothesis of fresh_blocks holds initially and is kept by the two ledger operations *)
Theorem C12_ledger_wf : forall p c sz b s,
  ledger_wf (ms_init p)
  /\ (ledger_wf s -> ledger_wf (snd (alloc c sz s)))
  /\ (ledger_wf s -> ledger_wf (free_blk b s)).
Proof. exact C12_ledger_wf_stmt. Qed.
Print Assumptions C12_ledger_wf.

(* the hypotheses are satisfiable and the conclusions are not trivial: "s://u@[vF.x]:8/a//b?q#f" *)
Example C12_nonvacuous :
  let t := [115; 58; 47; 47; 117; 64; 91; 118; 70; 46; 120; 93; 58; 56; 47; 97; 47; 47; 98; 63; 113; 35; 102] in
  match parse_m t (ms_init NoFault) with
  | (MOk m, s1) =>
    depends_on_input m = true /\ text_blocks m = [] /\ ms_next s1 = 3%nat
    /\ (let '(rc, m', s2) := make_owner_m 4 m s1 in
        rc = URI_SUCCESS /\ depends_on_input m' = false /\ text_blocks m' = [3; 4; 7; 10; 8; 9; 5; 6]%nat)
    /\ (let '(rc, m', s2) := normalize_m 4 63 m s1 in
        rc = URI_SUCCESS /\ depends_on_input m' = false /\ text_blocks m' = [3; 5; 4; 10; 6; 7; 8; 9]%nat)
  | _ => False
  end.
Proof. vm_compute. repeat split. Qed.

(* the hypothesis "hostText = ipFuture when ipFuture is set" of mwf is needed for the erasure clause of
   C12_make_owner: the engine (like the C code) re-derives hostText from the ipFuture range *)
Example C12_host_range_needed :
  let m := {| m_scheme := mt_none; m_userInfo := mt_none; m_hostText := mt_borrowed [121]; m_ip4 := None; m_ip6 := None;
              m_ipFuture := mt_borrowed [120]; m_portText := mt_none; m_segs := []; m_query := mt_none;
              m_fragment := mt_none; m_abs := false; m_owner := false |} in
  let '(rc, m', _) := make_owner_m 1 m (ms_init NoFault) in
  rc = URI_SUCCESS /\ hostText (erase m) = Some [121] /\ hostText (erase m') = Some [120].
Proof. vm_compute. repeat split. Qed.
