(* C12 -- owned URIs are independent of their source; borrowed text is never altered.  Statements only.

   The theorems are about the memory-tier model (Model/Mem.v, Model/ParseM.v, Model/OpsM.v), which mirrors
   /repo/src allocation by allocation (gen/c14.py compares the allocation traces with the real code;
   gen/c12.py observes provenance at run time: it overwrites and frees the source buffers and re-reads).
   All of them are for the fault plan NoFault (failure behaviour: C13/C14) and for every input.

   Vocabulary (definitions in Proofs/OwnershipProofs.v, Part 0 and Part 6):
     erase m            the value-level URI of the memory-tier object m (Model/Mem.v)
     nofault s          the ledger s has the plan NoFault
     text_owned t       the text t is absent, empty, or a heap block of its own (t_blk t = Some _)
     all_owned m        every present non-empty text of m -- scheme, userInfo, hostText (for an IPvFuture
                        host: the ipFuture range it shares), portText, every segment, query, fragment --
                        lives in its own heap block
     depends_on_input m negb (all_owned m): some present non-empty text still points into the caller's string
     text_blocks m      the heap blocks holding the present non-empty texts of m, in field order (list
                        nodes and address blocks are not text and not listed); hostText/ipFuture of an
                        IPvFuture host is one range and is recorded once (in m_ipFuture)
     mwf m              well-formed object: hostText = ipFuture when ipFuture is set; the text blocks are
                        pairwise distinct; an owned object owns all its text; a borrowed object owns none.
                        (Node list and segment list have the same length by construction of [muri].)
     fresh_blocks s s' m'  the text blocks of m' are pairwise distinct, were all handed out between the
                        ledger states s and s' (ms_next s <= b < ms_next s'), and -- when every live block
                        of s has an id below ms_next s ([ledger_wf], true of ms_init and kept by alloc and
                        free) -- none of them was live before the call.
     path_guard mask u  the path step of the normalisation of u with this mask inserts the "." segment in front
                        of a host-less path that would begin with "//" (uriFixAmbiguity fires): the PATH bit is
                        set and, after the dot segments were removed, the path is absolute with an empty first
                        segment and a second one, or not absolute, host-less, with two empty segments in front
   "Overwriting or releasing the original string changes nothing" is stated as: after the operation
   depends_on_input = false and the blocks are fresh_blocks, i.e. no component refers to caller memory
   or to a block that existed before; the values (erase, to_text) are functions of the object alone.

   Two clauses of the property are true by construction of the model and are therefore NOT theorems here:
   "no operation ever writes into caller-supplied input text" and "read-only arguments are left
   bit-for-bit unchanged".  In the model inputs are values passed by value and are never outputs; only
   the run-time check (gen/c12.py: in=1 / ro= fields, ASan builds) speaks about the C code.

   Second part of this file (proofs: Proofs/OwnershipMore.v, on top of the ledger development of C13/C14,
   Proofs/LedgerProofs.v ... LedgerHistory.v): what the ledger says about the result.  Vocabulary:
     wf s               live ids pairwise distinct and below the next id (implies ledger_wf s)
     live_ids s         the ids of the live blocks
     muri_blocks m      every block the object refers to: text blocks, list nodes, ip4/ip6 blocks
     owns m s           m is consistent with its owner flag (a text has a block of its own iff the object owns
                        its texts and the text is not empty) and all its blocks are pairwise distinct and live in s
     sane m             scheme and IPvFuture text are not present-and-empty; true of every parsed object and
                        kept by every operation (C13_parsed_sane, C13_sane_is_kept)
     whole m s          NoDup (muri_blocks m), all of them live in s, and (a consequence) all text_blocks m live
     apart m1 m2        no block of m1 is a block of m2
     release_all l s    the ledger after free_members of the objects of l, in order
     owned_beside srcs s d' s2   the owned object d' in s2, built beside the objects srcs held by s: see
                        C12_vocabulary for the unfolded conjunction
     hrun, hstep        Proofs/LedgerHistory.v: a store of objects and one ledger, any sequence of parse,
                        normalize, make-owner, add-base, remove-base, free on any of the objects
     store_ok objs s    balanced objs s (the ledger holds exactly the blocks of the objects, each object is
                        consistent and sane), the plan is NoFault, every object is mwf
   "Releasing the source changes nothing" is now a statement about TWO objects and one ledger: the result
   shares no block with any other object the ledger holds (the object parsed from the same text, the base
   and the reference of a resolution), and free_members of those leaves every block of the result live
   (C12_release_other, C12_make_owner_beside, C12_normalize_beside, C12_parse_twice_own,
   C12_resolve_then_own, C12_shorten_then_own, C12_history_release_other).  "Overwriting the source" has no
   model counterpart other than depends_on_input = false (no present non-empty text without a block of its
   own): the caller's string is not a memory object of the model; gen/c12.py scribbles on the real buffer.

   Hypotheses the proofs forced (each is true of every object of every history that starts from the empty
   store, C12_history_store_ok / C12_store_ok_objects):
   - [owns m s] (hence text_blocks m = [] for a borrowed m) and [wf s] in the ledger theorems;
   - [sane m] for the normalisation of a borrowed object: a hypothesis of the reused ledger theorem
     normalize_m_spec.  It is needed there for the failure exits (normalize_m_insane_refuted uses FailOnce);
     whether the NoFault statement holds without it is not settled here (the two witnesses of that
     refutation behave well under NoFault: C12_insane_nofault_examples).
   The hypothesis "a borrowed object records no text block" (the fourth clause of mwf, used by C12_make_owner
   and C12_normalize_borrowed) was forced by the proof technique, not by truth: C12_make_owner_any_blocks and
   C12_normalize_any_blocks state the same conclusions with mwf_host only.
   Not a theorem because it is false: "normalisation releases nothing".  It releases the list nodes (and, for
   an owned object, the text blocks) of the dot segments it removes (C12_normalize_releases_nodes); make-owner
   does release nothing (C12_make_owner_releases_nothing). *)
From Coq Require Import List NArith Bool.
From UP Require Import Base.Chars Model.Uri Model.Parse Model.Normalize Model.Resolve Model.Shorten Model.Recompose
  Model.Mem Model.ParseM Model.OpsM Proofs.OwnershipProofs.
Import ListNotations.
Local Open Scope N_scope.

(* ---- erasure: the two tiers agree --------------------------------------------------------------- *)
(* the memory-tier parser succeeds exactly when the pure parser does, with the same object, the same
   error position, never the out-of-memory code, and its results are well-formed borrowed objects *)
Theorem C12_parse_erasure : forall t s, nofault s ->
  (forall m, fst (parse_m t s) = MOk m -> parse t = POk (erase m) /\ mwf m /\ m_owner m = false)
  /\ (forall u, parse t = POk u -> exists m, fst (parse_m t s) = MOk m /\ erase m = u)
  /\ (forall pos, fst (parse_m t s) = MSyntax pos <-> parse t = PSyntax pos)
  /\ fst (parse_m t s) <> MMalloc
  /\ nofault (snd (parse_m t s)).
Proof. exact parse_m_erasure. Qed.
Print Assumptions C12_parse_erasure.

(* ---- make-owner ----------------------------------------------------------------------------------- *)
(* on a borrowed object: success; the value differs in the owner flag only (make_owner = set_owner true),
   so the recomposed text is the same; every text is now a heap block of its own, freshly handed out and
   distinct from the others; well-formedness is kept *)
Theorem C12_make_owner : forall csize m s, nofault s -> mwf m -> m_owner m = false ->
  exists m' s', make_owner_m csize m s = (URI_SUCCESS, m', s')
    /\ erase m' = make_owner (erase m) /\ to_text (erase m') = to_text (erase m)
    /\ m_owner m' = true /\ all_owned m' = true /\ depends_on_input m' = false
    /\ mwf m' /\ fresh_blocks s s' m' /\ nofault s'.
Proof. exact C12_make_owner_stmt. Qed.
Print Assumptions C12_make_owner.

(* on an owned object nothing happens, under any fault plan *)
Theorem C12_make_owner_owned : forall csize m s, m_owner m = true -> make_owner_m csize m s = (URI_SUCCESS, m, s).
Proof. exact make_owner_m_owned. Qed.
Print Assumptions C12_make_owner_owned.

(* ---- normalisation -------------------------------------------------------------------------------- *)
(* any non-zero mask, borrowed object: the value is the pure normalisation, and the result owns all its
   text in fresh, pairwise distinct blocks *)
Theorem C12_normalize_borrowed : forall csize mask m s, nofault s -> mwf m -> m_owner m = false -> mask <> 0 ->
  exists m' s', normalize_m csize mask m s = (URI_SUCCESS, m', s')
    /\ erase m' = normalize mask (erase m)
    /\ m_owner m' = true /\ all_owned m' = true /\ depends_on_input m' = false
    /\ mwf m' /\ fresh_blocks s s' m' /\ nofault s'.
Proof. exact C12_normalize_borrowed_stmt. Qed.
Print Assumptions C12_normalize_borrowed.

(* any non-zero mask, owned object whose text blocks were handed out by this ledger: normalised in place;
   it still owns all its text; a text block of the result is a text block it held before or was handed
   out during the call, and it holds no block it did not hold before unless the guard against a path
   beginning with "//" inserts its "." segment, whose one character is copied into a block of its own.
   (Before uriNormalizeSyntaxEngine called uriFixAmbiguity the conclusion was
   [incl (text_blocks m') (text_blocks m)] without condition and without the hypothesis on the block ids:
   C12_normalize_owned_new_block and C12_normalize_owned_future_block show why both had to change.) *)
Theorem C12_normalize_owned : forall csize mask m s, nofault s -> mwf m -> m_owner m = true ->
  Forall (fun b => (b < ms_next s)%nat) (text_blocks m) -> mask <> 0 ->
  exists m' s', normalize_m csize mask m s = (URI_SUCCESS, m', s')
    /\ erase m' = normalize mask (erase m)
    /\ m_owner m' = true /\ all_owned m' = true /\ depends_on_input m' = false
    /\ mwf m'
    /\ (forall b, In b (text_blocks m') -> In b (text_blocks m) \/ (ms_next s <= b < ms_next s')%nat)
    /\ (path_guard mask (erase m) = false -> incl (text_blocks m') (text_blocks m))
    /\ nofault s'.
Proof. exact C12_normalize_owned_stmt. Qed.
Print Assumptions C12_normalize_owned.

(* value and ownership of the in-place normalisation need no hypothesis on the block ids *)
Theorem C12_normalize_owned_value : forall csize mask m s, nofault s -> mwf m -> m_owner m = true -> mask <> 0 ->
  exists m' s', normalize_m csize mask m s = (URI_SUCCESS, m', s')
    /\ erase m' = normalize mask (erase m)
    /\ m_owner m' = true /\ all_owned m' = true /\ depends_on_input m' = false /\ nofault s'.
Proof. exact C12_normalize_owned_value_stmt. Qed.
Print Assumptions C12_normalize_owned_value.

(* "/.//x" parsed, made owner, normalised with the PATH bit: the guard fires and the result holds a text
   block the object did not hold *)
Theorem C12_normalize_owned_new_block :
  exists m s, nofault s /\ mwf m /\ m_owner m = true /\ Forall (fun b => (b < ms_next s)%nat) (text_blocks m)
    /\ path_guard 8 (erase m) = true
    /\ exists m' s', normalize_m 1 8 m s = (URI_SUCCESS, m', s') /\ ~ incl (text_blocks m') (text_blocks m).
Proof. exact normalize_owned_new_block_witness. Qed.
Print Assumptions C12_normalize_owned_new_block.

(* an owned object that records a block id the ledger has not handed out yet is handed that id for the "."
   copy: the text blocks of the result are not pairwise distinct *)
Theorem C12_normalize_owned_future_block :
  nofault (ms_init NoFault) /\ mwf future_owned /\ m_owner future_owned = true
  /\ exists m' s', normalize_m 1 8 future_owned (ms_init NoFault) = (URI_SUCCESS, m', s') /\ ~ mwf m'.
Proof. exact normalize_owned_future_block_witness. Qed.
Print Assumptions C12_normalize_owned_future_block.

(* mask 0: nothing changes, not even ownership, under any fault plan *)
Theorem C12_normalize_zero : forall csize m s,
  normalize_m csize 0 m s = (URI_SUCCESS, m, s) /\ normalize 0 (erase m) = erase m.
Proof. exact C12_normalize_zero_stmt. Qed.
Print Assumptions C12_normalize_zero.

(* ---- resolution and reference creation: the results borrow, the values are the pure ones ---------- *)
Theorem C12_add_base_erasure : forall compat rel base s, nofault s ->
  exists rc d s', add_base_m compat rel base s = (rc, d, s')
    /\ (rc, erase d) = add_base compat (erase rel) (erase base)
    /\ m_owner d = false /\ text_blocks d = []
    /\ (mwf rel -> mwf base -> mwf d) /\ nofault s'.
Proof. exact C12_add_base_stmt. Qed.
Print Assumptions C12_add_base_erasure.

Theorem C12_remove_base_erasure : forall domain_root src base s, nofault s ->
  exists rc d s', remove_base_m domain_root src base s = (rc, d, s')
    /\ (rc, erase d) = remove_base domain_root (erase src) (erase base)
    /\ m_owner d = false /\ text_blocks d = []
    /\ (mwf src -> mwf base -> mwf d) /\ nofault s'.
Proof. exact C12_remove_base_stmt. Qed.
Print Assumptions C12_remove_base_erasure.

(* the ledger hypothesis of fresh_blocks holds initially and is kept by the two ledger operations *)
Theorem C12_ledger_wf : forall p c sz b s,
  ledger_wf (ms_init p)
  /\ (ledger_wf s -> ledger_wf (snd (alloc c sz s)))
  /\ (ledger_wf s -> ledger_wf (free_blk b s)).
Proof. exact C12_ledger_wf_stmt. Qed.
Print Assumptions C12_ledger_wf.

(* the hypotheses are satisfiable and the conclusions are not trivial: "s://u@[vF.x]:8/a//b?q#f" *)
Example C12_nonvacuous :
  let t := [115; 58; 47; 47; 117; 64; 91; 118; 70; 46; 120; 93; 58; 56; 47; 97; 47; 47; 98; 63; 113; 35; 102] in
  match parse_m t (ms_init NoFault) with
  | (MOk m, s1) =>
    depends_on_input m = true /\ text_blocks m = [] /\ ms_next s1 = 3%nat
    /\ (let '(rc, m', s2) := make_owner_m 4 m s1 in
        rc = URI_SUCCESS /\ depends_on_input m' = false /\ text_blocks m' = [3; 4; 7; 10; 8; 9; 5; 6]%nat)
    /\ (let '(rc, m', s2) := normalize_m 4 63 m s1 in
        rc = URI_SUCCESS /\ depends_on_input m' = false /\ text_blocks m' = [3; 5; 4; 10; 6; 7; 8; 9]%nat)
  | _ => False
  end.
Proof. vm_compute. repeat split. Qed.

(* the hypothesis "hostText = ipFuture when ipFuture is set" of mwf is needed for the erasure clause of
   C12_make_owner: the engine (like the C code) re-derives hostText from the ipFuture range *)
Example C12_host_range_needed :
  let m := {| m_scheme := mt_none; m_userInfo := mt_none; m_hostText := mt_borrowed [121]; m_ip4 := None; m_ip6 := None;
              m_ipFuture := mt_borrowed [120]; m_portText := mt_none; m_segs := []; m_query := mt_none;
              m_fragment := mt_none; m_abs := false; m_owner := false |} in
  let '(rc, m', _) := make_owner_m 1 m (ms_init NoFault) in
  rc = URI_SUCCESS /\ hostText (erase m) = Some [121] /\ hostText (erase m') = Some [120].
Proof. vm_compute. repeat split. Qed.

(* ======================================================================================================
   Second part: liveness, all blocks, two objects in one ledger, pipelines, histories
   (Proofs/OwnershipMore.v; vocabulary in the header) *)
From Coq Require Import Permutation.
From UP Require Import Proofs.LedgerProofs Proofs.LedgerTheorems Proofs.LedgerHistory Proofs.OwnershipMore.

(* the vocabulary of this part, unfolded *)
Theorem C12_vocabulary : forall srcs s d' s2 m m1 m2 objs,
  (whole m s <-> (NoDup (muri_blocks m) /\ incl (muri_blocks m) (live_ids s) /\ incl (text_blocks m) (live_ids s)))
  /\ (apart m1 m2 <-> (forall b, In b (muri_blocks m1) -> ~ In b (muri_blocks m2)))
  /\ (store_ok objs s <-> (balanced objs s /\ nofault s /\ Forall mwf objs))
  /\ (owned_beside srcs s d' s2 <->
      (m_owner d' = true /\ all_owned d' = true /\ depends_on_input d' = false /\ mwf d'
       /\ fresh_blocks s s2 d' /\ nofault s2 /\ wf s2 /\ owns d' s2 /\ whole d' s2
       /\ (forall o, In o srcs -> owns o s2 /\ apart o d')
       /\ incl (live_ids s) (live_ids s2) /\ Permutation (live_ids s2) (muri_blocks d' ++ live_ids s)
       /\ bad_frees s2 = bad_frees s
       /\ (let sf := release_all srcs s2 in wf sf /\ owns d' sf /\ whole d' sf /\ bad_frees sf = bad_frees s))).
Proof. exact vocabulary_meaning. Qed.
Print Assumptions C12_vocabulary.

(* the text blocks of an object are among its blocks (any object) *)
Theorem C12_text_blocks_are_blocks : forall m, incl (text_blocks m) (muri_blocks m).
Proof. exact text_blocks_incl. Qed.
Print Assumptions C12_text_blocks_are_blocks.

(* [wf] implies the ledger hypothesis of fresh_blocks, holds initially (C13: wf_init) and is kept by every
   whole operation, under any fault plan *)
Theorem C12_wf_kept : forall csize s, wf s ->
  ledger_wf s
  /\ (forall t, wf (snd (parse_m t s)))
  /\ (forall m, owns m s -> wf (snd (make_owner_m csize m s)))
  /\ (forall mask m, owns m s -> (m_owner m = false -> sane m) -> wf (snd (normalize_m csize mask m s)))
  /\ (forall compat rel base, wf (snd (add_base_m compat rel base s)))
  /\ (forall dr src base, wf (snd (remove_base_m dr src base s)))
  /\ (forall m, owns m s -> wf (snd (free_members m s))).
Proof. exact wf_kept. Qed.
Print Assumptions C12_wf_kept.

(* ---- liveness and distinctness of ALL blocks of the result ------------------------------------------ *)
(* make-owner of a borrowed object the ledger holds: besides what C12_make_owner says, the result holds all
   its blocks -- text, nodes, address blocks -- pairwise distinct and live in the final ledger; the ledger
   changed by exactly the difference of the two block lists; no block outside the object moved; no release
   hit a block that was not live *)
Theorem C12_make_owner_live : forall csize m s, wf s -> nofault s -> owns m s -> mwf m -> m_owner m = false ->
  exists m' s', make_owner_m csize m s = (URI_SUCCESS, m', s')
    /\ erase m' = make_owner (erase m) /\ to_text (erase m') = to_text (erase m)
    /\ m_owner m' = true /\ all_owned m' = true /\ depends_on_input m' = false
    /\ mwf m' /\ fresh_blocks s s' m' /\ nofault s'
    /\ wf s' /\ owns m' s' /\ bad_frees s' = bad_frees s
    /\ NoDup (muri_blocks m') /\ incl (muri_blocks m') (live_ids s') /\ incl (text_blocks m') (live_ids s')
    /\ Permutation (live_ids s' ++ muri_blocks m) (muri_blocks m' ++ live_ids s)
    /\ (forall b, In b (live_ids s) -> ~ In b (muri_blocks m) -> In b (live_ids s')).
Proof. exact make_owner_live. Qed.
Print Assumptions C12_make_owner_live.

(* normalisation, any non-zero mask, borrowed or owned input *)
Theorem C12_normalize_live : forall csize mask m s, wf s -> nofault s -> owns m s -> mwf m ->
  (m_owner m = false -> sane m) -> mask <> 0 ->
  exists m' s', normalize_m csize mask m s = (URI_SUCCESS, m', s')
    /\ erase m' = normalize mask (erase m)
    /\ m_owner m' = true /\ all_owned m' = true /\ depends_on_input m' = false
    /\ mwf m' /\ (m_owner m = false -> fresh_blocks s s' m')
    /\ (m_owner m = true ->
          (forall b, In b (text_blocks m') -> In b (text_blocks m) \/ (ms_next s <= b < ms_next s')%nat)
          /\ (path_guard mask (erase m) = false -> incl (text_blocks m') (text_blocks m)))
    /\ nofault s'
    /\ wf s' /\ owns m' s' /\ bad_frees s' = bad_frees s
    /\ NoDup (muri_blocks m') /\ incl (muri_blocks m') (live_ids s') /\ incl (text_blocks m') (live_ids s')
    /\ Permutation (live_ids s' ++ muri_blocks m) (muri_blocks m' ++ live_ids s)
    /\ (forall b, In b (live_ids s) -> ~ In b (muri_blocks m) -> In b (live_ids s')).
Proof. exact normalize_live. Qed.
Print Assumptions C12_normalize_live.

(* ---- two objects, one ledger ------------------------------------------------------------------------ *)
(* releasing one object leaves every block of any other object of the ledger live *)
Theorem C12_release_other : forall m1 m2 s m1' s1, wf s -> owns m1 s -> owns m2 s -> apart m1 m2 ->
  free_members m1 s = (m1', s1) ->
  wf s1 /\ owns m2 s1 /\ bad_frees s1 = bad_frees s
  /\ NoDup (muri_blocks m2) /\ incl (muri_blocks m2) (live_ids s1) /\ incl (text_blocks m2) (live_ids s1)
  /\ Permutation (live_ids s) (muri_blocks m1 ++ live_ids s1).
Proof. exact release_other. Qed.
Print Assumptions C12_release_other.

(* m2 is made owner while another object m1 (e.g. the object parsed from the same string) sits in the same
   ledger: m1 is still held, the result shares no block with it, and releasing m1 afterwards leaves every
   block of the result live *)
Theorem C12_make_owner_beside : forall csize m1 m2 s, wf s -> nofault s -> owns m1 s -> owns m2 s -> apart m1 m2 ->
  mwf m2 -> m_owner m2 = false ->
  exists m2' s', make_owner_m csize m2 s = (URI_SUCCESS, m2', s')
    /\ erase m2' = make_owner (erase m2) /\ all_owned m2' = true /\ depends_on_input m2' = false
    /\ wf s' /\ owns m1 s' /\ owns m2' s' /\ apart m1 m2'
    /\ (forall m1' s1, free_members m1 s' = (m1', s1) ->
          wf s1 /\ owns m2' s1 /\ bad_frees s1 = bad_frees s
          /\ NoDup (muri_blocks m2') /\ incl (muri_blocks m2') (live_ids s1) /\ incl (text_blocks m2') (live_ids s1)).
Proof. exact make_owner_beside. Qed.
Print Assumptions C12_make_owner_beside.

Theorem C12_normalize_beside : forall csize mask m1 m2 s, wf s -> nofault s -> owns m1 s -> owns m2 s -> apart m1 m2 ->
  mwf m2 -> (m_owner m2 = false -> sane m2) -> mask <> 0 ->
  exists m2' s', normalize_m csize mask m2 s = (URI_SUCCESS, m2', s')
    /\ erase m2' = normalize mask (erase m2) /\ all_owned m2' = true /\ depends_on_input m2' = false
    /\ wf s' /\ owns m1 s' /\ owns m2' s' /\ apart m1 m2'
    /\ (forall m1' s1, free_members m1 s' = (m1', s1) ->
          wf s1 /\ owns m2' s1 /\ bad_frees s1 = bad_frees s
          /\ NoDup (muri_blocks m2') /\ incl (muri_blocks m2') (live_ids s1) /\ incl (text_blocks m2') (live_ids s1)).
Proof. exact normalize_beside. Qed.
Print Assumptions C12_normalize_beside.

(* ---- pipelines -------------------------------------------------------------------------------------- *)
(* two objects parsed (from the same text when t1 = t2) into one ledger; the second is made owner: it has the
   value of the first, owns all its text, and releasing the first leaves it whole *)
Theorem C12_parse_twice_own : forall csize t1 t2 s m1 s1 m2 s2, wf s -> nofault s ->
  parse_m t1 s = (MOk m1, s1) -> parse_m t2 s1 = (MOk m2, s2) ->
  exists m2' s3, make_owner_m csize m2 s2 = (URI_SUCCESS, m2', s3)
    /\ parse t2 = POk (erase m2) /\ erase m2' = make_owner (erase m2) /\ to_text (erase m2') = to_text (erase m2)
    /\ (t1 = t2 -> erase m2 = erase m1)
    /\ owned_beside [m1] s1 m2' s3.
Proof. exact parse_twice_own. Qed.
Print Assumptions C12_parse_twice_own.

(* what the C driver runs for resolution: uriAddBaseUriExMm, then uriMakeOwnerMm on the result.  The final
   object has the value of the pure resolution (owner flag set), owns all its text in fresh distinct live
   blocks, the reference and the base are untouched and may be released *)
Theorem C12_resolve_then_own : forall csize compat rel base s, wf s -> nofault s -> owns rel s -> owns base s ->
  apart rel base -> mwf rel -> mwf base ->
  exists rc d s1 d' s2, add_base_m compat rel base s = (rc, d, s1)
    /\ (rc, erase d) = add_base compat (erase rel) (erase base)
    /\ make_owner_m csize d s1 = (URI_SUCCESS, d', s2)
    /\ erase d' = make_owner (snd (add_base compat (erase rel) (erase base)))
    /\ to_text (erase d') = to_text (snd (add_base compat (erase rel) (erase base)))
    /\ owned_beside [rel; base] s d' s2.
Proof. exact resolve_then_own. Qed.
Print Assumptions C12_resolve_then_own.

(* likewise uriRemoveBaseUriMm, then uriMakeOwnerMm *)
Theorem C12_shorten_then_own : forall csize dr src base s, wf s -> nofault s -> owns src s -> owns base s ->
  apart src base -> mwf src -> mwf base ->
  exists rc d s1 d' s2, remove_base_m dr src base s = (rc, d, s1)
    /\ (rc, erase d) = remove_base dr (erase src) (erase base)
    /\ make_owner_m csize d s1 = (URI_SUCCESS, d', s2)
    /\ erase d' = make_owner (snd (remove_base dr (erase src) (erase base)))
    /\ to_text (erase d') = to_text (snd (remove_base dr (erase src) (erase base)))
    /\ owned_beside [src; base] s d' s2.
Proof. exact shorten_then_own. Qed.
Print Assumptions C12_shorten_then_own.

(* ---- whole histories -------------------------------------------------------------------------------- *)
(* one step of a history keeps the store invariant, and releases nothing that is not live *)
Theorem C12_store_ok_step : forall csize objs s op, store_ok objs s ->
  store_ok (fst (hstep csize (objs, s) op)) (snd (hstep csize (objs, s) op))
  /\ bad_frees (snd (hstep csize (objs, s) op)) = bad_frees s.
Proof. exact hstep_store_ok. Qed.
Print Assumptions C12_store_ok_step.

(* any history from the empty store under NoFault *)
Theorem C12_history_store_ok : forall csize ops,
  store_ok (fst (hrun csize ops ([], ms_init NoFault))) (snd (hrun csize ops ([], ms_init NoFault)))
  /\ bad_frees (snd (hrun csize ops ([], ms_init NoFault))) = 0%nat.
Proof. exact history_store_ok. Qed.
Print Assumptions C12_history_store_ok.

(* the store invariant supplies every hypothesis of the theorems above: for the ledger, for each object,
   and for each pair of objects *)
Theorem C12_store_ok_objects : forall objs s, store_ok objs s ->
  wf s /\ ledger_wf s /\ nofault s
  /\ Permutation (live_ids s) (flat_map muri_blocks objs)
  /\ (forall i m, nth_error objs i = Some m -> owns m s /\ mwf m /\ sane m /\ whole m s)
  /\ (forall i j m1 m2, i <> j -> nth_error objs i = Some m1 -> nth_error objs j = Some m2 -> apart m1 m2).
Proof. exact store_ok_objects. Qed.
Print Assumptions C12_store_ok_objects.

(* in any reachable store: two different objects share no block, and releasing one leaves the other whole;
   an object whose owner flag is set (it went through make-owner or normalisation) refers to no caller memory *)
Theorem C12_history_release_other : forall csize ops i j m1 m2,
  let st := hrun csize ops ([], ms_init NoFault) in
  i <> j -> nth_error (fst st) i = Some m1 -> nth_error (fst st) j = Some m2 ->
  whole m2 (snd st) /\ apart m1 m2
  /\ (let s1 := snd (free_members m1 (snd st)) in whole m2 s1 /\ owns m2 s1 /\ bad_frees s1 = 0%nat)
  /\ (m_owner m2 = true -> all_owned m2 = true /\ depends_on_input m2 = false).
Proof. exact history_release_other. Qed.
Print Assumptions C12_history_release_other.

(* non-vacuity, two objects and one ledger: the base "s://1.2.3.4/a/b?q" and the reference "../c/d#f" are
   parsed, the reference is resolved, the result is made owner, then both sources are released.  The result
   depended on the input before make-owner and does not afterwards; it shares no block with the sources
   (blocks 0-2 and 3-5); its eight blocks (five text blocks, two nodes, one ip4 block) are exactly what is
   still live at the end, and no release hit a block that was not live *)
Example C12_two_objects_nonvacuous :
  let tb := [115; 58; 47; 47; 49; 46; 50; 46; 51; 46; 52; 47; 97; 47; 98; 63; 113] in
  let tr := [46; 46; 47; 99; 47; 100; 35; 102] in
  match parse_m tb (ms_init NoFault) with
  | (MOk base, s1) =>
    match parse_m tr s1 with
    | (MOk rel, s2) =>
      let '(rc, d, s3) := add_base_m false rel base s2 in
      let '(rc2, d', s4) := make_owner_m 4 d s3 in
      let s6 := release_all [rel; base] s4 in
      rc = URI_SUCCESS /\ rc2 = URI_SUCCESS
      /\ muri_blocks base = [0; 1; 2]%nat /\ muri_blocks rel = [3; 4; 5]%nat
      /\ depends_on_input d = true /\ depends_on_input d' = false
      /\ to_text (erase d') = [115; 58; 47; 47; 49; 46; 50; 46; 51; 46; 52; 47; 99; 47; 100; 35; 102]
      /\ text_blocks d' = [11; 13; 14; 15; 12]%nat
      /\ muri_blocks d' = [11; 13; 6; 9; 14; 10; 15; 12]%nat
      /\ live_ids s4 = [15; 14; 13; 12; 11; 10; 9; 6; 5; 4; 3; 2; 1; 0]%nat
      /\ live_ids s6 = [15; 14; 13; 12; 11; 10; 9; 6]%nat
      /\ bad_frees s6 = 0%nat
    | _ => False
    end
  | _ => False
  end.
Proof. vm_compute. repeat split. Qed.

(* ---- the hypothesis "a borrowed object records no text block" ---------------------------------------- *)
(* C12_make_owner asks for mwf m, whose fourth clause says that a borrowed object records no text block.  The
   clause is not needed: only "hostText = ipFuture when ipFuture is set" is.  Blocks recorded by a borrowed
   object are forgotten by make-owner (never looked at, never released) *)
Theorem C12_make_owner_any_blocks : forall csize m s, nofault s -> mwf_host m -> m_owner m = false ->
  exists m' s', make_owner_m csize m s = (URI_SUCCESS, m', s')
    /\ erase m' = make_owner (erase m) /\ to_text (erase m') = to_text (erase m)
    /\ m_owner m' = true /\ all_owned m' = true /\ depends_on_input m' = false
    /\ mwf m' /\ fresh_blocks s s' m' /\ nofault s'.
Proof. exact make_owner_any_blocks. Qed.
Print Assumptions C12_make_owner_any_blocks.

(* likewise C12_normalize_borrowed: any non-zero mask, a borrowed object that may record blocks *)
Theorem C12_normalize_any_blocks : forall csize mask m s, nofault s -> mwf_host m -> m_owner m = false -> mask <> 0 ->
  exists m' s', normalize_m csize mask m s = (URI_SUCCESS, m', s')
    /\ erase m' = normalize mask (erase m)
    /\ m_owner m' = true /\ all_owned m' = true /\ depends_on_input m' = false
    /\ mwf m' /\ fresh_blocks s s' m' /\ nofault s'.
Proof. exact normalize_any_blocks. Qed.
Print Assumptions C12_normalize_any_blocks.

(* ---- what is released ------------------------------------------------------------------------------- *)
(* a successful make-owner of a borrowed object releases nothing (any plan): every block that was live is
   still live, and the result holds every node and address block the input held *)
Theorem C12_make_owner_releases_nothing : forall csize m s m' s', wf s -> owns m s -> m_owner m = false ->
  make_owner_m csize m s = (URI_SUCCESS, m', s') ->
  incl (muri_blocks m) (muri_blocks m') /\ incl (live_ids s) (live_ids s').
Proof. exact make_owner_releases_nothing. Qed.
Print Assumptions C12_make_owner_releases_nothing.

(* normalisation does release blocks of its own object: "a/./b" loses the node (block 1) of the "." segment,
   and the copy (block 4) it had made of that segment's text *)
Example C12_normalize_releases_nodes :
  match parse_m [97; 47; 46; 47; 98] (ms_init NoFault) with
  | (MOk m, s1) =>
    let '(rc, m', s2) := normalize_m 1 63 m s1 in
    rc = URI_SUCCESS /\ muri_blocks m = [0; 1; 2]%nat /\ live_ids s1 = [2; 1; 0]%nat
    /\ muri_blocks m' = [0; 3; 2; 5]%nat /\ live_ids s2 = [5; 3; 2; 0]%nat
  | _ => False
  end.
Proof. vm_compute. repeat split. Qed.

(* the two theorems above are not vacuous: a borrowed object whose scheme and path segment record the blocks 7
   and 8 (not mwf: text_blocks m <> []); make-owner and normalisation copy the texts into fresh blocks and
   forget 7 and 8 *)
Example C12_recorded_blocks_nonvacuous :
  let m := {| m_scheme := {| t_val := Some [83]; t_blk := Some 7%nat |}; m_userInfo := mt_none; m_hostText := mt_none;
              m_ip4 := None; m_ip6 := None; m_ipFuture := mt_none; m_portText := mt_none;
              m_segs := [{| sg_text := [97]; sg_blk := Some 8%nat; sg_node := 0%nat |}]; m_query := mt_none;
              m_fragment := mt_none; m_abs := false; m_owner := false |} in
  text_blocks m = [7; 8]%nat
  /\ (let '(rc, m', s') := make_owner_m 1 m (ms_init NoFault) in
      rc = URI_SUCCESS /\ text_blocks m' = [0; 1]%nat /\ depends_on_input m' = false)
  /\ (let '(rc, m', s') := normalize_m 1 63 m (ms_init NoFault) in
      rc = URI_SUCCESS /\ text_blocks m' = [0; 1]%nat /\ depends_on_input m' = false
      /\ scheme (erase m') = Some [115]).
Proof. vm_compute. repeat split. Qed.

(* the two insane witnesses of C13's refutation (present-but-empty scheme, present-but-empty IPvFuture text),
   normalised under NoFault: success, one block, live, no bad release, all text owned *)
Example C12_insane_nofault_examples :
  (let '(rc, m', s') := normalize_m 1 63 w_empty_scheme (ms_init NoFault) in
   rc = URI_SUCCESS /\ muri_blocks m' = [0]%nat /\ live_ids s' = [0]%nat /\ bad_frees s' = 0%nat /\ all_owned m' = true)
  /\ (let '(rc, m', s') := normalize_m 1 63 w_empty_future (ms_init NoFault) in
      rc = URI_SUCCESS /\ muri_blocks m' = [0]%nat /\ live_ids s' = [0]%nat /\ bad_frees s' = 0%nat /\ all_owned m' = true).
Proof. vm_compute. repeat split. Qed.
