(* C13 -- all memory goes through the supplied manager and is fully returned.
   Statements only; proofs in Proofs/LedgerProofs.v, LedgerOps.v, LedgerBase.v, LedgerNormalize.v, LedgerTheorems.v,
   LedgerSane.v, LedgerHistory.v, LedgerQuery.v.

   The theorems are about the memory tier of the model (Model/Mem.v, Model/ParseM.v, Model/OpsM.v), which
   mirrors the C code allocation by allocation (gen/c13.py, gen/c14.py compare full allocation traces).
   They hold for every input object / text, every ledger state [s] that is well formed ([wf]: live block
   ids pairwise distinct and below the next id), every fault plan (NoFault, FailOnce k, FailFrom k, any k:
   no hypothesis is made on [ms_plan s]) and unbounded sizes.

   Vocabulary: [live_ids s] the ids of the live blocks; [muri_blocks m] every block the object refers to;
   [owns m s]: the object is consistent with its owner flag (a text has a block of its own iff the object
   owns its texts and the text is not empty; nodes and address blocks always) and its blocks are pairwise
   distinct and live in s; [bad_frees s]: number of releases so far that hit a block that was not live
   (never handed out, or already released), i.e. "released through the same manager with exactly the
   pointer it returned" fails exactly when this counter moves.

   Covered operations: uriParseSingleUriExMm, uriFreeUriMembersMm, uriMakeOwnerMm, uriNormalizeSyntaxExMm
   (any mask, borrowed and owned), uriAddBaseUriExMm, uriRemoveBaseUriMm, and (second part of this file; memory
   tier Model/QueryM.v, proofs Proofs/LedgerQuery.v) uriDissectQueryMallocExMm, uriComposeQueryMallocExMm,
   uriFreeQueryListMm.
   NOT covered here (nothing is claimed about them):
   - "an incomplete manager is rejected with the dedicated error code before anything is allocated": the C
     wrappers test the manager (URI_CHECK_MEMORY_MANAGER) before they call the engines modelled here, so the
     clause is outside these models; it is checked on the implementation by gen/c13.py only;
   - "nothing bypasses the manager" (no direct malloc/free): the model has one ledger by construction; this
     is observed on the implementation (libc interposition), not proved. *)
From Coq Require Import List NArith Permutation.
From UP Require Import Base.Chars Model.Uri Model.Mem Model.ParseM Model.OpsM
  Proofs.LedgerProofs Proofs.LedgerOps Proofs.LedgerBase Proofs.LedgerNormalize Proofs.LedgerTheorems
  Proofs.LedgerTransparent Proofs.LedgerSane Proofs.LedgerHistory.
Import ListNotations.

(* ---- the release call *)
(* uriFreeUriMembersMm releases exactly the blocks of the object, each one live (no bad release), makes no
   request, and leaves an object without blocks *)
Theorem C13_free_members_releases_exactly : forall m s m' s', wf s -> owns m s -> free_members m s = (m', s') ->
  wf s' /\ Permutation (live_ids s) (muri_blocks m ++ live_ids s') /\ bad_frees s' = bad_frees s
  /\ ms_requests s' = ms_requests s /\ ms_plan s' = ms_plan s /\ muri_blocks m' = [] /\ owns m' s' /\ m_owner m' = m_owner m.
Proof. exact free_members_releases. Qed.
Print Assumptions C13_free_members_releases_exactly.

(* freeing the members again changes nothing: neither the object nor the ledger nor the trace *)
Theorem C13_free_members_idempotent : forall m s m' s', wf s -> owns m s -> free_members m s = (m', s') ->
  free_members m' s' = (m', s').
Proof. exact free_members_idempotent. Qed.
Print Assumptions C13_free_members_idempotent.

(* ---- every operation keeps the ledger balanced *)
(* parse: on success the ledger grew by exactly the blocks of the (borrowed) object, which owns them; on a
   syntax error or out-of-memory the live blocks are those from before the call (no residue) *)
Theorem C13_parse_balanced : forall t s0, wf s0 ->
  match parse_m t s0 with
  | (MOk m, s') => wf s' /\ ext s0 s' /\ owns m s' /\ m_owner m = false
                   /\ Permutation (live_ids s') (muri_blocks m ++ live_ids s0)
  | (MSyntax _, s') => wf s' /\ ext s0 s' /\ Permutation (live_ids s') (live_ids s0)
  | (MMalloc, s') => wf s' /\ ext s0 s' /\ Permutation (live_ids s') (live_ids s0) /\ fails_between s0 s'
  end.
Proof. exact parse_m_no_residue. Qed.
Print Assumptions C13_parse_balanced.

(* [ext s0 s'] contains: no bad release, the plan is unchanged, counters only grow *)
Theorem C13_ext_meaning : forall s s', ext s s' ->
  bad_frees s' = bad_frees s /\ ms_plan s' = ms_plan s /\ ms_requests s <= ms_requests s' /\ ms_next s <= ms_next s'.
Proof. exact ext_meaning. Qed.
Print Assumptions C13_ext_meaning.

(* parse then release: the ledger is back to what it was *)
Theorem C13_parse_release : forall t s0 m s1 m' s2, wf s0 -> parse_m t s0 = (MOk m, s1) -> free_members m s1 = (m', s2) ->
  wf s2 /\ bad_frees s2 = bad_frees s0 /\ Permutation (live_ids s2) (live_ids s0) /\ muri_blocks m' = []
  /\ free_members m' s2 = (m', s2).
Proof. exact parse_m_cleanup. Qed.
Print Assumptions C13_parse_release.

(* parsed objects have a non-empty scheme and a non-empty IPvFuture text when these are present (needed below) *)
Theorem C13_parsed_sane : forall t s m s', parse_m t s = (MOk m, s') -> sane m.
Proof. exact parse_m_sane. Qed.
Print Assumptions C13_parsed_sane.

(* in-place operations: what the object held before plus what the ledger holds now = what the object holds
   now plus what the ledger held before; the result owns its blocks; no bad release *)
Theorem C13_make_owner_balanced : forall csize m s, wf s -> owns m s ->
  match make_owner_m csize m s with
  | (rc, m', s') =>
    wf s' /\ bad_frees s' = bad_frees s /\ owns m' s'
    /\ Permutation (live_ids s' ++ muri_blocks m) (muri_blocks m' ++ live_ids s)
    /\ ((rc = URI_SUCCESS /\ m_owner m' = true) \/ (rc = URI_ERROR_MALLOC /\ m_owner m' = false /\ fails_between s s'))
  end.
Proof. exact make_owner_m_balanced. Qed.
Print Assumptions C13_make_owner_balanced.

(* hypothesis [sane]: only for a borrowed object, and only hand-built objects can violate it (C13_parsed_sane);
   it cannot be dropped: C14_normalize_insane_refuted *)
Theorem C13_normalize_balanced : forall csize mask m s, wf s -> owns m s -> (m_owner m = false -> sane m) ->
  match normalize_m csize mask m s with
  | (rc, m', s') =>
    wf s' /\ bad_frees s' = bad_frees s /\ owns m' s'
    /\ Permutation (live_ids s' ++ muri_blocks m) (muri_blocks m' ++ live_ids s)
    /\ ((rc = URI_SUCCESS /\ (mask <> 0%N -> m_owner m' = true) /\ (mask = 0%N -> m' = m /\ s' = s))
        \/ (rc = URI_ERROR_MALLOC /\ m_owner m' = m_owner m /\ fails_between s s'))
  end.
Proof. exact normalize_m_balanced. Qed.
Print Assumptions C13_normalize_balanced.

(* operations with a destination: the ledger grew by exactly the blocks of the destination, which owns them;
   on any error the wrapper has released them already (and a further release is a no-op).  No hypothesis on
   the arguments: they are read, never released *)
Theorem C13_add_base_balanced : forall compat rel base s, wf s ->
  match add_base_m compat rel base s with
  | (rc, d, s') =>
    wf s' /\ bad_frees s' = bad_frees s /\ owns d s' /\ m_owner d = false
    /\ Permutation (live_ids s') (muri_blocks d ++ live_ids s)
    /\ (rc = URI_SUCCESS \/ rc = URI_ERROR_ADDBASE_REL_BASE \/ (rc = URI_ERROR_MALLOC /\ fails_between s s'))
    /\ (rc <> URI_SUCCESS -> muri_blocks d = [] /\ free_members d s' = (d, s'))
  end.
Proof. exact add_base_m_balanced. Qed.
Print Assumptions C13_add_base_balanced.

Theorem C13_remove_base_balanced : forall domain_root src base s, wf s ->
  match remove_base_m domain_root src base s with
  | (rc, d, s') =>
    wf s' /\ bad_frees s' = bad_frees s /\ owns d s' /\ m_owner d = false
    /\ Permutation (live_ids s') (muri_blocks d ++ live_ids s)
    /\ (rc = URI_SUCCESS \/ rc = URI_ERROR_REMOVEBASE_REL_BASE \/ rc = URI_ERROR_REMOVEBASE_REL_SOURCE
        \/ (rc = URI_ERROR_MALLOC /\ fails_between s s'))
    /\ (rc <> URI_SUCCESS -> muri_blocks d = [] /\ free_members d s' = (d, s'))
  end.
Proof. exact remove_base_m_balanced. Qed.
Print Assumptions C13_remove_base_balanced.

(* ---- [sane] is kept by every operation, so the theorems above chain over any history *)
Theorem C13_sane_is_kept : forall csize,
  (forall mask m s, sane m -> sane (snd (fst (normalize_m csize mask m s))))
  /\ (forall m s, sane m -> sane (snd (fst (make_owner_m csize m s))))
  /\ (forall compat rel base s, sane rel -> sane base -> sane (snd (fst (add_base_m compat rel base s))))
  /\ (forall dr src base s, sane src -> sane base -> sane (snd (fst (remove_base_m dr src base s))))
  /\ (forall m s, sane m -> sane (fst (free_members m s))).
Proof.
  exact (fun csize => conj (normalize_m_sane csize) (conj (make_owner_m_sane csize)
           (conj add_base_m_sane (conj remove_base_m_sane free_members_sane)))).
Qed.
Print Assumptions C13_sane_is_kept.

(* ---- arbitrary histories.  A store of objects and a ledger; [hstep] (Proofs/LedgerHistory.v) applies one of:
   parse a text (a new object when it parses), normalize / make owner / free members on object i in place,
   add base / remove base of objects i, j (a new object, whatever the call returns); steps naming an object that
   does not exist do nothing.  From the empty store and the empty ledger, under ANY fault plan and for ANY list of
   steps: the live blocks are exactly the blocks of the objects of the store ([balanced]: also every object is
   consistent with its owner flag), and no release ever hit a block that was not live.
   [_partial]: the operations are the six URI operations; the query-list functions are not among them.  The
   histories over all nine manager-taking calls are C13_any_history_balanced and
   C13_any_history_then_release_leaves_nothing in the second part of this file (they contain these steps). *)
Theorem C13_any_history_balanced_partial : forall csize p ops,
  let st := hrun csize ops ([], ms_init p) in balanced (fst st) (snd st) /\ bad_frees (snd st) = 0.
Proof. exact history_balanced. Qed.
Print Assumptions C13_any_history_balanced_partial.

Theorem C13_balanced_meaning : forall objs s, balanced objs s <->
  (wf s /\ Forall (fun m => consistent m /\ sane m) objs /\ Permutation (live_ids s) (flat_map muri_blocks objs)).
Proof. exact balanced_meaning. Qed.
Print Assumptions C13_balanced_meaning.

(* ... and once every object of the store has been released (free members on each), nothing is outstanding *)
Theorem C13_any_history_then_release_leaves_nothing_partial : forall csize p ops,
  let st := hrun csize ops ([], ms_init p) in
  let st' := hrun csize (free_all (length (fst st))) st in
  ms_live (snd st') = [] /\ bad_frees (snd st') = 0.
Proof. exact history_then_release_leaves_nothing. Qed.
Print Assumptions C13_any_history_then_release_leaves_nothing_partial.

(* ---- three concrete shapes of histories, spelled out (instances of the above) *)
Theorem C13_history_parse_normalize_free_partial : forall csize p t mask,
  match parse_m t (ms_init p) with
  | (MOk m, s1) =>
    let '(rc, m', s2) := normalize_m csize mask m s1 in
    let '(m'', s3) := free_members m' s2 in
    ms_live s3 = [] /\ bad_frees s3 = 0 /\ free_members m'' s3 = (m'', s3)
  | (_, s1) => ms_live s1 = [] /\ bad_frees s1 = 0
  end.
Proof. exact history_parse_normalize_free. Qed.
Print Assumptions C13_history_parse_normalize_free_partial.

Theorem C13_history_parse_make_owner_free_partial : forall csize p t,
  match parse_m t (ms_init p) with
  | (MOk m, s1) =>
    let '(rc, m', s2) := make_owner_m csize m s1 in
    let '(m'', s3) := free_members m' s2 in
    ms_live s3 = [] /\ bad_frees s3 = 0 /\ free_members m'' s3 = (m'', s3)
  | (_, s1) => ms_live s1 = [] /\ bad_frees s1 = 0
  end.
Proof. exact history_parse_make_owner_free. Qed.
Print Assumptions C13_history_parse_make_owner_free_partial.

Theorem C13_history_parse_add_base_free_partial : forall p compat tr tb,
  match parse_m tr (ms_init p) with
  | (MOk rel, s1) =>
    match parse_m tb s1 with
    | (MOk base, s2) =>
      let '(rc, d, s3) := add_base_m compat rel base s2 in
      let '(d', s4) := free_members d s3 in
      let '(rel', s5) := free_members rel s4 in
      let '(base', s6) := free_members base s5 in
      ms_live s6 = [] /\ bad_frees s6 = 0
    | (_, s2) => let '(rel', s3) := free_members rel s2 in ms_live s3 = [] /\ bad_frees s3 = 0
    end
  | (_, s1) => ms_live s1 = [] /\ bad_frees s1 = 0
  end.
Proof. exact history_parse_add_base_free. Qed.
Print Assumptions C13_history_parse_add_base_free_partial.

(* the hypotheses are satisfiable and the statements are not vacuous: "s://1.2.3.4/a/../b" parsed, normalized
   with every bit, released; 6 requests, the 4th refused *)
Example C13_nonvacuous :
  let t := [115; 58; 47; 47; 49; 46; 50; 46; 51; 46; 52; 47; 97; 47; 46; 46; 47; 98]%N in
  (exists m s1, parse_m t (ms_init NoFault) = (MOk m, s1) /\ length (ms_live s1) = 4 /\ owns m s1 /\ sane m
     /\ exists m' s2, normalize_m 1 63 m s1 = (URI_SUCCESS, m', s2) /\ m_owner m' = true /\ length (muri_blocks m') = 5)
  /\ (exists m s1, parse_m t (ms_init (FailOnce 6)) = (MOk m, s1)
     /\ exists m' s2, normalize_m 1 63 m s1 = (URI_ERROR_MALLOC, m', s2) /\ m_owner m' = false /\ ms_requests s2 = 6).
Proof.
  cbv zeta. split.
  - pose proof (parse_m_no_residue [115; 58; 47; 47; 49; 46; 50; 46; 51; 46; 52; 47; 97; 47; 46; 46; 47; 98]%N (ms_init NoFault) (wf_init _)) as H.
    destruct (parse_m _ (ms_init NoFault)) as [[m|?|] s1] eqn:E; vm_compute in E; try discriminate.
    exists m, s1. split; [reflexivity|]. split; [injection E as <- <-; reflexivity|]. split; [apply H|].
    split; [injection E as <- <-; split; discriminate|].
    injection E as <- <-. eexists; eexists. split; [vm_compute; reflexivity|]. split; reflexivity.
  - eexists; eexists. split; [vm_compute; reflexivity|].
    eexists; eexists. split; [vm_compute; reflexivity|]. split; reflexivity.
Qed.

(* ================================================================================================================
   The query-list functions (memory tier: Model/QueryM.v, proofs: Proofs/LedgerQuery.v).
   [mqlist]: a query list with, per node, the blocks of the key copy, of the value copy (absent for a NULL value)
   and of the node; [mqlist_blocks l]: every block the list refers to; [erase_q l]: the list of the pure tier
   (Model/Query.v).  Statements hold for every text / list, every well-formed ledger, every fault plan, both
   character widths ([csize]) and unbounded sizes. *)
From Coq Require Import ZArith.
From UP Require Import Model.Escape Model.Query Model.QueryM Proofs.QueryProofs Proofs.LedgerQuery.

(* uriFreeQueryListMm releases exactly the blocks of the list, each one live; no request, no bad release *)
Theorem C13_free_query_list_releases_exactly : forall l s, wf s -> NoDup (mqlist_blocks l) -> incl (mqlist_blocks l) (live_ids s) ->
  let s' := free_query_list_m l s in
  wf s' /\ Permutation (live_ids s) (mqlist_blocks l ++ live_ids s') /\ bad_frees s' = bad_frees s
  /\ ms_requests s' = ms_requests s /\ ms_plan s' = ms_plan s /\ ms_next s' = ms_next s.
Proof. exact free_query_list_m_releases. Qed.
Print Assumptions C13_free_query_list_releases_exactly.

(* uriDissectQueryMallocExMm: on success the ledger grew by exactly the blocks of the list (pairwise distinct) and the
   count is the length of the list; on out-of-memory the live blocks are those from before the call and none of the
   blocks of the list the call had begun is live any more *)
Theorem C13_dissect_balanced : forall csize pts bc t s0, wf s0 ->
  match dissect_m csize pts bc t s0 with
  | (DMOk items n, s') =>
    wf s' /\ ext s0 s' /\ Permutation (live_ids s') (mqlist_blocks items ++ live_ids s0)
    /\ NoDup (mqlist_blocks items) /\ n = Z.of_nat (length items)
  | (DMMalloc d, s') =>
    wf s' /\ ext s0 s' /\ Permutation (live_ids s') (live_ids s0) /\ fails_between s0 s'
    /\ (forall b, In b (mqlist_blocks d) -> ~ In b (live_ids s'))
  end.
Proof. exact dissect_m_balanced. Qed.
Print Assumptions C13_dissect_balanced.

(* dissect, then the matching release: the ledger is back to what it was *)
Theorem C13_dissect_release : forall csize pts bc t s0 items n s1, wf s0 -> dissect_m csize pts bc t s0 = (DMOk items n, s1) ->
  let s2 := free_query_list_m items s1 in
  wf s2 /\ Permutation (live_ids s2) (live_ids s0) /\ bad_frees s2 = bad_frees s0
  /\ ms_requests s2 = ms_requests s1 /\ ms_plan s2 = ms_plan s0.
Proof. exact dissect_m_release. Qed.
Print Assumptions C13_dissect_release.

(* uriComposeQueryMallocExMm: on success exactly one new block, the string, of (chars required + 1) characters, holding
   the composed text of the pure tier, which fits; on any error the live blocks are those from before the call *)
Theorem C13_compose_balanced : forall csize stp nb l s0, wf s0 ->
  match compose_m csize stp nb l s0 with
  | (CMOk out b, s') =>
    wf s' /\ ext s0 s' /\ Permutation (live_ids s') (b :: live_ids s0) /\ ~ In b (live_ids s0)
    /\ exists r, chars_required stp nb l = ZOk r /\ (0 <= r < INT_MAX)%Z
         /\ In (b, (Z.to_N (r + 1) * csize)%N) (ms_live s') /\ out = query_text stp nb l /\ (Z.of_nat (length out) <= r)%Z
  | (CMErr c, s') =>
    wf s' /\ ext s0 s' /\ Permutation (live_ids s') (live_ids s0)
    /\ (c = URI_ERROR_MALLOC -> fails_between s0 s' \/ (chars_required stp nb l = ZOk INT_MAX /\ s' = s0))
    /\ (c <> URI_ERROR_MALLOC -> s' = s0 /\ chars_required stp nb l = ZErr c)
  end.
Proof. exact compose_m_balanced. Qed.
Print Assumptions C13_compose_balanced.

(* compose, then the caller frees the returned string (nothing to free after an error): the ledger is back *)
Theorem C13_compose_release : forall csize stp nb l s0, wf s0 ->
  let '(r, s1) := compose_m csize stp nb l s0 in
  let s2 := free_string_m r s1 in
  wf s2 /\ Permutation (live_ids s2) (live_ids s0) /\ bad_frees s2 = bad_frees s0 /\ ms_requests s2 = ms_requests s1
  /\ ms_plan s2 = ms_plan s0.
Proof. exact compose_m_release. Qed.
Print Assumptions C13_compose_release.

(* the memory tier computes the values of the pure tier (to which the C17 theorems apply): whenever no request is refused *)
Theorem C13_dissect_erases_to_pure : forall csize pts bc t s,
  ~ fails_between s (snd (dissect_m csize pts bc t s)) -> wf s -> erase_d (fst (dissect_m csize pts bc t s)) = dissect pts bc t.
Proof. exact dissect_m_erasure. Qed.
Print Assumptions C13_dissect_erases_to_pure.

Theorem C13_dissect_ok_erases_to_pure : forall csize pts bc t s items n s',
  dissect_m csize pts bc t s = (DMOk items n, s') -> dissect pts bc t = DOk (erase_q items) n.
Proof. exact dissect_m_erases. Qed.
Print Assumptions C13_dissect_ok_erases_to_pure.

Theorem C13_compose_erases_to_pure : forall csize stp nb l s cm, (INT_MAX <= cm)%Z ->
  ~ fails_between s (snd (compose_m csize stp nb l s)) -> wf s ->
  erase_c (fst (compose_m csize stp nb l s)) = compose_malloc cm stp nb l.
Proof. exact compose_m_erasure. Qed.
Print Assumptions C13_compose_erases_to_pure.

(* ---- arbitrary histories over all nine manager-taking calls.  A store of URI objects, query lists and strings and one
   ledger; [qstep] (Proofs/LedgerQuery.v) applies one of: any step of [hstep] on the URI objects (parse, normalize,
   make owner, add base, remove base, free members), dissect a text (a new list when the call succeeds; after a failure
   the caller does not use *dest), compose list i (a new string when the call succeeds), uriFreeQueryListMm on list i
   (the slot is then empty), the caller freeing string i.  From the empty store and the empty ledger, under ANY fault
   plan and for ANY list of steps: the live blocks are exactly the blocks of the URI objects, of the lists and of the
   strings of the store, and no release ever hit a block that was not live.  These two theorems supersede
   C13_any_history_balanced_partial and C13_any_history_then_release_leaves_nothing_partial above. *)
Theorem C13_any_history_balanced : forall csize p ops,
  qbalanced (qrun csize ops (q_init p)) /\ bad_frees (q_mem (qrun csize ops (q_init p))) = 0.
Proof. exact qhistory_balanced. Qed.
Print Assumptions C13_any_history_balanced.

Theorem C13_qbalanced_meaning : forall st, qbalanced st <->
  (wf (q_mem st) /\ Forall (fun m => consistent m /\ sane m) (q_uris st)
   /\ Permutation (live_ids (q_mem st))
        (flat_map muri_blocks (q_uris st) ++ flat_map mqlist_blocks (q_lists st) ++ flat_map blk_list (q_strs st))).
Proof. exact qbalanced_meaning. Qed.
Print Assumptions C13_qbalanced_meaning.

(* ... and once everything the store holds has been released (free members on every URI object, free query list on
   every list, free on every string), nothing is outstanding *)
Theorem C13_any_history_then_release_leaves_nothing : forall csize p ops,
  let st := qrun csize ops (q_init p) in
  let st' := qrun csize (qfree_all (length (q_uris st)) (length (q_lists st)) (length (q_strs st))) st in
  ms_live (q_mem st') = [] /\ bad_frees (q_mem st') = 0.
Proof. exact qhistory_then_release_leaves_nothing. Qed.
Print Assumptions C13_any_history_then_release_leaves_nothing.

(* one shape spelled out: dissect, compose the list, free the string, free the list *)
Theorem C13_history_dissect_compose_free : forall csize p pts bc stp nb t,
  match dissect_m csize pts bc t (ms_init p) with
  | (DMOk items n, s1) =>
    let '(r, s2) := compose_m csize stp nb (erase_q items) s1 in
    let s3 := free_string_m r s2 in
    let s4 := free_query_list_m items s3 in
    ms_live s4 = [] /\ bad_frees s4 = 0
  | (DMMalloc _, s1) => ms_live s1 = [] /\ bad_frees s1 = 0
  end.
Proof. exact history_dissect_compose_free. Qed.
Print Assumptions C13_history_dissect_compose_free.

(* not vacuous: "a=b&c" (wide characters) gives two items in five blocks (24, 8, 8, 24, 8 bytes); composing them takes
   one block of 21 * 4 bytes (chars required 20: six per character with break normalisation, plus '=' and '&'; the text is "a=b&c"); a history that parses, dissects, composes and releases *)
Example C13_query_nonvacuous :
  let t := [97; 61; 98; 38; 99]%N in
  (exists items s1, dissect_m 4 true BrDontTouch t (ms_init NoFault) = (DMOk items 2%Z, s1)
     /\ erase_q items = [([97%N], Some [98%N]); ([99%N], None)] /\ map snd (ms_live s1) = [8; 24; 8; 8; 24]%N
     /\ exists b s2, compose_m 4 true true (erase_q items) s1 = (CMOk t b, s2) /\ map snd (ms_live s2) = [84; 8; 24; 8; 8; 24]%N)
  /\ (let st := qrun 1 [QUri (HParse [115; 58; 47; 97; 63; 120]%N); QDissect true BrDontTouch t; QCompose true true 0; QFreeList 0]
                     (q_init (FailOnce 9)) in
      length (q_uris st) = 1 /\ q_lists st = [[]] /\ length (q_strs st) = 1 /\ length (ms_live (q_mem st)) = 2).
Proof.
  cbv zeta. split.
  - eexists; eexists. split; [vm_compute; reflexivity|]. split; [reflexivity|]. split; [reflexivity|].
    eexists; eexists. split; [vm_compute; reflexivity|reflexivity].
  - vm_compute. repeat split.
Qed.
