(* C13 -- all memory goes through the supplied manager and is fully returned.
   Statements only; proofs in Proofs/LedgerProofs.v, LedgerOps.v, LedgerBase.v, LedgerNormalize.v, LedgerTheorems.v,
   LedgerSane.v, LedgerHistory.v.

   The theorems are about the memory tier of the model (Model/Mem.v, Model/ParseM.v, Model/OpsM.v), which
   mirrors the C code allocation by allocation (gen/c13.py, gen/c14.py compare full allocation traces).
   They hold for every input object / text, every ledger state [s] that is well formed ([wf]: live block
   ids pairwise distinct and below the next id), every fault plan (NoFault, FailOnce k, FailFrom k, any k:
   no hypothesis is made on [ms_plan s]) and unbounded sizes.

   Vocabulary: [live_ids s] the ids of the live blocks; [muri_blocks m] every block the object refers to;
   [owns m s]: the object is consistent with its owner flag (a text has a block of its own iff the object
   owns its texts and the text is not empty; nodes and address blocks always) and its blocks are pairwise
   distinct and live in s; [bad_frees s]: number of releases so far that hit a block that was not live
   (never handed out, or already released), i.e. "released through the same manager with exactly the
   pointer it returned" fails exactly when this counter moves.

   Covered operations: uriParseSingleUriExMm, uriFreeUriMembersMm, uriMakeOwnerMm, uriNormalizeSyntaxExMm
   (any mask, borrowed and owned), uriAddBaseUriExMm, uriRemoveBaseUriMm.
   NOT covered here (nothing is claimed about them):
   - uriDissectQueryMallocExMm, uriComposeQueryMallocExMm, uriFreeQueryListMm (no memory-tier model);
   - "an incomplete manager is rejected with the dedicated error code before anything is allocated": the C
     wrappers test the manager (URI_CHECK_MEMORY_MANAGER) before they call the engines modelled here, so the
     clause is outside these models; it is checked on the implementation by gen/c13.py only;
   - "nothing bypasses the manager" (no direct malloc/free): the model has one ledger by construction; this
     is observed on the implementation (libc interposition), not proved. *)
From Coq Require Import List NArith Permutation.
From UP Require Import Base.Chars Model.Uri Model.Mem Model.ParseM Model.OpsM
  Proofs.LedgerProofs Proofs.LedgerOps Proofs.LedgerBase Proofs.LedgerNormalize Proofs.LedgerTheorems
  Proofs.LedgerTransparent Proofs.LedgerSane Proofs.LedgerHistory.
Import ListNotations.

(* ---- the release call *)
(* uriFreeUriMembersMm releases exactly the blocks of the object, each one live (no bad release), makes no
   request, and leaves an object without blocks *)
Theorem C13_free_members_releases_exactly : forall m s m' s', wf s -> owns m s -> free_members m s = (m', s') ->
  wf s' /\ Permutation (live_ids s) (muri_blocks m ++ live_ids s') /\ bad_frees s' = bad_frees s
  /\ ms_requests s' = ms_requests s /\ ms_plan s' = ms_plan s /\ muri_blocks m' = [] /\ owns m' s' /\ m_owner m' = m_owner m.
Proof. exact free_members_releases. Qed.
Print Assumptions C13_free_members_releases_exactly.

(* freeing the members again changes nothing: neither the object nor the ledger nor the trace *)
Theorem C13_free_members_idempotent : forall m s m' s', wf s -> owns m s -> free_members m s = (m', s') ->
  free_members m' s' = (m', s').
Proof. exact free_members_idempotent. Qed.
Print Assumptions C13_free_members_idempotent.

(* ---- every operation keeps the ledger balanced *)
(* parse: on success the ledger grew by exactly the blocks of the (borrowed) object, which owns them; on a
   syntax error or out-of-memory the live blocks are those from before the call (no residue) *)
Theorem C13_parse_balanced : forall t s0, wf s0 ->
  match parse_m t s0 with
  | (MOk m, s') => wf s' /\ ext s0 s' /\ owns m s' /\ m_owner m = false
                   /\ Permutation (live_ids s') (muri_blocks m ++ live_ids s0)
  | (MSyntax _, s') => wf s' /\ ext s0 s' /\ Permutation (live_ids s') (live_ids s0)
  | (MMalloc, s') => wf s' /\ ext s0 s' /\ Permutation (live_ids s') (live_ids s0) /\ fails_between s0 s'
  end.
Proof. exact parse_m_no_residue. Qed.
Print Assumptions C13_parse_balanced.

(* [ext s0 s'] contains: no bad release, the plan is unchanged, counters only grow *)
Theorem C13_ext_meaning : forall s s', ext s s' ->
  bad_frees s' = bad_frees s /\ ms_plan s' = ms_plan s /\ ms_requests s <= ms_requests s' /\ ms_next s <= ms_next s'.
Proof. exact ext_meaning. Qed.
Print Assumptions C13_ext_meaning.

(* parse then release: the ledger is back to what it was *)
Theorem C13_parse_release : forall t s0 m s1 m' s2, wf s0 -> parse_m t s0 = (MOk m, s1) -> free_members m s1 = (m', s2) ->
  wf s2 /\ bad_frees s2 = bad_frees s0 /\ Permutation (live_ids s2) (live_ids s0) /\ muri_blocks m' = []
  /\ free_members m' s2 = (m', s2).
Proof. exact parse_m_cleanup. Qed.
Print Assumptions C13_parse_release.

(* parsed objects have a non-empty scheme and a non-empty IPvFuture text when these are present (needed below) *)
Theorem C13_parsed_sane : forall t s m s', parse_m t s = (MOk m, s') -> sane m.
Proof. exact parse_m_sane. Qed.
Print Assumptions C13_parsed_sane.

(* in-place operations: what the object held before plus what the ledger holds now = what the object holds
   now plus what the ledger held before; the result owns its blocks; no bad release *)
Theorem C13_make_owner_balanced : forall csize m s, wf s -> owns m s ->
  match make_owner_m csize m s with
  | (rc, m', s') =>
    wf s' /\ bad_frees s' = bad_frees s /\ owns m' s'
    /\ Permutation (live_ids s' ++ muri_blocks m) (muri_blocks m' ++ live_ids s)
    /\ ((rc = URI_SUCCESS /\ m_owner m' = true) \/ (rc = URI_ERROR_MALLOC /\ m_owner m' = false /\ fails_between s s'))
  end.
Proof. exact make_owner_m_balanced. Qed.
Print Assumptions C13_make_owner_balanced.

(* hypothesis [sane]: only for a borrowed object, and only hand-built objects can violate it (C13_parsed_sane);
   it cannot be dropped: C14_normalize_insane_refuted *)
Theorem C13_normalize_balanced : forall csize mask m s, wf s -> owns m s -> (m_owner m = false -> sane m) ->
  match normalize_m csize mask m s with
  | (rc, m', s') =>
    wf s' /\ bad_frees s' = bad_frees s /\ owns m' s'
    /\ Permutation (live_ids s' ++ muri_blocks m) (muri_blocks m' ++ live_ids s)
    /\ ((rc = URI_SUCCESS /\ (mask <> 0%N -> m_owner m' = true) /\ (mask = 0%N -> m' = m /\ s' = s))
        \/ (rc = URI_ERROR_MALLOC /\ m_owner m' = m_owner m /\ fails_between s s'))
  end.
Proof. exact normalize_m_balanced. Qed.
Print Assumptions C13_normalize_balanced.

(* operations with a destination: the ledger grew by exactly the blocks of the destination, which owns them;
   on any error the wrapper has released them already (and a further release is a no-op).  No hypothesis on
   the arguments: they are read, never released *)
Theorem C13_add_base_balanced : forall compat rel base s, wf s ->
  match add_base_m compat rel base s with
  | (rc, d, s') =>
    wf s' /\ bad_frees s' = bad_frees s /\ owns d s' /\ m_owner d = false
    /\ Permutation (live_ids s') (muri_blocks d ++ live_ids s)
    /\ (rc = URI_SUCCESS \/ rc = URI_ERROR_ADDBASE_REL_BASE \/ (rc = URI_ERROR_MALLOC /\ fails_between s s'))
    /\ (rc <> URI_SUCCESS -> muri_blocks d = [] /\ free_members d s' = (d, s'))
  end.
Proof. exact add_base_m_balanced. Qed.
Print Assumptions C13_add_base_balanced.

Theorem C13_remove_base_balanced : forall domain_root src base s, wf s ->
  match remove_base_m domain_root src base s with
  | (rc, d, s') =>
    wf s' /\ bad_frees s' = bad_frees s /\ owns d s' /\ m_owner d = false
    /\ Permutation (live_ids s') (muri_blocks d ++ live_ids s)
    /\ (rc = URI_SUCCESS \/ rc = URI_ERROR_REMOVEBASE_REL_BASE \/ rc = URI_ERROR_REMOVEBASE_REL_SOURCE
        \/ (rc = URI_ERROR_MALLOC /\ fails_between s s'))
    /\ (rc <> URI_SUCCESS -> muri_blocks d = [] /\ free_members d s' = (d, s'))
  end.
Proof. exact remove_base_m_balanced. Qed.
Print Assumptions C13_remove_base_balanced.

(* ---- [sane] is kept by every operation, so the theorems above chain over any history *)
Theorem C13_sane_is_kept : forall csize,
  (forall mask m s, sane m -> sane (snd (fst (normalize_m csize mask m s))))
  /\ (forall m s, sane m -> sane (snd (fst (make_owner_m csize m s))))
  /\ (forall compat rel base s, sane rel -> sane base -> sane (snd (fst (add_base_m compat rel base s))))
  /\ (forall dr src base s, sane src -> sane base -> sane (snd (fst (remove_base_m dr src base s))))
  /\ (forall m s, sane m -> sane (fst (free_members m s))).
Proof.
  exact (fun csize => conj (normalize_m_sane csize) (conj (make_owner_m_sane csize)
           (conj add_base_m_sane (conj remove_base_m_sane free_members_sane)))).
Qed.
Print Assumptions C13_sane_is_kept.

(* ---- arbitrary histories.  A store of objects and a ledger; [hstep] (Proofs/LedgerHistory.v) applies one of:
   parse a text (a new object when it parses), normalize / make owner / free members on object i in place,
   add base / remove base of objects i, j (a new object, whatever the call returns); steps naming an object that
   does not exist do nothing.  From the empty store and the empty ledger, under ANY fault plan and for ANY list of
   steps: the live blocks are exactly the blocks of the objects of the store ([balanced]: also every object is
   consistent with its owner flag), and no release ever hit a block that was not live.
   [_partial]: the operations are the six covered ones; the query-list functions are not among them. *)
Theorem C13_any_history_balanced_partial : forall csize p ops,
  let st := hrun csize ops ([], ms_init p) in balanced (fst st) (snd st) /\ bad_frees (snd st) = 0.
Proof. exact history_balanced. Qed.
Print Assumptions C13_any_history_balanced_partial.

Theorem C13_balanced_meaning : forall objs s, balanced objs s <->
  (wf s /\ Forall (fun m => consistent m /\ sane m) objs /\ Permutation (live_ids s) (flat_map muri_blocks objs)).
Proof. exact balanced_meaning. Qed.
Print Assumptions C13_balanced_meaning.

(* ... and once every object of the store has been released (free members on each), nothing is outstanding *)
Theorem C13_any_history_then_release_leaves_nothing_partial : forall csize p ops,
  let st := hrun csize ops ([], ms_init p) in
  let st' := hrun csize (free_all (length (fst st))) st in
  ms_live (snd st') = [] /\ bad_frees (snd st') = 0.
Proof. exact history_then_release_leaves_nothing. Qed.
Print Assumptions C13_any_history_then_release_leaves_nothing_partial.

(* ---- three concrete shapes of histories, spelled out (instances of the above) *)
Theorem C13_history_parse_normalize_free_partial : forall csize p t mask,
  match parse_m t (ms_init p) with
  | (MOk m, s1) =>
    let '(rc, m', s2) := normalize_m csize mask m s1 in
    let '(m'', s3) := free_members m' s2 in
    ms_live s3 = [] /\ bad_frees s3 = 0 /\ free_members m'' s3 = (m'', s3)
  | (_, s1) => ms_live s1 = [] /\ bad_frees s1 = 0
  end.
Proof. exact history_parse_normalize_free. Qed.
Print Assumptions C13_history_parse_normalize_free_partial.

Theorem C13_history_parse_make_owner_free_partial : forall csize p t,
  match parse_m t (ms_init p) with
  | (MOk m, s1) =>
    let '(rc, m', s2) := make_owner_m csize m s1 in
    let '(m'', s3) := free_members m' s2 in
    ms_live s3 = [] /\ bad_frees s3 = 0 /\ free_members m'' s3 = (m'', s3)
  | (_, s1) => ms_live s1 = [] /\ bad_frees s1 = 0
  end.
Proof. exact history_parse_make_owner_free. Qed.
Print Assumptions C13_history_parse_make_owner_free_partial.

Theorem C13_history_parse_add_base_free_partial : forall p compat tr tb,
  match parse_m tr (ms_init p) with
  | (MOk rel, s1) =>
    match parse_m tb s1 with
    | (MOk base, s2) =>
      let '(rc, d, s3) := add_base_m compat rel base s2 in
      let '(d', s4) := free_members d s3 in
      let '(rel', s5) := free_members rel s4 in
      let '(base', s6) := free_members base s5 in
      ms_live s6 = [] /\ bad_frees s6 = 0
    | (_, s2) => let '(rel', s3) := free_members rel s2 in ms_live s3 = [] /\ bad_frees s3 = 0
    end
  | (_, s1) => ms_live s1 = [] /\ bad_frees s1 = 0
  end.
Proof. exact history_parse_add_base_free. Qed.
Print Assumptions C13_history_parse_add_base_free_partial.

(* the hypotheses are satisfiable and the statements are not vacuous: "s://1.2.3.4/a/../b" parsed, normalized
   with every bit, released; 6 requests, the 4th refused *)
Example C13_nonvacuous :
  let t := [115; 58; 47; 47; 49; 46; 50; 46; 51; 46; 52; 47; 97; 47; 46; 46; 47; 98]%N in
  (exists m s1, parse_m t (ms_init NoFault) = (MOk m, s1) /\ length (ms_live s1) = 4 /\ owns m s1 /\ sane m
     /\ exists m' s2, normalize_m 1 63 m s1 = (URI_SUCCESS, m', s2) /\ m_owner m' = true /\ length (muri_blocks m') = 5)
  /\ (exists m s1, parse_m t (ms_init (FailOnce 6)) = (MOk m, s1)
     /\ exists m' s2, normalize_m 1 63 m s1 = (URI_ERROR_MALLOC, m', s2) /\ m_owner m' = false /\ ms_requests s2 = 6).
Proof.
  cbv zeta. split.
  - pose proof (parse_m_no_residue [115; 58; 47; 47; 49; 46; 50; 46; 51; 46; 52; 47; 97; 47; 46; 46; 47; 98]%N (ms_init NoFault) (wf_init _)) as H.
    destruct (parse_m _ (ms_init NoFault)) as [[m|?|] s1] eqn:E; vm_compute in E; try discriminate.
    exists m, s1. split; [reflexivity|]. split; [injection E as <- <-; reflexivity|]. split; [apply H|].
    split; [injection E as <- <-; split; discriminate|].
    injection E as <- <-. eexists; eexists. split; [vm_compute; reflexivity|]. split; reflexivity.
  - eexists; eexists. split; [vm_compute; reflexivity|].
    eexists; eexists. split; [vm_compute; reflexivity|]. split; reflexivity.
Qed.
