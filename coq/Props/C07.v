(* C07 -- URIs produced by the library keep their meaning when written and read back.
   Statements only; proofs in Proofs/RereadProofs.v (this part) and in the per-operation files.

   STRUCTURE.  The property has two halves.
   (1) This part, independent of any operation: an object that satisfies [produced_wf]
       (Spec/Reread.v: every component consists of the characters of its grammar rule, the host
       fields describe one kind of host and exclude the absolute-path flag, user info and port only
       with a host, and the path text does not begin with "//" without a host nor has ":" in its first
       segment without scheme and host) is written by uriToString ([to_text], Model/Recompose.v) as a
       text that
         - is a URI reference of RFC 3986                                   C07_text_valid
         - is split by RFC 3986 (Spec/Split.v) into the same meaning         C07_text_splits
         - is accepted by the parser, and the parsed object has the same
           meaning ([same_meaning]: scheme, user info, host, port, path text,
           query, fragment)                                                 C07_reread
       and the two ambiguity clauses of [produced_wf] cannot be dropped: an object violating one of
       them (and otherwise as harmless as can be) is never read back with the same meaning
                                                                            C07_ambiguity_necessary_dslash
                                                                            C07_ambiguity_necessary_colon
       These two justify the carve-outs made for known defects in part (2): where an operation
       produces such an object the property does fail for it.
   (2) Per operation (parse, add-base, remove-base, normalize, make-owner): the object returned
       satisfies [produced_wf] whenever the arguments do.  Those theorems are appended below by the
       files that prove them.

   [produced_wf] is decidable: Proofs/RereadWfb.v [produced_wfb], [produced_wfb_spec]; the examples at
   the end use it to show that the hypotheses are satisfiable (every host kind, every path shape). *)
From Coq Require Import List NArith Bool String.
From UP Require Spec.Rfc3986.
From UP Require Import Base.Chars Base.Regex Model.Uri Model.Parse Model.Recompose
  Spec.Split Spec.Unparse Spec.Reread Proofs.RereadWfb Proofs.RereadProofs.
From UP Require Proofs.ResolveProofs.
Import ListNotations.
Local Open Scope N_scope.

(* the text written for a well-formed object is a URI reference *)
Theorem C07_text_valid : forall u, produced_wf u -> matches Rfc3986.URI_reference (to_text u).
Proof. exact produced_text_valid. Qed.
Print Assumptions C07_text_valid.

(* the components RFC 3986 assigns to that text are the object's *)
Theorem C07_text_splits : forall u, produced_wf u -> same_meaning u (split_spec (to_text u)).
Proof. exact produced_text_splits. Qed.
Print Assumptions C07_text_splits.

(* uriParseSingleUri accepts that text, and the object it builds has the same meaning *)
Theorem C07_reread : forall u, produced_wf u ->
  exists v, parse (to_text u) = POk v /\ same_meaning u v.
Proof. exact produced_reread. Qed.
Print Assumptions C07_reread.

(* no host, but the path text begins with "//": what is read back has an authority -- neither the
   RFC splitting nor any parse result has the meaning of the object *)
Theorem C07_ambiguity_necessary_dslash : forall u,
  opt_ok scheme_ok (scheme u) -> is_host_set u = false ->
  head_is 47 (path_text u) && head_is 47 (tl (path_text u)) = true ->
  ~ same_meaning u (split_spec (to_text u))
  /\ forall v, parse (to_text u) = POk v -> ~ same_meaning u v.
Proof. exact dslash_necessary. Qed.
Print Assumptions C07_ambiguity_necessary_dslash.

(* no scheme, no host, ":" in the first segment of the path text: the text is either no URI
   reference at all ("1:b") or read back with a scheme ("a:b") *)
Theorem C07_ambiguity_necessary_colon : forall u,
  scheme u = None -> is_host_set u = false -> Forall (text_ok is_pchar) (pathSegs u) ->
  In 58 (fst (span_until [47] (path_text u))) ->
  ~ (matches Rfc3986.URI_reference (to_text u) /\ same_meaning u (split_spec (to_text u)))
  /\ forall v, parse (to_text u) = POk v -> ~ same_meaning u v.
Proof. exact colon_necessary. Qed.
Print Assumptions C07_ambiguity_necessary_colon.

(* ---- non-vacuity ---------------------------------------------------------------------------- *)
Local Open Scope string_scope.
Notation txt := ResolveProofs.txt.

Definition C07_of_parse (s : string) : uri := match parse (txt s) with POk u => u | _ => empty_uri end.
Definition C07_obj sc ui h i4 i6 fu po ps q f ab := mkUri sc ui h i4 i6 fu po ps q f ab false.
Definition C07_bytes : list N := [32; 1; 13; 184; 0; 0; 0; 0; 0; 0; 0; 0; 0; 0; 255; 1].

(* parsed objects and hand-made ones: IPv4 / IPv6 / IPvFuture / registered-name hosts (among them the
   name "1.2.3.4" without octets and the empty host with a port), an IPv6 object whose host text is
   not what is written, paths with a leading empty segment but no absolute-path flag, a lone empty
   segment, scheme only, empty but present query and fragment *)
Definition C07_samples : list uri := [
  C07_of_parse "http://u:p@1.2.3.4:80/a/b?q#f";
  C07_of_parse "//[::1]/x";
  C07_of_parse "//[2001:db8::1.2.3.4]:1";
  C07_of_parse "s://[v1F.a:b]/";
  C07_of_parse "a:b";
  C07_of_parse "s:";
  C07_of_parse "?#";
  C07_of_parse "//:80";
  C07_of_parse "/a//b/";
  C07_of_parse "./a:b";
  C07_of_parse "//h/";
  C07_of_parse "";
  C07_obj None None (Some (txt "1.2.3.4")) None None None None [] None None false;
  C07_obj None None (Some (txt "1.2.3.4")) (Some [1; 2; 3; 4]%N) None None None [txt "a"] None None false;
  C07_obj (Some (txt "s")) (Some (txt "u")) (Some (txt "whatever")) None (Some C07_bytes) None (Some (txt ""))
          [txt ""; txt ""] (Some (txt "")) (Some (txt "")) false;
  C07_obj None None (Some (txt "vA.b")) None None (Some (txt "vA.b")) None [] None None false;
  C07_obj None None (Some (txt "")) None None None (Some (txt "8")) [] None None false;
  C07_obj None None None None None None None [txt ""; txt "b"] None None false;
  C07_obj None None None None None None None [txt ""] None None false;
  C07_obj (Some (txt "s")) None None None None None None [txt ""] None None false;
  C07_obj (Some (txt "s")) None None None None None None [txt "a:b"; txt ""] None None true;
  C07_obj None None None None None None None [] (Some (txt "")) (Some (txt "")) false;
  C07_obj None None None None None None None [txt "a%41"; txt "c:d"] None None false;
  C07_obj None None None None None None None [txt ""; txt ""] None None false;
  C07_obj (Some (txt "s")) None (Some (txt "%41b")) None None None None [txt ""] None None false ].

Example C07_ex_wf : Forall produced_wf C07_samples.
Proof.
  apply Forall_forall. intros u Hu. apply produced_wfb_sound. revert u Hu. apply forallb_forall.
  vm_compute. reflexivity.
Qed.

(* ... and, by computation, what the three theorems say about them *)
Example C07_ex_computed :
  forallb (fun u => matchb Rfc3986.URI_reference (to_text u)
                    && same_meaningb u (split_spec (to_text u))
                    && match parse (to_text u) with POk v => same_meaningb u v | _ => false end)
          C07_samples = true.
Proof. vm_compute. reflexivity. Qed.

(* the hypotheses of the two necessity theorems: segments ["", "", "b"] without flag and host
   (text "//b"), and the segment "a:b" first in a relative reference *)
Example C07_ex_dslash :
  let u := C07_obj None None None None None None None [txt ""; txt ""; txt "b"] None None false in
  opt_ok scheme_ok (scheme u) /\ is_host_set u = false
  /\ head_is 47 (path_text u) && head_is 47 (tl (path_text u)) = true.
Proof. vm_compute. auto. Qed.

Example C07_ex_colon :
  let u := C07_obj None None None None None None None [txt "a:b"] None None false in
  scheme u = None /\ is_host_set u = false /\ Forall (text_ok is_pchar) (pathSegs u)
  /\ In 58%N (fst (span_until [47%N] (path_text u))).
Proof.
  cbv zeta. split; [reflexivity|]. split; [reflexivity|]. split.
  - repeat constructor.
  - vm_compute. auto.
Qed.
