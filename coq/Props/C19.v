(* C19 -- the char and wchar_t APIs behave identically.  Statements only.

   This property is PARTIAL BY NATURE as a theorem.  The model is written once over code points
   (Base/Chars.v: characters are N, texts are list N), so "each wide-character function returns the same
   code, components, text, error offsets, counts and required sizes as its narrow counterpart" is true of
   the model by construction: there is one model function for both builds, and parse_m, add_base_m,
   remove_base_m and every pure-tier function (parse, to_string / chars_required, the query and file-name
   functions, compare, ...) do not take the character size at all -- their Coq types show it.  What ties
   the two C builds to that single model is the run-time correspondence: every gen/cNN.py runs the A and
   the W flavour (and the ASan "exact buffer" flavours) against the same model output.
   What CAN be a theorem, and is proved here, is the second sentence of the property for the only
   model functions that mention the character size [csize] = sizeof(URI_CHAR), uriMakeOwnerMm and
   uriNormalizeSyntaxExMm: all sizes and copies are computed in characters rather than bytes.
   The theorems pin that contract; gen/c14.py checks the real allocation traces of both builds against it.

   Vocabulary (Proofs/OwnershipProofs.v, Part 0, Part 4, Part 6):
     areq                an allocation request counted in characters: RText n (a text of n characters),
                         RNode calloc (a path-segment node), RIp4, RIp6
     req_event csize r   the ledger event of the request in a build with sizeof(URI_CHAR) = csize:
                         RText n -> EvMalloc (n * csize) true; RNode true -> EvCalloc SEG_SIZE true;
                         RNode false / RIp4 / RIp6 -> EvMalloc SEG_SIZE / IP4_SIZE / IP6_SIZE true
                         (structure sizes do not depend on csize)
     owner_plan u        the requests of make-owner on a borrowed object of value u: one RText (length t)
                         for each present non-empty text, in the order scheme, userInfo, query, fragment,
                         host (the ipFuture range if set, else hostText), segments, portText
     normalize_plan mask owned u
                         the requests of normalisation: for a borrowed object the copies of the masked
                         components (lengths BEFORE normalisation, as the C code allocates before it
                         rewrites), the segment copies, the trailing node of the dot-segment walk if it
                         needs one, the node (malloc: RNode false) and the one-character copy (RText 1) of
                         the "." segment if the guard against a path beginning with "//" fires (path_guard),
                         then the make-owner requests of what is left; for an owned object (in place) at
                         most that trailing node and the two requests of the guard.  A function of mask and
                         value only.
     path_guard mask u   uriFixAmbiguity fires in the path step of the normalisation of u (see Props/C12.v)
     new_events s s'     the events appended between the ledger states s and s'
     allocs tr           the allocation requests of a trace (releases dropped: a release prints the size
                         recorded when the block was handed out)
     trace_chars csize tr   every EvMalloc size divided by csize
     text_or_node r      r is RText _ or RNode true
     seg_or_text r       r is RText _ or RNode _ (calloc'd or malloc'd node)
   A malloc'd node is an EvMalloc of SEG_SIZE bytes in every build, and no event says whether it is a text or
   a structure: [trace_chars] divides it by csize like a text.  So "the same requests, counted in
   characters" is stated with the plan (one list of areq, both byte traces are its images under req_event);
   the comparison through trace_chars is kept where it is true, i.e. when the guard does not fire
   (C19_trace_chars_guard shows that it fails otherwise).
   All theorems: fault plan NoFault, csize arbitrary (csize <> 0 where a division is involved), every
   well-formed input (mwf, see Props/C12.v).

   Missing for the full property (hence the _partial suffix on the summary theorem): nothing is proved
   about the C code itself; functions whose model does not mention csize are covered only by
   construction; byte sizes of releases are not related across builds; "wide results are complete and
   never overrun or under-fill their buffers" for the string-producing functions is C05 / C17 / C18 on
   the shared model plus the -DDRV_EXACT ASan builds of the W flavour, not a theorem here. *)
From Coq Require Import List NArith Bool.
From UP Require Import Base.Chars Model.Uri Model.Normalize Model.Mem Model.OpsM Proofs.OwnershipProofs.
Import ListNotations.
Local Open Scope N_scope.

(* make-owner on a borrowed object: the events it adds are exactly the text copies of the plan, each of
   length * csize bytes, and nothing else (no release, no node) *)
Theorem C19_make_owner_requests : forall csize m s rc m' s',
  nofault s -> mwf m -> m_owner m = false -> make_owner_m csize m s = (rc, m', s') ->
  new_events s s' = map (req_event csize) (owner_plan (erase m)).
Proof. exact C19_make_owner_requests_stmt. Qed.
Print Assumptions C19_make_owner_requests.

(* normalisation, borrowed or owned, any non-zero mask: the allocation requests it adds are exactly the
   plan's: text copies of length * csize bytes, nodes of SEG_SIZE bytes *)
Theorem C19_normalize_requests : forall csize mask m s rc m' s',
  nofault s -> mwf m -> mask <> 0 -> normalize_m csize mask m s = (rc, m', s') ->
  allocs (trace_of s') = allocs (trace_of s) ++ map (req_event csize) (normalize_plan mask (m_owner m) (erase m)).
Proof. exact C19_normalize_requests_stmt. Qed.
Print Assumptions C19_normalize_requests.

(* the plans consist of text copies and list nodes only; unless the guard fires the nodes are
   zero-initialised (calloc), so dividing the malloc sizes by csize recovers the character counts whatever
   the character type *)
Theorem C19_plans_kind : forall mask owned u,
  Forall text_or_node (owner_plan u)
  /\ Forall seg_or_text (normalize_plan mask owned u)
  /\ (path_guard mask u = false -> Forall text_or_node (normalize_plan mask owned u)).
Proof. exact C19_plans_kind_stmt. Qed.
Print Assumptions C19_plans_kind.

Theorem C19_trace_chars : forall c1 c2 plan, c1 <> 0 -> c2 <> 0 -> Forall text_or_node plan ->
  trace_chars c1 (map (req_event c1) plan) = trace_chars c2 (map (req_event c2) plan).
Proof. exact trace_chars_two. Qed.
Print Assumptions C19_trace_chars.

(* two builds, two ledgers: same return code, same value, same trace in characters *)
Theorem C19_make_owner_two_sizes_partial : forall c1 c2 m s1 s2,
  c1 <> 0 -> c2 <> 0 -> nofault s1 -> nofault s2 -> mwf m -> m_owner m = false ->
  let r1 := make_owner_m c1 m s1 in let r2 := make_owner_m c2 m s2 in
  fst (fst r1) = fst (fst r2)
  /\ erase (snd (fst r1)) = erase (snd (fst r2))
  /\ trace_chars c1 (new_events s1 (snd r1)) = trace_chars c2 (new_events s2 (snd r2)).
Proof. exact C19_make_owner_two_sizes_stmt. Qed.
Print Assumptions C19_make_owner_two_sizes_partial.

Theorem C19_normalize_two_sizes_partial : forall c1 c2 mask m s1 s2,
  c1 <> 0 -> c2 <> 0 -> nofault s1 -> nofault s2 -> mwf m -> mask <> 0 ->
  let r1 := normalize_m c1 mask m s1 in let r2 := normalize_m c2 mask m s2 in
  fst (fst r1) = fst (fst r2)
  /\ erase (snd (fst r1)) = erase (snd (fst r2))
  /\ exists ev1 ev2, allocs (trace_of (snd r1)) = allocs (trace_of s1) ++ ev1
                  /\ allocs (trace_of (snd r2)) = allocs (trace_of s2) ++ ev2
                  /\ (exists plan, Forall seg_or_text plan
                                   /\ ev1 = map (req_event c1) plan /\ ev2 = map (req_event c2) plan)
                  /\ (path_guard mask (erase m) = false -> trace_chars c1 ev1 = trace_chars c2 ev2).
Proof. exact C19_normalize_two_sizes_stmt. Qed.
Print Assumptions C19_normalize_two_sizes_partial.

(* "/.//x", PATH bit, char (1) against wchar_t (4): the guard fires, and the two traces divided by the
   character size differ at the malloc'd node (32 against 8); ev1 and ev2 are determined by the equations *)
Theorem C19_trace_chars_guard :
  exists m s, nofault s /\ mwf m /\ m_owner m = false /\ path_guard 8 (erase m) = true
    /\ exists ev1 ev2, allocs (trace_of (snd (normalize_m 1 8 m s))) = allocs (trace_of s) ++ ev1
                    /\ allocs (trace_of (snd (normalize_m 4 8 m s))) = allocs (trace_of s) ++ ev2
                    /\ trace_chars 1 ev1 <> trace_chars 4 ev2.
Proof. exact normalize_two_sizes_trace_chars_witness. Qed.
Print Assumptions C19_trace_chars_guard.

(* "//H%41/a/b/.." normalised with every bit, char (1) and wchar_t (4): host copied as 4 characters, three
   segment copies, the trailing node of the dot-segment walk *)
Example C19_nonvacuous :
  let t := [47; 47; 72; 37; 52; 49; 47; 97; 47; 98; 47; 46; 46] in
  match ParseM.parse_m t (ms_init NoFault) with
  | (ParseM.MOk m, s1) =>
    normalize_plan 63 false (erase m) = [RText 4; RText 1; RText 1; RText 2; RNode true]
    /\ (let '(_, _, s2) := normalize_m 1 63 m s1 in
        allocs (new_events s1 s2) = [EvMalloc 4 true; EvMalloc 1 true; EvMalloc 1 true; EvMalloc 2 true; EvCalloc 32 true])
    /\ (let '(_, _, s2) := normalize_m 4 63 m s1 in
        allocs (new_events s1 s2) = [EvMalloc 16 true; EvMalloc 4 true; EvMalloc 4 true; EvMalloc 8 true; EvCalloc 32 true])
  | _ => False
  end.
Proof. vm_compute. repeat split. Qed.

(* "/.//x" normalised with the PATH bit, char (1) and wchar_t (4): the two segment copies, then the node
   (malloc, SEG_SIZE bytes in both builds) and the one-character copy of the guard's "." segment *)
Example C19_guard_requests :
  let t := [47; 46; 47; 47; 120] in
  match ParseM.parse_m t (ms_init NoFault) with
  | (ParseM.MOk m, s1) =>
    path_guard 8 (erase m) = true
    /\ normalize_plan 8 false (erase m) = [RText 1; RText 1; RNode false; RText 1]
    /\ (let '(_, _, s2) := normalize_m 1 8 m s1 in
        allocs (new_events s1 s2) = [EvMalloc 1 true; EvMalloc 1 true; EvMalloc 32 true; EvMalloc 1 true])
    /\ (let '(_, _, s2) := normalize_m 4 8 m s1 in
        allocs (new_events s1 s2) = [EvMalloc 4 true; EvMalloc 4 true; EvMalloc 32 true; EvMalloc 4 true])
  | _ => False
  end.
Proof. vm_compute. repeat split. Qed.
