(* Shapes of the known deviations of uriparser 0.9.8 from the properties.  Each shape is a
   decidable predicate over what the specification expects and what was obtained; the check
   suppresses an oracle failure only if it has one of the shapes listed (as open) in
   known_findings.json, and the theorems about the model carve out exactly these shapes. *)
From Coq Require Import List NArith Bool.
From UP Require Import Base.Chars Base.Regex Spec.Resolve Spec.Normal Spec.Split.
Import ListNotations.
Local Open Scope N_scope.

(* ---- C06: resolution.  [spec] and [got] are the recomposed result texts. ---------------- *)
(* D4: a host-less result whose path begins with "//" is written without the "/." guard
       (the reference kept its scheme or had an absolute path: no uriFixAmbiguity on those branches) *)
Definition c06_unguarded_dslash (spec got : text) : bool :=
  let s := five_of_text spec in let g := five_of_text got in
  negb (is_some_t (f_auth s)) && starts_with [47; 46; 47; 47] (f_path s)
  && is_some_t (f_auth g)                     (* the text now reads as an authority *)
  && text_eqb (recompose (mkFive (f_scheme s) None (skipn 2 (f_path s)) (f_query s) (f_frag s))) got.
(* D5: a "/." is inserted although the result has an authority *)
Definition c06_spurious_dot_with_host (spec got : text) : bool :=
  let s := five_of_text spec in let g := five_of_text got in
  is_some_t (f_auth s) && starts_with [47; 47] (f_path s)
  && text_eqb (f_path g) (47 :: 46 :: f_path s)
  && text_eqb (recompose (mkFive (f_scheme g) (f_auth g) (f_path s) (f_query g) (f_frag g))) spec.
(* D12: the host-less result path "/" is written "/./" *)
Definition c06_lone_slash (spec got : text) : bool :=
  let s := five_of_text spec in let g := five_of_text got in
  negb (is_some_t (f_auth s)) && text_eqb (f_path s) [47] && text_eqb (f_path g) [47; 46; 47]
  && text_eqb (recompose (mkFive (f_scheme g) (f_auth g) [47] (f_query g) (f_frag g))) spec.

Definition c06_shape (spec got : text) : N :=
  if c06_unguarded_dslash spec got then 4
  else if c06_spurious_dot_with_host spec got then 5
  else if c06_lone_slash spec got then 12
  else 0.

(* ---- C08 / C09: normalization.  [u] is the text before, [spec] the specified normal form,
        [got] the text obtained. ------------------------------------------------------------- *)
Definition same_but_path (a b : five) : bool :=
  match f_scheme a, f_scheme b with Some x, Some y => text_eqb x y | None, None => true | _, _ => false end
  && match f_auth a, f_auth b with Some x, Some y => text_eqb x y | None, None => true | _, _ => false end
  && match f_query a, f_query b with Some x, Some y => text_eqb x y | None, None => true | _, _ => false end
  && match f_frag a, f_frag b with Some x, Some y => text_eqb x y | None, None => true | _, _ => false end.

(* D7a: a relative-path reference whose dot segments cancel completely becomes the empty path *)
Definition c08_rel_cancels (u spec got : text) : bool :=
  let s := five_of_text spec in let g := five_of_text got in
  rel_path_ref (five_of_text u) && same_but_path s g
  && text_eqb (f_path s) [46; 47] && match f_path g with [] => true | _ => false end.
(* D7b: cancellation exposes a first segment containing ':' (read back as a scheme) *)
Definition c08_rel_exposes_colon (u spec got : text) : bool :=
  let s := five_of_text spec in
  rel_path_ref (five_of_text u) && starts_with [46; 47] (f_path s)
  && text_eqb (recompose (mkFive (f_scheme s) (f_auth s) (skipn 2 (f_path s)) (f_query s) (f_frag s))) got
  && Normal.has_colon (fst (span_until [47] (skipn 2 (f_path s)))).
(* D7c: cancellation exposes an empty first segment (the relative path becomes absolute) *)
Definition c08_rel_exposes_empty (u spec got : text) : bool :=
  let s := five_of_text spec in
  rel_path_ref (five_of_text u) && starts_with [46; 47; 47] (f_path s)
  && text_eqb (recompose (mkFive (f_scheme s) (f_auth s) (skipn 2 (f_path s)) (f_query s) (f_frag s))) got.
(* D3: the hex digits of a percent-encoding that stays encoded in a registered name are lower-cased *)
Definition c08_host_triplet_case (u spec got : text) : bool :=
  let s := five_of_text spec in let g := five_of_text got in
  negb (text_eqb spec got)
  && match f_auth s, f_auth g with
     | Some x, Some y => text_eqb (map lower x) (map lower y) && existsb (fun c => c =? 37) x
     | _, _ => false
     end
  && text_eqb (recompose (mkFive (f_scheme g) (f_auth s) (f_path g) (f_query g) (f_frag g))) spec.

(* D7d: an essential "." kept in front of a "x:y" segment stays after that segment was cancelled:
        "./b:c/../x" gives "./x" (and "x" when normalised again) *)
Definition c08_rel_stale_dot (u spec got : text) : bool :=
  let s := five_of_text spec in let g := five_of_text got in
  rel_path_ref (five_of_text u) && same_but_path s g
  && negb (starts_with [46; 47] (f_path s)) && text_eqb (f_path g) (46 :: 47 :: f_path s).
(* D7e: the kept "." is then cancelled by a following ".." as if it were a name:
        "./b:c/../../x" gives "x" instead of "../x".  Third form, since the repair of D14: what is left after the
        eaten ".." begins with two empty segments and gets the guard's "." ("./b:c/../..//" gives ".//", not "..//"),
        i.e. got = "./" ++ X and spec = "../" ++ X with X beginning with "/" *)
Definition c08_rel_dot_eaten (u spec got : text) : bool :=
  let s := five_of_text spec in let g := five_of_text got in
  rel_path_ref (five_of_text u) && same_but_path s g
  && (text_eqb (f_path s) (46 :: 46 :: 47 :: f_path g)
      || (text_eqb (f_path s) [46; 46] && match f_path g with [] => true | _ => false end)
      || (starts_with [46; 47; 47] (f_path g) && text_eqb (f_path s) (46 :: f_path g))).

(* (code 14, D14 -- the normal form of a host-less path begins with "//" and was written without guard --
   is no longer attributed: repaired in uriNormalizeSyntaxEngine) *)
Definition c08_shape (u spec got : text) : N :=
  if c08_rel_stale_dot u spec got then 74
  else if c08_rel_dot_eaten u spec got then 75
  else if c08_rel_cancels u spec got then 71
  else if c08_rel_exposes_empty u spec got then 73
  else if c08_rel_exposes_colon u spec got then 72
  else if c08_host_triplet_case u spec got then 3
  else 0.

(* C09: kind of a reference: 0 = has scheme or authority (presence compared separately),
   1 = empty path, 2 = absolute path, 3 = relative path *)
Definition ref_kind (t : text) : N * N * N :=
  let f := five_of_text t in
  ((if is_some_t (f_scheme f) then 1 else 0), (if is_some_t (f_auth f) then 1 else 0),
   match f_path f with [] => 1 | _ => if head_is 47 (f_path f) then 2 else 3 end).
