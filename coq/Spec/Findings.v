(* Shapes of the known deviations of uriparser 0.9.8 from the properties.  Each shape is a
   decidable predicate over what the specification expects and what was obtained; the check
   suppresses an oracle failure only if it has one of the shapes listed (as open) in
   known_findings.json, and the theorems about the model carve out exactly these shapes. *)
From Coq Require Import List NArith Bool.
From UP Require Import Base.Chars Base.Regex Spec.Resolve Spec.Normal Spec.Split.
Import ListNotations.
Local Open Scope N_scope.

(* ---- C06: resolution.  [spec] and [got] are the recomposed result texts. ---------------- *)
(* D4: a host-less result whose path begins with "//" is written without the "/." guard
       (the reference kept its scheme or had an absolute path: no uriFixAmbiguity on those branches) *)
Definition c06_unguarded_dslash (spec got : text) : bool :=
  let s := five_of_text spec in let g := five_of_text got in
  negb (is_some_t (f_auth s)) && starts_with [47; 46; 47; 47] (f_path s)
  && is_some_t (f_auth g)                     (* the text now reads as an authority *)
  && text_eqb (recompose (mkFive (f_scheme s) None (skipn 2 (f_path s)) (f_query s) (f_frag s))) got.
(* D5: a "/." is inserted although the result has an authority *)
Definition c06_spurious_dot_with_host (spec got : text) : bool :=
  let s := five_of_text spec in let g := five_of_text got in
  is_some_t (f_auth s) && starts_with [47; 47] (f_path s)
  && text_eqb (f_path g) (47 :: 46 :: f_path s)
  && text_eqb (recompose (mkFive (f_scheme g) (f_auth g) (f_path s) (f_query g) (f_frag g))) spec.
(* D12: the host-less result path "/" is written "/./" *)
Definition c06_lone_slash (spec got : text) : bool :=
  let s := five_of_text spec in let g := five_of_text got in
  negb (is_some_t (f_auth s)) && text_eqb (f_path s) [47] && text_eqb (f_path g) [47; 46; 47]
  && text_eqb (recompose (mkFive (f_scheme g) (f_auth g) [47] (f_query g) (f_frag g))) spec.

Definition c06_shape (spec got : text) : N :=
  if c06_unguarded_dslash spec got then 4
  else if c06_spurious_dot_with_host spec got then 5
  else if c06_lone_slash spec got then 12
  else 0.
