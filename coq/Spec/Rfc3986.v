(* RFC 3986 Appendix A, "Collected ABNF for URI", transcribed rule by rule as a
   regular expression value (compare doc/rfc3986_grammar_only.txt in the repository).
   Character sets are written as lists of code points.  ABNF literal strings are
   case-insensitive, hence "v" is {v, V} and HEXDIG includes a-f. *)
From Coq Require Import List NArith.
From UP Require Import Base.Regex.
Import ListNotations.
Local Open Scope N_scope.

Fixpoint range (lo : N) (n : nat) : list N :=
  match n with O => [] | S k => lo :: range (lo + 1) k end.

Definition ch (c : N) : re := Chr [c].
Fixpoint seqs (l : list re) : re := match l with [] => Eps | [x] => x | x :: r => Seq x (seqs r) end.
Fixpoint alts (l : list re) : re := match l with [] => Emp | [x] => x | x :: r => Alt x (alts r) end.
Definition opt (r : re) : re := Alt Eps r.
Fixpoint rep (n : nat) (r : re) : re := match n with O => Eps | S k => Seq r (rep k r) end.   (* exactly n *)
Fixpoint upto (n : nat) (r : re) : re := match n with O => Eps | S k => opt (Seq r (upto k r)) end. (* 0..n *)
Definition plus (r : re) : re := Seq r (Star r).

(* core rules *)
Definition DIGIT := range 48 10.
Definition ALPHA := range 65 26 ++ range 97 26.
Definition HEXDIG := DIGIT ++ range 65 6 ++ range 97 6.

Definition unreserved := ALPHA ++ DIGIT ++ [45; 46; 95; 126].              (* - . _ ~ *)
Definition sub_delims := [33; 36; 38; 39; 40; 41; 42; 43; 44; 59; 61].     (* ! $ & ' ( ) * + , ; = *)

Definition pct_encoded := seqs [ch 37; Chr HEXDIG; Chr HEXDIG].
Definition pchar := alts [Chr (unreserved ++ sub_delims ++ [58; 64]); pct_encoded].   (* ... ":" "@" *)

Definition query := Star (Alt pchar (Chr [47; 63])).
Definition fragment := Star (Alt pchar (Chr [47; 63])).

Definition segment := Star pchar.
Definition segment_nz := plus pchar.
Definition segment_nz_nc := plus (Alt (Chr (unreserved ++ sub_delims ++ [64])) pct_encoded).

Definition path_abempty := Star (Seq (ch 47) segment).
Definition path_absolute := Seq (ch 47) (opt (Seq segment_nz (Star (Seq (ch 47) segment)))).
Definition path_noscheme := Seq segment_nz_nc (Star (Seq (ch 47) segment)).
Definition path_rootless := Seq segment_nz (Star (Seq (ch 47) segment)).
Definition path_empty := Eps.

Definition dec_octet := alts [
  Chr DIGIT;
  Seq (Chr (range 49 9)) (Chr DIGIT);
  seqs [ch 49; Chr DIGIT; Chr DIGIT];
  seqs [ch 50; Chr (range 48 5); Chr DIGIT];
  seqs [ch 50; ch 53; Chr (range 48 6)] ].
Definition IPv4address := seqs [dec_octet; ch 46; dec_octet; ch 46; dec_octet; ch 46; dec_octet].

Definition h16 := Seq (Chr HEXDIG) (upto 3 (Chr HEXDIG)).
Definition ls32 := Alt (seqs [h16; ch 58; h16]) IPv4address.
Definition h16c := Seq h16 (ch 58).
Definition dcolon := Seq (ch 58) (ch 58).
(* [ *n( h16 ":" ) h16 ] *)
Definition pre (n : nat) := opt (Seq (upto n h16c) h16).

Definition IPv6address := alts [
  seqs [rep 6 h16c; ls32];
  seqs [dcolon; rep 5 h16c; ls32];
  seqs [opt h16; dcolon; rep 4 h16c; ls32];
  seqs [pre 1; dcolon; rep 3 h16c; ls32];
  seqs [pre 2; dcolon; rep 2 h16c; ls32];
  seqs [pre 3; dcolon; h16c; ls32];
  seqs [pre 4; dcolon; ls32];
  seqs [pre 5; dcolon; h16];
  seqs [pre 6; dcolon] ].

Definition IPvFuture := seqs [Chr [118; 86]; plus (Chr HEXDIG); ch 46; plus (Chr (unreserved ++ sub_delims ++ [58]))].
Definition IP_literal := seqs [ch 91; Alt IPv6address IPvFuture; ch 93].

Definition reg_name := Star (Alt (Chr (unreserved ++ sub_delims)) pct_encoded).
Definition host := alts [IP_literal; IPv4address; reg_name].
Definition port := Star (Chr DIGIT).
Definition userinfo := Star (Alt (Chr (unreserved ++ sub_delims ++ [58])) pct_encoded).
Definition authority := seqs [opt (Seq userinfo (ch 64)); host; opt (Seq (ch 58) port)].

Definition scheme := Seq (Chr ALPHA) (Star (Chr (ALPHA ++ DIGIT ++ [43; 45; 46]))).

Definition hier_part := alts [
  seqs [ch 47; ch 47; authority; path_abempty];
  path_absolute;
  path_rootless;
  path_empty ].
Definition relative_part := alts [
  seqs [ch 47; ch 47; authority; path_abempty];
  path_absolute;
  path_noscheme;
  path_empty ].

Definition URI := seqs [scheme; ch 58; hier_part; opt (Seq (ch 63) query); opt (Seq (ch 35) fragment)].
Definition relative_ref := seqs [relative_part; opt (Seq (ch 63) query); opt (Seq (ch 35) fragment)].
Definition URI_reference := Alt URI relative_ref.
