(* RFC 3986 section 5.2 on strings: 5.2.2 transform references, 5.2.3 merge paths,
   5.2.4 remove dot segments, 5.3 recomposition.  A reference is its five components
   (scheme, authority, path, query, fragment) with undefined = None. *)
From Coq Require Import List NArith Bool.
From UP Require Import Base.Chars Base.Regex.
Import ListNotations.
Local Open Scope N_scope.

Record five := mkFive { f_scheme : option text; f_auth : option text; f_path : text;
                        f_query : option text; f_frag : option text }.

Fixpoint starts_with (p s : text) : bool :=
  match p, s with
  | [], _ => true
  | x :: p', y :: s' => (x =? y) && starts_with p' s'
  | _, [] => false
  end.
Fixpoint text_eqb (a b : text) : bool :=
  match a, b with
  | [], [] => true
  | x :: a', y :: b' => (x =? y) && text_eqb a' b'
  | _, _ => false
  end.

(* remove the last segment of the output buffer and its preceding "/" (if any) *)
Fixpoint drop_last_seg_rev (r : text) : text :=       (* r is the output reversed *)
  match r with
  | [] => []
  | c :: r' => if c =? 47 then r' else drop_last_seg_rev r'
  end.

(* first path segment of the input including the initial "/" (if any), and the rest *)
Fixpoint take_seg (s : text) (first : bool) : text * text :=
  match s with
  | [] => ([], [])
  | c :: r => if (c =? 47) && negb first then ([], s)
              else let (a, b) := take_seg r false in (c :: a, b)
  end.

(* 5.2.4, steps 2A-2E, the input buffer shrinking at each step (fuel = its length + 1) *)
Fixpoint rds_loop (fuel : nat) (inp : text) (out_rev : text) : text :=
  match fuel with
  | O => rev out_rev
  | S k =>
    match inp with
    | [] => rev out_rev
    | _ =>
      (* A *) if starts_with [46;46;47] inp then rds_loop k (skipn 3 inp) out_rev
      else if starts_with [46;47] inp then rds_loop k (skipn 2 inp) out_rev
      (* B *) else if starts_with [47;46;47] inp then rds_loop k (skipn 2 inp) out_rev
      else if text_eqb inp [47;46] then rds_loop k [47] out_rev
      (* C *) else if starts_with [47;46;46;47] inp then rds_loop k (skipn 3 inp) (drop_last_seg_rev out_rev)
      else if text_eqb inp [47;46;46] then rds_loop k [47] (drop_last_seg_rev out_rev)
      (* D *) else if text_eqb inp [46] || text_eqb inp [46;46] then rds_loop k [] out_rev
      (* E *) else let (seg, rest) := take_seg inp true in rds_loop k rest (rev seg ++ out_rev)
    end
  end.
Definition remove_dot_segments (p : text) : text := rds_loop (S (length p)) p [].

(* dot-segment removal that never turns a rootless path into an absolute one (the property's
   wording): a rootless path is processed as if rooted and the root taken off again *)
Definition rds_keep_kind (p : text) : text :=
  match p with
  | [] => []
  | _ => if head_is 47 p then remove_dot_segments p else tl (remove_dot_segments (47 :: p))
  end.

(* 5.2.3 *)
Fixpoint up_to_last_slash_rev (r : text) : text :=
  match r with
  | [] => []
  | c :: r' => if c =? 47 then r else up_to_last_slash_rev r'
  end.
Definition merge (base_has_auth : bool) (base_path ref_path : text) : text :=
  if base_has_auth && match base_path with [] => true | _ => false end then 47 :: ref_path
  else rev (up_to_last_slash_rev (rev base_path)) ++ ref_path.

Definition is_some_t (o : option text) : bool := match o with Some _ => true | None => false end.

(* 5.2.2; [strict = false] is the identical-scheme compatibility option *)
Definition transform (strict : bool) (B R : five) : five :=
  let r_scheme :=
    if negb strict && match f_scheme R, f_scheme B with
                      | Some a, Some b => text_eqb a b | _, _ => false end
    then None else f_scheme R in
  match r_scheme with
  | Some s => mkFive (Some s) (f_auth R) (rds_keep_kind (f_path R)) (f_query R) (f_frag R)
  | None =>
    match f_auth R with
    | Some a => mkFive (f_scheme B) (Some a) (rds_keep_kind (f_path R)) (f_query R) (f_frag R)
    | None =>
      match f_path R with
      | [] => mkFive (f_scheme B) (f_auth B) (f_path B)
                     (match f_query R with Some q => Some q | None => f_query B end) (f_frag R)
      | _ =>
        if head_is 47 (f_path R)
        then mkFive (f_scheme B) (f_auth B) (rds_keep_kind (f_path R)) (f_query R) (f_frag R)
        else mkFive (f_scheme B) (f_auth B)
                    (rds_keep_kind (merge (is_some_t (f_auth B)) (f_path B) (f_path R))) (f_query R) (f_frag R)
      end
    end
  end.

(* 5.3 *)
Definition recompose (t : five) : text :=
  (match f_scheme t with Some s => s ++ [58] | None => [] end)
  ++ (match f_auth t with Some a => [47; 47] ++ a | None => [] end)
  ++ f_path t
  ++ (match f_query t with Some q => 63 :: q | None => [] end)
  ++ (match f_frag t with Some f => 35 :: f | None => [] end).

(* the only licence the property gives: a host-less result whose path begins with "//" gets "/."
   in front, so that the text is not read back as an authority *)
Definition guard_slashes (t : five) : five :=
  match f_auth t with
  | None => if starts_with [47; 47] (f_path t)
            then mkFive (f_scheme t) None (47 :: 46 :: f_path t) (f_query t) (f_frag t) else t
  | Some _ => t
  end.

(* ---- RFC 3986 Appendix B: a reference text into its five components -------------------- *)
Fixpoint span_until (stops : list N) (s : text) : text * text :=
  match s with
  | [] => ([], [])
  | c :: r => if mem c stops then ([], s)
              else let (a, b) := span_until stops r in (c :: a, b)
  end.

Definition five_of_text (s : text) : five :=
  let (pfx, rest0) := span_until [58; 47; 63; 35] s in
  let '(sch, rest1) :=
    match pfx, strip_char 58 rest0 with
    | _ :: _, Some r => (Some pfx, r)
    | _, _ => (None, s)
    end in
  let '(auth, rest2) :=
    if starts_with [47; 47] rest1
    then let (a, r') := span_until [47; 63; 35] (skipn 2 rest1) in (Some a, r')
    else (None, rest1) in
  let (path, rest3) := span_until [63; 35] rest2 in
  let '(qry, rest4) :=
    match strip_char 63 rest3 with
    | Some r => let (q, r') := span_until [35] r in (Some q, r')
    | None => (None, rest3)
    end in
  mkFive sch auth path qry (strip_char 35 rest4).

(* the corner in which the two clauses of the property cannot both be met: the result has no
   authority, the path to clean is rootless, and cleaning it leaves a leading empty segment *)
Definition unspecified_corner (strict : bool) (B R : five) : bool :=
  let t := transform strict B R in
  match f_auth t with
  | Some _ => false
  | None =>
    let r_keeps_scheme :=
      is_some_t (f_scheme R)
      && negb (negb strict && match f_scheme R, f_scheme B with Some a, Some b => text_eqb a b | _, _ => false end) in
    let raw :=
      if r_keeps_scheme || is_some_t (f_auth R) then f_path R
      else match f_path R with
           | [] => []
           | _ => if head_is 47 (f_path R) then f_path R
                  else merge (is_some_t (f_auth B)) (f_path B) (f_path R)
           end in
    match raw with
    | [] => false
    | _ => negb (head_is 47 raw) && head_is 47 (f_path t)
    end
  end.

(* text in, text out; None when the base is not absolute (no scheme) *)
Definition resolve_text (strict : bool) (b r : text) : option text :=
  let B := five_of_text b in
  match f_scheme B with
  | None => None
  | Some _ => Some (recompose (guard_slashes (transform strict B (five_of_text r))))
  end.
Definition resolve_corner (strict : bool) (b r : text) : bool :=
  unspecified_corner strict (five_of_text b) (five_of_text r).
