(* Writing a URI object back as text, component by component, with the delimiters of RFC 3986
   section 5.3 and the host exactly as it was written (IP literals between brackets).  Parsing a
   text and writing the result back must give the text again (property C02: the components are
   consecutive sub-ranges of the input, separated by nothing but their delimiters).

   [parsed_wf] says what else is true of every object the parser builds: which characters each
   component may contain, how the host flags relate, what shape the path has.
   Nothing here mentions how uriparser proceeds. *)
From Coq Require Import List NArith Bool.
From UP Require Import Base.Chars Model.Uri Model.Ip4 Spec.NormalWf.
Import ListNotations.
Local Open Scope N_scope.

(* ---------------------------------------------------------------- unparse *)
(* component followed by its delimiter / delimiter followed by the component; nothing when absent *)
Definition opt_post (o : option text) (delim : text) : text :=
  match o with Some t => t ++ delim | None => [] end.
Definition opt_pre (delim : text) (o : option text) : text :=
  match o with Some t => delim ++ t | None => [] end.

(* scheme ":" *)
Definition scheme_part (u : uri) : text := opt_post (scheme u) [58].

(* the host is a bracketed literal *)
Definition is_lit (u : uri) : bool := is_some (ip6 u) || is_some (ipFuture u).

(* host text as written: "[" literal "]" or the name / dotted quad itself *)
Definition host_part (u : uri) (h : text) : text :=
  if is_lit u then [91] ++ h ++ [93] else h.

(* "//" [ userinfo "@" ] host [ ":" port ], when there is a host *)
Definition authority_part (u : uri) : text :=
  match hostText u with
  | Some h => [47; 47] ++ opt_post (userInfo u) [64] ++ host_part u h ++ opt_pre [58] (portText u)
  | None => []
  end.

(* segments separated by "/" *)
Fixpoint join_slash (l : list text) : text :=
  match l with
  | [] => []
  | s :: r => match r with [] => s | _ => s ++ [47] ++ join_slash r end
  end.

(* with a host every segment is preceded by "/"; without, a leading "/" iff absolutePath *)
Definition path_part (u : uri) : text :=
  if is_some (hostText u) then concat (map (fun s => 47 :: s) (pathSegs u))
  else (if absolutePath u then [47] else []) ++ join_slash (pathSegs u).

Definition unparse (u : uri) : text :=
  scheme_part u ++ authority_part u ++ path_part u
  ++ opt_pre [63] (query u) ++ opt_pre [35] (fragment u).
