(* Writing a URI object back as text, component by component, with the delimiters of RFC 3986
   section 5.3 and the host exactly as it was written (IP literals between brackets).  Parsing a
   text and writing the result back must give the text again (property C02: the components are
   consecutive sub-ranges of the input, separated by nothing but their delimiters).

   [parsed_wf] says what else is true of every object the parser builds: which characters each
   component may contain, how the host flags relate, what shape the path has.
   Nothing here mentions how uriparser proceeds. *)
From Coq Require Import List NArith Bool.
From UP Require Import Base.Chars Model.Uri Spec.NormalWf.
Import ListNotations.
Local Open Scope N_scope.

(* ---------------------------------------------------------------- unparse *)
(* component followed by its delimiter / delimiter followed by the component; nothing when absent *)
Definition opt_post (o : option text) (delim : text) : text :=
  match o with Some t => t ++ delim | None => [] end.
Definition opt_pre (delim : text) (o : option text) : text :=
  match o with Some t => delim ++ t | None => [] end.

(* scheme ":" *)
Definition scheme_part (u : uri) : text := opt_post (scheme u) [58].

(* the host is a bracketed literal *)
Definition is_lit (u : uri) : bool := is_some (ip6 u) || is_some (ipFuture u).

(* host text as written: "[" literal "]" or the name / dotted quad itself *)
Definition host_part (u : uri) (h : text) : text :=
  if is_lit u then [91] ++ h ++ [93] else h.

(* "//" [ userinfo "@" ] host [ ":" port ], when there is a host *)
Definition authority_part (u : uri) : text :=
  match hostText u with
  | Some h => [47; 47] ++ opt_post (userInfo u) [64] ++ host_part u h ++ opt_pre [58] (portText u)
  | None => []
  end.

(* segments separated by "/" *)
Fixpoint join_slash (l : list text) : text :=
  match l with
  | [] => []
  | s :: r => match r with [] => s | _ => s ++ [47] ++ join_slash r end
  end.

(* with a host every segment is preceded by "/"; without, a leading "/" iff absolutePath *)
Definition path_part (u : uri) : text :=
  if is_some (hostText u) then concat (map (fun s => 47 :: s) (pathSegs u))
  else (if absolutePath u then [47] else []) ++ join_slash (pathSegs u).

Definition unparse (u : uri) : text :=
  scheme_part u ++ authority_part u ++ path_part u
  ++ opt_pre [63] (query u) ++ opt_pre [35] (fragment u).

(* ---------------------------------------------------------------- parsed_wf *)
(* the character sets of RFC 3986 ('%' included where pct-encoded is allowed) *)
Definition is_scheme_char (c : N) : bool := is_alpha c || is_digit c || (c =? 43) || (c =? 45) || (c =? 46).
Definition is_regname_char (c : N) : bool := is_unreserved c || is_subdelim c || (c =? 37).
Definition is_userinfo_char (c : N) : bool := is_regname_char c || (c =? 58).
Definition is_pchar (c : N) : bool := is_userinfo_char c || (c =? 64).
Definition is_qf_char (c : N) : bool := is_pchar c || (c =? 47) || (c =? 63).
(* between brackets: IPvFuture may use unreserved / sub-delims / ":"; an IPv6 address HEXDIG / ":" / "." *)
Definition is_lit_char (c : N) : bool := is_unreserved c || is_subdelim c || (c =? 58).
Definition is_ip6_char (c : N) : bool := is_hexdig c || (c =? 58) || (c =? 46).

(* a property of a component that may be absent *)
Definition opt_ok (P : text -> Prop) (o : option text) : Prop :=
  match o with Some t => P t | None => True end.

(* ALPHA *( ALPHA / DIGIT / "+" / "-" / "." ) *)
Definition scheme_ok (s : text) : Prop :=
  match s with c :: r => is_alpha c = true /\ forallb is_scheme_char r = true | [] => False end.
(* all characters in the set, every "%" followed by two hex digits *)
Definition text_ok (cls : N -> bool) (t : text) : Prop := forallb cls t = true /\ pct_wf t = true.
Definition digits_ok (t : text) : Prop := forallb is_digit t = true.
(* the literal begins with "v" / "V": IPvFuture rather than IPv6 *)
Definition v_start (h : text) : bool := head_is 118 h || head_is 86 h.

(* (a), (d): every component consists of the characters its grammar rule allows; in particular a
   component contains none of the delimiters that end it, and no NUL *)
Definition chars_ok (u : uri) : Prop :=
  opt_ok scheme_ok (scheme u)
  /\ opt_ok (text_ok is_userinfo_char) (userInfo u)
  /\ match hostText u with
     | None => True
     | Some h => if is_some (ip6 u) then forallb is_ip6_char h = true
                 else if is_some (ipFuture u) then forallb is_lit_char h = true
                 else text_ok is_regname_char h
     end
  /\ opt_ok digits_ok (portText u)
  /\ Forall (text_ok is_pchar) (pathSegs u)
  /\ opt_ok (text_ok is_qf_char) (query u)
  /\ opt_ok (text_ok is_qf_char) (fragment u).

(* (b): the host fields.  Without a host text there is no host data.  With one, the path is not
   flagged absolute, and the host is exactly one of: IPv6 literal (bracketed, non-empty, not starting with "v";
   the 16 bytes are [ip6_of] of the text), IPvFuture literal
   (bracketed, starting with "v"; hostData.ipFuture is the same range as hostText), or a
   non-bracketed host, whose IPv4 octets are [ip4_of] of the text (None: a registered name). *)
Definition flags_ok (ip4_of : text -> option (list N)) (ip6_of : text -> list N) (u : uri) : Prop :=
  owner u = false /\
  match hostText u with
  | None => ip4 u = None /\ ip6 u = None /\ ipFuture u = None
  | Some h =>
    absolutePath u = false /\
    match ip6 u, ipFuture u with
    | None, None => ip4 u = ip4_of h
    | Some b, None => ip4 u = None /\ b = ip6_of h /\ v_start h = false /\ h <> []
    | None, Some f => ip4 u = None /\ f = h /\ v_start h = true
    | Some _, Some _ => False
    end
  end.

(* (c): without a host, a path that has segments begins with a non-empty one ("//x" would be an
   authority, "" is no segment at all), and in a relative reference without a leading "/" the
   first segment has no ":" (it would be a scheme) *)
Definition path_ok (u : uri) : Prop :=
  match hostText u with
  | Some _ => True
  | None =>
    match pathSegs u with
    | [] => True
    | s :: _ => s <> [] /\ (scheme u = None -> absolutePath u = false -> ~ In 58 s)
    end
  end.

(* user info and port exist only inside an authority *)
Definition auth_ok (u : uri) : Prop :=
  match hostText u with
  | None => userInfo u = None /\ portText u = None
  | Some _ => True
  end.

(* [ip4_of], [ip6_of]: the octets of a dotted-quad host text (None when it is not one) and the bytes
   of an IPv6 literal text.  The theorems instantiate them with what the code computes
   (Model/Ip4.v parse_ip4, Model/Parse.v ip6_bytes); that those are the values RFC 3986 / RFC 4291
   give the text (Spec/Split.v ip4_value, ip6_value) are separate statements. *)
Definition parsed_wf (ip4_of : text -> option (list N)) (ip6_of : text -> list N) (u : uri) : Prop :=
  chars_ok u /\ flags_ok ip4_of ip6_of u /\ path_ok u /\ auth_ok u.

(* ---------------------------------------------------------------- components inside the input *)
(* [t] is a contiguous piece of [s] *)
Definition infix (t s : text) : Prop := exists a b, s = a ++ t ++ b.

(* every text the object reports is a contiguous piece of [s] (an empty text is a piece of anything:
   this is where the implementation may use its private placeholder instead of a pointer into the
   input) *)
Definition components_inside (u : uri) (s : text) : Prop :=
  opt_ok (fun t => infix t s) (scheme u)
  /\ opt_ok (fun t => infix t s) (userInfo u)
  /\ opt_ok (fun t => infix t s) (hostText u)
  /\ opt_ok (fun t => infix t s) (ipFuture u)
  /\ opt_ok (fun t => infix t s) (portText u)
  /\ Forall (fun t => infix t s) (pathSegs u)
  /\ opt_ok (fun t => infix t s) (query u)
  /\ opt_ok (fun t => infix t s) (fragment u).
