(* Specification side of C17: which characters a URI query may contain (RFC 3986, 3.4),
   and what a key/value list is expected to look like after a compose / dissect round trip.
   Nothing here refers to how uriparser works. *)
From UP Require Import Base.Chars Spec.PctSpec.
Local Open Scope N_scope.

(* query = *( pchar / "/" / "?" ) ;  pchar = unreserved / pct-encoded / sub-delims / ":" / "@" *)
Definition is_pchar_plain (c : N) : bool :=
  is_unreserved c || is_subdelim c || (c =? 58) || (c =? 64).
Definition is_query_plain (c : N) : bool := is_pchar_plain c || (c =? 47) || (c =? 63).

Fixpoint query_legal (l : text) : bool :=
  match l with
  | [] => true
  | c :: r =>
    if c =? 37 then
      match r with
      | a :: b :: r2 => is_hexdig a && is_hexdig b && query_legal r2
      | _ => false
      end
    else is_query_plain c && query_legal r
  end.

(* ---- what a round trip may change --------------------------------------------- *)
Definition item := (text * option text)%type.

(* an item with an empty key and no value has no textual form ("" between two '&') *)
Definition nonvanishing (it : item) : bool :=
  match it with
  | ([], None) => false
  | _ => true
  end.

(* line breaks become CR LF when normalisation was requested at compose time *)
Definition norm_text (nb : bool) (t : text) : text := if nb then crlf t else t.
Definition norm_item (nb : bool) (it : item) : item :=
  (norm_text nb (fst it), option_map (norm_text nb) (snd it)).

Definition roundtrip_expect (nb : bool) (l : list item) : list item :=
  map (norm_item nb) (filter nonvanishing l).

(* ---- splitting specification of dissecting -----------------------------------
   The text is cut at every '&'; each piece is cut at its first '='; an empty piece is
   dropped; key and value are unescaped and read up to a decoded NUL. *)
Fixpoint split_at (sep : N) (l : text) : list text :=
  match l with
  | [] => [[]]
  | c :: r =>
    if c =? sep then [] :: split_at sep r
    else match split_at sep r with
         | [] => [[c]]      (* not reachable: split_at never returns [] *)
         | p :: ps => (c :: p) :: ps
         end
  end.

Fixpoint cut_first (sep : N) (l : text) : text * option text :=
  match l with
  | [] => ([], None)
  | c :: r =>
    if c =? sep then ([], Some r)
    else let '(k, v) := cut_first sep r in (c :: k, v)
  end.

(* generic in the decoding function applied to a raw key or value *)
Definition piece_item (un : text -> text) (p : text) : list item :=
  match p with
  | [] => []
  | _ => let '(k, v) := cut_first 61 p in [(un k, option_map un v)]
  end.

Definition dissect_with (un : text -> text) (l : text) : list item :=
  flat_map (piece_item un) (split_at 38 l).

Definition dissect_spec (plus_to_space : bool) (b : brk) (l : text) : list item :=
  dissect_with (fun t => until_nul (unescape_spec plus_to_space b t)) l.
