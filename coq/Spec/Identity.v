(* What "two URIs are the same" means, component by component (property C11).
   Nothing here refers to how uriparser compares; only the URI value (Model/Uri.v) is used.

   A component is an [option text]: an absent component (None) is different from an empty one
   (Some []).  The host is identified by value: when a URI carries IP data (IPv4 octets, IPv6
   bytes, or an IPvFuture text) that data is the host and the original host text is not part
   of the identity ("[::1]" and "[0:0:0:0:0:0:0:1]" are the same host); only a URI without any
   IP data is identified by its host text (registered name, or no host at all).
   The [owner] flag (who frees the memory) is not a component. *)
From Coq Require Import List NArith Bool.
From UP Require Import Base.Chars Model.Uri.
Import ListNotations.
Local Open Scope N_scope.

(* the URI has a host that is an IP literal *)
Definition has_ip_data (u : uri) : bool :=
  is_some (ip4 u) || is_some (ip6 u) || is_some (ipFuture u).

Record components_identical (a b : uri) : Prop := mk_components_identical {
  ci_scheme : scheme a = scheme b;
  ci_userInfo : userInfo a = userInfo b;
  ci_ip4 : ip4 a = ip4 b;                      (* by value: the octets *)
  ci_ip6 : ip6 a = ip6 b;                      (* by value: the 16 bytes *)
  ci_ipFuture : ipFuture a = ipFuture b;
  ci_hostText : has_ip_data a = false -> has_ip_data b = false -> hostText a = hostText b;
  ci_portText : portText a = portText b;
  ci_absolutePath : absolutePath a = absolutePath b;
  ci_pathSegs : pathSegs a = pathSegs b;
  ci_query : query a = query b;
  ci_fragment : fragment a = fragment b }.

(* Texts without the code point 0.  Every text the parser puts into a URI is a piece of a
   NUL-terminated input string, so it has this form; it is a hypothesis of C11 because the
   comparison is made with strncmp/wcsncmp, which stop at a NUL. *)
Definition nul_free (t : text) : Prop := ~ In 0 t.

Definition opt_nul_free (o : option text) : Prop :=
  match o with Some t => nul_free t | None => True end.

Definition uri_nul_free (u : uri) : Prop :=
  opt_nul_free (scheme u) /\ opt_nul_free (userInfo u) /\ opt_nul_free (hostText u)
  /\ opt_nul_free (ipFuture u) /\ opt_nul_free (portText u) /\ Forall nul_free (pathSegs u)
  /\ opt_nul_free (query u) /\ opt_nul_free (fragment u).
