(* Specification of percent-escaping and unescaping, written without reference
   to how uriparser does it. *)
From UP Require Import Base.Chars.
Local Open Scope N_scope.

(* ---- what escaping may emit -------------------------------------------- *)
Definition is_upper_hexdig (c : N) := is_digit c || is_hex_upper c.

(* A text made only of unreserved characters, '+' (if allowed) and %XX triplets with
   upper-case hex digits. *)
Fixpoint escaped_form (plus_allowed : bool) (l : text) : bool :=
  match l with
  | [] => true
  | c :: r =>
    if c =? 37 then
      match r with
      | a :: b :: r2 => is_upper_hexdig a && is_upper_hexdig b && escaped_form plus_allowed r2
      | _ => false
      end
    else (is_unreserved c || (plus_allowed && (c =? 43))) && escaped_form plus_allowed r
  end.

(* ---- line break normalisation: CR LF, lone CR and lone LF all become CR LF --- *)
Fixpoint crlf_from (prev_cr : bool) (l : text) : text :=
  match l with
  | [] => []
  | c :: r =>
    if c =? 13 then 13 :: 10 :: crlf_from true r
    else if c =? 10 then (if prev_cr then [] else [13; 10]) ++ crlf_from false r
    else c :: crlf_from false r
  end.
Definition crlf (l : text) : text := crlf_from false l.

(* ---- tokenising specification of unescaping --------------------------------- *)
Inductive token :=
| Lit (c : N)            (* a character standing for itself (including a malformed '%') *)
| Enc (v : N).           (* a well-formed %HH triplet, with its value 0..255 *)

Fixpoint tokenize (l : text) : list token :=
  match l with
  | [] => []
  | c :: r =>
    if c =? 37 then
      match r with
      | a :: b :: r2 =>
        if is_hexdig a && is_hexdig b
        then Enc (16 * hexdig_to_int a + hexdig_to_int b) :: tokenize r2
        else Lit c :: tokenize r
      | _ => Lit c :: tokenize r
      end
    else Lit c :: tokenize r
  end.

Inductive brk := ToLf | ToCrlf | ToCr | DontTouch.

Definition brk_text (b : brk) : text :=
  match b with ToLf => [10] | ToCrlf => [13; 10] | ToCr => [13] | DontTouch => [] end.

(* Decode a token list.  Line-break conversion acts on *encoded* line breaks only:
   an encoded CR, an encoded LF, or an encoded CR directly followed by an encoded LF
   each count as one line break. *)
Fixpoint decode (plus_to_space : bool) (b : brk) (prev_enc_cr : bool) (ts : list token) : text :=
  match ts with
  | [] => []
  | Lit c :: r =>
    (if (c =? 43) && plus_to_space then 32 else c) :: decode plus_to_space b false r
  | Enc v :: r =>
    if v =? 13 then
      (match b with DontTouch => [13] | _ => brk_text b end) ++ decode plus_to_space b true r
    else if v =? 10 then
      (match b with
       | DontTouch => [10]
       | _ => if prev_enc_cr then [] else brk_text b
       end) ++ decode plus_to_space b false r
    else v :: decode plus_to_space b false r
  end.

Definition unescape_spec (plus_to_space : bool) (b : brk) (l : text) : text :=
  decode plus_to_space b false (tokenize (until_nul l)).
