(* What RFC 3986 assigns to each component of a *valid* URI reference, written as a direct
   splitter (RFC 3986 Appendix B, plus the authority and path sub-structure of section 3), and
   the numeric value of IPv4 / IPv6 host texts (RFC 3986 section 3.2.2, RFC 4291 section 2.2).
   Nothing here mentions how uriparser proceeds. *)
From Coq Require Import List NArith Bool.
From UP Require Import Base.Chars Base.Regex Model.Uri Spec.Rfc3986.
Import ListNotations.
Local Open Scope N_scope.

(* longest prefix without any of the stop characters, and the rest *)
Fixpoint span_until (stops : list N) (s : text) : text * text :=
  match s with
  | [] => ([], [])
  | c :: r => if mem c stops then ([], s)
              else let (a, b) := span_until stops r in (c :: a, b)
  end.

(* split at every occurrence of sep: "a/b/" -> ["a"; "b"; ""] *)
Fixpoint split_on (sep : N) (s : text) : list text :=
  match s with
  | [] => [[]]
  | c :: r => if c =? sep then [] :: split_on sep r
              else match split_on sep r with
                   | [] => [[c]]
                   | x :: xs => (c :: x) :: xs
                   end
  end.

(* ---- numeric values ----------------------------------------------------------- *)
Definition dec_value (t : text) : N := fold_left (fun acc c => 10 * acc + (c - 48)) t 0.
Definition hex_value (t : text) : N := fold_left (fun acc c => 16 * acc + hexdig_to_int c) t 0.

Definition ip4_value (t : text) : list N := map dec_value (split_on 46 t).

(* one colon-separated group of an IPv6 text: 16 bits, or an embedded dotted quad (32 bits) *)
Definition group_bytes (g : text) : list N :=
  if mem 46 g then ip4_value g
  else let v := hex_value g in [v / 256; v mod 256].
Definition groups_bytes (t : text) : list N :=
  match t with [] => [] | _ => flat_map group_bytes (split_on 58 t) end.

(* split at the first "::" *)
Fixpoint find_dcolon (s : text) : option (text * text) :=
  match s with
  | [] => None
  | c :: r =>
    match r with
    | c2 :: r2 => if (c =? 58) && (c2 =? 58) then Some ([], r2)
                  else match find_dcolon r with
                       | Some (a, b) => Some (c :: a, b)
                       | None => None
                       end
    | [] => None
    end
  end.

(* RFC 4291 2.2: "::" stands for as many zero groups as needed to reach 128 bits *)
Definition ip6_value (t : text) : list N :=
  match find_dcolon t with
  | None => groups_bytes t
  | Some (l, r) =>
    let lb := groups_bytes l in let rb := groups_bytes r in
    lb ++ repeat 0 (16 - length lb - length rb) ++ rb
  end.

(* ---- the splitter ------------------------------------------------------------- *)
Definition is_scheme_text (t : text) : bool := matchb scheme t.

(* authority text -> user info, host text (brackets removed), is-literal flag, port *)
Definition split_authority (a : text) : option text * text * bool * option text :=
  let '(ui, rest) :=
    if mem 64 a then let (u, r) := span_until [64] a in (Some u, tl r) else (None, a) in
  match strip_char 91 rest with
  | Some r =>     (* '[' ... ']' [ ':' port ] *)
    let (lit, after) := span_until [93] r in
    let after := tl after in
    (ui, lit, true, strip_char 58 after)
  | None =>
    let (h, after) := span_until [58] rest in
    (ui, h, false, strip_char 58 after)
  end.

Definition split_spec (s : text) : uri :=
  (* scheme: everything before the first ':' provided no '/', '?' or '#' comes earlier *)
  let (pfx, rest0) := span_until [58; 47; 63; 35] s in
  let '(sch, rest1) :=
    match strip_char 58 rest0 with
    | Some r => if is_scheme_text pfx then (Some pfx, r) else (None, s)
    | None => (None, s)
    end in
  (* authority *)
  let '(auth, rest2) :=
    match strip_char 47 rest1 with
    | Some r1 =>
      match strip_char 47 r1 with
      | Some r => let (a, r') := span_until [47; 63; 35] r in (Some a, r')
      | None => (None, rest1)
      end
    | None => (None, rest1)
    end in
  let (path, rest3) := span_until [63; 35] rest2 in
  let '(qry, rest4) :=
    match strip_char 63 rest3 with
    | Some r => let (q, r') := span_until [35] r in (Some q, r')
    | None => (None, rest3)
    end in
  let frag := strip_char 35 rest4 in
  (* path structure *)
  let '(abs, segs) :=
    match path with
    | [] => (false, [])
    | _ =>
      match strip_char 47 path with
      | Some p =>
        match auth with
        | Some _ => (false, split_on 47 p)
        | None => (true, match p with [] => [] | _ => split_on 47 p end)
        end
      | None => (false, split_on 47 path)
      end
    end in
  match auth with
  | None =>
    mkUri sch None None None None None None segs qry frag abs false
  | Some a =>
    let '(ui, h, lit, port) := split_authority a in
    if lit then
      if head_is 118 h || head_is 86 h
      then mkUri sch ui (Some h) None None (Some h) port segs qry frag abs false
      else mkUri sch ui (Some h) None (Some (ip6_value h)) None port segs qry frag abs false
    else
      mkUri sch ui (Some h) (if matchb IPv4address h then Some (ip4_value h) else None) None None port
            segs qry frag abs false
  end.
