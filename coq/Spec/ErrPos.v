(* Where a rejected text may be reported as wrong (property C01).

   d = index of the first character after which no valid completion exists (|s| if the text
   is merely incomplete).  The error position must be d, except when the character at d lies
   inside a bracketed IP literal: then it may be anywhere within the same literal, i.e. between
   the '[' that opened it and the next ']' at or after d (or the end of the input). *)
From Coq Require Import List NArith Bool.
From UP Require Import Base.Regex.
Import ListNotations.
Local Open Scope N_scope.

(* index of the first ']' in w, counted from i; i + |w| if there is none *)
Fixpoint close_from (w : text) (i : nat) : nat :=
  match w with
  | [] => i
  | c :: w' => if c =? 93 then i else close_from w' (S i)
  end.

(* the bracket that is open after reading c at index i, given the one open before *)
Definition track (t : option nat) (c : N) (i : nat) : option nat :=
  if c =? 91 then Some i else if c =? 93 then None else t.

(* [err_window r t i w]: the text still to read is w, its first character has index i, r is the
   derivative of the grammar by what was read so far (all of it viable), t the index of the '['
   of a literal that is still open.  Result: the inclusive range of admissible error positions. *)
Fixpoint err_window (r : re) (t : option nat) (i : nat) (w : text) : nat * nat :=
  match w with
  | [] => (i, i)
  | c :: w' =>
    let r' := deriv c r in
    if is_empty r' then
      match t with
      | None => (i, i)
      | Some lb => (lb, close_from w i)
      end
    else err_window r' (track t c i) (S i) w'
  end.

Definition errpos_ok (g : re) (s : text) (e : nat) : bool :=
  let (lo, hi) := err_window g None 0 s in Nat.leb lo e && Nat.leb e hi.

(* outside a literal the window is exactly the first dead character *)
Lemma err_window_no_literal r : forall w i,
  (forall c, In c w -> c <> 91) -> err_window r None i w = (first_dead_from r w i, first_dead_from r w i).
Proof.
  intros w. revert r. induction w as [|c w IH]; intros r i H; cbn [err_window first_dead_from]; [reflexivity|].
  destruct (is_empty (deriv c r)); [reflexivity|].
  unfold track. destruct (c =? 91) eqn:E; [apply N.eqb_eq in E; exfalso; apply (H c); [left; reflexivity|exact E]|].
  destruct (c =? 93); apply IH; intros x Hx; apply H; right; exact Hx.
Qed.
