(* Well-formedness notions used to state the normalization theorems (C08).
   [pct_wf t]: every '%' of the text starts a triplet "%" HEXDIG HEXDIG (RFC 3986 2.1); the grammar
   of RFC 3986 allows '%' in no other way, so every component of a parsed URI satisfies it.
   [uri_wf u]: what the URI object of a parsed reference looks like, as far as normalization reads it. *)
From Coq Require Import List NArith Bool.
From UP Require Import Base.Chars Model.Uri.
Import ListNotations.
Local Open Scope N_scope.

Fixpoint pct_wf (t : text) : bool :=
  match t with
  | [] => true
  | c :: r =>
    if c =? 37 then
      match r with
      | a :: b :: r2 => is_hexdig a && is_hexdig b && pct_wf r2
      | _ => false
      end
    else pct_wf r
  end.

Definition opt_pct_wf (o : option text) : bool := match o with Some t => pct_wf t | None => true end.

(* a registered name: host text present, none of the three literal forms *)
Definition is_regname (u : uri) : bool :=
  is_some (hostText u) && negb (is_some (ip4 u)) && negb (is_some (ip6 u)) && negb (is_some (ipFuture u)).

(* every text that normalization runs the percent-encoding engine over is well formed *)
Definition uri_pct_wf (u : uri) : bool :=
  opt_pct_wf (userInfo u)
  && (if is_regname u then opt_pct_wf (hostText u) else true)
  && forallb pct_wf (pathSegs u)
  && opt_pct_wf (query u) && opt_pct_wf (fragment u).

(* the parser sets hostText and hostData.ipFuture to the same range *)
Definition future_consistent (u : uri) : Prop :=
  forall f, ipFuture u = Some f -> hostText u = Some f.

(* a host-less URI never has a lone empty segment: the parser (uriFixEmptyTrailSegment at the end of
   the path) removes it, so does normalization *)
Definition lone_empty_hostless (u : uri) : bool :=
  negb (is_host_set u) && match pathSegs u with [[]] => true | _ => false end.

(* nor a path that would be written with "//" in front although it is no authority: an empty first
   segment followed by another one under the absolutePath flag, or two empty first segments of a
   host-less rootless path.  The parser cannot produce one ("//x" is read as an authority); resolution,
   reference creation and normalization put a "." segment in front (uriFixAmbiguity) *)
Definition ambiguous_path (u : uri) : bool :=
  match absolutePath u, pathSegs u with
  | true, [] :: _ :: _ => true
  | false, [] :: [] :: _ => negb (is_host_set u)
  | _, _ => false
  end.

Definition uri_wf (u : uri) : Prop :=
  uri_pct_wf u = true /\ future_consistent u /\ lone_empty_hostless u = false /\ ambiguous_path u = false.

(* all fields but [owner] (which says who owns the memory, not what the URI is) *)
Definition components (u : uri) :=
  (scheme u, userInfo u, hostText u, ip4 u, ip6 u, ipFuture u, portText u,
   pathSegs u, absolutePath u, query u, fragment u).

(* the reference kinds on which uriNormalizeSyntax removes dot segments with the relative rule *)
Definition relative_ref (u : uri) : bool :=
  negb (is_some (scheme u)) && negb (absolutePath u) && negb (is_host_set u).
