(* Footprint discipline for concurrent calls (property C20).

   A program is a family of threads; a thread is a list of steps; a step transforms a shared
   store.  Every location has at most one owning thread; locations without owner are shared
   inputs.  A step of thread i is DISCIPLINED when it changes only locations owned by i and its
   effect on what i may see depends only on what i may see (its own locations and the shared
   ones).  This is the contract of the library's documentation: each thread writes only to its
   own output objects (and the blocks it allocates) while sharing read-only inputs. *)
From Coq Require Import List Arith Lia.
Import ListNotations.

Definition loc := nat.

Section Footprint.
Variable V : Type.
Variable owner : loc -> option nat.          (* None = shared read-only input / constant *)

Definition store := loc -> V.
Definition step := store -> store.

(* what thread i may look at *)
Definition visible (i : nat) (l : loc) : Prop := owner l = Some i \/ owner l = None.
Definition agree_on (i : nat) (m m' : store) : Prop := forall l, visible i l -> m l = m' l.

Definition disciplined (i : nat) (f : step) : Prop :=
  (forall m l, owner l <> Some i -> f m l = m l)                       (* writes only what it owns *)
  /\ (forall m m', agree_on i m m' -> agree_on i (f m) (f m')).         (* depends only on what it may see *)

(* thread i still has the steps [prog i] to take *)
Definition program := nat -> list step.
Definition upd (prog : program) (i : nat) (l : list step) : program :=
  fun j => if Nat.eqb j i then l else prog j.

(* a schedule names, for every step taken, the thread that takes it (a finished thread idles) *)
Fixpoint run_sched (prog : program) (sched : list nat) (m : store) : program * store :=
  match sched with
  | [] => (prog, m)
  | i :: rest =>
    match prog i with
    | [] => run_sched prog rest m
    | f :: more => run_sched (upd prog i more) rest (f m)
    end
  end.

Definition run_solo (steps : list step) (m : store) : store := fold_left (fun st f => f st) steps m.

End Footprint.
