(* Specification side of C18: the classes of filenames the round trip is claimed for, the
   buffer sizes stated in include/uriparser/Uri.h, and a recogniser for the shapes of
   RFC 3986 URI references that a filename may be turned into.  Nothing here refers to how
   uriparser works. *)
From UP Require Import Base.Chars.
Local Open Scope N_scope.

Definition nul_free (l : text) : bool := forallb (fun c => negb (c =? 0)) l.
Definition no_slash (l : text) : bool := forallb (fun c => negb (c =? 47)) l.

(* ---- filename classes ------------------------------------------------------------ *)
(* Unix: any string; absolute when it starts with '/' *)
Definition unix_absolute (f : text) : bool :=
  match f with c :: _ => c =? 47 | [] => false end.

(* Windows, backslash separators only (no '/' anywhere):
   drive-absolute:  ALPHA ':'  followed by nothing or by '\' and anything
   UNC:             '\' '\' followed by a non-empty server name (first character not '\')
   relative:        does not start with '\' and has no ':' at index 1 *)
Definition win_drive_absolute (f : text) : bool :=
  no_slash f &&
  match f with
  | d :: c :: r => is_alpha d && (c =? 58) && match r with [] => true | s :: _ => s =? 92 end
  | _ => false
  end.

Definition win_unc (f : text) : bool :=
  no_slash f &&
  match f with
  | a :: b :: s :: _ => (a =? 92) && (b =? 92) && negb (s =? 92)
  | _ => false
  end.

Definition win_relative (f : text) : bool :=
  no_slash f &&
  match f with
  | [] => true
  | a :: r => negb (a =? 92) && match r with c :: _ => negb (c =? 58) | [] => true end
  end.

Definition win_absolute (f : text) : bool := win_drive_absolute f || win_unc f.

(* ---- documented sizes (characters, terminator included) --------------------------- *)
(* "7 + 3 * len(filename) + 1 in case of an absolute filename or 3 * len(filename) + 1" *)
Definition unix_uri_size (f : text) : nat :=
  ((if unix_absolute f then 7 else 0) + 3 * length f + 1)%nat.
(* "8 + 3 * len(filename) + 1 in case of an absolute filename or 3 * len(filename) + 1" *)
Definition win_uri_size (absolute : bool) (f : text) : nat :=
  ((if absolute then 8 else 0) + 3 * length f + 1)%nat.
(* "len(uriString) + 1 - 5 in case of an absolute URI or len(uriString) + 1" *)
Definition filename_size (absolute : bool) (s : text) : nat :=
  if absolute then (length s + 1 - 5)%nat else (length s + 1)%nat.

(* ---- RFC 3986 shapes ------------------------------------------------------------
   pchar = unreserved / pct-encoded / sub-delims / ":" / "@"
   reg-name = *( unreserved / pct-encoded / sub-delims )
   A recogniser for
     "file:" "//" reg-name path-abempty          (a URI with scheme "file")
     path-noscheme / path-empty                  (a relative reference)
   which are the shapes a filename may map to. *)
Definition is_pchar_nc (c : N) : bool := is_unreserved c || is_subdelim c || (c =? 64).
Definition is_pchar (c : N) : bool := is_pchar_nc c || (c =? 58).
Definition is_regname_char (c : N) : bool := is_unreserved c || is_subdelim c.

(* a sequence of [ok] characters and pct-encoded triplets *)
Fixpoint chars_pct (ok : N -> bool) (l : text) : bool :=
  match l with
  | [] => true
  | c :: r =>
    if c =? 37 then
      match r with
      | a :: b :: r2 => is_hexdig a && is_hexdig b && chars_pct ok r2
      | _ => false
      end
    else ok c && chars_pct ok r
  end.

(* l = s ++ r, s the longest prefix without '/' *)
Fixpoint span_seg (l : text) : text * text :=
  match l with
  | [] => ([], [])
  | c :: r => if c =? 47 then ([], l) else let '(s, t) := span_seg r in (c :: s, t)
  end.

(* *( "/" segment ): a '/' can never fall inside a triplet because '/' is no hex digit *)
Definition path_abempty (l : text) : bool :=
  match l with
  | [] => true
  | c :: _ => (c =? 47) && chars_pct (fun c => is_pchar c || (c =? 47)) l
  end.

Fixpoint strip_prefix (p s : text) : option text :=
  match p, s with
  | [], _ => Some s
  | a :: p', b :: s' => if a =? b then strip_prefix p' s' else None
  | _ :: _, [] => None
  end.

Definition file_uri_shape (l : text) : bool :=
  match strip_prefix [102; 105; 108; 101; 58; 47; 47] l with
  | Some rest => let '(auth, path) := span_seg rest in
                 chars_pct is_regname_char auth && path_abempty path
  | None => false
  end.

(* path-noscheme = segment-nz-nc *( "/" segment )   or   path-empty *)
Definition relative_shape (l : text) : bool :=
  match l with
  | [] => true
  | _ => let '(seg1, rest) := span_seg l in
         negb (match seg1 with [] => true | _ => false end)
         && chars_pct is_pchar_nc seg1 && path_abempty rest
  end.

Definition uri_reference_shape (l : text) : bool := file_uri_shape l || relative_shape l.

(* ---- the documented forms ----------------------------------------------------------
   "file:///x" for an absolute Unix name, "file:///C:/x" for a drive-absolute Windows name (the
   drive stays readable), "file://server/share" for a UNC name, no "file:" prefix otherwise. *)
Definition has_prefix (p s : text) : bool :=
  match strip_prefix p s with Some _ => true | None => false end.
Definition file_colon : text := [102; 105; 108; 101; 58].

Definition uri_form (unix : bool) (f s : text) : bool :=
  if unix then
    (if unix_absolute f then has_prefix (file_colon ++ [47; 47; 47]) s else negb (has_prefix file_colon s))
  else if win_drive_absolute f then has_prefix (file_colon ++ [47; 47; 47] ++ firstn 2 f) s
  else if win_unc f then
    has_prefix (file_colon ++ [47; 47]) s && negb (has_prefix (file_colon ++ [47; 47; 47]) s)
  else negb (has_prefix file_colon s).
