(* An ideal C allocator (malloc / calloc / realloc / reallocarray / free), as a trace acceptor.

   Memory is block structured: a live block is a separate object named by an identifier, so two
   live blocks never share a byte and a store into one block changes no other block.  The state
   is a finite map (association list) from block identifiers to the block's contents; the length
   of the contents is the usable size of the block.

   The allocator is free to pick identifiers and the initial contents of fresh memory, and it
   may refuse any request.  To keep the specification executable this freedom is resolved by the
   *observed* result: [sstep s op r] says whether result [r] is an allowed answer to call [op]
   in state [s] and, if so, what the state is afterwards.  [sr_data r] is the contents of the
   block a successful allocation call returned, as the caller can read them right after the
   call (for [SLoad] it is the bytes read).

   size_t is N below SIZE_LIMIT = 2^64, written explicitly.

   Clauses (man malloc / realloc / reallocarray and the conventions UriMemory.c documents):
   - malloc(n): NULL (state unchanged; errno untouched or ENOMEM), or a fresh block of usable
     size >= n.  n = 0 is an ordinary request.
   - calloc(nmemb, size): nmemb*size >= 2^64  =>  NULL and errno = ENOMEM; else as malloc of the
     product with the first nmemb*size bytes zero.
   - realloc(NULL, n) = malloc(n) for all n.  realloc(p, 0), p != NULL: frees p, returns NULL.
     realloc(p, n): NULL leaves the old block intact; otherwise the result is p itself or a
     fresh block (p is then released), usable size >= n, and the first min(old size, n) bytes
     are the old ones.
   - reallocarray(p, nmemb, size): product overflow => NULL, errno = ENOMEM, nothing changes;
     else realloc(p, nmemb*size).
   - free(NULL) does nothing; free(p) releases p.
   - store/load: the caller may use every byte of a live block. *)
From UP Require Import Base.Bytes.
Local Open Scope N_scope.

Definition SIZE_LIMIT : N := 2 ^ 64.
Definition ENOMEM : N := 12.

(* a pointer as the caller sees it: NULL or (the start of) a block *)
Definition sptr := option N.

Inductive sop :=
| SMalloc (n : N)
| SCalloc (nmemb size : N)
| SRealloc (p : sptr) (n : N)
| SReallocarray (p : sptr) (nmemb size : N)
| SFree (p : sptr)
| SStore (p : sptr) (off : N) (data : list N)
| SLoad (p : sptr) (off n : N).

(* returned pointer, the value errno was set to during the call (None: untouched), data *)
Record sres := mkSres { sr_ptr : sptr; sr_errno : option N; sr_data : list N }.

Definition sstate := amap.

(* ---- the caller's obligations ------------------------------------------------ *)
Definition is_size (n : N) : bool := n <? SIZE_LIMIT.
Definition ptr_ok (s : sstate) (p : sptr) : bool :=
  match p with None => true | Some id => amem id s end.
Definition range_ok (s : sstate) (p : sptr) (off n : N) : bool :=
  match p with
  | None => false
  | Some id => match afind id s with Some c => off + n <=? len c | None => false end
  end.

Definition svalid (s : sstate) (op : sop) : bool :=
  match op with
  | SMalloc n => is_size n
  | SCalloc nm sz => is_size nm && is_size sz
  | SRealloc p n => ptr_ok s p && is_size n
  | SReallocarray p nm sz => ptr_ok s p && is_size nm && is_size sz
  | SFree p => ptr_ok s p
  | SStore p off data => range_ok s p off (len data)
  | SLoad p off n => range_ok s p off n
  end.

(* ---- the allocator's obligations --------------------------------------------- *)
Definition is_none {A} (o : option A) : bool := match o with None => true | Some _ => false end.
Definition is_nil (l : list N) : bool := match l with [] => true | _ => false end.

(* a call without a result value (free, store) or one that returns NULL by convention *)
Definition no_result (r : sres) : bool :=
  is_none (sr_ptr r) && is_none (sr_errno r) && is_nil (sr_data r).
(* an ordinary allocation failure: NULL; errno untouched or ENOMEM *)
Definition failure_ok (r : sres) : bool :=
  is_none (sr_ptr r) && is_nil (sr_data r)
  && match sr_errno r with None => true | Some e => e =? ENOMEM end.
(* the mandatory failure on overflow *)
Definition enomem_failure (r : sres) : bool :=
  is_none (sr_ptr r) && is_nil (sr_data r)
  && match sr_errno r with None => false | Some e => e =? ENOMEM end.

Definition s_alloc (s : sstate) (n : N) (zeroed : bool) (r : sres) : option sstate :=
  match sr_ptr r with
  | None => if failure_ok r then Some s else None
  | Some id =>
    let d := sr_data r in
    if amem id s then None
    else if negb (is_none (sr_errno r)) then None
    else if negb (n <=? len d) then None
    else if zeroed && negb (list_eqb (firstn (N.to_nat n) d) (repeat 0 (N.to_nat n))) then None
    else Some ((id, d) :: s)
  end.

Definition s_free (s : sstate) (p : sptr) (r : sres) : option sstate :=
  if negb (no_result r) then None
  else match p with
       | None => Some s
       | Some id => if amem id s then Some (aremove id s) else None
       end.

Definition s_realloc (s : sstate) (p : sptr) (n : N) (r : sres) : option sstate :=
  match p with
  | None => s_alloc s n false r
  | Some id =>
    match afind id s with
    | None => None
    | Some c =>
      if n =? 0 then s_free s p r
      else match sr_ptr r with
           | None => if failure_ok r then Some s else None
           | Some id' =>
             let d := sr_data r in
             let k := N.to_nat (N.min (len c) n) in
             if negb (is_none (sr_errno r)) then None
             else if negb (n <=? len d) then None
             else if negb (list_eqb (firstn k d) (firstn k c)) then None
             else if id' =? id then Some (aupdate id d s)
             else if amem id' s then None
             else Some ((id', d) :: aremove id s)
           end
    end
  end.

Definition sstep (s : sstate) (op : sop) (r : sres) : option sstate :=
  match op with
  | SMalloc n => s_alloc s n false r
  | SCalloc nm sz =>
    if SIZE_LIMIT <=? nm * sz then (if enomem_failure r then Some s else None)
    else s_alloc s (nm * sz) true r
  | SRealloc p n => s_realloc s p n r
  | SReallocarray p nm sz =>
    if SIZE_LIMIT <=? nm * sz then (if enomem_failure r then Some s else None)
    else s_realloc s p (nm * sz) r
  | SFree p => s_free s p r
  | SStore p off data =>
    match p with
    | None => None
    | Some id =>
      match afind id s with
      | None => None
      | Some c => if no_result r then Some (aupdate id (splice (N.to_nat off) data c) s) else None
      end
    end
  | SLoad p off n =>
    match p with
    | None => None
    | Some id =>
      match afind id s with
      | None => None
      | Some c =>
        if is_none (sr_ptr r) && is_none (sr_errno r)
           && list_eqb (sr_data r) (slice (N.to_nat off) (N.to_nat n) c)
        then Some s else None
      end
    end
  end.

(* a whole history: every call is one the caller may make, and every answer is allowed *)
Fixpoint accepts (s : sstate) (tr : list (sop * sres)) : option sstate :=
  match tr with
  | [] => Some s
  | (op, r) :: rest =>
    match sstep s op r with
    | Some s' => accepts s' rest
    | None => None
    end
  end.

(* index of the first call of a history that is not an allowed one / answer (for the oracle):
   0 = accepted, k+1 = the k-th event is rejected; the flag tells whether the caller was at fault *)
Fixpoint first_reject (s : sstate) (tr : list (sop * sres)) (k : N) : N * bool :=
  match tr with
  | [] => (0, false)
  | (op, r) :: rest =>
    if negb (svalid s op) then (k + 1, true)
    else match sstep s op r with
         | Some s' => first_reject s' rest (k + 1)
         | None => (k + 1, false)
         end
  end.
