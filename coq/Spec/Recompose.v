(* What converting a parsed URI back to text must yield: the input, except that an IPv6 literal is
   written in full eight-group lower-case hexadecimal form denoting the same address. *)
From Coq Require Import List NArith Bool.
From UP Require Import Base.Chars Base.Regex Spec.Split.
Import ListNotations.
Local Open Scope N_scope.

Definition lower_hex (v : N) : N := if v <? 10 then 48 + v else 87 + v.
Definition hex4 (hi lo : N) : text := [lower_hex (hi / 16); lower_hex (hi mod 16); lower_hex (lo / 16); lower_hex (lo mod 16)].

Fixpoint groups_text (bytes : list N) : text :=
  match bytes with
  | hi :: lo :: r => hex4 hi lo ++ match r with [] => [] | _ => 58 :: groups_text r end
  | _ => []
  end.

(* rewrite the bracketed literal of a valid URI reference, if it is an IPv6 address *)
Definition canon_ip6 (s : text) : text :=
  let (pre, r) := span_until [91] s in
  match strip_char 91 r with
  | Some r' =>
    let (lit, post) := span_until [93] r' in
    match lit with
    | [] => s
    | _ => if head_is 118 lit || head_is 86 lit then s
           else pre ++ [91] ++ groups_text (ip6_value lit) ++ post
    end
  | None => s
  end.
