(* Property C07: what "a URI object keeps its meaning when written and read back" means, and the
   condition on an object under which it does.  Nothing here mentions how uriparser proceeds.

   [produced_wf u]  the condition: every component consists of the characters its grammar rule
                    allows, the host fields describe one kind of host, and the path cannot be read
                    back as an authority ("//...") or a scheme ("a:b" first in a relative reference);
   [same_meaning u v]  what reading back must preserve: scheme, authority presence, user info, host
                    (address bytes for an IPv6 literal, whose text is rewritten canonically; the text
                    and literal kind otherwise), port, path text, query, fragment.

   The structural clauses of the property: "a host never coexists with the absolute-path flag" is
   part of [host_ok]; "component ranges are either both NULL or ordered" is built into the model's
   [option text]; "the tail is the last path node" cannot be expressed over a Coq list and is
   checked on the implementation only (gen/c07.py). *)
From Coq Require Import List NArith Bool.
From UP Require Import Base.Chars Base.Regex Model.Uri Spec.NormalWf Spec.Split Spec.Unparse.
From UP Require Spec.Rfc3986.
Import ListNotations.
Local Open Scope N_scope.

(* the path as the recomposition writes it: a leading "/" for an absolute path and in front of a
   non-empty path that follows an authority; segments separated by "/" *)
Definition path_text (u : uri) : text :=
  (if absolutePath u || (is_some (hostText u) && negb (match pathSegs u with [] => true | _ => false end))
   then [47] else [])
  ++ Unparse.join_slash (pathSegs u).

(* one kind of host, consistently described *)
Definition host_ok (u : uri) : Prop :=
  match hostText u with
  | None => ip4 u = None /\ ip6 u = None /\ ipFuture u = None
  | Some h =>
    absolutePath u = false /\
    match ip4 u, ip6 u, ipFuture u with
    | None, None, None => text_ok is_regname_char h                              (* registered name *)
    | Some o, None, None => matchb Rfc3986.IPv4address h = true /\ o = ip4_value h       (* dotted quad *)
    | None, Some b, None => length b = 16%nat /\ Forall (fun x => x <= 255) b    (* IPv6: the bytes are what is written *)
    | None, None, Some f => f = h /\ matchb Rfc3986.IPvFuture h = true
    | _, _, _ => False
    end
  end.

(* without an authority the path text must not begin with "//", and in a reference without scheme
   its first segment must not contain ":" *)
Definition path_unambiguous (u : uri) : Prop :=
  match hostText u with
  | Some _ => True
  | None =>
    (head_is 47 (path_text u) && head_is 47 (tl (path_text u))) = false
    /\ (scheme u = None -> ~ In 58 (fst (span_until [47] (path_text u))))
  end.

Definition produced_wf (u : uri) : Prop :=
  opt_ok scheme_ok (scheme u)
  /\ opt_ok (text_ok is_userinfo_char) (userInfo u)
  /\ host_ok u
  /\ opt_ok digits_ok (portText u)
  /\ Forall (text_ok is_pchar) (pathSegs u)
  /\ opt_ok (text_ok is_qf_char) (query u)
  /\ opt_ok (text_ok is_qf_char) (fragment u)
  /\ path_unambiguous u
  /\ auth_ok u.

(* the host as far as its meaning goes *)
Inductive host_meaning :=
| HNone
| HAddr6 (bytes : list N)
| HText (t : text) (future : bool).

Definition host_of (u : uri) : host_meaning :=
  match hostText u with
  | None => HNone
  | Some h => match ip6 u with
              | Some b => HAddr6 b
              | None => HText h (is_some (ipFuture u))
              end
  end.

Definition same_meaning (u v : uri) : Prop :=
  scheme u = scheme v
  /\ userInfo u = userInfo v
  /\ host_of u = host_of v
  /\ portText u = portText v
  /\ path_text u = path_text v
  /\ query u = query v
  /\ fragment u = fragment v.
