(* RFC 3986 section 6.2.2 syntax-based normalization, on the five components of a reference:
   case normalization (scheme, host; hex digits of percent-encodings upper case), percent-encoding
   normalization (unreserved characters decoded), path segment normalization (dot segments removed,
   a relative-path reference keeping its leading ".." run). *)
From Coq Require Import List NArith Bool.
From UP Require Import Base.Chars Base.Regex Spec.Resolve Spec.Split.
Import ListNotations.
Local Open Scope N_scope.

Definition lower (c : N) : N := if in_range 65 90 c then c + 32 else c.
Definition upper_hex (v : N) : N := if v <? 10 then 48 + v else 55 + v.

(* percent-encoding normalization; [lc] says whether characters outside triplets are lower-cased *)
Fixpoint pct_norm (lc : bool) (t : text) : text :=
  match t with
  | [] => []
  | c :: r =>
    match r with
    | a :: b :: r2 =>
      if (c =? 37) && is_hexdig a && is_hexdig b then
        let v := 16 * hexdig_to_int a + hexdig_to_int b in
        if is_unreserved v then (if lc then lower v else v) :: pct_norm lc r2
        else 37 :: upper_hex (hexdig_to_int a) :: upper_hex (hexdig_to_int b) :: pct_norm lc r2
      else (if lc then lower c else c) :: pct_norm lc r
    | _ => (if lc then map lower t else t)
    end
  end.

(* ---- path --------------------------------------------------------------------------- *)
Definition is_dot (s : text) := text_eqb s [46].
Definition is_dotdot (s : text) := text_eqb s [46; 46].

(* relative-path reference: cancel "x/.." pairs and "." but keep the leading ".." run *)
Fixpoint rel_stack (stack : list text) (segs : list text) : list text :=
  match segs with
  | [] => rev stack
  | s :: r =>
    if is_dot s then rel_stack stack r
    else if is_dotdot s then
      match stack with
      | top :: st' => if is_dotdot top then rel_stack (s :: stack) r else rel_stack st' r
      | [] => rel_stack [s] r
      end
    else rel_stack (s :: stack) r
  end.

Fixpoint join_slash (segs : list text) : text :=
  match segs with
  | [] => []
  | [s] => s
  | s :: r => s ++ 47 :: join_slash r
  end.

Definition has_colon (t : text) : bool := existsb (fun c => c =? 58) t.

(* the stack after all segments but the last (most recent first) *)
Fixpoint rel_stack_rev (stack : list text) (segs : list text) : list text :=
  match segs with
  | [] => stack
  | s :: r =>
    if is_dot s then rel_stack_rev stack r
    else if is_dotdot s then
      match stack with
      | top :: st' => if is_dotdot top then rel_stack_rev (s :: stack) r else rel_stack_rev st' r
      | [] => rel_stack_rev [s] r
      end
    else rel_stack_rev (s :: stack) r
  end.

(* the segments of the normal form: a final "." or a final ".." that cancels a segment leaves a
   trailing slash (an empty last segment), as in RFC 3986 5.2.4 steps 2B and 2C *)
Definition rel_segments (segs : list text) : list text :=
  let st := rel_stack_rev [] (removelast segs) in
  let l := last segs [] in
  if is_dot l then rev ([] :: st)
  else if is_dotdot l then
    match st with
    | top :: st' => if is_dotdot top then rev (l :: st) else rev ([] :: st')
    | [] => [l]
    end
  else rev (l :: st).

(* normal form of the path of a relative-path reference (no scheme, no authority, rootless) *)
Definition rel_path_normal (p : text) : text :=
  match p with
  | [] => []
  | _ =>
    let body := rel_segments (split_on 47 p) in
    match body with
    | [] | [[]] => [46; 47]                                        (* everything cancelled: "./" *)
    | first :: _ =>
      (* keep the reference a relative-path reference *)
      if has_colon first || match first with [] => true | _ => false end
      then 46 :: 47 :: join_slash body else join_slash body
    end
  end.

Definition path_normal (has_scheme has_auth : bool) (p : text) : text :=
  let p := join_slash (map (pct_norm false) (split_on 47 p)) in
  match p with
  | [] => []
  | _ => if head_is 47 p then remove_dot_segments p
         else if has_scheme || has_auth then rds_keep_kind p else rel_path_normal p
  end.

(* authority: userinfo "@" host ":" port; the host is case-normalised unless it is an IPv6 literal
   (whose text the grammar already fixes up to case) *)
Definition auth_normal (a : text) : text :=
  let '(ui, h, lit, port) := split_authority a in
  (match ui with Some u => pct_norm false u ++ [64] | None => [] end)
  ++ (if lit then 91 :: (match h with
                         | c :: _ => if (c =? 118) || (c =? 86) then map lower h else h
                         | [] => h end) ++ [93]
      else pct_norm true h)
  ++ (match port with Some p => 58 :: p | None => [] end).

Definition five_normal (t : five) : five :=
  mkFive (match f_scheme t with Some s => Some (map lower s) | None => None end)
         (match f_auth t with Some a => Some (auth_normal a) | None => None end)
         (path_normal (is_some_t (f_scheme t)) (is_some_t (f_auth t)) (f_path t))
         (match f_query t with Some q => Some (pct_norm false q) | None => None end)
         (match f_frag t with Some f => Some (pct_norm false f) | None => None end).

(* As for resolution, a host-less normal form must not be written with "//" in front (the text would be
   read back with an authority): a single "." segment is placed in front of the path.  For a path that
   was absolute this is "/." in front of a path text beginning with "//" (Spec.Resolve.guard_slashes).
   A path that was rootless stays rootless: the "." becomes its first segment ("./" in front), where
   its first two segments are empty -- the text begins with "//", or is "/" when there are only these
   two.  (The second case arises only for a rootless path behind a scheme whose dot segments cancel in
   front of an empty segment, "s:a/..//b": the corner RFC 3986 and the properties leave open, cf.
   Spec.Resolve.unspecified_corner; a relative-path reference is already kept relative by
   [rel_path_normal].) *)
Definition is_rootless (p : text) : bool := match p with [] => false | _ => negb (head_is 47 p) end.
Definition guard_path (rootless has_auth : bool) (p : text) : text :=
  if has_auth then p
  else if rootless then (if starts_with [47; 47] p || text_eqb p [47] then 46 :: 47 :: p else p)
  else if starts_with [47; 47] p then 47 :: 46 :: p else p.
Definition guard_normal (orig t : five) : five :=
  mkFive (f_scheme t) (f_auth t) (guard_path (is_rootless (f_path orig)) (is_some_t (f_auth t)) (f_path t))
         (f_query t) (f_frag t).
Definition normal_text (s : text) : text :=
  let f := five_of_text s in recompose (guard_normal f (five_normal f)).

(* the three shapes in which uriparser 0.9.8 leaves the specification (relative-path references only) *)
Definition rel_path_ref (t : five) : bool :=
  negb (is_some_t (f_scheme t)) && negb (is_some_t (f_auth t))
  && match f_path t with [] => false | _ => negb (head_is 47 (f_path t)) end.
Definition rel_body (p : text) : list text :=
  rel_stack [] (split_on 47 (join_slash (map (pct_norm false) (split_on 47 p)))).
