(* Extraction of the query and filename models and of the executable specification functions
   used as oracles by gen/c17.py and gen/c18.py.  Only ExtrOcamlBasic is used. *)
Require Extraction.
Require Import ExtrOcamlBasic.
From UP Require Import Base.Chars Model.Escape Model.Query Model.File Spec.PctSpec Spec.FormUrl Spec.FileSpec
  Proofs.QueryProofs.
Extraction Language OCaml.
Extraction "qfmodel.ml"
  escape unescape crlf
  chars_required chars_required_len compose_ex apply_log compose_malloc dissect
  filename_to_uri_string uri_string_to_filename f2u_extent u2f_extent fn_absolute
  query_legal dissect_spec roundtrip_expect total_size no_item_too_large
  uri_reference_shape unix_absolute win_drive_absolute win_unc win_relative win_absolute
  unix_uri_size win_uri_size filename_size uri_form.
