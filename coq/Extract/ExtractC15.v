(* Extraction of the executable model of UriMemory.c and of the executable allocator
   specification.  Only ExtrOcamlBasic is used: nat, positive, N, Z stay inductive datatypes. *)
Require Extraction.
Require Import ExtrOcamlBasic.
From UP Require Import Base.Bytes Spec.AllocSpec Model.Memory Proofs.MemoryProofs.
(* ocaml/glue.ml (shared, not ours) mentions the break-conversion types of the C16 model *)
From UP Require Model.Escape Spec.PctSpec.
Extraction Language OCaml.
Extraction "c15model.ml"
  init step run block_at log_live complete_memory_manager decode_le le_bytes
  be_next be_live be_log be_fault
  svalid sstep accepts first_reject
  conc_op conc_ptr abs abs_res
  N.add N.mul N.ltb N.leb N.eqb N.of_nat N.to_nat
  Model.Escape.break_conv Spec.PctSpec.brk.
