(* Extraction of the memory tier of the query functions (Model/QueryM.v) together with the pure-tier
   functions it is compared with by ocaml/driver_qm.ml.  Only ExtrOcamlBasic is used. *)
Require Extraction.
Require Import ExtrOcamlBasic.
From UP Require Import Base.Chars Model.Escape Spec.PctSpec Model.Query Model.Mem Model.QueryM.
Extraction Language OCaml.
Extraction "qmmodel.ml"
  dissect_m compose_m free_query_list_m free_string_m erase_q erase_d erase_c mqlist_blocks
  dissect compose_malloc chars_required unescape_spec
  ms_init trace_of live_count bad_frees QL_SIZE.
