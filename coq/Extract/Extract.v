(* Extraction of the executable model and the executable specification functions.
   Only ExtrOcamlBasic is used: nat, positive, N, Z stay inductive datatypes. *)
Require Extraction.
Require Import ExtrOcamlBasic.
From UP Require Import Base.Chars Base.Regex Base.Atoms Base.SuiteChars Model.Uri Model.Escape Spec.PctSpec Spec.Rfc3986 Spec.ErrPos Spec.Split Spec.Recompose Spec.Resolve Spec.Normal Spec.Findings Model.Ip4 Model.Parse Model.Recompose Model.Common Model.Compare Model.Resolve Model.Shorten Model.Normalize Proofs.Findings10 Model.Mem Model.ParseM Model.OpsM.
Extraction Language OCaml.
Extraction "model.ml" escape unescape unescape_inplace escaped_form crlf unescape_spec
  parse parse_cstr parse_ip4 matchb first_dead URI_reference is_empty deriv nullable crun ptrans pfinish all_atoms atom_rep atom_of suite_chars errpos_ok split_spec to_text to_string chars_required
  equals_uri add_base remove_base normalize mask_required make_owner Common.remove_dot_segments fix_ambiguity
  canon_ip6 resolve_text resolve_corner normal_text five_of_text rel_path_ref Spec.Resolve.remove_dot_segments rds_keep_kind c06_shape c08_shape ref_kind c10_class
  parse_m free_members ms_init trace_of live_count bad_frees erase muri_blocks alloc free_blk
  make_owner_m normalize_m add_base_m remove_base_m SEG_SIZE IP4_SIZE IP6_SIZE.
