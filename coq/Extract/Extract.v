(* Extraction of the executable model and the executable specification functions.
   Only ExtrOcamlBasic is used: nat, positive, N, Z stay inductive datatypes. *)
Require Extraction.
Require Import ExtrOcamlBasic.
From UP Require Import Base.Chars Model.Escape Spec.PctSpec.
Extraction Language OCaml.
Extraction "model.ml" escape unescape unescape_inplace escaped_form crlf unescape_spec.
