#!/bin/sh
# Build the framework from files on disk only (offline): Coq development (full .vo), extracted model, OCaml driver.
set -e
cd "$(dirname "$0")"
cd coq
coq_makefile -f _CoqProject -o Makefile >/dev/null
timeout 7200 make -j16
cd ..
python3 gen/buildall.py
