/* Correspondence driver for the query (C17) and filename (C18) functions of uriparser.
 * Same conventions as drv.c: one request per line, one canonical result line; compiled for
 * char (default) and wchar_t (-DDRV_WIDE); -DDRV_EXACT = caller buffers exactly as large as
 * documented / requested (ASan builds), otherwise a canary guard zone follows each buffer.
 *
 * Requests (text fields: "-" NULL, "_" empty, hex code points joined by '.'):
 *   creq     <ex> <stp> <nb> <n> k1 v1 ... kn vn            -> creq <rc> <required|->
 *   compose  <ex> <stp> <nb> <cap> <n> k1 v1 ...            -> compose <rc> <written|-> <hi> <cells 0..hi-1> <guard>
 *   cmalloc  <ex> <stp> <nb> <mm> <n> k1 v1 ...             -> cmalloc <rc> <text|-> out=<outstanding blocks>
 *   cmallocf <stp> <nb> <failat> <n> k1 v1 ...              -> cmallocf <rc> <dest untouched> out=<outstanding>
 *   dissect  <ex> <pts> <bc> <mm> <text>                    -> dissect <rc> <count> <n> k1 v1 ... out=<outstanding>
 *   dissectf <pts> <bc> <failat> <text>                     -> dissectf <rc> <count> <dest null> out=<outstanding>
 *   bigreq   <stp> <nb> <N> <klen> <vlen|-1> [<N> <klen> <vlen|-1> ...] -> bigreq <rc> <required|->
 *   bigmalloc <stp> <nb> <N> <klen> <vlen|-1> [...]        -> bigmalloc <rc>
 *   bigcompose <stp> <nb> <maxChars> <N> <klen> <vlen|-1> [...] -> bigcompose <rc> <written> <nothing stored in front: 1|0>
 *            (uriComposeQueryEx into a buffer of exactly maxChars characters that ends at an inaccessible page)
 *            (groups of N items sharing one key and one value string of 'a's)
 *   fn2uri   <unix> <text>                                  -> fn2uri <rc> <text> <guard>
 *   uri2fn   <unix> <absdoc> <text>                         -> uri2fn <rc> <text> <guard>
 *   parseok  <text>                                         -> parseok <rc of uriParseSingleUri>
 * ex = 0 selects the entry point without flags (uriComposeQuery, uriDissectQueryMalloc, ...).
 * mm = 0 default memory manager, 1 = counting memory manager through the ...Mm entry points.
 */
#include <stdio.h>
#include <stdlib.h>
#include <string.h>
#include <wchar.h>
#include <stdint.h>
#include <sys/mman.h>
#include <unistd.h>
#include <uriparser/Uri.h>

#ifdef DRV_WIDE
typedef wchar_t CH;
# define F(x) uri##x##W
# define T(x) Uri##x##W
# define CHVAL(c) ((unsigned long)(c))
#else
typedef char CH;
# define F(x) uri##x##A
# define T(x) Uri##x##A
# define CHVAL(c) ((unsigned long)(unsigned char)(c))
#endif

#ifdef DRV_EXACT
# define GUARD 0
#else
# define GUARD 8
#endif
/* every byte of a fresh output buffer is non-zero (also the upper bytes of a wide character): a store that writes fewer
   bytes than a character has leaves a visibly wrong character behind */
#ifdef DRV_WIDE
# define CANARY ((CH)0x5A5A5A5A)
#else
# define CANARY ((CH)0x5A)
#endif

/* ------------------------------------------------------------------ fields */
static char **fld;
static int nfld, capfld;

static void split_fields(char *line) {
	nfld = 0;
	char *p = line;
	while (*p) {
		while (*p == ' ') p++;
		if (!*p || *p == '\n') break;
		if (nfld == capfld) {
			capfld = capfld ? 2 * capfld : 64;
			fld = realloc(fld, capfld * sizeof(char *));
			if (!fld) exit(3);
		}
		fld[nfld++] = p;
		while (*p && *p != ' ' && *p != '\n') p++;
		if (*p) { *p = 0; p++; }
	}
}

static size_t text_len(const char *f) {
	if (f[0] == '-' || f[0] == '_') return 0;
	size_t n = 1;
	for (const char *p = f; *p; p++) if (*p == '.') n++;
	return n;
}
static int text_is_null(const char *f) { return f[0] == '-'; }

static void text_decode(const char *f, CH *dst) {
	if (f[0] == '-' || f[0] == '_') return;
	const char *p = f;
	size_t i = 0;
	while (*p) {
		unsigned long v = strtoul(p, (char **)&p, 16);
		dst[i++] = (CH)v;
		if (*p == '.') p++;
	}
}
/* NUL-terminated copy in a block of exactly len + 1 characters; NULL for "-" */
static CH *text_zdup(const char *f) {
	if (text_is_null(f)) return NULL;
	size_t n = text_len(f);
	CH *b = malloc((n + 1) * sizeof(CH));
	if (!b) exit(3);
	text_decode(f, b);
	b[n] = 0;
	return b;
}

static void put_text(const CH *first, const CH *afterLast) {
	if (first == NULL) { fputs("-", stdout); return; }
	if (first == afterLast) { fputs("_", stdout); return; }
	for (const CH *p = first; p < afterLast; p++) {
		if (p != first) putchar('.');
		printf("%lx", CHVAL(*p));
	}
}
static void put_ztext(const CH *s) {
	const CH *e = s;
	if (s) while (*e) e++;
	put_text(s, e);
}

static CH *gbuf_new(size_t n) {
	CH *b = malloc((n + GUARD) * sizeof(CH) + (n + GUARD == 0));
	if (!b) { fprintf(stderr, "qf: out of memory\n"); exit(3); }
	for (size_t i = 0; i < n + GUARD; i++) b[i] = CANARY;
	return b;
}
static int gbuf_ok(const CH *b, size_t n) {
	for (size_t i = n; i < n + GUARD; i++) if (b[i] != CANARY) return 0;
	return 1;
}

/* ------------------------------------------------------------------ counting memory manager */
static long mm_live, mm_calls, mm_failat;   /* mm_failat: fail the k-th allocation (1-based), 0 = never */
static int mm_should_fail(void) { mm_calls++; return mm_failat && mm_calls == mm_failat; }
static void *mm_malloc(UriMemoryManager *m, size_t n) {
	(void)m; if (mm_should_fail()) return NULL;
	void *p = malloc(n ? n : 1); if (p) mm_live++; return p;
}
static void *mm_calloc(UriMemoryManager *m, size_t a, size_t b) {
	(void)m; if (mm_should_fail()) return NULL;
	if (b && a > (size_t)-1 / b) return NULL;
	void *p = calloc(a ? a : 1, b ? b : 1); if (p) mm_live++; return p;
}
static void *mm_realloc(UriMemoryManager *m, void *q, size_t n) {
	(void)m; if (mm_should_fail()) return NULL;
	void *p = realloc(q, n ? n : 1); if (p && !q) mm_live++; return p;
}
static void *mm_reallocarray(UriMemoryManager *m, void *q, size_t a, size_t b) {
	if (b && a > (size_t)-1 / b) return NULL;
	return mm_realloc(m, q, a * b);
}
static void mm_free(UriMemoryManager *m, void *p) { (void)m; if (p) mm_live--; free(p); }
static UriMemoryManager counting_mm = { mm_malloc, mm_calloc, mm_realloc, mm_reallocarray, mm_free, NULL };
static void mm_reset(long failat) { mm_live = 0; mm_calls = 0; mm_failat = failat; }

/* ------------------------------------------------------------------ query lists */
static T(QueryList) *build_list(int n, char **items, CH ***owned, int *nowned) {
	T(QueryList) *head = NULL, **tail = &head;
	*owned = malloc((2 * (size_t)n + 1) * sizeof(CH *));
	*nowned = 0;
	for (int i = 0; i < n; i++) {
		T(QueryList) *q = malloc(sizeof(*q));
		if (!q) exit(3);
		CH *k = text_zdup(items[2 * i]), *v = text_zdup(items[2 * i + 1]);
		(*owned)[(*nowned)++] = k; (*owned)[(*nowned)++] = v;
		q->key = k; q->value = v; q->next = NULL;
		*tail = q; tail = &q->next;
	}
	return head;
}
static void free_list(T(QueryList) *l, CH **owned, int nowned) {
	while (l) { T(QueryList) *n = l->next; free(l); l = n; }
	for (int i = 0; i < nowned; i++) free(owned[i]);
	free(owned);
}

static void op_creq(void) {
	int ex = atoi(fld[1]), stp = atoi(fld[2]), nb = atoi(fld[3]), n = atoi(fld[4]);
	CH **owned; int nowned;
	T(QueryList) *l = build_list(n, fld + 5, &owned, &nowned);
	int req = -777;
	int rc = ex ? F(ComposeQueryCharsRequiredEx)(l, &req, stp, nb) : F(ComposeQueryCharsRequired)(l, &req);
	if (rc == 0) printf("creq 0 %d", req); else printf("creq %d -", rc);
	free_list(l, owned, nowned);
}

static void op_compose(void) {
	int ex = atoi(fld[1]), stp = atoi(fld[2]), nb = atoi(fld[3]), cap = atoi(fld[4]), n = atoi(fld[5]);
	CH **owned; int nowned;
	T(QueryList) *l = build_list(n, fld + 6, &owned, &nowned);
	size_t cells = cap > 0 ? (size_t)cap : 0;
	CH *buf = gbuf_new(cells);
	int written = -777;
	int rc = ex ? F(ComposeQueryEx)(buf, l, cap, &written, stp, nb) : F(ComposeQuery)(buf, l, cap, &written);
	size_t hi = 0;
	for (size_t i = 0; i < cells; i++) if (buf[i] != CANARY) hi = i + 1;
	if (rc == 0) printf("compose 0 %d %zu ", written, hi);
	else printf("compose %d %s %zu ", rc, written == -777 ? "-" : "!written-set", hi);
	put_text(buf, buf + hi);
	printf(" %d", gbuf_ok(buf, cells));
	free(buf);
	free_list(l, owned, nowned);
}

static void op_cmalloc(void) {
	int ex = atoi(fld[1]), stp = atoi(fld[2]), nb = atoi(fld[3]), mm = atoi(fld[4]), n = atoi(fld[5]);
	CH **owned; int nowned;
	T(QueryList) *l = build_list(n, fld + 6, &owned, &nowned);
	CH *out = NULL;
	int rc;
	mm_reset(0);
	if (mm) rc = F(ComposeQueryMallocExMm)(&out, l, ex ? stp : 1, ex ? nb : 1, &counting_mm);
	else rc = ex ? F(ComposeQueryMallocEx)(&out, l, stp, nb) : F(ComposeQueryMalloc)(&out, l);
	printf("cmalloc %d ", rc);
	if (rc == 0) put_ztext(out); else fputs(out == NULL ? "-" : "!dest-set", stdout);
	if (rc == 0) { if (mm) counting_mm.free(&counting_mm, out); else free(out); }
	printf(" out=%ld", mm_live);
	free_list(l, owned, nowned);
}

static void op_cmallocf(void) {
	int stp = atoi(fld[1]), nb = atoi(fld[2]); long failat = atol(fld[3]); int n = atoi(fld[4]);
	CH **owned; int nowned;
	T(QueryList) *l = build_list(n, fld + 5, &owned, &nowned);
	CH *out = NULL;
	mm_reset(failat);
	int rc = F(ComposeQueryMallocExMm)(&out, l, stp, nb, &counting_mm);
	printf("cmallocf %d %d", rc, out == NULL);
	if (rc == 0 && out) counting_mm.free(&counting_mm, out);
	printf(" out=%ld", mm_live);
	free_list(l, owned, nowned);
}

static void op_dissect(void) {
	int ex = atoi(fld[1]), pts = atoi(fld[2]), bc = atoi(fld[3]), mm = atoi(fld[4]);
	size_t n = text_len(fld[5]);
	CH *in = malloc(n * sizeof(CH) + 1);     /* exactly the range, no terminator */
	text_decode(fld[5], in);
	T(QueryList) *l = NULL;
	int count = -777, rc;
	/* mm: bit 0 = the manager-taking entry point, bit 1 = the optional itemCount output is NULL */
	int *cp = (mm & 2) ? NULL : &count;
	mm &= 1;
	mm_reset(0);
	if (mm) rc = F(DissectQueryMallocExMm)(&l, cp, in, in + n, ex ? pts : 1, ex ? (UriBreakConversion)bc : URI_BR_DONT_TOUCH, &counting_mm);
	else rc = ex ? F(DissectQueryMallocEx)(&l, cp, in, in + n, pts, (UriBreakConversion)bc)
	             : F(DissectQueryMalloc)(&l, cp, in, in + n);
	int len = 0;
	for (T(QueryList) *q = l; q; q = q->next) len++;
	if (!cp && rc == 0) count = len;      /* nothing to report: the list itself is judged */
	printf("dissect %d %d %d", rc, count, rc == 0 ? len : 0);
	if (rc == 0) for (T(QueryList) *q = l; q; q = q->next) {
		putchar(' '); put_ztext(q->key); putchar(' '); put_ztext(q->value);
	}
	if (rc == 0) { if (mm) F(FreeQueryListMm)(l, &counting_mm); else F(FreeQueryList)(l); }
	printf(" out=%ld", mm_live);
	free(in);
}

static void op_dissectf(void) {
	int pts = atoi(fld[1]), bc = atoi(fld[2]); long failat = atol(fld[3]);
	size_t n = text_len(fld[4]);
	CH *in = malloc(n * sizeof(CH) + 1);
	text_decode(fld[4], in);
	T(QueryList) *l = NULL;
	int count = -777;
	mm_reset(failat);
	int rc = F(DissectQueryMallocExMm)(&l, &count, in, in + n, pts, (UriBreakConversion)bc, &counting_mm);
	printf("dissectf %d %d", rc, count);
	if (rc == 0) { F(FreeQueryListMm)(l, &counting_mm); printf(" -"); }
	else printf(" %d", 1);   /* the list pointer is not meaningful after a failure (it may dangle) */
	printf(" out=%ld", mm_live);
	free(in);
}

/* a buffer of len times 'a' */
static CH *a_string(long len) {
	CH *b = malloc(((size_t)len + 1) * sizeof(CH));
	if (!b) return NULL;
	for (long i = 0; i < len; i++) b[i] = (CH)'a';
	b[len] = 0;
	return b;
}
/* G groups of items <N> <klen> <vlen|-1>, one after the other in the list; the N items of a group
 * all point to the same key and value buffers (one buffer for both when klen == vlen) */
static void op_big(int domalloc) {
	const char *name = domalloc == 2 ? "bigcompose" : domalloc ? "bigmalloc" : "bigreq";
	int stp = atoi(fld[1]), nb = atoi(fld[2]);
	long maxChars = 0;
	if (domalloc == 2) {          /* bigcompose <stp> <nb> <maxChars> groups...: drop the capacity field */
		maxChars = atol(fld[3]);
		for (int i = 3; i + 1 < nfld; i++) fld[i] = fld[i + 1];
		nfld--;
	}
	int G = (nfld - 3) / 3, ok = 1;
	if (G < 1 || nfld != 3 + 3 * G) { printf("%s ?fields", name); return; }
	CH **kb = calloc((size_t)G, sizeof(*kb)), **vb = calloc((size_t)G, sizeof(*vb));
	long total = 0;
	for (int g = 0; g < G; g++) total += atol(fld[3 + 3 * g]);
	T(QueryList) *nodes = malloc((size_t)(total > 0 ? total : 1) * sizeof(*nodes));
	if (!kb || !vb || !nodes || total < 1) ok = 0;
	long at = 0;
	for (int g = 0; ok && g < G; g++) {
		long N = atol(fld[3 + 3 * g]), klen = atol(fld[4 + 3 * g]), vlen = atol(fld[5 + 3 * g]);
		kb[g] = a_string(klen);
		if (!kb[g]) { ok = 0; break; }
		if (vlen == klen) vb[g] = kb[g];
		else if (vlen >= 0) { vb[g] = a_string(vlen); if (!vb[g]) { ok = 0; break; } }
		for (long i = 0; i < N; i++, at++) {
			nodes[at].key = kb[g]; nodes[at].value = vb[g];
			nodes[at].next = at + 1 < total ? &nodes[at + 1] : NULL;
		}
	}
	if (!ok) printf("%s nomem", name);
	else if (!domalloc) {
		int req = -777;
		int rc = F(ComposeQueryCharsRequiredEx)(nodes, &req, stp, nb);
		if (rc == 0) printf("bigreq 0 %d", req); else printf("bigreq %d -", rc);
	} else if (domalloc == 2) {
		/* the destination holds exactly maxChars characters and ends where an inaccessible page begins:
		 * a store beyond the capacity faults at once */
		long pg = sysconf(_SC_PAGESIZE);
		size_t bytes = (size_t)(maxChars > 0 ? maxChars : 1) * sizeof(CH);
		size_t span = ((bytes + (size_t)pg - 1) / (size_t)pg) * (size_t)pg;
		char *m = mmap(NULL, span + (size_t)pg, PROT_READ | PROT_WRITE, MAP_PRIVATE | MAP_ANONYMOUS, -1, 0);
		if (m == MAP_FAILED) printf("bigcompose nomem");
		else {
			mprotect(m + span, (size_t)pg, PROT_NONE);
			CH *dest = (CH *)(m + span - bytes);
			memset(m, 0x5a, span);
			int written = -777;
			int rc = F(ComposeQueryEx)(dest, nodes, (int)maxChars, &written, stp, nb);
			/* nothing in front of the destination may change either */
			int under = 1;
			for (char *q = m; q < (char *)dest; q++) if (*q != 0x5a) { under = 0; break; }
			printf("bigcompose %d %d %d", rc, written, under);
			munmap(m, span + (size_t)pg);
		}
	} else {
		CH *out = NULL;
		int rc = F(ComposeQueryMallocEx)(&out, nodes, stp, nb);
		printf("bigmalloc %d", rc);
		if (rc == 0) free(out);
	}
	for (int g = 0; kb && vb && g < G; g++) { if (vb[g] != kb[g]) free(vb[g]); free(kb[g]); }
	free(kb); free(vb); free(nodes);
}

/* ------------------------------------------------------------------ filenames */
static void op_fn2uri(void) {
	int unx = atoi(fld[1]);
	size_t n = text_len(fld[2]);
	CH *in = text_zdup(fld[2]);
	/* documented: 7 + 3n + 1 (Unix) / 8 + 3n + 1 (Windows) for an absolute name, 3n + 1 otherwise */
	int absolute = unx ? (n >= 1 && in[0] == '/')
	                   : ((n >= 2 && in[1] == ':') || (n >= 2 && in[0] == '\\' && in[1] == '\\'));
	size_t cap = (absolute ? (unx ? 7 : 8) : 0) + 3 * n + 1;
	CH *out = gbuf_new(cap);
	int rc = unx ? F(UnixFilenameToUriString)(in, out) : F(WindowsFilenameToUriString)(in, out);
	printf("fn2uri %d ", rc);
	size_t len = 0;
	while (len < cap && out[len] != 0) len++;
	if (len == cap) fputs("!noterm", stdout); else put_text(out, out + len);
	printf(" %d", gbuf_ok(out, cap));
	free(in); free(out);
}

static void op_uri2fn(void) {
	int unx = atoi(fld[1]), absdoc = atoi(fld[2]);
	size_t n = text_len(fld[3]);
	CH *in = text_zdup(fld[3]);
	/* documented: len + 1 - 5 for an absolute URI, len + 1 for a relative one */
	size_t cap = absdoc ? (n + 1 >= 5 ? n + 1 - 5 : 0) : n + 1;
	CH *out = gbuf_new(cap);
	int rc = unx ? F(UriStringToUnixFilename)(in, out) : F(UriStringToWindowsFilename)(in, out);
	printf("uri2fn %d ", rc);
	size_t len = 0;
	while (len < cap && out[len] != 0) len++;
	if (len == cap) fputs("!noterm", stdout); else put_text(out, out + len);
	printf(" %d", gbuf_ok(out, cap));
	free(in); free(out);
}

static void op_parseok(void) {
	size_t n = text_len(fld[1]);
	CH *in = malloc(n * sizeof(CH) + 1);
	text_decode(fld[1], in);
	T(Uri) uri;
	const CH *errpos = NULL;
	int rc = F(ParseSingleUriEx)(&uri, in, in + n, &errpos);
	printf("parseok %d", rc);
	if (rc == 0) F(FreeUriMembers)(&uri);
	free(in);
}

int main(void) {
	char *line = NULL;
	size_t cap = 0;
	ssize_t n;
	while ((n = getline(&line, &cap, stdin)) > 0) {
		split_fields(line);
		if (nfld == 0) { puts(""); continue; }
		const char *op = fld[0];
		if (!strcmp(op, "creq")) op_creq();
		else if (!strcmp(op, "compose")) op_compose();
		else if (!strcmp(op, "cmalloc")) op_cmalloc();
		else if (!strcmp(op, "cmallocf")) op_cmallocf();
		else if (!strcmp(op, "dissect")) op_dissect();
		else if (!strcmp(op, "dissectf")) op_dissectf();
		else if (!strcmp(op, "bigreq")) op_big(0);
		else if (!strcmp(op, "bigmalloc")) op_big(1);
		else if (!strcmp(op, "bigcompose")) op_big(2);
		else if (!strcmp(op, "fn2uri")) op_fn2uri();
		else if (!strcmp(op, "uri2fn")) op_uri2fn();
		else if (!strcmp(op, "parseok")) op_parseok();
		else printf("?unknown-op %s", op);
		putchar('\n');
	}
	fflush(stdout);
	free(line);
	free(fld);
	return 0;
}
