/* Correspondence driver: runs uriparser (built from /repo's working tree) on one request
 * per input line and prints one canonical result line.  Compiled twice:
 *   default      -> char API      (uri...A)
 *   -DDRV_WIDE   -> wchar_t API   (uri...W)
 * -DDRV_EXACT : allocate caller buffers with exactly the documented size (for ASan builds);
 *               otherwise a guard zone filled with a canary follows each buffer and is checked.
 *
 * Field encodings (shared with ocaml/driver.ml and gen/*.py):
 *   text  : "-" NULL, "_" empty, else hex code points joined by '.'   e.g. 61.2f.c8
 *   int   : decimal
 */
#include <stdio.h>
#include <stdlib.h>
#include <string.h>
#include <wchar.h>
#include <errno.h>
#include <stdint.h>
#include <uriparser/Uri.h>
#include <uriparser/UriIp4.h>

#ifdef DRV_WIDE
typedef wchar_t CH;
# define F(x) uri##x##W
# define T(x) Uri##x##W
# define CHVAL(c) ((unsigned long)(c))
#else
typedef char CH;
# define F(x) uri##x##A
# define T(x) Uri##x##A
# define CHVAL(c) ((unsigned long)(unsigned char)(c))
#endif

#ifdef DRV_EXACT
# define GUARD 0
#else
# define GUARD 8
#endif
/* every byte of a fresh output buffer is non-zero (also the upper bytes of a wide character): a store that writes fewer
   bytes than a character has leaves a visibly wrong character behind */
#ifdef DRV_WIDE
# define CANARY ((CH)0x5A5A5A5A)
#else
# define CANARY ((CH)0x5A)
#endif

/* ------------------------------------------------------------------ fields */
#define MAXF 64
static char *fld[MAXF];
static int nfld;

static void split_fields(char *line) {
	nfld = 0;
	char *p = line;
	while (*p && nfld < MAXF) {
		while (*p == ' ') p++;
		if (!*p || *p == '\n') break;
		fld[nfld++] = p;
		while (*p && *p != ' ' && *p != '\n') p++;
		if (*p) { *p = 0; p++; }
	}
}

static size_t text_len(const char *f) {
	if (f[0] == '-' || f[0] == '_') return 0;
	size_t n = 1;
	for (const char *p = f; *p; p++) if (*p == '.') n++;
	return n;
}
static int text_is_null(const char *f) { return f[0] == '-'; }

/* decode into dst (must hold text_len(f) characters); no terminator written */
static void text_decode(const char *f, CH *dst) {
	if (f[0] == '-' || f[0] == '_') return;
	const char *p = f;
	size_t i = 0;
	while (*p) {
		unsigned long v = strtoul(p, (char **)&p, 16);
		dst[i++] = (CH)v;
		if (*p == '.') p++;
	}
}

static void put_text(const CH *first, const CH *afterLast) {
	if (first == NULL) { fputs("-", stdout); return; }
	if (first == afterLast) { fputs("_", stdout); return; }
	for (const CH *p = first; p < afterLast; p++) {
		if (p != first) putchar('.');
		printf("%lx", CHVAL(*p));
	}
}
static void put_ztext(const CH *s) {
	const CH *e = s;
	if (s) while (*e) e++;
	put_text(s, e);
}

/* buffer of n characters followed by GUARD canary characters */
static CH *gbuf_new(size_t n) {
	CH *b = malloc((n + GUARD) * sizeof(CH) + (n + GUARD == 0));
	if (!b) { fprintf(stderr, "drv: out of memory\n"); exit(3); }
	for (size_t i = 0; i < n + GUARD; i++) b[i] = CANARY;
	return b;
}
static int gbuf_ok(const CH *b, size_t n) {
	for (size_t i = n; i < n + GUARD; i++) if (b[i] != CANARY) return 0;
	return 1;
}

#include "drv_escape.inc"
#ifndef DRV_ONLY_ESCAPE
#include "drv_uri.inc"
#include "drv_query.inc"
#endif

int main(void) {
	char *line = NULL;
	size_t cap = 0;
	ssize_t n;
	while ((n = getline(&line, &cap, stdin)) > 0) {
		split_fields(line);
		if (nfld == 0) { puts(""); continue; }
		const char *op = fld[0];
		if (0) {}
		else if (!strcmp(op, "esc")) op_esc();
		else if (!strcmp(op, "unesc")) op_unesc();
#ifndef DRV_ONLY_ESCAPE
		else if (dispatch_uri(op)) {}
		else if (dispatch_query(op)) {}
#endif
		else printf("?unknown-op %s", op);
		putchar('\n');
	}
	fflush(stdout);
	free(line);
	return 0;
}
