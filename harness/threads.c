/* C20 runtime part: many threads call the library at once, each writing only to its own objects while
 * sharing read-only inputs (one base URI, one query list, the input strings).  Every thread must obtain
 * exactly what a single-threaded run obtains.  Built plain and (thorough tier) with -fsanitize=thread,
 * whose report is the replay of a failing schedule.
 *
 *   thr <threads> <iterations> <reference text> <base text>
 * -> thr digest=<digest of the single-threaded run> mismatches=<threads whose digest differs> errors=<n>
 */
#define _GNU_SOURCE
#include <stdio.h>
#include <stdlib.h>
#include <string.h>
#include <wchar.h>
#include <pthread.h>
#include <stdint.h>
#include <sys/mman.h>
#include <unistd.h>
#include <signal.h>
#include <uriparser/Uri.h>

#ifdef DRV_WIDE
typedef wchar_t CH;
# define F(x) uri##x##W
# define T(x) Uri##x##W
# define CHVAL(c) ((unsigned long)(c))
#else
typedef char CH;
# define F(x) uri##x##A
# define T(x) Uri##x##A
# define CHVAL(c) ((unsigned long)(unsigned char)(c))
#endif

static size_t text_len(const char *f) { if (f[0] == '-' || f[0] == '_') return 0; size_t n = 1; for (const char *p = f; *p; p++) if (*p == '.') n++; return n; }
static void text_decode(const char *f, CH *dst) { if (f[0] == '-' || f[0] == '_') return; const char *p = f; size_t i = 0; while (*p) { dst[i++] = (CH)strtoul(p, (char **)&p, 16); if (*p == '.') p++; } }

/* shared, read-only while the threads run */
static const CH *g_ref; static size_t g_refn;
static T(Uri) *g_basep; static int g_base_ok;     /* lives in a page of its own that is read-only while the threads run */
#define g_base (*g_basep)
static void on_segv(int sig) { (void)sig; static const char m[] = "thr !write-to-shared-read-only-input (SIGSEGV on its page)\n"; if (write(1, m, sizeof m - 1) < 0) _exit(3); _exit(0); }
static void *page_alloc(size_t n, size_t *maplen) { size_t pg = (size_t)sysconf(_SC_PAGESIZE); *maplen = ((n + pg - 1) / pg + 1) * pg; void *p = mmap(NULL, *maplen, PROT_READ | PROT_WRITE, MAP_PRIVATE | MAP_ANONYMOUS, -1, 0); return p == MAP_FAILED ? NULL : p; }
static T(QueryList) *g_ql; static int g_iters;

static uint64_t mix(uint64_t h, uint64_t v) { h ^= v + 0x9e3779b97f4a7c15ULL + (h << 6) + (h >> 2); return h; }
static uint64_t mix_text(uint64_t h, const CH *a, const CH *b) { if (!a) return mix(h, 7); for (; a < b; a++) h = mix(h, CHVAL(*a)); return mix(h, 11); }
static uint64_t mix_uri(uint64_t h, const T(Uri) *u) {
	h = mix_text(h, u->scheme.first, u->scheme.afterLast); h = mix_text(h, u->userInfo.first, u->userInfo.afterLast);
	h = mix_text(h, u->hostText.first, u->hostText.afterLast); h = mix_text(h, u->portText.first, u->portText.afterLast);
	if (u->hostData.ip4) for (int i = 0; i < 4; i++) h = mix(h, u->hostData.ip4->data[i]);
	if (u->hostData.ip6) for (int i = 0; i < 16; i++) h = mix(h, u->hostData.ip6->data[i]);
	for (const T(PathSegment) *s = u->pathHead; s; s = s->next) h = mix_text(h, s->text.first, s->text.afterLast);
	h = mix_text(h, u->query.first, u->query.afterLast); h = mix_text(h, u->fragment.first, u->fragment.afterLast);
	return mix(h, u->absolutePath ? 3 : 5);
}

/* one pass over the mixed workload; everything written is private to the caller */
static uint64_t workload(int *errors) {
	uint64_t h = 1469598103934665603ULL;
	T(Uri) u, d, r; const CH *ep = NULL;
	int rc = F(ParseSingleUriEx)(&u, g_ref, g_ref + g_refn, &ep);
	h = mix(h, (uint64_t)rc);
	if (rc != 0) { h = mix(h, (uint64_t)(ep ? ep - g_ref : -1)); return h; }
	h = mix_uri(h, &u);
	{   /* recomposition */
		int need = 0; if (F(ToStringCharsRequired)(&u, &need) == 0) { CH *buf = malloc((need + 1) * sizeof(CH)); int w = 0;
			if (F(ToString)(buf, &u, need + 1, &w) == 0) h = mix_text(h, buf, buf + need); else (*errors)++; free(buf); } }
	if (g_base_ok) {
		rc = F(AddBaseUri)(&d, &u, &g_base); h = mix(h, (uint64_t)rc);
		/* read-only uses of the shared base itself */
		h = mix(h, F(NormalizeSyntaxMaskRequired)(&g_base));
		h = mix(h, (uint64_t)F(EqualsUri)(&g_base, &g_base));
		{ int need = 0; if (F(ToStringCharsRequired)(&g_base, &need) == 0) h = mix(h, (uint64_t)need); }
		if (rc == 0) {
			h = mix_uri(h, &d);
			h = mix(h, F(NormalizeSyntaxMaskRequired)(&d));
			if (F(NormalizeSyntax)(&d) == 0) h = mix_uri(h, &d); else (*errors)++;
			h = mix(h, (uint64_t)F(EqualsUri)(&d, &g_base));
			rc = F(RemoveBaseUri)(&r, &d, &g_base, URI_FALSE); h = mix(h, (uint64_t)rc);
			if (rc == 0) { h = mix_uri(h, &r); }
			F(FreeUriMembers)(&r);
		}
		F(FreeUriMembers)(&d);
	}
	if (F(MakeOwner)(&u) == 0) h = mix_uri(h, &u); else (*errors)++;
	{   /* shared query list: compose, then dissect privately */
		int need = 0;
		if (g_ql && F(ComposeQueryCharsRequired)(g_ql, &need) == 0) {
			CH *q = malloc((need + 1) * sizeof(CH)); int w = 0;
			if (F(ComposeQuery)(q, g_ql, need + 1, &w) == 0) {
				h = mix_text(h, q, q + w - 1);
				T(QueryList) *ql = NULL; int n = 0;
				if (F(DissectQueryMalloc)(&ql, &n, q, q + w - 1) == 0) { h = mix(h, (uint64_t)n); for (T(QueryList) *p = ql; p; p = p->next) { const CH *e = p->key; while (*e) e++; h = mix_text(h, p->key, e); } F(FreeQueryList)(ql); }
			} else (*errors)++;
			free(q);
		}
	}
	{   /* escaping */
		CH *e = malloc((6 * g_refn + 1) * sizeof(CH)); CH *z = malloc((g_refn + 1) * sizeof(CH));
		memcpy(z, g_ref, g_refn * sizeof(CH)); z[g_refn] = 0;
		CH *end = F(Escape)(z, e, URI_TRUE, URI_TRUE); h = mix_text(h, e, end);
		const CH *ue = F(UnescapeInPlaceEx)(e, URI_TRUE, URI_BR_TO_LF); h = mix_text(h, e, ue);
		free(e); free(z);
	}
	F(FreeUriMembers)(&u);
	return h;
}

typedef struct { uint64_t digest; int errors; } Res;
static void *thread_main(void *arg) {
	Res *r = arg; uint64_t h = 0; r->errors = 0;
	for (int i = 0; i < g_iters; i++) h = mix(h, workload(&r->errors));
	r->digest = h; return NULL;
}

int main(void) {
	char *line = NULL; size_t cap = 0;
	while (getline(&line, &cap, stdin) > 0) {
		char *op = strtok(line, " \n"); char *a1 = strtok(NULL, " \n"), *a2 = strtok(NULL, " \n"), *f1 = strtok(NULL, " \n"), *f2 = strtok(NULL, " \n");
		if (!op || strcmp(op, "thr") || !f2) { puts("?"); continue; }
		int nthr = atoi(a1); g_iters = atoi(a2); if (nthr > 64) nthr = 64;
		size_t n = text_len(f1), bn = text_len(f2);
		size_t tmap, bmap, umap;
		CH *t = page_alloc((n + 1) * sizeof(CH), &tmap), *b = page_alloc((bn + 1) * sizeof(CH), &bmap);
		g_basep = page_alloc(sizeof(T(Uri)), &umap);
		if (!t || !b || !g_basep) { puts("thr !nomem"); continue; }
		text_decode(f1, t); text_decode(f2, b); t[n] = 0; b[bn] = 0;
		g_ref = t; g_refn = n;
		const CH *ep; g_base_ok = (F(ParseSingleUriEx)(&g_base, b, b + bn, &ep) == 0) && g_base.scheme.first;
		/* from here on the shared inputs (reference text, base text, base URI structure) are read-only memory */
		signal(SIGSEGV, on_segv);
		mprotect(t, tmap, PROT_READ); mprotect(b, bmap, PROT_READ); mprotect(g_basep, umap, PROT_READ);
		/* a shared query list built from the base text */
		static CH k1[] = { 'k', ' ', '1', 0 }, v1[] = { 'v', '\n', '&', 0 }, k2[] = { 'e', 0 };
		T(QueryList) q2 = { k2, NULL, NULL }, q1 = { k1, v1, &q2 }; g_ql = &q1;
		Res solo; g_iters = g_iters > 0 ? g_iters : 1; thread_main(&solo);
		pthread_t th[64]; Res res[64];
		for (int i = 0; i < nthr; i++) pthread_create(&th[i], NULL, thread_main, &res[i]);
		int mism = 0, errs = solo.errors;
		for (int i = 0; i < nthr; i++) { pthread_join(th[i], NULL); if (res[i].digest != solo.digest) mism++; errs += res[i].errors; }
		printf("thr digest=%016llx mismatches=%d errors=%d\n", (unsigned long long)solo.digest, mism, errs);
		signal(SIGSEGV, SIG_DFL);
		mprotect(t, tmap, PROT_READ | PROT_WRITE); mprotect(b, bmap, PROT_READ | PROT_WRITE); mprotect(g_basep, umap, PROT_READ | PROT_WRITE);
		if (g_base_ok || 1) F(FreeUriMembers)(&g_base);
		munmap(t, tmap); munmap(b, bmap); munmap(g_basep, umap);
	}
	free(line);
	return 0;
}
