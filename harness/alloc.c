/* C15 correspondence driver: drives the REAL uriCompleteMemoryManager / uriEmulateCalloc /
 * uriEmulateReallocarray (built from /repo's working tree) over a logging, failure-injecting
 * backend that offers only malloc and free.  Same request lines and the same canonical result
 * lines as ocaml/driver_c15.ml (the extracted Model/Memory.v).
 *
 * Requests (one per line, all numbers hexadecimal without prefix):
 *   hist <cap> <failset> <ops>
 *       cap      largest backend request served (clamped to HARD_CAP = 1 MiB: sizes near
 *                SIZE_MAX are never really allocated; the model's backend has the same rule,
 *                Model/Memory.v be_malloc: refuse when the plan says so or when n > cap)
 *       failset  "-" or indices (in backend malloc call order, from 0) of the calls that fail,
 *                joined by '.'
 *       ops      "-" or tokens joined by ',' ; slots 0..5 hold the caller's pointers
 *                  m<slot>:<n>          slot = malloc(n)            (skipped if slot in use)
 *                  c<slot>:<nmemb>:<sz> slot = calloc(nmemb, sz)    (skipped if slot in use)
 *                  r<slot>:<n>          realloc(slot, n)
 *                  a<slot>:<nmemb>:<sz> reallocarray(slot, nmemb, sz)
 *                  f<slot>              free(slot)
 *                  s<slot>:<off>:<len>:<byte>  memset(slot+off, byte, len), clipped to the block
 *                  l<slot>              read the whole block
 *       After realloc/reallocarray: a non-NULL result replaces the slot (size = requested
 *       total); NULL empties the slot iff it held a block and the requested total is 0
 *       without overflow (the documented "equivalent to free"); otherwise the slot is kept.
 *   cmm <memory_null> <backend_null> <has_malloc> <has_free>   -> "cmm <code>"
 *   selftest                                                  -> "selftest <code> live=<n>"
 *
 * Result of hist:  "hist " op results joined by ';' then ";end live=<B..> fault=<0|1> guard=<0|1>"
 *   op result:  <ret>/e<errno>/<backend calls>/<hdr>/<data>     or  "skip"
 *     ret    N | B<k>+<off> | B<k>-<off> | ? | -      (k = k-th block the backend handed out)
 *     errno  value after the call, errno having been set to 0 before it (decimal)
 *     calls  "_" or '.'-joined  m<size>:<B<k>|N>  and  f<ptr>
 *     hdr    the size_t found at the start of the backend block of the result, or "-"
 *     data   run-length encoded bytes of the block [0, requested size) after the call
 *            ("-" none, "_" empty, else  <byte>*<count> joined by '.')
 *
 * The backend does not touch errno, fills fresh memory with 0xA5, surrounds every block with
 * guard bytes (non-ASan build) or allocates it exactly (ASan build, -DDRV_EXACT), refuses and
 * reports frees of anything that is not the start of a live block (fault=1).
 */
#include <stdio.h>
#include <stdlib.h>
#include <string.h>
#include <errno.h>
#include <stdint.h>
#include <uriparser/Uri.h>

#define HARD_CAP ((size_t)1 << 20)
/* "bighist" requests (large blocks; checked by oracles on the implementation only, not sent to the model) raise the clamp */
static size_t hard_cap = HARD_CAP;
#define JUNK 0xA5
#ifdef DRV_EXACT
# define GUARD 0
#else
# define GUARD 32
#endif
#define CANARY 0x5A
#define NSLOT 6

/* ------------------------------------------------------------------ output buffer */
static char *out; static size_t outlen, outcap;
static void put(const char *s) {
	size_t n = strlen(s);
	if (outlen + n + 1 > outcap) { outcap = (outlen + n + 1) * 2; out = realloc(out, outcap); if (!out) abort(); }
	memcpy(out + outlen, s, n + 1); outlen += n;
}
static void putf(const char *fmt, unsigned long long v) { char b[64]; snprintf(b, sizeof b, fmt, v); put(b); }

/* ------------------------------------------------------------------ backend */
typedef struct { unsigned char *real; unsigned char *base; size_t size; int live; } Blk;
static Blk *blk; static size_t nblk, blkcap;
static size_t be_cap, be_calls;
static unsigned char *failset; static size_t failn;
static int fault, guard_bad;
/* log of the backend calls made during the current manager call */
static char belog[4096]; static size_t belen;
static void belog_add(const char *s) {
	size_t n = strlen(s);
	if (belen + n + 2 < sizeof belog) { if (belen) belog[belen++] = '.'; memcpy(belog + belen, s, n + 1); belen += n; }
}

/* which live backend block does q point into (exact start, then inside, then the nearest within 64 bytes) */
static long find_blk(const unsigned char *q) {
	size_t k;
	for (k = nblk; k-- > 0;) if (blk[k].live && q == blk[k].base) return (long)k;
	for (k = nblk; k-- > 0;) if (blk[k].live && q > blk[k].base && q < blk[k].base + blk[k].size) return (long)k;
	long best = -1; size_t bestd = 65;
	for (k = nblk; k-- > 0;) {
		if (!blk[k].live) continue;
		const unsigned char *b = blk[k].base, *e = b + blk[k].size;
		size_t d = q < b ? (size_t)(b - q) : q >= e ? (size_t)(q - e) : 0;
		if (d < bestd) { bestd = d; best = (long)k; }
	}
	return best;
}

static void fmt_ptr(char *dst, size_t dstn, const void *p) {
	if (p == NULL) { snprintf(dst, dstn, "N"); return; }
	const unsigned char *q = p;
	long k = find_blk(q);
	if (k < 0) { snprintf(dst, dstn, "?"); return; }
	const unsigned char *b = blk[k].base;
	if (q >= b) snprintf(dst, dstn, "B%zx+%zx", (size_t)k, (size_t)(q - b));
	else snprintf(dst, dstn, "B%zx-%zx", (size_t)k, (size_t)(b - q));
}

static void check_guard(const Blk *b) {
	for (size_t i = 0; i < GUARD; i++)
		if (b->real[i] != CANARY || b->base[b->size + i] != CANARY) guard_bad = 1;
}

static void * beMalloc(UriMemoryManager * self, size_t size) {
	(void)self;
	char t[96];
	size_t idx = be_calls++;
	int refuse = (idx < failn && failset[idx]) || size > be_cap;
	if (refuse) {
		snprintf(t, sizeof t, "m%zx:N", size); belog_add(t);
		return NULL;   /* errno deliberately untouched */
	}
	int saved = errno;
	unsigned char *real = malloc(size + 2 * GUARD + (size + 2 * GUARD == 0));
	if (!real) abort();
	memset(real, CANARY, GUARD);
	memset(real + GUARD, JUNK, size);
	memset(real + GUARD + size, CANARY, GUARD);
	if (nblk == blkcap) { blkcap = blkcap ? blkcap * 2 : 64; blk = realloc(blk, blkcap * sizeof *blk); if (!blk) abort(); }
	blk[nblk].real = real; blk[nblk].base = real + GUARD; blk[nblk].size = size; blk[nblk].live = 1;
	snprintf(t, sizeof t, "m%zx:B%zx", size, nblk); belog_add(t);
	nblk++;
	errno = saved;
	return real + GUARD;
}

static void beFree(UriMemoryManager * self, void * p) {
	(void)self;
	char t[96], q[64];
	int saved = errno;
	fmt_ptr(q, sizeof q, p);
	snprintf(t, sizeof t, "f%s", q); belog_add(t);
	if (p != NULL) {
		size_t k;
		for (k = 0; k < nblk; k++) if (blk[k].live && blk[k].base == (unsigned char *)p) break;
		if (k == nblk) { fault = 1; }   /* not the start of a live block: do not hand it to free() */
		else { check_guard(&blk[k]); blk[k].live = 0; free(blk[k].real); }
	}
	errno = saved;
}

static void be_reset(void) {
	for (size_t k = 0; k < nblk; k++) if (blk[k].live) { free(blk[k].real); blk[k].live = 0; }
	nblk = 0; be_calls = 0; fault = 0; guard_bad = 0; belen = 0; belog[0] = 0;
}

/* ------------------------------------------------------------------ helpers */
static void put_rle(const unsigned char *p, size_t n) {
	if (n == 0) { put("_"); return; }
	size_t i = 0; int first = 1;
	while (i < n) {
		size_t j = i; while (j < n && p[j] == p[i]) j++;
		if (!first) put(".");
		first = 0;
		putf("%02llx", p[i]); putf("*%llx", j - i);
		i = j;
	}
}

static size_t hexnum(const char **pp) {
	char *e; unsigned long long v = strtoull(*pp, &e, 16); *pp = e; if (*e == ':') (*pp)++;
	return (size_t)v;
}

typedef struct { unsigned char *p; size_t size; } Slot;

/* returns 0 when the result must not be used (it does not fit the backend block it lies in) */
static int put_alloc_result(void *res, int err, size_t total) {
	int usable = 1;
	char q[64];
	fmt_ptr(q, sizeof q, res); put(q);
	putf("/e%llu/", (unsigned long long)err);
	put(belen ? belog : "_");
	put("/");
	if (res) {
		/* header of the backend block that contains the result */
		long k = find_blk(res);
		if (k >= 0 && blk[k].size >= sizeof(size_t)) { size_t h; memcpy(&h, blk[k].base, sizeof h); putf("%llx", h); }
		else put("?");
		put("/");
		/* never read past the backend block the result lies in: "!" = the block is too small */
		if (k >= 0 && (const unsigned char *)res >= blk[k].base
		    && (size_t)((const unsigned char *)res - blk[k].base) <= blk[k].size
		    && total <= blk[k].size - (size_t)((const unsigned char *)res - blk[k].base)) put_rle(res, total);
		else { put("!"); usable = 0; }
	} else put("-/-");
	return usable;
}

static void run_hist(char *capf, char *failf, char *opsf) {
	UriMemoryManager backend, mm;
	Slot slot[NSLOT];
	memset(slot, 0, sizeof slot);
	be_reset();
	be_cap = (size_t)strtoull(capf, NULL, 16);
	if (be_cap > hard_cap) be_cap = hard_cap;
	free(failset); failset = NULL; failn = 0;
	if (failf[0] != '-') {
		const char *p = failf;
		while (*p) {
			char *e; size_t i = (size_t)strtoull(p, &e, 16);
			if (i < 100000) { if (i >= failn) { failset = realloc(failset, i + 1); memset(failset + failn, 0, i + 1 - failn); failn = i + 1; } failset[i] = 1; }
			p = e; if (*p == '.') p++;
		}
	}
	memset(&backend, 0, sizeof backend); memset(&mm, 0, sizeof mm);
	backend.malloc = beMalloc; backend.free = beFree;   /* nothing else */
	put("hist ");
	if (uriCompleteMemoryManager(&mm, &backend) != URI_SUCCESS || !mm.malloc || !mm.calloc || !mm.realloc || !mm.reallocarray || !mm.free) {
		put("!complete-failed"); return;
	}
	int firstop = 1;
	char *tok = (opsf[0] == '-') ? NULL : strtok(opsf, ",");
	for (; tok; tok = strtok(NULL, ",")) {
		if (!firstop) put(";");
		firstop = 0;
		char kind = tok[0];
		const char *p = tok + 1;
		size_t s = hexnum(&p);
		if (s >= NSLOT) { put("skip"); continue; }
		belen = 0; belog[0] = 0;
		switch (kind) {
		case 'm': case 'c': {
			if (slot[s].p) { put("skip"); break; }
			size_t a = hexnum(&p), b = (kind == 'c') ? hexnum(&p) : 0, total;
			void *res; int err;
			errno = 0;
			if (kind == 'm') { res = mm.malloc(&mm, a); total = a; }
			else { res = mm.calloc(&mm, a, b); if (__builtin_mul_overflow(a, b, &total)) total = 0; }
			err = errno;
			if (put_alloc_result(res, err, total) && res) { slot[s].p = res; slot[s].size = total; }
			break; }
		case 'r': case 'a': {
			size_t a = hexnum(&p), b = (kind == 'a') ? hexnum(&p) : 0, total; int ovf = 0;
			void *res; int err;
			errno = 0;
			if (kind == 'r') { res = mm.realloc(&mm, slot[s].p, a); total = a; }
			else { res = mm.reallocarray(&mm, slot[s].p, a, b); ovf = __builtin_mul_overflow(a, b, &total); if (ovf) total = 0; }
			err = errno;
			int usable = put_alloc_result(res, err, total);
			if (res && !usable) { slot[s].p = NULL; slot[s].size = 0; }
			else if (res) { slot[s].p = res; slot[s].size = total; }
			else if (slot[s].p && !ovf && total == 0) { slot[s].p = NULL; slot[s].size = 0; }
			break; }
		case 'f': {
			errno = 0;
			mm.free(&mm, slot[s].p);
			int err = errno;
			put("-"); putf("/e%llu/", (unsigned long long)err); put(belen ? belog : "_"); put("/-/-");
			slot[s].p = NULL; slot[s].size = 0;
			break; }
		case 's': {
			size_t off = hexnum(&p), len = hexnum(&p), byte = hexnum(&p);
			if (!slot[s].p) { put("skip"); break; }
			if (off > slot[s].size) off = slot[s].size;
			if (len > slot[s].size - off) len = slot[s].size - off;
			memset(slot[s].p + off, (int)(byte & 0xff), len);
			put("-/e0/_/-/-");
			break; }
		case 'l': {
			if (!slot[s].p) { put("skip"); break; }
			put("-/e0/_/-/"); put_rle(slot[s].p, slot[s].size);
			break; }
		default: put("skip");
		}
	}
	if (!firstop) put(";");
	put("end live=");
	int any = 0;
	for (size_t k = 0; k < nblk; k++) if (blk[k].live) { check_guard(&blk[k]); if (any) put("."); any = 1; putf("B%llx", k); }
	if (!any) put("_");
	putf(" fault=%llu", (unsigned long long)fault);
	putf(" guard=%llu", (unsigned long long)!guard_bad);
	be_reset();
}

/* ------------------------------------------------------------------ lazy backend for "huge" */
static void *huge_p[64]; static int huge_n, huge_bad;
static void *hugeMalloc(UriMemoryManager *m, size_t n) { (void)m; void *p = malloc(n); if (p && huge_n < 64) huge_p[huge_n++] = p; return p; }
static void hugeFree(UriMemoryManager *m, void *p) {
	(void)m;
	for (int i = 0; i < huge_n; i++) if (huge_p[i] == p && p) { huge_p[i] = NULL; free(p); return; }
	huge_bad++;
}

int main(void) {
	char *line = NULL; size_t cap = 0; ssize_t n;
	while ((n = getline(&line, &cap, stdin)) > 0) {
		char *f[8]; int nf = 0;
		char *p = line;
		while (*p && nf < 8) {
			while (*p == ' ') p++;
			if (!*p || *p == '\n') break;
			f[nf++] = p;
			while (*p && *p != ' ' && *p != '\n') p++;
			if (*p) { *p = 0; p++; }
		}
		outlen = 0; if (out) out[0] = 0;
		if (nf == 0) { puts(""); continue; }
		if (!strcmp(f[0], "hist") && nf == 4) { hard_cap = HARD_CAP; run_hist(f[1], f[2], f[3]); }
		else if (!strcmp(f[0], "bighist") && nf == 4) { hard_cap = (size_t)8 << 20; run_hist(f[1], f[2], f[3]); hard_cap = HARD_CAP; }
		else if (!strcmp(f[0], "cmm") && nf == 5) {
			UriMemoryManager backend, mm;
			memset(&backend, 0, sizeof backend); memset(&mm, 0, sizeof mm);
			if (f[3][0] != '0') backend.malloc = beMalloc;
			if (f[4][0] != '0') backend.free = beFree;
			int rc = uriCompleteMemoryManager(f[1][0] != '0' ? NULL : &mm, f[2][0] != '0' ? NULL : &backend);
			put("cmm "); putf("%llu", (unsigned long long)rc);
		}
		else if (!strcmp(f[0], "selftest")) {
			UriMemoryManager backend, mm;
			memset(&backend, 0, sizeof backend); memset(&mm, 0, sizeof mm);
			be_reset(); be_cap = HARD_CAP; failn = 0;
			backend.malloc = beMalloc; backend.free = beFree;
			int rc = uriCompleteMemoryManager(&mm, &backend);
			if (rc == 0) rc = uriTestMemoryManager(&mm);
			size_t live = 0; for (size_t k = 0; k < nblk; k++) live += blk[k].live;
			put("selftest "); putf("%llu", (unsigned long long)rc); putf(" live=%llu", live);
			putf(" fault=%llu", (unsigned long long)fault);
			be_reset();
		}
		else if (!strcmp(f[0], "huge")) {
			/* blocks of 4 GiB and more (sizes that do not fit 32 bits) through a manager completed from a lazy backend: the C
			 * library's malloc without any filling, so that only the pages written here are ever touched */
			UriMemoryManager backend, mm;
			memset(&backend, 0, sizeof backend); memset(&mm, 0, sizeof mm);
			backend.malloc = hugeMalloc; backend.free = hugeFree; huge_n = 0; huge_bad = 0;
			const char *verdict = "ok";
			if (uriCompleteMemoryManager(&mm, &backend) != URI_SUCCESS) verdict = "FAIL:complete";
			else {
				static const size_t sizes[] = { ((size_t)1 << 32) + 8, (size_t)1 << 32, ((size_t)1 << 32) - 8, ((size_t)1 << 33) + 24, ((size_t)1 << 32) + 4096 };
				for (size_t si = 0; si < sizeof sizes / sizeof sizes[0] && !strcmp(verdict, "ok"); si++) {
					size_t S = sizes[si];
					unsigned char *p = mm.malloc(&mm, S);
					if (!p) { verdict = "nomem"; break; }
					for (size_t i = 0; i < 64; i++) { p[i] = (unsigned char)(i * 7 + 1 + si); p[S - 64 + i] = (unsigned char)(i * 5 + 3); }
					/* full-size usability was just exercised at both ends; shrink: the common prefix (64 bytes) must survive */
					unsigned char *q = mm.realloc(&mm, p, 64);
					if (!q) { verdict = "FAIL:shrink-refused"; mm.free(&mm, p); break; }
					for (size_t i = 0; i < 64; i++) if (q[i] != (unsigned char)(i * 7 + 1 + si)) { verdict = "FAIL:prefix-lost-on-shrink"; break; }
					/* grow back beyond 32 bits: again the common prefix, and the far end must be usable */
					unsigned char *r = mm.reallocarray(&mm, q, S / 8, 8);
					if (!r) { mm.free(&mm, q); if (!strcmp(verdict, "ok")) verdict = "nomem"; break; }
					for (size_t i = 0; i < 64; i++) if (r[i] != (unsigned char)(i * 7 + 1 + si)) { verdict = "FAIL:prefix-lost-on-growth"; break; }
					r[S / 8 * 8 - 1] = 0x77;
					/* a second block of the same kind next to it, then grow the first by a little: a move copies 4 GiB only if the
					 * recorded size is right; skipped (cost); release */
					mm.free(&mm, r);
				}
				if (!strcmp(verdict, "ok") && huge_bad) verdict = "FAIL:backend-got-a-foreign-or-repeated-pointer";
				for (int i = 0; i < huge_n; i++) if (huge_p[i] && !strcmp(verdict, "ok")) verdict = "FAIL:backend-block-outstanding";
			}
			put("huge "); put(verdict);
		}
		else put("?unknown-op");
		puts(out ? out : "");
		fflush(stdout);
	}
	free(line);
	return 0;
}
