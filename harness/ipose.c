/* C13 runtime part: does any allocation bypass the supplied memory manager?
 *
 * This driver defines malloc/calloc/realloc/reallocarray/free itself (ELF interposition: calls made by
 * the uriparser objects linked into this executable resolve to these definitions), forwards to the C
 * library and counts the calls made while a library call with a CUSTOM manager is in progress.  The
 * custom manager serves requests from a private pool (never from the C library), records every block
 * and checks that each release names a live block with exactly the pointer that was handed out.
 *
 * One request per line:
 *   run <text> [<text2>]   the battery of manager-taking calls on the given URI text (and base text2)
 * -> run libc=<C library allocator calls seen during custom-manager calls> live=<pool blocks outstanding>
 *        bad=<bad frees> incomplete=<calls with a manager lacking one member that did NOT return code 10, or that allocated>
 *        default=<C library calls seen while the same battery ran with the NULL manager (sanity: > 0)>
 * Compiled for char (default) or wchar_t (-DDRV_WIDE). */
#define _GNU_SOURCE
#include <stdio.h>
#include <stdlib.h>
#include <string.h>
#include <wchar.h>
#include <dlfcn.h>
#include <stdint.h>
#include <errno.h>
#include <uriparser/Uri.h>

#ifdef DRV_WIDE
typedef wchar_t CH;
# define F(x) uri##x##W
# define T(x) Uri##x##W
#else
typedef char CH;
# define F(x) uri##x##A
# define T(x) Uri##x##A
#endif

/* ---------------------------------------------------------------- interposed C library allocator */
static void *(*real_malloc)(size_t), *(*real_calloc)(size_t, size_t), *(*real_realloc)(void *, size_t);
static void (*real_free)(void *);
static volatile int watching = 0;
static long libc_calls = 0;
static char boot[1 << 16]; static size_t boot_used = 0;   /* served while dlsym bootstraps */
static int resolving = 0;
static void resolve(void) {
	if (real_malloc || resolving) return;
	resolving = 1;
	real_malloc = dlsym(RTLD_NEXT, "malloc"); real_calloc = dlsym(RTLD_NEXT, "calloc");
	real_realloc = dlsym(RTLD_NEXT, "realloc"); real_free = dlsym(RTLD_NEXT, "free");
	resolving = 0;
}
static void *boot_alloc(size_t n) { size_t a = (boot_used + 15) & ~(size_t)15; if (a + n > sizeof boot) return NULL; boot_used = a + n; return boot + a; }
static int in_boot(void *p) { return (char *)p >= boot && (char *)p < boot + sizeof boot; }
void *malloc(size_t n) { if (watching) libc_calls++; resolve(); if (!real_malloc) return boot_alloc(n); return real_malloc(n); }
void *calloc(size_t a, size_t b) { if (watching) libc_calls++; resolve(); if (!real_calloc) { void *p = boot_alloc(a * b); if (p) memset(p, 0, a * b); return p; } return real_calloc(a, b); }
void *realloc(void *p, size_t n) { if (watching) libc_calls++; resolve(); if (in_boot(p)) { void *q = malloc(n); if (q) memcpy(q, p, n); return q; } return real_realloc(p, n); }
void *reallocarray(void *p, size_t a, size_t b) { if (b && a > (size_t)-1 / b) { errno = ENOMEM; return NULL; } return realloc(p, a * b); }
void free(void *p) { if (watching && p) libc_calls++; if (!p || in_boot(p)) return; resolve(); real_free(p); }

/* ---------------------------------------------------------------- pool manager */
#define POOL (1 << 22)
static char pool[POOL]; static size_t pool_used = 0;
#define MAXB 8192
static struct { void *p; size_t n; int live; } blk[MAXB]; static int nblk = 0;
static int bad = 0;
static void *pm_malloc(UriMemoryManager *m, size_t n) {
	(void)m; size_t a = (pool_used + 15) & ~(size_t)15;
	if (a + n > POOL || nblk >= MAXB) return NULL;
	pool_used = a + (n ? n : 1); blk[nblk].p = pool + a; blk[nblk].n = n; blk[nblk].live = 1; nblk++;
	return pool + a;
}
static void *pm_calloc(UriMemoryManager *m, size_t a, size_t b) { void *p = pm_malloc(m, a * b); if (p) memset(p, 0, a * b); return p; }
static void pm_free(UriMemoryManager *m, void *p) {
	(void)m; if (!p) return;
	for (int i = nblk - 1; i >= 0; i--) if (blk[i].p == p) { if (blk[i].live) { blk[i].live = 0; return; } break; }
	bad++;   /* not a pointer we handed out, or released twice */
}
static void *pm_realloc(UriMemoryManager *m, void *p, size_t n) {
	if (!p) return pm_malloc(m, n);
	for (int i = nblk - 1; i >= 0; i--) if (blk[i].p == p && blk[i].live) { void *q = pm_malloc(m, n); if (q) { memcpy(q, p, blk[i].n < n ? blk[i].n : n); blk[i].live = 0; } return q; }
	bad++; return NULL;
}
static void *pm_reallocarray(UriMemoryManager *m, void *p, size_t a, size_t b) { if (b && a > (size_t)-1 / b) { errno = ENOMEM; return NULL; } return pm_realloc(m, p, a * b); }
static int pool_live(void) { int c = 0; for (int i = 0; i < nblk; i++) c += blk[i].live; return c; }
static void pool_reset(void) { pool_used = 0; nblk = 0; bad = 0; }
static UriMemoryManager pm = { pm_malloc, pm_calloc, pm_realloc, pm_reallocarray, pm_free, NULL };

/* ---------------------------------------------------------------- the battery */
static size_t text_len(const char *f) { if (f[0] == '-' || f[0] == '_') return 0; size_t n = 1; for (const char *p = f; *p; p++) if (*p == '.') n++; return n; }
static void text_decode(const char *f, CH *dst) { if (f[0] == '-' || f[0] == '_') return; const char *p = f; size_t i = 0; while (*p) { dst[i++] = (CH)strtoul(p, (char **)&p, 16); if (*p == '.') p++; } }

static int battery(UriMemoryManager *m, const CH *t, size_t n, const CH *b, size_t bn, int *codes, int ncodes) {
	/* every call that takes a memory manager; returns the number of calls made; codes[] gets the return codes */
	int k = 0; T(Uri) u, base, dest; const CH *ep;
	memset(&u, 0, sizeof u); memset(&base, 0, sizeof base); memset(&dest, 0, sizeof dest);
	int rc = F(ParseSingleUriExMm)(&u, t, t + n, &ep, m); if (k < ncodes) codes[k++] = rc;
	int rcb = F(ParseSingleUriExMm)(&base, b, b + bn, &ep, m); if (k < ncodes) codes[k++] = rcb;
	if (rc == 0 && rcb == 0) {
		int r = F(AddBaseUriExMm)(&dest, &u, &base, URI_RESOLVE_STRICTLY, m); if (k < ncodes) codes[k++] = r;
		if (r == 0) { r = F(NormalizeSyntaxExMm)(&dest, (unsigned)-1, m); if (k < ncodes) codes[k++] = r; }
		F(FreeUriMembersMm)(&dest, m);
		memset(&dest, 0, sizeof dest);
		r = F(RemoveBaseUriMm)(&dest, &u, &base, URI_FALSE, m); if (k < ncodes) codes[k++] = r;
		if (r == 0) { r = F(MakeOwnerMm)(&dest, m); if (k < ncodes) codes[k++] = r; }
		F(FreeUriMembersMm)(&dest, m); F(FreeUriMembersMm)(&dest, m);
	}
	if (rc == 0) {
		int r = F(NormalizeSyntaxExMm)(&u, 8u | 1u, m); if (k < ncodes) codes[k++] = r;
		r = F(MakeOwnerMm)(&u, m); if (k < ncodes) codes[k++] = r;
		if (u.query.first) {
			T(QueryList) *ql = NULL; int cnt = 0;
			r = F(DissectQueryMallocExMm)(&ql, &cnt, u.query.first, u.query.afterLast, URI_TRUE, URI_BR_DONT_TOUCH, m); if (k < ncodes) codes[k++] = r;
			if (r == 0 && ql) {
				CH *qs = NULL;
				r = F(ComposeQueryMallocExMm)(&qs, ql, URI_TRUE, URI_TRUE, m); if (k < ncodes) codes[k++] = r;
				if (r == 0 && qs) m ? m->free(m, qs) : free(qs);
			}
			F(FreeQueryListMm)(ql, m);
		}
	}
	F(FreeUriMembersMm)(&u, m); F(FreeUriMembersMm)(&u, m);
	F(FreeUriMembersMm)(&base, m);
	return k;
}

int main(void) {
	char *line = NULL; size_t cap = 0;
	while (getline(&line, &cap, stdin) > 0) {
		char *op = strtok(line, " \n"); char *f1 = strtok(NULL, " \n"); char *f2 = strtok(NULL, " \n");
		if (!op || strcmp(op, "run") || !f1) { puts("?"); continue; }
		if (!f2) f2 = "73.3a.2f.2f.68.2f.61.2f.62.3f.71";   /* s://h/a/b?q */
		size_t n = text_len(f1), bn = text_len(f2);
		CH *t = malloc((n + 1) * sizeof(CH)), *b = malloc((bn + 1) * sizeof(CH));
		text_decode(f1, t); text_decode(f2, b);
		int codes[32];
		/* (1) custom manager: the C library allocator must stay silent */
		pool_reset(); libc_calls = 0; watching = 1;
		battery(&pm, t, n, b, bn, codes, 32);
		watching = 0;
		long libc_custom = libc_calls; int live = pool_live(), badf = bad;
		/* (1b) the same battery through a manager COMPLETED from a backend that has only malloc and free
		 * (uriCompleteMemoryManager): the backend, too, must see only its own pointers, each exactly once */
		{
			UriMemoryManager be = { pm_malloc, NULL, NULL, NULL, pm_free, NULL }, cm;
			memset(&cm, 0, sizeof cm);
			if (uriCompleteMemoryManager(&cm, &be) == URI_SUCCESS) {
				pool_reset(); libc_calls = 0; watching = 1;
				battery(&cm, t, n, b, bn, codes, 32);
				watching = 0;
				libc_custom += libc_calls; live += pool_live(); badf += bad;
			} else badf += 1000;
		}
		/* (2) each incomplete manager: code 10 from the first call on, nothing allocated */
		int incomplete_bad = 0;
		for (int miss = 0; miss < 5; miss++) {
			UriMemoryManager im = pm;
			if (miss == 0) im.malloc = NULL; else if (miss == 1) im.calloc = NULL; else if (miss == 2) im.realloc = NULL;
			else if (miss == 3) im.reallocarray = NULL; else im.free = NULL;
			pool_reset(); libc_calls = 0; watching = 1;
			T(Uri) u; const CH *ep; memset(&u, 0, sizeof u);
			int rcs[9]; int k = 0;
			rcs[k++] = F(ParseSingleUriExMm)(&u, t, t + n, &ep, &im);
			rcs[k++] = F(FreeUriMembersMm)(&u, &im);
			rcs[k++] = F(AddBaseUriExMm)(&u, &u, &u, URI_RESOLVE_STRICTLY, &im);
			rcs[k++] = F(RemoveBaseUriMm)(&u, &u, &u, URI_FALSE, &im);
			rcs[k++] = F(NormalizeSyntaxExMm)(&u, 63, &im);
			rcs[k++] = F(MakeOwnerMm)(&u, &im);
			{ T(QueryList) *ql = NULL; int cnt; rcs[k++] = F(DissectQueryMallocExMm)(&ql, &cnt, t, t + n, URI_TRUE, URI_BR_DONT_TOUCH, &im); }
			{ CH *qs = NULL; T(QueryList) q1; q1.key = t; q1.value = NULL; q1.next = NULL; t[n] = 0; rcs[k++] = F(ComposeQueryMallocExMm)(&qs, &q1, URI_TRUE, URI_TRUE, &im); }
			rcs[k++] = F(FreeQueryListMm)(NULL, &im);
			watching = 0;
			for (int i = 0; i < k; i++) if (rcs[i] != URI_ERROR_MEMORY_MANAGER_INCOMPLETE) incomplete_bad++;
			if (nblk != 0 || libc_calls != 0) incomplete_bad += 100;
			/* the same on an object that is already owner (made so with the complete manager): the rejection must not depend on
			 * what the object looks like, and nothing may be requested or released */
			pool_reset(); libc_calls = 0;
			T(Uri) ou, od; memset(&ou, 0, sizeof ou); memset(&od, 0, sizeof od);
			if (F(ParseSingleUriExMm)(&ou, t, t + n, &ep, &pm) == 0 && F(MakeOwnerMm)(&ou, &pm) == 0) {
				int nb0 = nblk, live0 = pool_live(), bad0 = bad, k2 = 0; int r2[8];
				watching = 1;
				r2[k2++] = F(MakeOwnerMm)(&ou, &im);
				r2[k2++] = F(NormalizeSyntaxExMm)(&ou, 63, &im);
				r2[k2++] = F(NormalizeSyntaxExMm)(&ou, 8, &im);
				r2[k2++] = F(AddBaseUriExMm)(&od, &ou, &ou, URI_RESOLVE_STRICTLY, &im);
				r2[k2++] = F(RemoveBaseUriMm)(&od, &ou, &ou, URI_TRUE, &im);
				r2[k2++] = F(FreeUriMembersMm)(&ou, &im);
				watching = 0;
				for (int i = 0; i < k2; i++) if (r2[i] != URI_ERROR_MEMORY_MANAGER_INCOMPLETE) incomplete_bad++;
				if (nblk != nb0 || pool_live() != live0 || bad != bad0 || libc_calls != 0) incomplete_bad += 100;
			}
			F(FreeUriMembersMm)(&ou, &pm);
		}
		/* (3) NULL manager: the default manager uses the C library allocator */
		libc_calls = 0; watching = 1;
		battery(NULL, t, n, b, bn, codes, 32);
		watching = 0;
		printf("run libc=%ld live=%d bad=%d incomplete=%d default=%ld\n", libc_custom, live, badf, incomplete_bad, libc_calls);
		free(t); free(b);
	}
	free(line);
	return 0;
}
